import Pymeeus.Gen.R.AngleR
import Mathlib.Tactic.NormNum
import Mathlib.Tactic.Linarith
import Mathlib.Tactic.Ring
/-
The reduction lemmas of Refine/Angle.lean over the reals (same proofs, `Pymeeus.GenR`), for the
theorems about the radians input and `rad()`.
-/
namespace Pymeeus.RefineR
open Pymeeus Pymeeus.PR Pymeeus.GenR

theorem pabs_eq (x : ℝ) : pabs x = |x| := rfl

theorem pmod_one (x : ℝ) : pmod x 1 = Int.fract x := by
  unfold pmod
  rw [div_one, one_mul]; rfl

theorem ptrunc_nonneg {x : ℝ} (h : 0 ≤ x) : ptrunc x = ⌊x⌋ := by
  unfold ptrunc
  rw [if_pos h]

theorem pmod_pos {x y : ℝ} (hy : 0 < y) :
    0 ≤ pmod x y ∧ pmod x y < y ∧ x = pmod x y + y * (⌊x / y⌋ : ℤ) := by
  unfold pmod
  have h1 := Int.floor_le (x / y)
  have h2 := Int.lt_floor_add_one (x / y)
  rw [le_div_iff₀ hy] at h1
  rw [div_lt_iff₀ hy] at h2
  refine ⟨by nlinarith, by nlinarith, by ring⟩

theorem imod_pos (a b : ℤ) (hb : 0 ≤ b) : imod a b = a % b := by
  unfold imod; exact Int.fmod_eq_emod_of_nonneg _ hb


/-! ### reduce_deg -/

theorem ple_iff (a b : ℝ) : (ple a b = true) ↔ a ≤ b := by simp [ple]
theorem plt_iff (a b : ℝ) : (plt a b = true) ↔ a < b := by simp [plt]
theorem peq_iff (a b : ℝ) : (peq a b = true) ↔ a = b := by simp [peq]

theorem reduce_deg_of_lt {x : ℝ} (h : |x| < 360) : reduce_deg x = x := by
  unfold reduce_deg
  have h' : ¬ (ple (360.0 : ℝ) (pabs x) = true) := by rw [ple_iff, pabs_eq]; norm_num; exact h
  rw [if_neg h']

/-- The non-negative remainder `reduce_deg` keeps of a magnitude `a`. -/
noncomputable def turnRem (a : ℝ) : ℝ := ((⌊a⌋ % 360 : ℤ) : ℝ) + Int.fract a

theorem turnRem_spec (a : ℝ) : 0 ≤ turnRem a ∧ turnRem a < 360 ∧ a = turnRem a + 360 * ((⌊a⌋ / 360 : ℤ) : ℝ) := by
  unfold turnRem
  set n := ⌊a⌋ with hn
  have hf0 := Int.fract_nonneg a
  have hf1 := Int.fract_lt_one a
  have hsum : ((n : ℝ)) + Int.fract a = a := Int.floor_add_fract a
  have hr0 : 0 ≤ n % 360 := Int.emod_nonneg _ (by norm_num)
  have hr1 : n % 360 < 360 := Int.emod_lt_of_pos _ (by norm_num)
  have hdiv : n = 360 * (n / 360) + n % 360 := (Int.mul_ediv_add_emod n 360).symm
  have hr0q : (0 : ℝ) ≤ ((n % 360 : ℤ) : ℝ) := by exact_mod_cast hr0
  have hr1q : ((n % 360 : ℤ) : ℝ) ≤ 359 := by exact_mod_cast (by omega : n % 360 ≤ 359)
  have hdivq : (n : ℝ) = 360 * ((n / 360 : ℤ) : ℝ) + ((n % 360 : ℤ) : ℝ) := by exact_mod_cast hdiv
  refine ⟨by linarith, by linarith, by linarith⟩

/-- Outside (-360, 360): sign times (integer part mod 360 plus fractional part). -/
theorem reduce_deg_of_ge {x : ℝ} (h : 360 ≤ |x|) :
    reduce_deg x = (if 0 ≤ x then (1 : ℝ) else -1) * turnRem |x| := by
  unfold reduce_deg turnRem
  have h' : (ple (360.0 : ℝ) (pabs x) = true) := by rw [ple_iff, pabs_eq]; norm_num; exact h
  rw [if_pos h']
  simp only [pmod_one, pabs_eq, ptrunc_nonneg (abs_nonneg x), imod_pos _ 360 (by norm_num), ofInt]
  by_cases hx : 0 ≤ x
  · have : ple 0 x = true := by rw [ple_iff]; exact hx
    simp only [this, hx, if_true]; norm_num
  · have : ¬ (ple 0 x = true) := by rw [ple_iff]; exact hx
    simp only [this, hx, if_false]; norm_num

/-- The whole content of C03.reduce in one statement. -/
theorem reduce_deg_spec (x : ℝ) :
    |reduce_deg x| < 360 ∧ (∃ k : ℤ, x = reduce_deg x + 360 * k) ∧
    (0 ≤ x → 0 ≤ reduce_deg x) ∧ (x ≤ 0 → reduce_deg x ≤ 0) ∧ (|x| < 360 → reduce_deg x = x) := by
  by_cases h : |x| < 360
  · rw [reduce_deg_of_lt h]
    exact ⟨h, ⟨0, by simp⟩, fun h => h, fun h => h, fun _ => rfl⟩
  · have hge : 360 ≤ |x| := not_lt.mp h
    rw [reduce_deg_of_ge hge]
    obtain ⟨h0, h1, h2⟩ := turnRem_spec |x|
    by_cases hx : 0 ≤ x
    · simp only [hx, if_true, one_mul]
      have hax : |x| = x := abs_of_nonneg hx
      refine ⟨?_, ⟨⌊|x|⌋ / 360, ?_⟩, fun _ => h0, fun hx0 => ?_, fun h' => absurd h' h⟩
      · rw [abs_of_nonneg h0]; exact h1
      · linarith
      · have : |x| = 0 := by rw [hax]; linarith
        rw [this] at hge; norm_num at hge
    · simp only [hx, if_false]
      have hax : |x| = -x := abs_of_neg (not_le.mp hx)
      refine ⟨?_, ⟨-(⌊|x|⌋ / 360), ?_⟩, fun hx0 => hx0.elim, fun _ => by linarith, fun h' => absurd h' h⟩
      · rw [abs_of_nonpos (by linarith)]; linarith
      · push_cast; linarith


end Pymeeus.RefineR
