import Pymeeus.Refine.EpochCal
/-
Closed form of `mean_sidereal_time` on the exact model.
-/
namespace Pymeeus.Refine
open Pymeeus Pymeeus.PQ Pymeeus.GenQ

/-- 0h UT of the day containing `j`: the `jd0` of the code -/
def ut0 (j : ℚ) : ℚ := (⌊j - 1 / 2⌋ : ℚ) + 1 / 2

/-- sidereal time at 0h UT (fraction of a day, not reduced): `theta0` of the code -/
def theta0 (jd0 : ℚ) : ℚ :=
  let t : ℚ := (jd0 - 2451545.0) / 36525.0
  6.0 / 24.0 + 41.0 / 1440.0 + 50.54841 / 86400.0 +
    (pmod (t * (8640184.812866 + t * (0.093104 - 0.0000062 * t))) 86400.0) / 86400.0

theorem jd0_eq (j : ℚ) :
    (if ple 0.5 (pmod j 1.0) then ofInt (pfloor j) + 0.5 else ofInt (pfloor j) - 0.5) = ut0 j := by
  unfold ut0
  rw [pmod_one, pfloor_eq_floor]
  unfold ple ofInt
  have hfr := Int.fract_nonneg j
  have hfr1 := Int.fract_lt_one j
  have hj : j = (⌊j⌋ : ℚ) + Int.fract j := (Int.floor_add_fract j).symm
  by_cases h : (0.5 : ℚ) ≤ Int.fract j
  · have hfl : ⌊j - 1 / 2⌋ = ⌊j⌋ := by
      rw [Int.floor_eq_iff]; norm_num at h; constructor <;> linarith
    simp only [h, decide_true, if_true, hfl]; norm_num
  · have hfl : ⌊j - 1 / 2⌋ = ⌊j⌋ - 1 := by
      rw [Int.floor_eq_iff]; norm_num at h; push_cast; constructor <;> linarith
    simp only [h, decide_false, Bool.false_eq_true, if_false, hfl]; push_cast; norm_num; ring

theorem mean_sidereal_time_eq (j : ℚ) :
    mean_sidereal_time j =
      if |j - ut0 j| < 1e-10 then Int.fract (theta0 (ut0 j))
      else Int.fract (theta0 (ut0 j) + (j - ut0 j) * 1.00273790935) := by
  unfold mean_sidereal_time
  simp only [jd0_eq]
  simp only [pmod_one]
  unfold plt pabs theta0
  have habs : (if j - ut0 j < 0 then -(j - ut0 j) else j - ut0 j) = |j - ut0 j| := by
    split_ifs with h
    · rw [abs_of_neg h]
    · rw [abs_of_nonneg (not_lt.mp h)]
  simp only [habs, decide_eq_true_eq]

theorem ut0_le (j : ℚ) : ut0 j ≤ j ∧ j < ut0 j + 1 := by
  unfold ut0
  have h1 := Int.floor_le (j - 1 / 2)
  have h2 := Int.lt_floor_add_one (j - 1 / 2)
  constructor <;> linarith

theorem pmod_nonneg (x y : ℚ) (hy : 0 < y) : 0 ≤ pmod x y := by
  unfold pmod
  rw [rat_floor_eq_floor]
  have h := Int.floor_le (x / y)
  have : (⌊x / y⌋ : ℚ) * y ≤ x := by rwa [le_div_iff₀ hy] at h
  linarith

/-- the operand of the final `% 1` of `mean_sidereal_time` is at least 0.27 (never a tiny negative number) -/
theorem theta0_ge (jd0 : ℚ) : (0.27 : ℚ) ≤ theta0 jd0 := by
  unfold theta0
  have h := pmod_nonneg ((jd0 - 2451545.0) / 36525.0 * (8640184.812866 + (jd0 - 2451545.0) / 36525.0 * (0.093104 - 0.0000062 * ((jd0 - 2451545.0) / 36525.0)))) 86400.0 (by norm_num)
  have h2 : 0 ≤ pmod ((jd0 - 2451545.0) / 36525.0 * (8640184.812866 + (jd0 - 2451545.0) / 36525.0 * (0.093104 - 0.0000062 * ((jd0 - 2451545.0) / 36525.0)))) 86400.0 / 86400.0 :=
    div_nonneg h (by norm_num)
  simp only
  norm_num at h2 ⊢
  linarith


end Pymeeus.Refine
