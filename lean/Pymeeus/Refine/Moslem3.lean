import Pymeeus.Refine.Moslem2
/-
Civil <-> Moslem: `gregorian2moslem` agrees with the tabular Islamic calendar on every civil date
from 16 July 622 on (no upper bound), the tabular day number is injective on Islamic dates, and the
two round trips.
-/
namespace Pymeeus.Refine
open Pymeeus Pymeeus.PQ Pymeeus.GenQ Pymeeus.Spec

theorem islStart_mono (h h' : Int) (hlt : h + 1 ≤ h') : islStart (h + 1) ≤ islStart h' := by
  unfold islStart; omega

theorem isl_doy_range (h m d : Int) (hv : Islamic.Valid h m d) :
    1 ≤ (59 * (m - 1) + 1) / 2 + d ∧ (59 * (m - 1) + 1) / 2 + d ≤ g2m_ylen h := by
  obtain ⟨hh, hm1, hm12, hd1, hdl⟩ := hv
  have := ylen_range h
  unfold Islamic.monthLen at hdl
  split_ifs at hdl with hc
  · rcases hc with c | ⟨c, l⟩
    · omega
    · have := (isl_leap_iff h).1 l
      omega
  · omega

theorem isl_jdn_eq (h m d : Int) : Islamic.jdn h m d = islStart h + ((59 * (m - 1) + 1) / 2 + d) + 1948439 := by
  unfold Islamic.jdn islStart; ring

theorem isl_md_inj (h m d m' d' : Int) (hv : Islamic.Valid h m d) (hv' : Islamic.Valid h m' d')
    (e : (59 * (m - 1) + 1) / 2 + d = (59 * (m' - 1) + 1) / 2 + d') : m = m' ∧ d = d' := by
  obtain ⟨_, hm1, hm12, hd1, hdl⟩ := hv
  obtain ⟨_, hm1', hm12', hd1', hdl'⟩ := hv'
  have b : d ≤ 30 ∧ (m % 2 = 0 → m < 12 → d ≤ 29) := by
    unfold Islamic.monthLen at hdl; split_ifs at hdl <;> omega
  have b' : d' ≤ 30 ∧ (m' % 2 = 0 → m' < 12 → d' ≤ 29) := by
    unfold Islamic.monthLen at hdl'; split_ifs at hdl' <;> omega
  have : m = m' := by
    rcases lt_trichotomy m m' with h1 | h1 | h1
    · exfalso; omega
    · exact h1
    · exfalso; omega
  subst this
  exact ⟨rfl, by omega⟩

theorem isl_jdn_inj (h m d h' m' d' : Int) (hv : Islamic.Valid h m d) (hv' : Islamic.Valid h' m' d')
    (e : Islamic.jdn h m d = Islamic.jdn h' m' d') : h = h' ∧ m = m' ∧ d = d' := by
  rw [isl_jdn_eq, isl_jdn_eq] at e
  obtain ⟨a1, a2⟩ := isl_doy_range h m d hv
  obtain ⟨b1, b2⟩ := isl_doy_range h' m' d' hv'
  rw [ylen_start] at a2 b2
  have : h = h' := by
    rcases lt_trichotomy h h' with h1 | h1 | h1
    · have := islStart_mono h h' (by omega); exfalso; omega
    · exact h1
    · have := islStart_mono h' h (by omega); exfalso; omega
  subst this
  exact ⟨rfl, isl_md_inj h m d m' d' hv hv' (by omega)⟩

/-- `gregorian2moslem` of a civil date on or after 16 July 622 is the date of the tabular Islamic
    calendar with the same day number; in particular both loops finish within the fuel. -/
theorem g2m_correct (y m d : Int) (hv : Valid y m d) (hN : 1948440 ≤ jdnI y m d) :
    ∃ h' m' d', gregorian2moslem y m d = .ok (h', m', d') ∧ Islamic.Valid h' m' d' ∧
      Islamic.jdn h' m' d' = jdnI y m d := by
  obtain ⟨hy, hm1, hm12, hd1, hdl, _⟩ := hv
  have hd31 : d ≤ 31 := by unfold monthLen at hdl; split_ifs at hdl <;> omega
  have hval : ¬ (d < 1 ∨ d > 31 ∨ m < 1 ∨ m > 12 ∨ y < -4712) := by omega
  rw [gregorian2moslem_int]
  simp only [hval, if_false]
  have hhead : g2mHeadI y m d = (g2mH (jdnI y m d), g2mJJ (jdnI y m d)) := by
    unfold g2mHeadI; rw [g2mDayNumber_eq y m d hm1 hm12, g2mFromInv_eq]
  rw [hhead]
  obtain ⟨hs, hj1, hj2⟩ := g2mFromInv_spec (jdnI y m d)
  obtain ⟨h', jj', ⟨s1, e1, e2⟩, k1, k2, k3⟩ := loops_spec _ _ hj1 hj2
  dsimp only
  rw [e1]; dsimp only; rw [e2]; dsimp only
  have hh' : 1 ≤ h' := by
    rw [ylen_start] at k2
    have : 1 ≤ islStart (h' + 1) := by omega
    unfold islStart at this; omega
  obtain ⟨t1, t2, t3⟩ := tail_spec h' jj' hh' k1 k2
  exact ⟨h', (g2mTailI h' jj').2.1, (g2mTailI h' jj').2.2, congrArg Except.ok (Prod.ext t1 rfl), t2, by omega⟩


theorem jdnI_inj (y m d y' m' d' : Int) (hv : Valid y m d) (hv' : Valid y' m' d')
    (e : jdnI y m d = jdnI y' m' d') : y = y' ∧ m = m' ∧ d = d' := by
  have r1 := roundtrip_int y m d hv
  have r2 := roundtrip_int y' m' d' hv'
  rw [e, r2] at r1
  simp only [Except.ok.injEq, Prod.mk.injEq] at r1
  obtain ⟨a, b, c⟩ := r1
  exact ⟨a.symm, b.symm, by exact_mod_cast c.symm⟩

/-- a civil date on or after 16 July 622 has day number ≥ 1948440 -/
theorem jdnI_ge_epoch (y m d : Int) (hv : Valid y m d)
    (h : 622 < y ∨ (y = 622 ∧ (7 < m ∨ (m = 7 ∧ 16 ≤ d)))) : 1948440 ≤ jdnI y m d := by
  obtain ⟨hy, hm1, hm12, hd1, hdl, _⟩ := hv
  unfold jdnI
  have e1 : ∀ Y : Int, 1461 * Y / 4 = 365 * Y + Y / 4 := by intro Y; omega
  simp only [e1, isJulianI]
  interval_cases m <;> simp <;> split_ifs <;> omega

/-- the closed formula of the tabular calendar counts the days of its months and years -/
theorem isl_next_jdn (h m d : Int) (hv : Islamic.Valid h m d) :
    Islamic.Valid (Islamic.next h m d).1 (Islamic.next h m d).2.1 (Islamic.next h m d).2.2 ∧
    Islamic.jdn (Islamic.next h m d).1 (Islamic.next h m d).2.1 (Islamic.next h m d).2.2 = Islamic.jdn h m d + 1 := by
  obtain ⟨hh, hm1, hm12, hd1, hdl⟩ := hv
  unfold Islamic.next
  by_cases c1 : d < Islamic.monthLen h m
  · simp only [c1, if_true]
    exact ⟨⟨hh, hm1, hm12, by omega, by omega⟩, by unfold Islamic.jdn; omega⟩
  · simp only [c1, if_false]
    have hd : d = Islamic.monthLen h m := by omega
    by_cases c2 : m < 12
    · simp only [c2, if_true]
      have hml : Islamic.monthLen h m = if m % 2 = 1 then 30 else 29 := by
        unfold Islamic.monthLen
        have : ¬ m = 12 := by omega
        simp [this]
      refine ⟨⟨hh, by omega, by omega, by decide, ?_⟩, ?_⟩
      · unfold Islamic.monthLen; split_ifs <;> omega
      · unfold Islamic.jdn; rw [hd, hml]; split_ifs <;> omega
    · simp only [c2, if_false]
      have hm : m = 12 := by omega
      subst hm
      refine ⟨⟨by omega, by decide, by decide, by decide, ?_⟩, ?_⟩
      · unfold Islamic.monthLen; simp
      · have hy := isl_yearLen h
        have hs := ylen_start h
        rw [isl_jdn_eq, isl_jdn_eq, hd]
        unfold Islamic.yearLen at hy
        unfold Islamic.monthLen
        by_cases hl : Islamic.leap h = true
        · simp [hl] at hy ⊢; omega
        · simp [hl] at hy ⊢; omega


/-- For every argument triple -- valid date or not -- the two `while` loops of `gregorian2moslem`
    finish within the fuel: the model never reports `.error .other`. -/
theorem g2m_fuel_suffices (y m d : Int) : gregorian2moslem y m d ≠ .error .other := by
  rw [gregorian2moslem_int]
  by_cases hval : d < 1 ∨ d > 31 ∨ m < 1 ∨ m > 12 ∨ y < -4712
  · simp only [hval, if_true]; intro h; cases h
  · simp only [hval, if_false]
    have hhead : g2mHeadI y m d = (g2mH (jdnI y m d), g2mJJ (jdnI y m d)) := by
      unfold g2mHeadI; rw [g2mDayNumber_eq y m d (by omega) (by omega), g2mFromInv_eq]
    rw [hhead]
    obtain ⟨_, hj1, hj2⟩ := g2mFromInv_spec (jdnI y m d)
    obtain ⟨h', jj', ⟨s1, e1, e2⟩, _⟩ := loops_spec _ _ hj1 hj2
    dsimp only
    rw [e1]; dsimp only; rw [e2]; dsimp only
    intro h; cases h

/-- the JDE (0h) of the civil date `moslem2gregorian` returns, `none` if it raises -/
def m2gJde (h m d : Int) : Option ℚ :=
  match moslem2gregorian h m d with
  | .ok (y, mo, D) => some (compute_jde y mo (dayQ D))
  | .error _ => none

theorem m2gJde_eq (h m d : Int) (hv : Islamic.Valid h m d) :
    m2gJde h m d = some ((Islamic.jdn h m d : ℚ) - 1 / 2) := by
  obtain ⟨y', m', d', D, e1, e2, e3, e4⟩ := m2gI_correct h m d hv
  unfold m2gJde
  rw [moslem2gregorian_int, e1]
  dsimp only
  rw [e2, show ((d' : Int) : ℚ) = ofInt d' from rfl, compute_jde_int _ _ _ e3, e4]

end Pymeeus.Refine
