import Pymeeus.Gen.R.Vsop
import Pymeeus.Spec.Vsop
import Mathlib.Analysis.SpecialFunctions.Trigonometric.Deriv
import Mathlib.Analysis.Calculus.Deriv.MeanValue
import Mathlib.Tactic
/-
Helper lemmas for C07 (and C08/C09): the series evaluator of `Gen.R.Vsop` against the direct sum of
`Spec.Vsop`, the `Angle` helpers over ℝ, derivative bounds for a table of series.
-/
noncomputable section
namespace Pymeeus.Refine.Vsop
open Pymeeus Pymeeus.PR Pymeeus.GenR Pymeeus.GenR.Helio

/-! ### evaluator = direct sum -/

lemma foldl_add_eq_sum {α : Type} (f : α → ℝ) (l : List α) (a : ℝ) :
    l.foldl (fun s x => s + f x) a = a + (l.map f).sum := by
  induction l generalizing a with
  | nil => simp
  | cons x xs ih => simp [List.foldl_cons, ih, add_assoc]

lemma series_sum_eq (s : VsopSeries) (t : ℝ) : series_sum s t = Spec.seriesDirect s t := by
  unfold series_sum Spec.seriesDirect
  rw [foldl_add_eq_sum (fun x : ℝ × ℝ × ℝ => x.1 * pcos (x.2.1 + x.2.2 * t))]
  norm_num [pcos]

/-- `Σ_i t^(k+i) l[i]` by recursion -/
def evalFrom (t : ℝ) : ℕ → List ℝ → ℝ
  | _, [] => 0
  | k, s :: r => t ^ k * s + evalFrom t (k + 1) r

lemma evalFrom_succ (t : ℝ) (k : ℕ) (l : List ℝ) : evalFrom t (k + 1) l = t * evalFrom t k l := by
  induction l generalizing k with
  | nil => simp [evalFrom]
  | cons s r ih => simp only [evalFrom]; rw [ih (k + 1)]; ring

lemma horner_foldr (t : ℝ) (rest : List ℝ) :
    rest.foldr (fun s x => (x + s) * t) 0 = evalFrom t 1 rest := by
  induction rest with
  | nil => simp [evalFrom]
  | cons s r ih =>
    simp only [List.foldr_cons, ih, evalFrom]
    rw [evalFrom_succ t 1 r]; ring

lemma horner_eq (t : ℝ) (l : List ℝ) : horner l t = evalFrom t 0 l := by
  cases l with
  | nil => norm_num [horner, evalFrom]
  | cons s r =>
    have h0 : (0.0 : ℝ) = 0 := by norm_num
    simp only [horner, evalFrom, h0, horner_foldr]
    ring

lemma evalFrom_eq_sum (t : ℝ) (k : ℕ) (l : List ℝ) :
    evalFrom t k l = ∑ i ∈ Finset.range l.length, t ^ (k + i) * l.getD i 0 := by
  induction l generalizing k with
  | nil => simp [evalFrom]
  | cons s r ih =>
    simp only [evalFrom, List.length_cons]
    rw [Finset.sum_range_succ', ih (k + 1)]
    simp only [List.getD_cons_succ, List.getD_cons_zero, add_zero]
    rw [add_comm]
    congr 1
    apply Finset.sum_congr rfl
    intro i _
    congr 2
    omega

lemma getD_map_series (tbl : VsopTable) (t : ℝ) (i : ℕ) (hi : i < tbl.length) :
    (tbl.map fun s => series_sum s t).getD i 0 = Spec.seriesDirect (tbl.getD i []) t := by
  simp [List.getD_eq_getElem?_getD, List.getElem?_map, List.getElem?_eq_getElem hi, series_sum_eq]

/-- The evaluator as coded equals the direct sum, for every table and every `t`. -/
lemma vsop_coord_eq (tbl : VsopTable) (t : ℝ) : vsop_coord tbl t = Spec.directSum tbl t / 100000000 := by
  unfold vsop_coord Spec.directSum
  rw [horner_eq, evalFrom_eq_sum]
  have : (100000000.0 : ℝ) = 100000000 := by norm_num
  rw [this]
  congr 1
  rw [List.length_map]
  apply Finset.sum_congr rfl
  intro i hi
  rw [getD_map_series tbl t i (Finset.mem_range.mp hi), zero_add]

/-! ### the Angle helpers over ℝ -/

lemma lit360 : (360.0 : ℝ) = 360 := by norm_num
lemma lit0 : (0.0 : ℝ) = 0 := by norm_num
lemma lit1 : (1.0 : ℝ) = 1 := by norm_num

/-- `reduce_deg` of a real number whose absolute value is below 360 is the number itself -/
lemma angReduce_small (x : ℝ) (h : |x| < 360) : angReduce x = x := by
  unfold angReduce
  have : ¬ ((360 : ℝ) ≤ |x|) := not_le.mpr h
  simp [ple, pabs, lit360, this]

/-- for `|x| ≥ 360`, `reduce_deg x = sign x * (|x| - 360 ⌊|x| / 360⌋)` -/
lemma angReduce_large (x : ℝ) (h : 360 ≤ |x|) :
    angReduce x = (if 0 ≤ x then 1 else -1) * (|x| - 360 * (⌊|x| / 360⌋ : ℤ)) := by
  unfold angReduce
  have habs : (0 : ℝ) ≤ |x| := abs_nonneg x
  simp only [ple, pabs, lit360, lit0, lit1, h, decide_true, if_true, pmod, ptrunc, habs, imod, ofInt, div_one, one_mul]
  have hfl : (0 : ℤ) ≤ ⌊|x|⌋ := Int.floor_nonneg.mpr habs
  rw [Int.fmod_eq_emod_of_nonneg _ (by norm_num : (0 : ℤ) ≤ 360)]
  have hdiv : ⌊|x| / 360⌋ = ⌊|x|⌋ / 360 := by
    have := Int.floor_div_natCast (|x|) 360
    simpa using this
  have hmod : ((⌊|x|⌋ % 360 : ℤ) : ℝ) = (⌊|x|⌋ : ℝ) - 360 * ((⌊|x|⌋ / 360 : ℤ) : ℝ) := by
    have := Int.emod_add_mul_ediv ⌊|x|⌋ 360
    have h2 : ((⌊|x|⌋ % 360 + 360 * (⌊|x|⌋ / 360) : ℤ) : ℝ) = ((⌊|x|⌋ : ℤ) : ℝ) := by exact_mod_cast this
    push_cast at h2
    linarith
  rw [hdiv, hmod]
  by_cases hx : 0 ≤ x
  · simp only [hx, decide_true, if_true]; norm_num; rw [Int.fract]; ring
  · simp only [hx, decide_false, if_false]; norm_num; rw [Int.fract]; ring

/-- `|reduce_deg x| < 360` and `|reduce_deg x| ≤ |x|` for every real `x` -/
lemma angReduce_abs (x : ℝ) : |angReduce x| < 360 ∧ |angReduce x| ≤ |x| := by
  by_cases h : 360 ≤ |x|
  · rw [angReduce_large x h]
    have hq : (0 : ℝ) ≤ |x| / 360 := div_nonneg (abs_nonneg x) (by norm_num)
    have h1 : ((⌊|x| / 360⌋ : ℤ) : ℝ) ≤ |x| / 360 := Int.floor_le _
    have h2 : |x| / 360 < (⌊|x| / 360⌋ : ℤ) + 1 := Int.lt_floor_add_one _
    have h3 : (0 : ℝ) ≤ (⌊|x| / 360⌋ : ℤ) := by exact_mod_cast Int.floor_nonneg.mpr hq
    have ha : 0 ≤ |x| - 360 * (⌊|x| / 360⌋ : ℤ) := by linarith
    have hb : |x| - 360 * (⌊|x| / 360⌋ : ℤ) < 360 := by linarith
    have hc : |x| - 360 * (⌊|x| / 360⌋ : ℤ) ≤ |x| := by linarith
    have hs : |(if 0 ≤ x then (1 : ℝ) else -1)| = 1 := by split_ifs <;> simp
    rw [abs_mul, hs, one_mul, abs_of_nonneg ha]
    exact ⟨hb, hc⟩
  · push Not at h
    rw [angReduce_small x h]
    exact ⟨h, le_refl _⟩

/-- `reduce_deg x` differs from `x` by a whole number of turns -/
lemma angReduce_congr (x : ℝ) : ∃ k : ℤ, angReduce x = x + 360 * k := by
  by_cases h : 360 ≤ |x|
  · rw [angReduce_large x h]
    by_cases hx : 0 ≤ x
    · refine ⟨-⌊|x| / 360⌋, ?_⟩
      simp only [hx, if_true, abs_of_nonneg hx]; push_cast; ring
    · refine ⟨⌊|x| / 360⌋, ?_⟩
      have : x < 0 := lt_of_not_ge hx
      simp only [hx, if_false, abs_of_neg this]; ring
  · push Not at h
    exact ⟨0, by rw [angReduce_small x h]; simp⟩

/-- `to_positive` maps (-360, 360) into [0, 360) -/
lemma angToPositive_range (x : ℝ) (h : |x| < 360) : 0 ≤ angToPositive x ∧ angToPositive x < 360 := by
  unfold angToPositive
  have hx := abs_lt.mp h
  by_cases hneg : x < 0
  · have hpos : 0 < |x| := abs_pos.mpr (ne_of_lt hneg)
    have h1 : ¬ ((360 : ℝ) ≤ 360 - |x|) := by linarith
    simp only [plt, ple, pabs, lit360, lit0, hneg, decide_true, if_true, h1, decide_false,
      Bool.false_eq_true, if_false]
    constructor <;> linarith
  · simp only [plt, lit0, hneg, decide_false, Bool.false_eq_true, if_false]
    exact ⟨not_lt.mp hneg, hx.2⟩

/-- `to_positive x` is `x` or `x + 360` -/
lemma angToPositive_congr (x : ℝ) (h : |x| < 360) : angToPositive x = x ∨ angToPositive x = x + 360 := by
  unfold angToPositive
  by_cases hneg : x < 0
  · right
    have h1 : ¬ ((360 : ℝ) ≤ 360 - |x|) := by
      have : 0 < |x| := abs_pos.mpr (ne_of_lt hneg)
      linarith
    simp only [plt, ple, pabs, lit360, lit0, hneg, decide_true, if_true, h1, decide_false]
    simp [abs_of_neg hneg]; ring
  · left; simp [plt, lit0, hneg]

/-! ### `Angle(0, 0, s)` -/

lemma lit60 : (60.0 : ℝ) = 60 := by norm_num
lemma lit3600 : (3600.0 : ℝ) = 3600 := by norm_num

lemma sign_mul_abs (s : ℝ) : (if s < 0 then (-1 : ℝ) else 1) * |s| = s := by
  split_ifs with hs
  · rw [abs_of_neg hs]; ring
  · rw [abs_of_nonneg (not_lt.mp hs)]; ring

/-- `Angle(0, 0, s)`: whole degrees `d`, minutes `mi`, seconds `sec` of `|s|`, the degrees taken mod 360
    (the final `reduce_deg` of `dms2deg` is the identity over ℝ: the value is below 360) -/
lemma angDms_zero_zero_decomp (s : ℝ) : ∃ (d mi : ℤ) (sec : ℝ), 0 ≤ d ∧ 0 ≤ mi ∧ 0 ≤ sec ∧
    (d : ℝ) * 3600 + (mi : ℝ) * 60 + sec = |s| ∧
    angDms 0 0 s = (if s < 0 then (-1 : ℝ) else 1) * (((d % 360 : ℤ) : ℝ) + (mi : ℝ) / 60 + sec / 3600) := by
  have habs := abs_nonneg s
  have hq : (0 : ℝ) ≤ |s| / 60 := by positivity
  have hm0 : (0 : ℤ) ≤ ⌊|s| / 60⌋ := Int.floor_nonneg.mpr hq
  have hfl1 : ((⌊|s| / 60⌋ : ℤ) : ℝ) ≤ |s| / 60 := Int.floor_le _
  have hfl2' : |s| / 60 < ((⌊|s| / 60⌋ : ℤ) : ℝ) + 1 := Int.lt_floor_add_one _
  -- the value before the final reduce_deg is below 360 in absolute value
  have small : ∀ (d mi : ℤ) (sec : ℝ), 0 ≤ d → 0 ≤ mi → mi < 60 → 0 ≤ sec → sec < 60 →
      angReduce ((if s < 0 then (-1 : ℝ) else 1) * (((d % 360 : ℤ) : ℝ) + (mi : ℝ) / 60 + sec / 3600)) =
        (if s < 0 then (-1 : ℝ) else 1) * (((d % 360 : ℤ) : ℝ) + (mi : ℝ) / 60 + sec / 3600) := by
    intro d mi sec hd hmi hmi60 hsec hsec60
    apply angReduce_small
    have hs : |(if s < 0 then (-1 : ℝ) else 1)| = 1 := by split_ifs <;> simp
    have h1 : (0 : ℝ) ≤ ((d % 360 : ℤ) : ℝ) := by exact_mod_cast Int.emod_nonneg d (by norm_num)
    have h2 : ((d % 360 : ℤ) : ℝ) ≤ 359 := by
      have : d % 360 ≤ 359 := by omega
      exact_mod_cast this
    have h3 : (0 : ℝ) ≤ (mi : ℝ) := by exact_mod_cast hmi
    have h4 : (mi : ℝ) ≤ 59 := by
      have : mi ≤ 59 := by omega
      exact_mod_cast this
    rw [abs_mul, hs, one_mul, abs_of_nonneg (by positivity)]
    linarith
  unfold angDms
  simp only [lt_self_iff_false, false_or, plt, lit0, decide_eq_true_eq, Int.natAbs_zero, Nat.cast_zero,
    pabs, ple, lit60, lit3600, lit1, zero_add, ofInt]
  by_cases h60 : (60 : ℝ) ≤ |s|
  · simp only [h60, if_true, ptrunc, hq, pmod]
    by_cases hm60 : ⌊|s| / 60⌋ ≥ 60
    · simp only [hm60, if_true, imod]
      have hmq : (0 : ℝ) ≤ ((⌊|s| / 60⌋ : ℤ) : ℝ) / 60 := by
        apply div_nonneg _ (by norm_num); exact_mod_cast hm0
      have hfl2 : ⌊((⌊|s| / 60⌋ : ℤ) : ℝ) / 60⌋ = ⌊|s| / 60⌋ / 60 := by
        have := Int.floor_div_natCast (((⌊|s| / 60⌋ : ℤ) : ℝ)) 60
        simpa using this
      simp only [hmq, if_true, hfl2]
      rw [Int.fmod_eq_emod_of_nonneg _ (by norm_num : (0 : ℤ) ≤ 60),
        Int.fmod_eq_emod_of_nonneg _ (by norm_num : (0 : ℤ) ≤ 360)]
      refine ⟨⌊|s| / 60⌋ / 60, ⌊|s| / 60⌋ % 60, |s| - 60 * ((⌊|s| / 60⌋ : ℤ) : ℝ), by omega, by omega, by linarith, ?_,
        small _ _ _ (by omega) (by omega) (by omega) (by linarith) (by linarith)⟩
      have h2 : ((⌊|s| / 60⌋ / 60 * 60 + ⌊|s| / 60⌋ % 60 : ℤ) : ℝ) = ((⌊|s| / 60⌋ : ℤ) : ℝ) := by
        exact_mod_cast Int.ediv_mul_add_emod _ _
      push_cast at h2
      linarith
    · simp only [hm60, if_false, imod]
      rw [Int.fmod_eq_emod_of_nonneg _ (by norm_num : (0 : ℤ) ≤ 360)]
      refine ⟨0, ⌊|s| / 60⌋, |s| - 60 * ((⌊|s| / 60⌋ : ℤ) : ℝ), le_refl _, hm0, by linarith, by push_cast; ring,
        small _ _ _ (le_refl _) hm0 (by omega) (by linarith) (by linarith)⟩
  · simp only [h60, if_false, imod]
    have h0 : ¬ ((0 : ℤ) ≥ 60) := by norm_num
    simp only [h0, if_false]
    rw [Int.fmod_eq_emod_of_nonneg _ (by norm_num : (0 : ℤ) ≤ 360)]
    exact ⟨0, 0, |s|, le_refl _, le_refl _, habs, by push_cast; ring,
      small 0 0 |s| (le_refl _) (le_refl _) (by norm_num) habs (not_le.mp h60)⟩

/-- `Angle(0, 0, s)` is `s / 3600` degrees as long as `|s|` is less than a full turn -/
lemma angDms_zero_zero (s : ℝ) (h : |s| < 1296000) : angDms 0 0 s = s / 3600 := by
  obtain ⟨d, mi, sec, hd, hmi, hsec, hsum, heq⟩ := angDms_zero_zero_decomp s
  have hd360 : d < 360 := by
    by_contra hc
    have : (360 : ℝ) ≤ (d : ℝ) := by exact_mod_cast (not_lt.mp hc)
    have : (0 : ℝ) ≤ (mi : ℝ) := by exact_mod_cast hmi
    linarith
  rw [heq, Int.emod_eq_of_lt hd hd360]
  have := sign_mul_abs s
  rw [← hsum] at this
  generalize (if s < 0 then (-1 : ℝ) else 1) = sg at this ⊢
  rw [show s / 3600 = (sg * ((d : ℝ) * 3600 + (mi : ℝ) * 60 + sec)) / 3600 from by rw [this]]
  ring

/-- in general `|Angle(0, 0, s)| ≤ |s| / 3600` (the reduction mod 360 can only shrink it) -/
lemma angDms_zero_zero_abs_le (s : ℝ) : |angDms 0 0 s| ≤ |s| / 3600 := by
  obtain ⟨d, mi, sec, hd, hmi, hsec, hsum, heq⟩ := angDms_zero_zero_decomp s
  have hs : |(if s < 0 then (-1 : ℝ) else 1)| = 1 := by split_ifs <;> simp
  have hmod0 : (0 : ℝ) ≤ ((d % 360 : ℤ) : ℝ) := by exact_mod_cast Int.emod_nonneg d (by norm_num)
  have hmodle : ((d % 360 : ℤ) : ℝ) ≤ (d : ℝ) := by exact_mod_cast (by omega : d % 360 ≤ d)
  have hmi' : (0 : ℝ) ≤ (mi : ℝ) := by exact_mod_cast hmi
  have hnn : 0 ≤ ((d % 360 : ℤ) : ℝ) + (mi : ℝ) / 60 + sec / 3600 := by positivity
  rw [heq, abs_mul, hs, one_mul, abs_of_nonneg hnn, ← hsum]
  linarith


end Pymeeus.Refine.Vsop
