import Mathlib.Tactic.NormNum
import Mathlib.Tactic.Linarith
import Mathlib.Tactic.IntervalCases
import Mathlib.Data.List.Basic
import Pymeeus.Gen.Q.EpochCal
import Pymeeus.Spec.IERS
/-
`Epoch.leap_seconds` of the exact model against the IERS list of Spec/IERS.lean, for every integer year.
-/
namespace Pymeeus.Refine
open Pymeeus Pymeeus.PQ Pymeeus.GenQ Pymeeus.Spec

/-- `r = .ok v`, as a Bool (for kernel evaluation of finite tables) -/
def isOk (r : PyRes Int) (v : Int) : Bool := match r with | .ok x => x == v | .error _ => false

theorem isOk_iff (r : PyRes Int) (v : Int) : isOk r v = true ↔ r = .ok v := by
  cases r with
  | error e => simp [isOk]
  | ok x => simp [isOk]

theorem leap_first : leap_years.headD 0.0 = 1972.5 := by decide +kernel
theorem leap_last : leap_years.getLastD 0.0 = 2017.0 := by decide +kernel
theorem leap_last_value : leap_values.getLastD 0 = 27 := by decide +kernel

/-- the 540 months 1972-01 .. 2016-12, evaluated by the kernel -/
theorem leap_seconds_table_mid :
    ∀ i ∈ List.range 45, ∀ k ∈ List.range 12, isOk (leap_seconds (1972 + (i : Int)) (1 + (k : Int))) (iers (1972 + (i : Int)) (1 + (k : Int))) = true := by
  decide +kernel

theorem iersDates_ge : ∀ p ∈ iersDates, (1972 : Int) ≤ p.1 := by decide
theorem iersDates_le : ∀ p ∈ iersDates, p.1 ≤ (2016 : Int) ∨ p = (2017, 1) := by decide

theorem iers_before (y m : Int) (hy : y < 1972) : iers y m = 0 := by
  unfold iers
  have : iersDates.filter (notLater y m) = [] := by
    rw [List.filter_eq_nil_iff]
    intro p hp
    have := iersDates_ge p hp
    simp [notLater]; omega
  simp [this]

theorem iers_after (y m : Int) (hy : 2017 ≤ y) (hm : 1 ≤ m) : iers y m = 27 := by
  unfold iers
  have : iersDates.filter (notLater y m) = iersDates := by
    rw [List.filter_eq_self]
    intro p hp
    rcases iersDates_le p hp with h | h
    · simp [notLater]; omega
    · subst h; simp [notLater]; omega
  rw [this]; rfl

/-- `Epoch.leap_seconds(year, month)` is the IERS count, for every integer year and month 1..12. -/
theorem leap_seconds_eq_iers (y m : Int) (hm1 : 1 ≤ m) (hm12 : m ≤ 12) : leap_seconds y m = .ok (iers y m) := by
  have hmq1 : (1 : ℚ) ≤ (m : ℚ) := by exact_mod_cast hm1
  have hmq12 : (m : ℚ) ≤ 12 := by exact_mod_cast hm12
  by_cases h1 : y < 1972
  · rw [iers_before y m h1]
    have hyq : (y : ℚ) ≤ 1971 := by exact_mod_cast (by omega : y ≤ 1971)
    unfold leap_seconds
    rw [leap_first]
    have : ple (ofInt y + ofInt m / 12.0) 1972.5 = true := by
      unfold ple ofInt; rw [decide_eq_true_iff]; norm_num; linarith
    simp only [this, if_true]
  by_cases h2 : 2017 ≤ y
  · rw [iers_after y m h2 hm1]
    have hyq : (2017 : ℚ) ≤ (y : ℚ) := by exact_mod_cast h2
    unfold leap_seconds
    rw [leap_first, leap_last, leap_last_value]
    have a : ple (ofInt y + ofInt m / 12.0) 1972.5 = false := by
      unfold ple ofInt; rw [decide_eq_false_iff_not]; norm_num; linarith
    have b : plt 2017.0 (ofInt y + ofInt m / 12.0) = true := by
      unfold plt ofInt; rw [decide_eq_true_iff]; norm_num; linarith
    simp [a, b]
  · have hi : (y - 1972).toNat < 45 := by omega
    have hk : (m - 1).toNat < 12 := by omega
    have := leap_seconds_table_mid _ (List.mem_range.mpr hi) _ (List.mem_range.mpr hk)
    rw [isOk_iff] at this
    have e1 : (1972 : Int) + ((y - 1972).toNat : Int) = y := by omega
    have e2 : (1 : Int) + ((m - 1).toNat : Int) = m := by omega
    rw [e1, e2] at this
    exact this

theorem notLater_mono (y m y' m' : Int) (h : y < y' ∨ (y = y' ∧ m ≤ m')) (p : Int × Int) :
    notLater y m p = true → notLater y' m' p = true := by
  simp [notLater]; omega

/-- the IERS count is a non-decreasing function of (year, month) -/
theorem iers_mono (y m y' m' : Int) (h : y < y' ∨ (y = y' ∧ m ≤ m')) : iers y m ≤ iers y' m' := by
  unfold iers
  have : (iersDates.filter (notLater y m)).length ≤ (iersDates.filter (notLater y' m')).length := by
    apply List.Sublist.length_le
    exact List.monotone_filter_right _ (fun p hp => notLater_mono y m y' m' h p hp)
  exact_mod_cast this

theorem iers_bounds (y m : Int) : 0 ≤ iers y m ∧ iers y m ≤ 27 := by
  unfold iers
  constructor
  · exact Int.natCast_nonneg _
  · have : (iersDates.filter (notLater y m)).length ≤ iersDates.length := List.length_filter_le _ _
    have h27 : iersDates.length = 27 := rfl
    omega

end Pymeeus.Refine

namespace Pymeeus.Refine
open Pymeeus Pymeeus.PQ Pymeeus.GenQ Pymeeus.Spec

/-- what `_check_values` returns when it accepts -/
theorem check_values_ok (y m : Int) (d h mi s : ℚ) (t : Int × Int × ℚ × ℚ × ℚ × ℚ)
    (hc : check_values y (get_month_int m) d h mi s = .ok t) :
    t = (y, m, d, h, mi, s) ∧ 1 ≤ m ∧ m ≤ 12 ∧ -4712 ≤ y := by
  unfold check_values get_month_int at hc
  by_cases c1 : y < -4712
  · simp [c1] at hc
  by_cases hm : m ≥ 1 ∧ m ≤ 12
  · simp only [c1, hm, and_self, if_true, if_false] at hc
    split_ifs at hc
    simp only [Except.ok.injEq] at hc
    exact ⟨hc.symm, hm.1, hm.2, by omega⟩
  · simp only [c1, hm, if_false] at hc
    split_ifs at hc

/-- Integer-valued table of the Delta-T comparison, as Bool for the kernel -/
def dtOk (y m : Int) : Bool :=
  decide (tt2ut y m - (42.184 + (iers y m : ℚ)) ≤ 3.5) && decide (-3.5 ≤ tt2ut y m - (42.184 + (iers y m : ℚ)))

theorem deltaT_table : ∀ i ∈ List.range 47, ∀ k ∈ List.range 12, dtOk (1972 + (i : Int)) (1 + (k : Int)) = true := by
  decide +kernel

/-- years at which `tt2ut` switches to another polynomial, after -500 -/
def dtJoints : List Int := [500, 1600, 1700, 1800, 1860, 1900, 1920, 1941, 1961, 1986, 2005, 2050, 2150]

def jointOk (Y : Int) : Bool :=
  decide (tt2ut Y 1 - tt2ut (Y - 1) 12 < 1) && decide (-1 < tt2ut Y 1 - tt2ut (Y - 1) 12)

theorem deltaT_joint_table : ∀ Y ∈ dtJoints, jointOk Y = true := by decide +kernel

end Pymeeus.Refine

namespace Pymeeus.Refine
open Pymeeus Pymeeus.PQ Pymeeus.GenQ Pymeeus.Spec

theorem peq_zero : peq (0.0 : ℚ) 0.0 = true := by decide +kernel

theorem compute_jde_kw_plain (y m : Int) (d : ℚ) : compute_jde_kw y m d false 0.0 = .ok (compute_jde y m d) := by
  unfold compute_jde_kw
  simp [peq_zero]
  left; norm_num

theorem compute_jde_kw_utc (y m : Int) (d : ℚ) (hy : 1972 ≤ y) (hm1 : 1 ≤ m) (hm12 : m ≤ 12) :
    compute_jde_kw y m d true 0.0 = .ok (compute_jde y m d + (32.184 + 10 + (iers y m : ℚ)) / 86400) := by
  unfold compute_jde_kw
  have hy' : y ≥ 1972 := hy
  simp only [hy', leap_seconds_eq_iers y m hm1 hm12, if_true]
  norm_num [ofInt]

theorem compute_jde_kw_utc_before (y m : Int) (d : ℚ) (hy : y < 1972) :
    compute_jde_kw y m d true 0.0 = .ok (compute_jde y m d) := by
  unfold compute_jde_kw
  have hy' : ¬ y ≥ 1972 := by omega
  simp [hy']
  left; norm_num

theorem compute_jde_kw_override (y m : Int) (d L : ℚ) (hy : 1972 ≤ y) (hL : L ≠ 0) :
    compute_jde_kw y m d false L = .ok (compute_jde y m d + (32.184 + 10 + L) / 86400) := by
  unfold compute_jde_kw
  have hy' : y ≥ 1972 := hy
  have hL' : peq L 0.0 = false := by unfold peq; rw [decide_eq_false_iff_not]; norm_num; exact hL
  simp [hy', hL']
  norm_num

theorem compute_jde_kw_override_before (y m : Int) (d L : ℚ) (hy : y < 1972) :
    compute_jde_kw y m d false L = .ok (compute_jde y m d) := by
  unfold compute_jde_kw
  have hy' : ¬ y ≥ 1972 := by omega
  by_cases hL : peq L 0.0 = true <;> simp [hy', hL] <;> left <;> norm_num

end Pymeeus.Refine
