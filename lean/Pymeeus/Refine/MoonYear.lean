import Pymeeus.Refine.YearOrder
import Pymeeus.Gen.Q.MoonYear
/-
The fractional year of the lunar event finders (`GenQ.MoonM.finder_year`, templates/MoonYear.lean)
at an instant of a valid civil date, in closed form; where it is monotone in the instant and where
it is not; the day number of 1 January between two linear functions of the year.
Exact (Rat) arithmetic; builds on the calendar lemmas of properties C01 / C16.
-/
namespace Pymeeus.Refine
open Pymeeus Pymeeus.PQ Pymeeus.GenQ Pymeeus.Spec

/-- the instant (JDE) of day `d` + fraction `f` of month `m` of year `y` -/
def instant (y m d : Int) (f : ℚ) : ℚ := (jdnI y m d : ℚ) - 1 / 2 + f

/-- days elapsed since 1 January 0h of the same year -/
def sinceJan1 (y m d : Int) (f : ℚ) : ℚ := ((jdnI y m d - jdnI y 1 1 : Int) : ℚ) + f

/-- the divisor `num_days_year` -/
def divisor (y : Int) : ℚ := if Spec.leap y then 366 else 365

/-- closed form of the finders' fractional year: `y + (days since 1 January 0h + 1) / (365 or 366)` -/
theorem finder_year_valid (y m d : Int) (f : ℚ) (h : Valid y m d) (hy : y ≤ 9999) (hf0 : 0 ≤ f) (hf1 : f < 1) :
    MoonM.finder_year (instant y m d f) = .ok ((y : ℚ) + (sinceJan1 y m d f + 1) / divisor y) := by
  unfold MoonM.finder_year instant sinceJan1 divisor
  rw [get_date_valid y m d f h hf0 hf1]
  simp only [get_doy_int y m d f h hy hf0 hf1, doyI_eq y m d h, is_leap_spec]
  split_ifs <;> norm_num [ofInt] <;> ring

theorem instant_eq (y m d : Int) (f : ℚ) : instant y m d f = instant y 1 1 0 + sinceJan1 y m d f := by
  unfold instant sinceJan1; push_cast; ring

theorem sinceJan1_range (y m d : Int) (f : ℚ) (h : Valid y m d) (hf0 : 0 ≤ f) (hf1 : f < 1) :
    0 ≤ sinceJan1 y m d f ∧ sinceJan1 y m d f < yearLen y := by
  obtain ⟨a, b⟩ := jdnI_in_year y m d h
  unfold sinceJan1
  have a' : (0 : ℚ) ≤ ((jdnI y m d - jdnI y 1 1 : Int) : ℚ) := by exact_mod_cast (by omega : 0 ≤ jdnI y m d - jdnI y 1 1)
  have b' : ((jdnI y m d - jdnI y 1 1 : Int) : ℚ) + 1 ≤ ((yearLen y : Int) : ℚ) := by
    exact_mod_cast (by omega : jdnI y m d - jdnI y 1 1 + 1 ≤ yearLen y)
  constructor <;> linarith

theorem yearLen_le_divisor (y : Int) : ((yearLen y : Int) : ℚ) ≤ divisor y := by
  have := leap_le_yearLen y
  unfold divisor
  split_ifs at this ⊢ <;> exact_mod_cast this

theorem divisor_cases (y : Int) : divisor y = 365 ∨ divisor y = 366 := by
  unfold divisor; split_ifs <;> simp

theorem instant_next_year (y : Int) (hy : -4712 ≤ y) : instant (y + 1) 1 1 0 = instant y 1 1 0 + yearLen y := by
  unfold instant; rw [jdnI_next_year y hy]; push_cast; ring

/-- a later calendar year is a later instant -/
theorem instant_lt_of_year_lt (y1 m1 d1 y2 m2 d2 : Int) (f1 f2 : ℚ) (h1 : Valid y1 m1 d1) (h2 : Valid y2 m2 d2)
    (hf11 : f1 < 1) (hf20 : 0 ≤ f2) (hlt : y1 < y2) : instant y1 m1 d1 f1 < instant y2 m2 d2 f2 := by
  have := jdnI_lt_of_year_lt y1 m1 d1 y2 m2 d2 h1 h2 hlt
  have : (jdnI y1 m1 d1 : ℚ) + 1 ≤ (jdnI y2 m2 d2 : ℚ) := by exact_mod_cast this
  unfold instant; linarith

/-- crossing one year boundary: the fractional year does not decrease if the instants are at least
    1/365 day apart -/
theorem cross_year_arith {L1 L2 len1 u1 u2 : ℚ} (hL1 : L1 = 365 ∨ L1 = 366) (hL2 : L2 = 365 ∨ L2 = 366)
    (hlen : len1 ≤ L1) (hu1 : u1 < len1) (hu2 : 0 ≤ u2) (hgap : 1 / 365 ≤ len1 - u1 + u2) :
    (u1 + 1) / L1 ≤ 1 + (u2 + 1) / L2 := by
  rcases hL1 with h | h <;> rcases hL2 with h' | h' <;> subst h <;> subst h' <;>
    rw [div_le_iff₀ (by norm_num)] <;> ring_nf <;> nlinarith

/-- **Where the finders' fractional year is monotone in the instant**: within one calendar year, and
    across years whenever the two instants are at least 1/365 day (3 min 57 s) apart. -/
theorem finder_year_mono (y1 m1 d1 y2 m2 d2 : Int) (f1 f2 : ℚ) (h1 : Valid y1 m1 d1) (h2 : Valid y2 m2 d2)
    (hf10 : 0 ≤ f1) (hf11 : f1 < 1) (hf20 : 0 ≤ f2) (hf21 : f2 < 1)
    (hle : instant y1 m1 d1 f1 ≤ instant y2 m2 d2 f2)
    (hgap : y1 = y2 ∨ 1 / 365 ≤ instant y2 m2 d2 f2 - instant y1 m1 d1 f1) :
    (y1 : ℚ) + (sinceJan1 y1 m1 d1 f1 + 1) / divisor y1 ≤ (y2 : ℚ) + (sinceJan1 y2 m2 d2 f2 + 1) / divisor y2 := by
  obtain ⟨a0, a1⟩ := sinceJan1_range y1 m1 d1 f1 h1 hf10 hf11
  obtain ⟨b0, b1⟩ := sinceJan1_range y2 m2 d2 f2 h2 hf20 hf21
  have l1 := yearLen_le_divisor y1
  have l2 := yearLen_le_divisor y2
  have p1 : (0 : ℚ) < divisor y1 := by rcases divisor_cases y1 with e | e <;> rw [e] <;> norm_num
  have p2 : (0 : ℚ) < divisor y2 := by rcases divisor_cases y2 with e | e <;> rw [e] <;> norm_num
  rcases lt_trichotomy y1 y2 with hy | hy | hy
  · -- a later year
    by_cases hn : y2 = y1 + 1
    · subst hn
      have hg : 1 / 365 ≤ (yearLen y1 : ℚ) - sinceJan1 y1 m1 d1 f1 + sinceJan1 (y1 + 1) m2 d2 f2 := by
        rcases hgap with e | e
        · omega
        · rw [instant_eq y1 m1 d1 f1, instant_eq (y1 + 1) m2 d2 f2, instant_next_year y1 h1.1] at e
          linarith
      have := cross_year_arith (divisor_cases y1) (divisor_cases (y1 + 1)) l1 a1 b0 hg
      push_cast
      linarith
    · have c : (y1 : ℚ) + 2 ≤ (y2 : ℚ) := by exact_mod_cast (by omega : y1 + 2 ≤ y2)
      have e1 : (sinceJan1 y1 m1 d1 f1 + 1) / divisor y1 ≤ 2 := by
        rw [div_le_iff₀ p1]
        rcases divisor_cases y1 with e | e <;> rw [e] at l1 ⊢ <;> linarith
      have e2 : 0 ≤ (sinceJan1 y2 m2 d2 f2 + 1) / divisor y2 := div_nonneg (by linarith) p2.le
      linarith
  · subst hy
    have : sinceJan1 y1 m1 d1 f1 ≤ sinceJan1 y1 m2 d2 f2 := by
      rw [instant_eq y1 m1 d1 f1, instant_eq y1 m2 d2 f2] at hle; linarith
    have : (sinceJan1 y1 m1 d1 f1 + 1) / divisor y1 ≤ (sinceJan1 y1 m2 d2 f2 + 1) / divisor y1 :=
      div_le_div_of_nonneg_right (by linarith) p1.le
    linarith
  · exact absurd hle (not_le.mpr (instant_lt_of_year_lt y2 m2 d2 y1 m1 d1 f2 f1 h2 h1 hf21 hf10 hy))

/-! ### 1 January between two linear functions of the year -/

theorem jdnI_jan1_julian (y : Int) (h : y ≤ 1582) :
    1461 * y + 6884232 ≤ 4 * jdnI y 1 1 ∧ 4 * jdnI y 1 1 ≤ 1461 * y + 6884235 := by
  unfold jdnI isJulianI
  have hj : (decide (y - 1 < 1582) || (decide (y - 1 = 1582) && decide ((1:Int) + 12 < 10)) ||
      (decide (y - 1 = 1582) && decide ((1:Int) + 12 = 10) && decide ((1:Int) < 5))) = true := by
    simp; omega
  simp only [show ((1:Int) ≤ 2) = True by simp, if_true, hj]
  omega

theorem jdnI_jan1_gregorian (y : Int) (h : 1583 ≤ y) :
    146097 * y + 688423700 ≤ 400 * jdnI y 1 1 ∧ 400 * jdnI y 1 1 ≤ 146097 * y + 688424600 := by
  have e : jdnI y 1 1 = (1461 * (y - 1 + 4716)) / 4 + 428 + 1 + (2 - (y - 1) / 100 + (y - 1) / 100 / 4) - 1524 := by
    unfold jdnI isJulianI
    have h1 : ¬ (y - 1 < 1582) := by omega
    simp [h1]
  rw [e]
  omega

end Pymeeus.Refine
