"""C05 — celestial coordinate conversions are inverse rotations; separation metric.

(S) structural tie: the binary64 instantiation of lean/templates/Coords.lean against the real
    pymeeus.Coordinates functions, bit for bit (every call made below is also a tie case).
(I) the clauses of the property evaluated on the implementation against an independent oracle
    (harness/sphere.py: unit vectors, explicit rotation matrices built from the public frame
    definitions, atan2(|cross|, dot)); distances are measured ON THE SPHERE, so the coordinate
    singularity at the poles produces no false alarm.
"""
import math
from core import run_impl, enc
import sphere as S

PROPERTY = 'C05'
_C = 'pymeeus/Coordinates.py:'
_A = 'pymeeus/Angle.py:Angle.'
FUNCTIONS = [_C + f for f in ('equatorial2ecliptical', 'ecliptical2equatorial', 'equatorial2horizontal',
                              'horizontal2equatorial', 'equatorial2galactic', 'galactic2equatorial',
                              'angular_separation', 'relative_position_angle', 'straight_line', 'circle_diameter')] + \
            [_A + f for f in ('reduce_deg', 'reduce_dms', 'dms2deg', 'set', 'rad', 'to_positive', '__add__', '__sub__',
                              '__neg__', '__mul__', '__radd__', '__iadd__', '__lt__', '__ge__', '__gt__', '__call__')]

MANIFEST = dict(
    text=("Lean 4 theorems (Props/C05.lean, over the reals, Mathlib) about the model of the six conversions and the "
          "separation functions, for EVERY direction (both poles included; the source forms x, y, z and takes "
          "atan2(y, x), atan2(z, sqrt(x*x + y*y))) and every obliquity / observer latitude: each conversion never "
          "raises and maps the direction vector by the rotation of its frame pair (Rx(eps); the fixed galactic "
          "rotation built from 192.25, 27.4, 123/303, shown to take the pole RA 192.25 Dec 27.4 to the galactic pole "
          "and the celestial pole to l = 123; the horizontal one from the observer's latitude); the rotations of a "
          "pair are inverse to each other and orthogonal, hence converting there and back returns the same "
          "direction and, for coordinates in the documented ranges and a latitude strictly between the poles, "
          "exactly the same two numbers, and the angle between any two directions is unchanged; longitudes lie in "
          "[0,360) where the code calls to_positive and in (-180,180] otherwise, latitudes in [-90,90]; "
          "angular_separation never raises, its cosine is the dot product, it lies in [0,180] and is symmetric; "
          "relative_position_angle is the argument of the (north, east) components at the second body for every "
          "pair of directions, is negated when the right ascensions are exchanged and has opposite signs for the "
          "two orderings of the bodies; circle_diameter lies between the largest separation a and 2a/sqrt(3) "
          "(given the strict triangle inequality between the three separations). The model is tied to /repo by "
          "running its binary64 instantiation against the real functions bit for bit; the numerical clauses "
          "(1e-9 degree) are measured on the implementation against an independent vector/matrix oracle over uniform "
          "directions, both poles and caps down to 1e-9 degree around them, the poles of the other frame, the "
          "equator, the 0/360 seam, pairs from 1e-7 to 179.999 degrees apart, obliquity 0-30, observer latitude "
          "-90..90 incl. +-90, hour angle 0-360. straight_line: for every input it returns psi in [0,180] and omega in "
          "[-90,90] or raises ZeroDivisionError, exactly when one of its two denominators is zero (never ValueError: the "
          "clamp keeps acos/asin in their domain); circle_diameter returns the same result (value or exception) for every "
          "order of the three bodies, ties between the separations included."),
    note=("Trusted: Lean kernel, Mathlib, axioms propext/Classical.choice/Quot.sound; the hand-written model "
          "(lean/templates/Coords.lean) and its bit-exact correspondence run; the idealisation binary64 -> real is "
          "measured, not proved. The six findings of the first version of this check (asin latitudes, haversine, "
          "position angle, straight_line domain error) are fixed in /repo by the corresponding fix: commits of /repo."),
    technique="Lean 4 proof over the reals (rotation matrices, Complex.arg) + bit-exact model/implementation correspondence + predicate check",
    ref='6 C05')

TRUSTED = ['harness/sphere.py: independent vector/matrix oracle (frame definitions: Rx(obliquity); zenith at (H=0, dec=phi), '
           'azimuth from South westwards; B1950 galactic pole RA 192.25 Dec 27.4, l(NCP)=123)']
RULE = 'distinct (model function, argument tuple) pairs sent to the binary64 model and to the implementation'
TOL = 1e-9

GAL = S.galactic_matrix()


def _mods():
    from pymeeus.Angle import Angle
    import pymeeus.Coordinates as C
    return Angle, C


def call2(C, Angle, name, args):
    """Call a conversion with Angle arguments; returns (tuple of floats | None, canonical string)."""
    try:
        r = getattr(C, name)(*[Angle(a) for a in args])
    except Exception as e:  # noqa
        from core import enc_exc
        return None, enc_exc(e)
    if isinstance(r, tuple):
        v = tuple(x() if hasattr(x, 'rad') else float(x) for x in r)
    else:
        v = (r(),) if hasattr(r, 'rad') else (float(r),)
    return v, enc(v)


def record(ctx, name, dev, inp):
    """Largest deviation seen, kept apart for the inputs that lie in a listed known-finding region."""
    known = inp.get('polecap', 90.0) <= 2e-3 or not (5e-3 < inp.get('sep', 1.0) < 179.995)
    ctx.deviation(name + ('@known_finding_region' if known else ''), dev)


def tie(ctx, name, args, out, klass=None, raw=False):
    """One correspondence case. The implementation receives `Angle(a)`; the model receives the degree value that
    Angle stores (identical for |a| < 360; `Angle(360.0)` stores 0.0)."""
    if not raw:
        Angle, _ = _mods()
        args = [Angle(float(a))() for a in args]
    ctx.case(name, [float(a) for a in args], out, q=None, klass=klass or name)


PAIRS = {
    'ecl': ('equatorial2ecliptical', 'ecliptical2equatorial'),
    'hor': ('equatorial2horizontal', 'horizontal2equatorial'),
    'gal': ('equatorial2galactic', 'galactic2equatorial'),
}
POSITIVE = {'equatorial2ecliptical', 'ecliptical2equatorial', 'equatorial2galactic', 'galactic2equatorial'}


def matrix(pair, direction, par):
    if pair == 'ecl':
        m = S.rot_x(par[0])
    elif pair == 'hor':
        m = S.horizontal_matrix(par[0])
    else:
        m = GAL
    return m if direction == 0 else S.transpose(m)


def check_conv(ctx, pair, direction, lon, lat, par, klass, lon2=None, lat2=None):
    """One direction through f and back through g (direction 0: f = first function of the pair)."""
    Angle, C = _mods()
    f, g = PAIRS[pair] if direction == 0 else PAIRS[pair][::-1]
    # the oracle: the rotation matrix of the frame pair applied to the unit vector of the input direction
    u = S.dirv(lon, lat)
    w = S.matvec(matrix(pair, direction, par), u)
    # `polecap`: the smallest distance (degrees) of the direction from a pole of the frame it is given in or
    # converted to (measured with the oracle, so it is also known when the implementation raises)
    inp = {'check': 'conv', 'pair': pair, 'dir': direction, 'args': [lon, lat] + list(par),
           'polecap': min(90.0 - abs(lat), 90.0 - abs(S.lonlat(w)[1]))}
    if lon2 is not None:
        inp['second'] = [lon2, lat2]
    v, out = call2(C, Angle, f, [lon, lat] + list(par))
    tie(ctx, f, [lon, lat] + list(par), out)
    S.predicate(ctx, PROPERTY, 'no_exception_conv', v is not None, inp, out, klass)
    if v is None:
        return
    inp['polecap'] = min(inp['polecap'], 90.0 - abs(v[1]))
    # ranges
    if f in POSITIVE:
        ok = 0.0 <= v[0] < 360.0
    else:
        ok = -180.0 <= v[0] <= 180.0
    S.predicate(ctx, PROPERTY, 'longitude_range', ok, inp, {'fn': f, 'out': v}, klass)
    S.predicate(ctx, PROPERTY, 'latitude_range', -90.0 <= v[1] <= 90.0, inp, {'fn': f, 'out': v}, klass)
    # the conversion is the rotation of its frame pair (independent matrix)
    dev = S.vsep(S.dirv(v[0], v[1]), w)
    record(ctx, 'rotation_' + f, dev, inp)
    S.predicate(ctx, PROPERTY, 'is_rotation', dev <= TOL, inp, {'fn': f, 'out': v, 'dev_deg': dev}, klass)
    # back
    v2, out2 = call2(C, Angle, g, [v[0], v[1]] + list(par))
    tie(ctx, g, [v[0], v[1]] + list(par), out2)
    S.predicate(ctx, PROPERTY, 'no_exception_conv', v2 is not None, inp, {'fn': g, 'args': list(v), 'out': out2}, klass)
    if v2 is not None:
        inp2 = dict(inp)
        inp2['polecap'] = min(inp['polecap'], 90.0 - abs(v2[1]))
        dev = S.vsep(S.dirv(v2[0], v2[1]), u)
        record(ctx, 'inverse_' + pair, dev, inp2)
        S.predicate(ctx, PROPERTY, 'inverse', dev <= TOL, inp2, {'fwd': v, 'back': v2, 'dev_deg': dev}, klass)
    # the angle to a second direction is unchanged
    if lon2 is not None:
        q, outq = call2(C, Angle, f, [lon2, lat2] + list(par))
        tie(ctx, f, [lon2, lat2] + list(par), outq)
        if q is not None:
            inp3 = dict(inp)
            w2 = S.matvec(matrix(pair, direction, par), S.dirv(lon2, lat2))
            inp3['polecap'] = min(inp['polecap'], 90.0 - abs(lat2), 90.0 - abs(q[1]), 90.0 - abs(S.lonlat(w2)[1]))
            dev = abs(S.sep_ref(lon, lat, lon2, lat2) - S.sep_ref(v[0], v[1], q[0], q[1]))
            record(ctx, 'preserves_angle_' + pair, dev, inp3)
            S.predicate(ctx, PROPERTY, 'preserves_angle', dev <= TOL, inp3, {'dev_deg': dev}, klass)


def check_sep(ctx, a1, d1, a2, d2, klass):
    Angle, C = _mods()
    truth = S.sep_ref(a1, d1, a2, d2)
    inp = {'check': 'sep', 'args': [a1, d1, a2, d2], 'sep': truth,
           'polecap': min(90.0 - abs(d1), 90.0 - abs(d2))}
    v, out = call2(C, Angle, 'angular_separation', [a1, d1, a2, d2])
    tie(ctx, 'angular_separation', [a1, d1, a2, d2], out)
    w, outw = call2(C, Angle, 'angular_separation', [a2, d2, a1, d1])
    tie(ctx, 'angular_separation', [a2, d2, a1, d1], outw)
    S.predicate(ctx, PROPERTY, 'no_exception_sep', v is not None and w is not None, inp, [out, outw], klass)
    if v is not None and w is not None:
        dev = abs(v[0] - truth)
        record(ctx, 'angular_separation', dev, inp)
        S.predicate(ctx, PROPERTY, 'separation_value', dev <= TOL, inp, {'impl': v[0], 'dot_cross': truth, 'dev_deg': dev}, klass)
        S.predicate(ctx, PROPERTY, 'separation_symmetric', abs(v[0] - w[0]) <= TOL, inp, {'s12': v[0], 's21': w[0]}, klass)
        S.predicate(ctx, PROPERTY, 'separation_range', 0.0 <= v[0] <= 180.0, inp, v[0], klass)
    # position angle of body 1 relative to body 2
    p, outp = call2(C, Angle, 'relative_position_angle', [a1, d1, a2, d2])
    tie(ctx, 'relative_position_angle', [a1, d1, a2, d2], outp)
    q, outq = call2(C, Angle, 'relative_position_angle', [a2, d2, a1, d1])
    tie(ctx, 'relative_position_angle', [a2, d2, a1, d1], outq)
    m, outm = call2(C, Angle, 'relative_position_angle', [a2, d1, a1, d2])
    tie(ctx, 'relative_position_angle', [a2, d1, a1, d2], outm)
    S.predicate(ctx, PROPERTY, 'no_exception_pa', None not in (p, q, m), inp, [outp, outq, outm], klass)
    if None in (p, q, m):
        return
    if abs(d1) < 90.0 and abs(d2) < 90.0:
        ref = S.pa_ref(a1, d1, a2, d2)
        dev = S.angdiff(p[0], ref)
        if 0.1 <= truth <= 179.9:
            # a second, plainly vectorial evaluation (east and north unit vectors at body 2), well conditioned here
            l2, b2 = math.radians(a2), math.radians(d2)
            u1 = S.dirv(a1, d1)
            north = (-math.sin(b2) * math.cos(l2), -math.sin(b2) * math.sin(l2), math.cos(b2))
            east = (-math.sin(l2), math.cos(l2), 0.0)
            vec = math.degrees(math.atan2(S.dot(u1, east), S.dot(u1, north)))
            dv = S.angdiff(p[0], vec)
            ctx.deviation('relative_position_angle_vs_vectors', dv if abs(d2) < 89.9 else 0.0)
            S.predicate(ctx, PROPERTY, 'position_angle_vs_vectors', dv <= TOL or abs(d2) >= 89.9, inp,
                        {'impl': p[0], 'vectors': vec, 'dev_deg': dv}, klass)
        record(ctx, 'relative_position_angle', dev, inp)
        S.predicate(ctx, PROPERTY, 'position_angle_value', dev <= TOL, inp, {'impl': p[0], 'cross_dot': ref, 'dev_deg': dev}, klass)
        # antisymmetry, in the two senses that are true: exchanging the right ascensions negates the
        # angle exactly; exchanging the bodies gives an angle of the opposite sign.
        S.predicate(ctx, PROPERTY, 'position_angle_mirror', p[0] == -m[0] or (abs(p[0]) == 180.0 and abs(m[0]) == 180.0), inp,
                      {'p': p[0], 'mirror': m[0]}, klass)
        S.predicate(ctx, PROPERTY, 'position_angle_opposite_sign', p[0] * q[0] <= 0.0 or (abs(p[0]) == 180.0 or abs(q[0]) == 180.0),
                      inp, {'p12': p[0], 'p21': q[0]}, klass)
    S.predicate(ctx, PROPERTY, 'position_angle_range', -180.0 <= p[0] <= 180.0, inp, p[0], klass)


def check_circle(ctx, pts, klass):
    Angle, C = _mods()
    args = [x for p in pts for x in p]
    s = [S.sep_ref(*pts[0], *pts[1]), S.sep_ref(*pts[0], *pts[2]), S.sep_ref(*pts[1], *pts[2])]
    a = max(s)
    inp = {'check': 'circle', 'args': args, 'sep': min(s), 'maxsep': a,
           'polecap': min(90.0 - abs(p[1]) for p in pts)}
    v, out = call2(C, Angle, 'circle_diameter', args)
    tie(ctx, 'circle_diameter', args, out)
    S.predicate(ctx, PROPERTY, 'no_exception_circle', v is not None, inp, out, klass)
    if v is None:
        return
    slack = TOL + 1e-9 * a
    S.predicate(ctx, PROPERTY, 'circle_lower_bound', v[0] >= a - slack, inp, {'d': v[0], 'max_sep': a}, klass)
    S.predicate(ctx, PROPERTY, 'circle_upper_bound', v[0] <= 2.0 / math.sqrt(3.0) * a + slack, inp,
                  {'d': v[0], 'max_sep': a, 'bound': 2.0 / math.sqrt(3.0) * a}, klass)
    # permuting the three bodies does not change the circle
    perm = [x for p in (pts[2], pts[0], pts[1]) for x in p]
    w, outw = call2(C, Angle, 'circle_diameter', perm)
    tie(ctx, 'circle_diameter', perm, outw)
    if w is not None:
        S.predicate(ctx, PROPERTY, 'circle_symmetric', abs(w[0] - v[0]) <= slack, inp, {'d': v[0], 'd_perm': w[0]}, klass)


def check_line(ctx, pts, collinear, klass):
    Angle, C = _mods()
    args = [x for p in pts for x in p]
    inp = {'check': 'line', 'args': args, 'collinear': int(collinear)}
    v, out = call2(C, Angle, 'straight_line', args)
    tie(ctx, 'straight_line', args, out)
    if v is None:
        S.predicate(ctx, PROPERTY, 'straight_line_runs', not collinear, inp, out, klass)   # degenerate triples may raise
        return
    S.predicate(ctx, PROPERTY, 'straight_line_range', 0.0 <= v[0] <= 180.0 and -90.0 <= v[1] <= 90.0, inp, v, klass)
    if collinear:
        S.predicate(ctx, PROPERTY, 'straight_line_collinear', abs(v[1]) <= 1e-9 and min(v[0], 180.0 - v[0]) <= 1e-5, inp, v, klass)


def check_anchors(ctx):
    """Documented examples (Meeus 13.a and the galactic one of chapter 13)."""
    Angle, C = _mods()
    ctx.sample({'call': 'equatorial2ecliptical(Angle(7,45,18.946,ra=True), Angle(28,1,34.26), Angle(23.4392911))',
                'expected': '(113.215630, 6.684170)'})
    v, out = call2(C, Angle, 'equatorial2ecliptical', [116.328942, 28.026183, 23.4392911])
    S.predicate(ctx, PROPERTY, 'anchor_meeus_13a', v is not None and abs(v[0] - 113.215630) < 1e-5 and abs(v[1] - 6.684170) < 1e-5,
                  {'check': 'anchor'}, out)
    v, out = call2(C, Angle, 'equatorial2galactic', [Angle(17, 48, 59.74, ra=True)(), Angle(-14, 43, 8.2)()])
    S.predicate(ctx, PROPERTY, 'anchor_meeus_13_galactic', v is not None and abs(v[0] - 12.9593) < 1e-4 and abs(v[1] - 6.0463) < 1e-4,
                  {'check': 'anchor'}, out)


# ------------------------------------------------------------------ generators
NEAR = [0.0, 1e-9, 1e-7, 1e-5, 1e-4, 5e-4, 1e-3, 3e-3, 1e-2, 0.1, 1.0]
SEAM = [0.0, 359.9999999, 1e-12, 360.0 - 1e-9, 180.0, 90.0, 270.0, 1e-7, 359.99999999999994, -1e-20, -1e-300]


def special_dir(rng, pair, direction, par):
    """A boundary direction: a pole, a cap around it, the pole of the other frame, the equator, the seam."""
    r = rng.random()
    if r < 0.25:
        return rng.uniform(0, 360), rng.choice([-1, 1]) * (90.0 - rng.choice(NEAR)), 'pole'
    if r < 0.45:
        # image of the target frame's pole (and caps around it): target latitude +-90
        m = matrix(pair, direction, par)
        sgn = rng.choice([-1, 1])
        pole = S.lonlat(tuple(sgn * x for x in m[2]))
        lon, lat = S.offset(pole[0], pole[1], rng.choice(NEAR), rng.uniform(0, 360))
        return lon, lat, 'target_pole'
    if r < 0.6:
        return rng.uniform(0, 360), 0.0, 'equator'
    if r < 0.85:
        return rng.choice(SEAM), S.uniform_dir(rng)[1], 'seam'
    lon, lat = S.uniform_dir(rng)
    return float(round(lon)) % 360.0, float(round(lat)), 'integer_degrees'


def rand_par(rng, pair, boundary):
    if pair == 'ecl':
        return [rng.choice([0.0, 30.0, 23.44, 23.4392911, 1e-9])] if boundary else [rng.uniform(0.0, 30.0)]
    if pair == 'hor':
        return [rng.choice([90.0, -90.0, 0.0, 89.999999, -89.999999, 45.0])] if boundary else [rng.uniform(-90.0, 90.0)]
    return []


def gen_pair(rng):
    """Two directions a chosen separation apart (log-uniform 1e-7 .. 179.999 and the ends)."""
    r = rng.random()
    if r < 0.5:
        dist = 10.0 ** rng.uniform(-7.0, math.log10(179.999))
    elif r < 0.7:
        dist = 180.0 - 10.0 ** rng.uniform(-3.0, 1.0)
    elif r < 0.85:
        dist = rng.choice([1e-7, 1e-6, 1e-5, 1e-4, 1e-3, 1e-2, 0.1, 1.0, 90.0, 179.0, 179.9, 179.99, 179.999])
    else:
        dist = rng.uniform(0.0, 180.0)
    lon, lat = S.uniform_dir(rng)
    k = 'uniform'
    r = rng.random()
    if r < 0.1:
        lat = rng.choice([-1, 1]) * (90.0 - rng.choice([0.0, 1e-6, 1e-3, 0.1, 1.0, 5.0])); k = 'pole'
    elif r < 0.2:
        lat = 0.0; k = 'equator'
    elif r < 0.35:
        lon = rng.choice(SEAM); k = 'seam'
    lon2, lat2 = S.offset(lon, lat, dist, rng.uniform(0.0, 360.0))
    kd = 'sep<1e-3' if dist < 1e-3 else ('sep>179.9' if dist > 179.9 else 'sep_mid')
    return lon, lat, lon2, lat2, k + '/' + kd


def generate(ctx, shard=0, nshards=1):
    Angle, C = _mods()
    rng = ctx.rng
    hot = [v for v in ctx.hot['floats'] if abs(v) < 360.0] + [float(v) for v in ctx.hot['ints'] if abs(v) < 360]

    if shard == 0:
        # Angle helpers of the model against the real Angle class
        vals = [0.0, -0.0, 1e-20, -1e-20, 359.9999999, -359.9999999, 360.0, -360.0, 720.5, -725.25, 1234.5678,
                180.0, -180.0, 90.0, 483.1, 1e6 + 0.5, -1e6 - 0.25, 59.99999, 60.0, 3600.0, 3599.9999, 1296000.0,
                1295999.99, 1295999.9999999998, -1295999.9999999998, 1295999.9999999995, 2591999.9999999995, -61.5, 2306.2181, 12345.678, 2e6, 4.2e9] + hot
        for x in vals + [rng.uniform(-2000, 2000) for _ in range(300)] + [rng.uniform(-2e6, 2e6) for _ in range(300)]:
            tie(ctx, 'a_reduce', [x], run_impl(lambda: Angle.reduce_deg(x)), 'angle_helpers', raw=True)
            tie(ctx, 'a_of_sec', [x], run_impl(lambda: Angle(0, 0, x)()), 'angle_helpers', raw=True)
            tie(ctx, 'a_of_rad', [x / 57.0], run_impl(lambda: Angle(x / 57.0, radians=True)()), 'angle_helpers', raw=True)
            y = Angle(x)()
            tie(ctx, 'a_to_positive', [y], run_impl(lambda: Angle(y).to_positive()()), 'angle_helpers', raw=True)
            z = Angle(rng.uniform(-360, 360))()
            tie(ctx, 'a_add', [y, z], run_impl(lambda: (Angle(y) + Angle(z))()), 'angle_helpers', raw=True)
            tie(ctx, 'a_sub', [y, z], run_impl(lambda: (Angle(y) - Angle(z))()), 'angle_helpers', raw=True)
            tie(ctx, 'a_mul', [y, z], run_impl(lambda: (Angle(y) * z)()), 'angle_helpers', raw=True)
        check_anchors(ctx)
        # exact poles and the cardinal grid, every pair, both directions
        for pair in PAIRS:
            for direction in (0, 1):
                for par in ([[0.0], [23.44], [30.0]] if pair == 'ecl' else
                            [[90.0], [-90.0], [0.0], [40.0]] if pair == 'hor' else [[]]):
                    for lat in (90.0, -90.0, 0.0, 45.0, -45.0):
                        for lon in (0.0, 90.0, 180.0, 270.0, 359.9999999):
                            check_conv(ctx, pair, direction, lon, lat, par, 'grid')

    n = ctx.n(40000, 2000000) // nshards
    for i in range(n):
        for pair in PAIRS:
            direction = rng.randint(0, 1)
            boundary = rng.random() < 0.4
            par = rand_par(rng, pair, rng.random() < 0.3)
            if hot and rng.random() < 0.2:
                par = [rng.choice(hot)] if par else par
            if boundary:
                lon, lat, k = special_dir(rng, pair, direction, par)
            else:
                (lon, lat), k = S.uniform_dir(rng), 'uniform'
            if hot and rng.random() < 0.1:
                lon = rng.choice(hot) % 360.0
            lon2, lat2 = S.uniform_dir(rng)
            check_conv(ctx, pair, direction, lon, lat, par, pair + '/' + k, lon2, lat2)
    m = ctx.n(50000, 2500000) // nshards
    for i in range(m):
        a1, d1, a2, d2, k = gen_pair(rng)
        check_sep(ctx, a1, d1, a2, d2, k)
    c = ctx.n(16000, 800000) // nshards
    for i in range(c):
        lon, lat = S.uniform_dir(rng)
        if rng.random() < 0.2:
            lon = rng.choice(SEAM)
        scale = 10.0 ** rng.uniform(-2.0, 1.0)
        pts = [S.offset(lon, lat, scale * rng.uniform(0.05, 1.0), rng.uniform(0, 360)) for _ in range(3)]
        if rng.random() < 0.15:
            # nearly right-angled / nearly equilateral triangles (the branch `a >= sqrt(b*b + c*c)`)
            b0 = rng.uniform(0, 360)
            pts = [(lon, lat), S.offset(lon, lat, scale, b0),
                   S.offset(lon, lat, scale * rng.choice([1.0, 0.5, 1.0 + 1e-9]), b0 + rng.choice([90.0, 60.0, 89.999999, 90.000001]))]
        check_circle(ctx, pts, 'circle')
        # straight_line: three bodies on one great circle, and a generic triple
        if i % 4 == 0:
            b0 = rng.uniform(0, 360)
            line = [S.offset(lon, lat, t, b0) for t in sorted(rng.uniform(1.0, 60.0) for _ in range(3))]
            check_line(ctx, line, True, 'collinear')
            check_line(ctx, [S.uniform_dir(rng) for _ in range(3)], False, 'generic')


def replay(case):
    import core
    ctx = core.Ctx(PROPERTY, 'quick', 0)
    inp = case.get('input') or {}
    kind = inp.get('check')
    a = inp.get('args', [])
    if kind == 'anchor':
        check_anchors(ctx)
    elif kind == 'conv':
        sec = inp.get('second') or [None, None]
        check_conv(ctx, inp['pair'], inp['dir'], a[0], a[1], a[2:], 'replay', sec[0], sec[1])
    elif kind == 'sep':
        check_sep(ctx, a[0], a[1], a[2], a[3], 'replay')
    elif kind == 'circle':
        check_circle(ctx, [(a[0], a[1]), (a[2], a[3]), (a[4], a[5])], 'replay')
    elif kind == 'line':
        check_line(ctx, [(a[0], a[1]), (a[2], a[3]), (a[4], a[5])], inp.get('collinear', False), 'replay')
    fails = [f for f in ctx.pred_fail if f['predicate'] == case.get('predicate')] or ctx.pred_fail
    return (len(fails) > 0, fails)


known_match = S.known_match
