"""C19 — Easter, Pesach and Moslem-calendar conversions follow their calendar rules.

(S) structural tie: GenF (bit for bit) and GenQ (exact) `easter`, `jewish_pesach`,
    `moslem2gregorian`, `gregorian2moslem`, `relig_dow_ymd`, `relig_doy2date_julian` against
    pymeeus.Epoch.  Every output is an integer (or an integral float), so the comparison is exact.
(I) the clauses of the property evaluated on the implementation against oracles written from the
    calendar definitions, not from Meeus' formulas:
      * the civil day count (Julian / Gregorian leap rules, 1582 reform),
      * the tabular Computus (golden number, epact with solar and lunar equation and the two
        exceptions, paschal full moon = 14th day of the paschal lunation, next Sunday),
      * the arithmetic Hebrew calendar (molad in parts, four dehiyyot, month lengths),
      * the tabular Islamic calendar (30-year cycle, leap years 2,5,7,10,13,16,18,21,24,26,29).
"""
from core import run_impl, enc

PROPERTY = 'C19'
FUNCTIONS = ['pymeeus/Epoch.py:Epoch.easter', 'pymeeus/Epoch.py:Epoch.jewish_pesach',
             'pymeeus/Epoch.py:Epoch.moslem2gregorian', 'pymeeus/Epoch.py:Epoch.gregorian2moslem',
             'pymeeus/Epoch.py:Epoch.dow', 'pymeeus/Epoch.py:Epoch.doy2date',
             'pymeeus/Epoch.py:Epoch.is_leap', 'pymeeus/Epoch.py:Epoch.is_julian',
             'pymeeus/Epoch.py:Epoch._compute_jde', 'pymeeus/base.py:iint']

MANIFEST = dict(
    text=("Lean 4 theorems (Props/C19.lean) about the exact-arithmetic model of Epoch.easter, jewish_pesach, "
          "moslem2gregorian, gregorian2moslem (with dow and the Julian branch of doy2date). Easter: for EVERY integer "
          "year (>= -4712 for the calendar clause, no upper bound) the result equals the tabular Computus (golden "
          "number, Dionysius' table / epact with solar and lunar equation and both exceptions, paschal full moon, "
          "next Sunday), is a civil date between 22 March and 25 April and dow() of its Epoch is 0. Pesach: for every "
          "year 1..3000 the result is 15 Nisan of the arithmetic Hebrew calendar (molad in parts, four postponements, "
          "Rosh Hashanah(next) - 163) and a Sun/Tue/Thu/Sat (integer shadow proved equal to the model for all years, "
          "evaluated by the kernel on the 3000 years). Moslem: for EVERY date of the tabular Islamic calendar (all "
          "years >= 1) and EVERY civil date from 622-07-16 (no upper bound) both directions return the date with the "
          "same day number (epoch 16 July 622 Julian = JDN 1948440), both round trips are identities, consecutive "
          "Moslem dates are consecutive civil days, months have 30/29 and years 354/355 days, and the two while loops "
          "of gregorian2moslem (modelled with loopFuel, fuel 8) terminate for every argument (at most 2 + 1 rounds). "
          "Second layer: Easter repeats after 532 (Julian) resp. 5 700 000 (Gregorian) years; both Moslem functions raise "
          "ValueError exactly on the stated range test and are total otherwise (moslem2gregorian on day 30 of a 29-day "
          "month returns the first day of the next month); the three-times-written leap test equals the tabular year "
          "length for every year; with float arguments the result depends on the integer parts only (easter truncates, "
          "the others floor) while the range tests see the fraction; boundary anchors for the Easter exception step, the "
          "fourth Pesach rule, civil day-of-year 0 / 366 and the 1582 reform. "
          "The model is tied to /repo by running its binary64 and exact instantiations against the real code bit for "
          "bit, and the Lean specifications are run against independent Python oracles; the property's clauses are "
          "evaluated on the real code against those oracles: every Easter year -4712..10000 and every Pesach year "
          "1..3000 in both tiers, every date of AH 1..2500 and every civil date 622-07-16..3000 in thorough (a third "
          "of them, with every cycle boundary and the 1582/1583 neighbourhood, in quick)."),
    note=("Trusted: Lean kernel, Mathlib, axioms propext/Classical.choice/Quot.sound; the hand-written model "
          "(lean/templates/EpochRelig.lean, EpochCore.lean) and its correspondence run; the specs Spec/Computus, "
          "Spec/Hebrew, Spec/Islamic, Spec/Civil (short, written from the calendar definitions, cross-checked against "
          "the Python oracles by the spec/* cases). Arguments are Python ints (float arguments are floored by the "
          "code first). All quantities are integers well below 2^53 except Pesach's q, whose binary64 value is "
          "compared bit for bit with the F model and whose integer outcome is compared with the exact model on every "
          "year of the quantifier; moslem2gregorian returns a float day (16.0) on its Julian branch, which the "
          "property does not forbid and the model reproduces."),
    technique="Lean 4 proof (staged omega, chunked kernel evaluation) + model/implementation correspondence check",
    ref='6 C19')

TRUSTED = ['independent Python oracles of harness/c19.py (civil day count, tabular Computus, Hebrew molad arithmetic, '
           'tabular Islamic calendar) used only by the (I) predicates']
ASSUMPTIONS = ['arguments are ints; years for Pesach restricted to 1..3000 and Moslem dates to AH 1..2500 / civil '
               '622-07-16..3000-12-31 in (I), as the property quantifies']
RULE = ('distinct (model function, argument tuple) pairs sent to the model and to the implementation; the case classes '
        'spec/* compare the Lean specifications with the Python oracles instead (no implementation involved)')

E_YMIN, E_YMAX = -4712, 10000
P_YMIN, P_YMAX = 1, 3000
H_MIN, H_MAX = 1, 2500
G_FIRST, G_YMAX = (622, 7, 16), 3000
MLEN = [31, 28, 31, 30, 31, 30, 31, 31, 30, 31, 30, 31]


# ------------------------------------------------------------------ civil calendar oracle
def civ_is_julian(y, m, d):
    return (y, m, d) < (1582, 10, 15)


def civ_leap(y):
    """leap year of the calendar in force in February of year y"""
    if y <= 1582:
        return y % 4 == 0
    return y % 4 == 0 and (y % 100 != 0 or y % 400 == 0)


def civ_mlen(y, m):
    return 29 if (m == 2 and civ_leap(y)) else MLEN[m - 1]


def civ_valid(y, m, d):
    if not (isinstance(y, int) and isinstance(m, int)) or d != int(d):
        return False
    if y < -4712 or not (1 <= m <= 12) or not (1 <= d <= civ_mlen(y, m)):
        return False
    return not (y == 1582 and m == 10 and 5 <= d <= 14)


def civ_jdn(y, m, d):
    """Julian Day Number (the JD at noon) of a civil date, by counting days from the leap rules."""
    if civ_is_julian(y, m, d):
        yy = y + 4712                                   # years since -4712, a leap year
        n = 365 * yy + (yy + 3) // 4                    # JDN of 1 January (JDN 0 = -4712-01-01)
        leap = (y % 4 == 0)
    else:
        p = y - 1                                       # full Gregorian years since 0001-01-01 (JDN 1721426)
        n = 1721426 + 365 * p + p // 4 - p // 100 + p // 400
        leap = y % 4 == 0 and (y % 100 != 0 or y % 400 == 0)
    for mm in range(1, m):
        n += 29 if (mm == 2 and leap) else MLEN[mm - 1]
    return n + d - 1


def civ_next(y, m, d):
    if (y, m, d) == (1582, 10, 4):
        return (1582, 10, 15)
    if d < civ_mlen(y, m):
        return (y, m, d + 1)
    if m < 12:
        return (y, m + 1, 1)
    return (y + 1, 1, 1)


def weekday(jdn):
    """0 = Sunday (JDN 0 was a Monday)."""
    return (jdn + 1) % 7


# ------------------------------------------------------------------ tabular Computus
# Julian calendar: the paschal full moon of golden number 1..19 (Dionysius' table), as day of March
JUL_PFM = [36, 25, 44, 33, 22, 41, 30, 49, 38, 27, 46, 35, 24, 43, 32, 21, 40, 29, 48]


def computus(y):
    g = y % 19 + 1                                      # golden number
    if y <= 1582:
        n = JUL_PFM[g - 1]
    else:
        solar = y // 100 - y // 400 - 12                # century years since 1600 that dropped their leap day
        lunar = (8 * (y // 100 + 1) + 5) // 25 - 5      # lunar equation: 8 times in 2500 years (1800, 2100, ...)
        e = (11 * g + 20 + lunar - solar) % 30          # epact
        if e == 24 or (e == 25 and g > 11):
            e += 1
        # paschal new moon: the day labelled with the epact, 8 March .. 5 April; full moon 13 days later
        n = 44 - e
        if n < 21:
            n += 30
    j = civ_jdn(y, 3, n) if n <= 31 else civ_jdn(y, 4, n - 31)
    n += 7 - weekday(j)                                 # the Sunday strictly after the paschal full moon
    return (3, n) if n <= 31 else (4, n - 31)


# ------------------------------------------------------------------ arithmetic Hebrew calendar
def heb_leap(h):
    return (7 * h + 1) % 19 < 7


def heb_rh(h):
    """JDN of 1 Tishri AM h (Rosh Hashanah)."""
    months = (235 * h - 234) // 19                      # lunations from molad Tishri AM 1 to molad Tishri AM h
    parts = 31524 + 765433 * months                     # molad AM 1 = 1d 5h 204p; lunation 29d 12h 793p
    day, p = divmod(parts, 25920)
    wd = day % 7                                        # 0 = Sunday
    if p >= 19440:                                      # molad zaken: at or after noon (18h)
        day += 1
    elif wd == 2 and p >= 9924 and not heb_leap(h):     # GaTaRaD: Tuesday 9h 204p, common year
        day += 2
    elif wd == 1 and p >= 16789 and heb_leap(h - 1):    # BeTUTeKaPoT: Monday 15h 589p after a leap year
        day += 1
    if day % 7 in (0, 3, 5):                            # lo ADU rosh
        day += 1
    return 347997 + day


def heb_nisan15_by_months(h):
    """15 Nisan AM h from Rosh Hashanah AM h and the month lengths of year h."""
    ylen = heb_rh(h + 1) - heb_rh(h)
    leap = heb_leap(h)
    base = ylen - (30 if leap else 0)                   # 353 deficient, 354 regular, 355 complete
    hesh = 30 if base == 355 else 29
    kis = 29 if base == 353 else 30
    return heb_rh(h) + 30 + hesh + kis + 29 + 30 + (30 if leap else 0) + 29 + 14


# ------------------------------------------------------------------ tabular Islamic calendar
ISL_LEAP = (2, 5, 7, 10, 13, 16, 18, 21, 24, 26, 29)
ISL_EPOCH = 1948440                                     # 16 July 622 (Julian) = 1 Muharram AH 1


def isl_leap(h):
    return (h % 30) in ISL_LEAP


def isl_mlen(h, m):
    return 30 if (m % 2 == 1 or (m == 12 and isl_leap(h))) else 29


def isl_jdn(h, m, d):
    """the formula of the property text"""
    return d + (59 * (m - 1) + 1) // 2 + 354 * (h - 1) + (3 + 11 * h) // 30 + 1948439


def isl_next(h, m, d):
    if d < isl_mlen(h, m):
        return (h, m, d + 1)
    if m < 12:
        return (h, m + 1, 1)
    return (h + 1, 1, 1)


def isl_from_jdn(j):
    """inverse by counting years and months from the epoch"""
    n = j - ISL_EPOCH
    cyc, rem = divmod(n, 10631)
    h = 30 * cyc + 1
    while True:
        L = 355 if isl_leap(h) else 354
        if rem < L:
            break
        rem -= L
        h += 1
    m = 1
    while rem >= isl_mlen(h, m):
        rem -= isl_mlen(h, m)
        m += 1
    return (h, m, rem + 1)


def isl_civil_by_counting(h, m, d):
    """civil date of an Islamic date by counting whole years and months from the epoch (for the spec tie)"""
    n = ISL_EPOCH
    cyc, yy = divmod(h - 1, 30)
    n += 10631 * cyc
    for k in range(1, yy + 1):
        n += 355 if (k % 30) in ISL_LEAP else 354
    for mm in range(1, m):
        n += isl_mlen(h, mm)
    n += d - 1
    return _civ_from_jdn(n)


def _civ_from_jdn(j):
    """civil date of a day number, by search on civ_jdn"""
    y = max(min((j - 1721058) // 366, (j - 1721058) // 365) - 1, -4712)   # 1721058 = JDN of 0000-01-01 (Julian): a lower bound
    while civ_jdn(y + 1, 1, 1) <= j:
        y += 1
    m = 1
    while m < 12 and civ_jdn(y, m + 1, 1) <= j:
        m += 1
    d = j - civ_jdn(y, m, 1) + 1
    if (y, m) == (1582, 10) and d > 4:
        d += 10
    return (y, m, d)


def _selfcheck():
    import datetime
    for (y, m, d) in ((1582, 10, 15), (2000, 1, 1), (9999, 12, 31), (1600, 2, 29)):
        assert civ_jdn(y, m, d) == datetime.date(y, m, d).toordinal() + 1721425
    assert civ_jdn(-4712, 1, 1) == 0 and civ_jdn(1582, 10, 4) == 2299160 and civ_jdn(1582, 10, 15) == 2299161
    assert civ_jdn(622, 7, 16) == ISL_EPOCH == isl_jdn(1, 1, 1)
    assert civ_jdn(2023, 9, 16) == heb_rh(5784) and civ_jdn(2024, 4, 23) == heb_rh(5785) - 163
    assert all(heb_nisan15_by_months(h) == heb_rh(h + 1) - 163 for h in range(3700, 6800, 7))
    assert computus(2000) == (4, 23) and computus(1981) == (4, 19) and computus(1954) == (4, 18)
    assert isl_from_jdn(isl_jdn(1421, 12, 29)) == (1421, 12, 29)
    assert _civ_from_jdn(2299160) == (1582, 10, 4) and _civ_from_jdn(2299161) == (1582, 10, 15)
    assert _civ_from_jdn(2451545) == (2000, 1, 1) and _civ_from_jdn(0) == (-4712, 1, 1)
    assert isl_civil_by_counting(1421, 1, 1) == (2000, 4, 6) and isl_civil_by_counting(1, 1, 1) == (622, 7, 16)


_selfcheck()


# ------------------------------------------------------------------ checks
def impl_dow(Epoch, y, m, d):
    return run_impl(lambda: Epoch(y, m, d).dow())


def check_easter(ctx, Epoch, y, klass='easter'):
    inp = ['easter', y]
    out = run_impl(lambda: Epoch.easter(y))
    ctx.case('easter', [y], out, q='exact', klass=klass)
    try:
        r = Epoch.easter(y)
        m, d = r
        ok_t = type(m) is int and type(d) is int
    except Exception as ex:  # noqa
        ctx.predicate('easter_returns_date', False, inp, repr(ex), klass)
        return
    ctx.predicate('easter_returns_date', ok_t and civ_valid(y, m, d), inp, out, klass)
    if not (ok_t and civ_valid(y, m, d)):
        return
    ctx.predicate('easter_22mar_25apr', (3, 22) <= (m, d) <= (4, 25), inp, out, klass)
    j = civ_jdn(y, m, d)
    dw = impl_dow(Epoch, y, m, d)
    ctx.predicate('easter_is_sunday', weekday(j) == 0 and dw == '0', inp, {'easter': out, 'weekday': weekday(j), 'dow()': dw}, klass)
    ctx.predicate('easter_equals_tabular_computus', (m, d) == computus(y), inp, {'easter': out, 'computus': list(computus(y))}, klass)
    ctx.case('relig_dow_ymd', [y, m, d], dw, q='exact', klass='dow')
    # the Lean specification against the Python oracle (no implementation involved)
    ctx.case('spec_easter', [y], enc(computus(y)), q='exact', klass='spec/computus', f=False)


def check_pesach(ctx, Epoch, y, klass='pesach'):
    inp = ['pesach', y]
    out = run_impl(lambda: Epoch.jewish_pesach(y))
    ctx.case('jewish_pesach', [y], out, q='exact', klass=klass)
    try:
        m, d = Epoch.jewish_pesach(y)
        ok_t = type(m) is int and type(d) is int
    except Exception as ex:  # noqa
        ctx.predicate('pesach_returns_date', False, inp, repr(ex), klass)
        return
    ctx.predicate('pesach_returns_date', ok_t and civ_valid(y, m, d), inp, out, klass)
    if not (ok_t and civ_valid(y, m, d)):
        return
    j = civ_jdn(y, m, d)
    dw = impl_dow(Epoch, y, m, d)
    ctx.predicate('pesach_weekday_sun_tue_thu_sat', weekday(j) in (0, 2, 4, 6) and dw == str(weekday(j)), inp,
                  {'pesach': out, 'weekday': weekday(j), 'dow()': dw}, klass)
    h = y + 3760
    ctx.predicate('pesach_163_days_before_rosh_hashanah', j == heb_rh(h + 1) - 163, inp,
                  {'pesach': out, 'jdn': j, 'rh_next_minus_163': heb_rh(h + 1) - 163}, klass)
    ctx.predicate('pesach_is_15_nisan', j == heb_nisan15_by_months(h), inp,
                  {'pesach': out, 'jdn': j, 'nisan15': heb_nisan15_by_months(h)}, klass)
    ctx.case('relig_dow_ymd', [y, m, d], dw, q='exact', klass='dow')
    ctx.case('spec_nisan15', [h], enc(heb_nisan15_by_months(h)), q='exact', klass='spec/hebrew', f=False)
    ctx.case('spec_rosh_hashanah', [h + 1], enc(heb_rh(h + 1)), q='exact', klass='spec/hebrew', f=False)


def _m2g(Epoch, h, m, d):
    """(civil tuple with int day | None, canonical output)"""
    out = run_impl(lambda: Epoch.moslem2gregorian(h, m, d))
    try:
        r = Epoch.moslem2gregorian(h, m, d)
        if len(r) == 3 and type(r[0]) is int and type(r[1]) is int and r[2] == int(r[2]):
            return (r[0], r[1], int(r[2])), out
    except Exception:  # noqa
        pass
    return None, out


def check_hijri(ctx, Epoch, h, m, d, klass='hijri', tie=True):
    """all Moslem clauses at one valid date of the Moslem calendar"""
    inp = ['m2g', h, m, d]
    civ, out = _m2g(Epoch, h, m, d)
    if tie:
        ctx.case('moslem2gregorian', [h, m, d], out, q='exact', klass='m2g/' + klass)
        if klass != 'day':
            ctx.case('spec_islamic_jdn', [h, m, d], enc(civ_jdn(*isl_civil_by_counting(h, m, d))), q='exact',
                     klass='spec/islamic', f=False)
            ctx.case('spec_islamic_next', [h, m, d], enc(isl_next(h, m, d)), q='exact', klass='spec/islamic', f=False)
            ctx.case('spec_islamic_valid', [h, m, d + 1], enc(d + 1 <= isl_mlen(h, m)), q='exact', klass='spec/islamic', f=False)
    ok = civ is not None and civ_valid(*civ)
    ctx.predicate('m2g_returns_civil_date', ok, inp, out, klass)
    if not ok:
        return
    j = civ_jdn(*civ)
    ctx.predicate('m2g_agrees_with_tabular_calendar', j == isl_jdn(h, m, d), inp,
                  {'civil': list(civ), 'jdn': j, 'tabular_jdn': isl_jdn(h, m, d)}, klass)
    back = run_impl(lambda: Epoch.gregorian2moslem(*civ))
    ctx.predicate('moslem_civil_moslem_roundtrip', back == enc((h, m, d)), inp, {'civil': list(civ), 'back': back}, klass)
    if tie:
        ctx.case('gregorian2moslem', list(civ), back, q='exact', klass='g2m/' + klass)
    nh, nm, nd = isl_next(h, m, d)
    civ2, out2 = _m2g(Epoch, nh, nm, nd)
    ctx.predicate('consecutive_moslem_dates_consecutive_days', civ2 == civ_next(*civ), inp,
                  {'civil': list(civ), 'next_moslem': [nh, nm, nd], 'its_civil': out2}, klass)


def check_hijri_month(ctx, Epoch, h, m, klass='month'):
    """month length 30/29 (and year length 354/355 for m == 12) as the implementation sees them"""
    inp = ['mlen', h, m]
    a, _ = _m2g(Epoch, h, m, 1)
    nh, nm = (h, m + 1) if m < 12 else (h + 1, 1)
    b, _ = _m2g(Epoch, nh, nm, 1)
    if a is None or b is None or not civ_valid(*a) or not civ_valid(*b):
        ctx.predicate('month_has_30_or_29_days', False, inp, 'conversion failed', klass)
        return
    L = civ_jdn(*b) - civ_jdn(*a)
    ctx.predicate('month_has_30_or_29_days', L in (29, 30) and L == isl_mlen(h, m), inp, {'length': L}, klass)
    # the last day of the month, seen from the civil side
    y0, m0, d0 = a
    jl = civ_jdn(*b) - 1
    last = run_impl(lambda: Epoch.gregorian2moslem(*_civ_from(b, jl)))
    ctx.predicate('last_day_of_month_is_29_or_30', last == enc((h, m, L)), inp, {'g2m(last day)': last, 'length': L}, klass)
    if m == 12:
        f, _ = _m2g(Epoch, h, 1, 1)
        if f is None or not civ_valid(*f):
            ctx.predicate('year_has_354_or_355_days', False, inp, 'conversion failed', klass)
        else:
            Y = civ_jdn(*b) - civ_jdn(*f)
            ctx.predicate('year_has_354_or_355_days', Y in (354, 355) and Y == (355 if isl_leap(h) else 354), inp, {'length': Y}, klass)


def _civ_prev(y, m, d):
    if (y, m, d) == (1582, 10, 15):
        return (1582, 10, 4)
    if d > 1:
        return (y, m, d - 1)
    if m > 1:
        return (y, m - 1, civ_mlen(y, m - 1))
    return (y - 1, 12, 31)


def _civ_from(b, jl):
    """the civil date one day before b (its JDN jl is only used as a cross-check)"""
    p = _civ_prev(*b)
    assert civ_jdn(*p) == jl
    return p


def check_civil(ctx, Epoch, y, m, d, klass='civil', tie=True):
    """the civil -> Moslem direction at one civil date on or after 622-07-16"""
    inp = ['g2m', y, m, d]
    out = run_impl(lambda: Epoch.gregorian2moslem(y, m, d))
    if tie:
        ctx.case('gregorian2moslem', [y, m, d], out, q='exact', klass='g2m/' + klass)
    exp = isl_from_jdn(civ_jdn(y, m, d))
    ctx.predicate('g2m_agrees_with_tabular_calendar', out == enc(exp), inp, {'g2m': out, 'tabular': list(exp)}, klass)
    civ, out2 = _m2g(Epoch, *exp)
    ctx.predicate('civil_moslem_civil_roundtrip', civ == (y, m, d), inp, {'moslem': list(exp), 'back': out2}, klass)


def check_malformed(ctx, Epoch):
    """error paths and inputs outside the property's domain: correspondence only"""
    for (h, m, d) in ((0, 1, 1), (1, 0, 1), (1, 13, 1), (1, 1, 0), (1, 1, 31), (-5, 3, 3), (1421, 2, 30), (1421, 12, 30),
                      (1420, 12, 30), (1, 12, 30), (2, 12, 30)):
        ctx.case('moslem2gregorian', [h, m, d], run_impl(lambda: Epoch.moslem2gregorian(h, m, d)), q='exact', klass='m2g/malformed')
    for (y, m, d) in ((2000, 0, 1), (2000, 13, 1), (2000, 1, 0), (2000, 1, 32), (-4713, 1, 1), (2000, 2, 31), (1582, 10, 10),
                      (622, 7, 15), (622, 7, 1), (600, 1, 1), (1, 1, 1), (-4712, 1, 1), (0, 2, 29), (1999, 2, 29)):
        ctx.case('gregorian2moslem', [y, m, d], run_impl(lambda: Epoch.gregorian2moslem(y, m, d)), q='exact', klass='g2m/malformed')
    check_float_args(ctx, Epoch)


def check_float_args(ctx, Epoch):
    """the four functions called with float arguments (models *_num): correspondence, exact binary fractions"""
    rng = ctx.rng
    fr = (0.0, 0.25, 0.5, 0.75, 0.999755859375)
    ys = [2000.7, -0.5, -1.0, -1.25, 0.0, 0.5, 1582.999755859375, 1583.0, 1583.5, -4712.0, -4711.5, 3165.5, 1990.25]
    ys += [rng.randint(-4712, 10000) + rng.choice(fr) for _ in range(60)]
    for y in ys:
        ctx.case('easter_num', [float(y)], run_impl(lambda: Epoch.easter(float(y))), q='exact', klass='float_args/easter')
    for y in ys:
        if 1 <= y < 3001:
            ctx.case('jewish_pesach_num', [float(y)], run_impl(lambda: Epoch.jewish_pesach(float(y))), q='exact',
                     klass='float_args/pesach')
    for y in (-0.5, -1.25, 0.5):
        ctx.case('jewish_pesach_num', [y], run_impl(lambda: Epoch.jewish_pesach(y)), q=None, klass='float_args/pesach')
    trip = [(1421.5, 1.25, 1.75), (1421.0, 1.0, 30.5), (1421.0, 1.0, 30.0), (1421.0, 12.5, 1.0), (1421.0, 12.0, 29.75),
            (0.999755859375, 1.0, 1.0), (1.0, 1.0, 0.999755859375), (1.5, 0.75, 1.0), (990.5, 9.5, 16.5), (556.25, 1.5, 1.5)]
    trip += [(rng.randint(1, 2500) + rng.choice(fr), rng.randint(1, 12) + rng.choice(fr), rng.randint(1, 30) + rng.choice(fr))
             for _ in range(60)]
    for (h, m, d) in trip:
        ctx.case('moslem2gregorian_num', [float(h), float(m), float(d)],
                 run_impl(lambda: Epoch.moslem2gregorian(float(h), float(m), float(d))), q='exact', klass='float_args/m2g')
    trip = [(1991.5, 8.5, 13.5), (1991.0, 12.5, 1.0), (1991.0, 1.0, 31.5), (1991.0, 1.0, 31.0), (1582.5, 10.5, 4.5),
            (1582.0, 10.0, 15.75), (-4712.0, 1.0, 1.0), (-4712.5, 1.0, 1.0), (622.5, 7.25, 16.25), (2000.0, 0.75, 1.0)]
    trip += [(rng.randint(622, 3000) + rng.choice(fr), rng.randint(1, 12) + rng.choice(fr), rng.randint(1, 28) + rng.choice(fr))
             for _ in range(60)]
    for (y, m, d) in trip:
        ctx.case('gregorian2moslem_num', [float(y), float(m), float(d)],
                 run_impl(lambda: Epoch.gregorian2moslem(float(y), float(m), float(d))), q='exact', klass='float_args/g2m')


def hijri_year(ctx, Epoch, h, full, tie=True):
    for m in range(1, 13):
        L = isl_mlen(h, m)
        days = range(1, L + 1) if full else sorted({1, 2, L - 1, L})
        for d in days:
            check_hijri(ctx, Epoch, h, m, d, 'month_end' if d in (1, L) else 'day', tie=tie)
        check_hijri_month(ctx, Epoch, h, m)


def civil_year(ctx, Epoch, y, full, tie=True):
    for m in range(1, 13):
        L = civ_mlen(y, m)
        days = range(1, L + 1) if full else sorted({1, 2, L - 1, L})
        for d in days:
            if civ_valid(y, m, d) and (y, m, d) >= G_FIRST:
                check_civil(ctx, Epoch, y, m, d, 'month_end' if d in (1, L) else 'day', tie=tie)


def generate(ctx, shard=0, nshards=1):
    from pymeeus.Epoch import Epoch
    rng = ctx.rng
    hot = [v for v in ctx.hot['ints']]
    thorough = (ctx.tier == 'thorough' and ctx.scale <= 1.0)

    # ---- Easter and Pesach: the whole quantified domain in both tiers (cheap)
    for y in range(E_YMIN + shard, E_YMAX + 1, nshards):
        check_easter(ctx, Epoch, y, 'easter_julian' if y < 1583 else 'easter_gregorian')
    for y in range(P_YMIN + shard, P_YMAX + 1, nshards):
        check_pesach(ctx, Epoch, y, 'pesach_julian' if y < 1583 else 'pesach_gregorian')
    # outside the Pesach quantifier: binary64 correspondence only
    for y in range(-4712 + shard, 10001, 7 * nshards):
        if not (P_YMIN <= y <= P_YMAX):
            ctx.case('jewish_pesach', [y], run_impl(lambda: Epoch.jewish_pesach(y)), q=None, klass='pesach_outside_1_3000')

    if shard == 0:
        check_malformed(ctx, Epoch)
        # the Julian branch of doy2date, as moslem2gregorian uses it
        for yy in (1582, 1581, 1580, 1500, 1000, 700, 623, 622, 4, 1, 0, -1, -4, -4712):
            for doy in list(range(1, 70)) + list(range(270, 292)) + list(range(300, 367)):
                if yy == 1582 and doy > 355:
                    continue
                ctx.case('relig_doy2date_julian', [yy, doy], run_impl(lambda: Epoch.doy2date(yy, doy)), q='exact', klass='doy2date')
        # weekday helper on its own
        for (y, m, d) in ((1582, 10, 4), (1582, 10, 15), (-4712, 1, 1), (2000, 1, 1), (1954, 6, 30), (2018, 2, 15), (622, 7, 16)):
            dw = impl_dow(Epoch, y, m, d)
            ctx.predicate('dow_is_weekday', dw == str(weekday(civ_jdn(y, m, d))), ['dow', y, m, d], dw, 'dow')
            ctx.case('relig_dow_ymd', [y, m, d], dw, q='exact', klass='dow')
        ctx.sample({'call': 'Epoch.easter(1943)', 'expected': [4, 25]})
        ctx.sample({'call': 'Epoch.jewish_pesach(2024)', 'expected': [4, 23]})
        ctx.sample({'call': 'Epoch.moslem2gregorian(1, 1, 1)', 'expected': [622, 7, 16]})
        ctx.sample({'call': 'Epoch.gregorian2moslem(1582, 10, 15)', 'expected': list(isl_from_jdn(2299161))})

    # ---- Moslem calendar
    if thorough:
        ctx.exhaustive = True
        for h in range(H_MIN + shard, H_MAX + 1, nshards):
            hijri_year(ctx, Epoch, h, True)
        for y in range(G_FIRST[0] + shard, G_YMAX + 1, nshards):
            civil_year(ctx, Epoch, y, True)
        return

    # quick (or escalated search): boundaries first, then a random sample
    if shard == 0:
        # the first 30-year cycle and the first Julian leap cycles, in full
        for h in list(range(1, 32)) + [989, 990, 991, 992, 1420, 1421, 2499, 2500]:
            hijri_year(ctx, Epoch, h, True)
        for y in (622, 623, 624, 625, 1581, 1582, 1583, 1584, 1600, 1700, 2000, 2999, 3000):
            civil_year(ctx, Epoch, y, True)
    hs = set()
    for c in range(shard, 84, nshards):            # every 30-year cycle boundary: years 30c-1 .. 30c+2
        for h in (30 * c - 1, 30 * c, 30 * c + 1, 30 * c + 2):
            if H_MIN <= h <= H_MAX:
                hs.add(h)
    for v in hot:
        for h in (v - 1, v, v + 1):
            if H_MIN <= h <= H_MAX and (h % nshards) == shard:
                hs.add(h)
    for h in sorted(hs):
        hijri_year(ctx, Epoch, h, False)
    ys = set()
    for y in range(700 + 100 * shard, G_YMAX + 1, 100 * nshards):   # century years and neighbours
        for yy in (y - 1, y, y + 1):
            if yy <= G_YMAX:
                ys.add(yy)
    for v in hot:
        for yy in (v - 1, v, v + 1):
            if G_FIRST[0] < yy <= G_YMAX and (yy % nshards) == shard:
                ys.add(yy)
    for y in sorted(ys):
        civil_year(ctx, Epoch, y, False)
    n = ctx.n(160000, 400000) // nshards
    for _ in range(n):
        h = rng.randint(H_MIN, H_MAX) if rng.random() < 0.8 else rng.choice([1, 2, 30, 31, 989, 990, 991, 1421, 2500])
        m = rng.randint(1, 12)
        L = isl_mlen(h, m)
        d = rng.choice((1, L, L - 1, 2)) if rng.random() < 0.4 else rng.randint(1, L)
        check_hijri(ctx, Epoch, h, m, d, 'random')
        if rng.random() < 0.1:
            check_hijri_month(ctx, Epoch, h, m)
    for _ in range(n):
        y = rng.randint(623, G_YMAX) if rng.random() < 0.85 else rng.choice([622, 623, 1582, 1583, 1600, 1700, 2000, 3000])
        m = rng.randint(1, 12)
        L = civ_mlen(y, m)
        d = rng.choice((1, L, L - 1, 2)) if rng.random() < 0.4 else rng.randint(1, L)
        if civ_valid(y, m, d) and (y, m, d) >= G_FIRST:
            check_civil(ctx, Epoch, y, m, d, 'random')


def replay(case):
    """Re-run one recorded failing case on the implementation; returns (still_fails, text)."""
    from pymeeus.Epoch import Epoch
    import core
    ctx = core.Ctx(PROPERTY, 'quick', 0)
    inp = case.get('input') or []
    kind = inp[0] if inp else None
    if kind == 'easter':
        check_easter(ctx, Epoch, inp[1])
    elif kind == 'pesach':
        check_pesach(ctx, Epoch, inp[1])
    elif kind == 'm2g':
        check_hijri(ctx, Epoch, inp[1], inp[2], inp[3])
    elif kind == 'mlen':
        check_hijri_month(ctx, Epoch, inp[1], inp[2])
    elif kind == 'g2m':
        check_civil(ctx, Epoch, inp[1], inp[2], inp[3])
    elif kind == 'dow':
        dw = impl_dow(Epoch, inp[1], inp[2], inp[3])
        ctx.predicate('dow_is_weekday', dw == str(weekday(civ_jdn(inp[1], inp[2], inp[3]))), inp, dw)
    return (len(ctx.pred_fail) > 0, ctx.pred_fail)
