"""C02 — instants survive JDE <-> date/time; input forms agree; Epoch arithmetic.

(S) structural tie: GenF (bit for bit) / GenQ (exact on integers, within the property's tolerance
    on floats) `get_full_date`, the `Epoch.set` dispatch (`set_*`, `reset_*`), `check_input_date`
    (`cid_*`), `+ - += -= radd`, the six comparisons against a number and an Epoch, `__int__`,
    `__float__`, against pymeeus.Epoch.
(I) predicates of every clause of the property on the implementation, with the tolerances the
    property states, against an oracle that shares nothing with Meeus' recipes (direct day counts).
"""
import datetime
import math
from fractions import Fraction

from core import run_impl, enc

PROPERTY = 'C02'
FUNCTIONS = ['pymeeus/Epoch.py:Epoch.get_full_date', 'pymeeus/Epoch.py:Epoch.get_date',
             'pymeeus/Epoch.py:Epoch.set', 'pymeeus/Epoch.py:Epoch.__init__',
             'pymeeus/Epoch.py:Epoch._check_values', 'pymeeus/Epoch.py:Epoch._compute_jde',
             'pymeeus/Epoch.py:Epoch.check_input_date', 'pymeeus/Epoch.py:Epoch.get_month',
             'pymeeus/Epoch.py:Epoch.is_julian', 'pymeeus/Epoch.py:Epoch.is_leap',
             'pymeeus/Epoch.py:Epoch.__add__', 'pymeeus/Epoch.py:Epoch.__sub__',
             'pymeeus/Epoch.py:Epoch.__iadd__', 'pymeeus/Epoch.py:Epoch.__isub__',
             'pymeeus/Epoch.py:Epoch.__radd__', 'pymeeus/Epoch.py:Epoch.__int__',
             'pymeeus/Epoch.py:Epoch.__float__', 'pymeeus/Epoch.py:Epoch.__hash__',
             'pymeeus/Epoch.py:Epoch.__eq__', 'pymeeus/Epoch.py:Epoch.__ne__',
             'pymeeus/Epoch.py:Epoch.__lt__', 'pymeeus/Epoch.py:Epoch.__le__',
             'pymeeus/Epoch.py:Epoch.__gt__', 'pymeeus/Epoch.py:Epoch.__ge__',
             'pymeeus/Epoch.py:DAY2SEC', 'pymeeus/Epoch.py:DAY2MIN', 'pymeeus/Epoch.py:DAY2HOURS',
             'pymeeus/base.py:TOL', 'pymeeus/base.py:iint']

MANIFEST = dict(
    text=("Lean 4 theorems (Props/C02.lean) about the exact-arithmetic (Rat) model of Epoch.get_full_date, the "
          "Epoch.set/constructor dispatch without kwargs, check_input_date and the operators, for EVERY rational "
          "JDE >= -1/2 (the whole domain of the class, no upper bound): the fields of get_full_date are canonical (0<=h<=23, 0<=mi<=59, 0<=s<60, "
          "(y,m,d) a date of the civil calendar), rebuilding the instant from the fields returns the JDE exactly, "
          "the date/time tuple is lexicographically monotone in the JDE, Epoch(jde) stores jde and Epoch(e) copies e, "
          "all input forms (separate values, tuple, list, datetime, date, month number/short/long name, fractional "
          "day vs h/m/s, set() vs constructor) give the same JDE, (e+x)-e = x, e-(e-x) = x, x+e = e+x, += and -= "
          "give the value of + and -, and < <= > >= order Epochs (and Epoch vs number) as their JDE, == is "
          "|difference| < 1e-10 as coded (absolute at every magnitude, same rule against a bare number, symmetric, not transitive), != its negation. Also: get_full_date is injective and strictly monotone and refines get_date; h*3600+mi*60+s = 86400*frac(JDE+1/2); _compute_jde is an isometry inside a civil day (no amplification of the rounding error of the folded day); a datetime stores its microseconds; the constructor accepts EXACTLY the documented ranges (every bound as written, civil month lengths) and raises ValueError otherwise; missing h/m/s default to 0; the exception raised for every argument shape of set / check_input_date / the operators; the maxdays and month-name tables; the four order operators form one total order; + and - with numbers form the expected algebra and keep order and differences. The model is tied to /repo by running its binary64 "
          "instantiation bit for bit and its exact instantiation within 1e-8 day against the real code. That "
          "binary64 rounding stays below 1e-8 / 1e-9 day is NOT a theorem: it is measured on the implementation "
          "by the predicates of every clause on boundary-heavy inputs (+-ulp, +-1 ms, +-1 s around day, month, "
          "year boundaries in both calendars, the 1582 reform instant, JDE 0..10, offsets up to 1e6 days)."),
    note=("Trusted: Lean kernel, Mathlib, axioms propext/Classical.choice/Quot.sound; the hand-written model "
          "(lean/templates/EpochCore.lean, EpochOps.lean) and its correspondence run; the idealisation binary64 -> "
          "Rat (modelled, measured, not proved); the harness's mapping of each Python call to one constructor of "
          "the model's argument-shape type; float.__hash__ is opaque. Well-typed calls only (int year, month "
          "int/float/str, numeric day/h/m/s); kwargs utc/leap_seconds/local belong to C10. The evening of "
          "1582-10-04 with h/m/s that round the day up to 5.0 (former finding, repaired in _compute_jde) is a "
          "boundary class of the predicates and of theorem reform_eve_day_continuous."),
    technique="Lean 4 proof over Rat (floor/fract algebra on top of C01's calendar bijection) + model/implementation correspondence check + clause predicates on the implementation",
    ref='6 C02')

TRUSTED = [
    'harness/c02.py maps every Python call to one constructor of SetArgs/Operand of lean/templates/EpochOps.lean '
    '(separate values -> many, tuple/list -> seq, datetime/date -> their extracted integer fields, Epoch -> its _jde)',
    'an Epoch at an arbitrary binary64 JDE is made by assigning the private field _jde (every public constructor is '
    'exercised separately)',
    'oracle: direct day counts (Julian years counted, proleptic Gregorian ordinal), exact Fractions',
    'float.__hash__ is not modelled (hash(Epoch) is compared with hash(float) on the implementation only)']
ASSUMPTIONS = [
    'well-typed calls: year int, month int/float/str, day/hours/minutes/seconds int or float of magnitude < 2**53',
    'kwargs utc / leap_seconds / local absent (C10)',
    'theorems assume JDE >= -1/2 (and JDE + offset >= -1/2 for the arithmetic clauses); results before -4712-01-01 are covered by (S)+(I) only']
RULE = 'distinct (model function, argument tuple) pairs sent to the model and to the implementation'

TOL_RT = 1e-8      # round trip / arithmetic
TOL_FORM = 1e-9    # input forms
JMAX = 5.4e6
MLEN = [31, 28, 31, 30, 31, 30, 31, 31, 30, 31, 30, 31]
SHORT = ['Jan', 'Feb', 'Mar', 'Apr', 'May', 'Jun', 'Jul', 'Aug', 'Sep', 'Oct', 'Nov', 'Dec']
LONG = ['January', 'February', 'March', 'April', 'May', 'June', 'July', 'August', 'September',
        'October', 'November', 'December']
INF = float('inf')


# ------------------------------------------------------------------ independent oracle
def civil_leap(y):
    if y < 1582:
        return y % 4 == 0
    if y == 1582:
        return False
    return y % 4 == 0 and (y % 100 != 0 or y % 400 == 0)


def civil_mlen(y, m):
    return 29 if (m == 2 and civil_leap(y)) else MLEN[m - 1]


def civil_valid(y, m, d):
    if y < -4712 or not (1 <= m <= 12) or not (1 <= d <= civil_mlen(y, m)):
        return False
    if y == 1582 and m == 10 and 5 <= d <= 14:
        return False
    return True


def civil_jdn(y, m, d):
    """Integer n such that the civil date starts at JD n - 1/2 (day count, no Meeus formula)."""
    if (y, m, d) >= (1582, 10, 15):
        y1 = y - 1
        n = 365 * y1 + y1 // 4 - y1 // 100 + y1 // 400          # days before 1 January (proleptic Gregorian)
        for mm in range(1, m):
            n += 29 if (mm == 2 and y % 4 == 0 and (y % 100 != 0 or y % 400 == 0)) else MLEN[mm - 1]
        return n + d + 1721425
    n = 365 * (y + 4712) + (y + 4712 + 3) // 4
    for mm in range(1, m):
        n += 29 if (mm == 2 and y % 4 == 0) else MLEN[mm - 1]
    return n + d - 1


def instant(y, m, d, h=0, mi=0, s=0):
    """Exact JDE (Fraction) of a civil date and time of day."""
    return Fraction(2 * civil_jdn(y, m, d) - 1, 2) + (Fraction(h) * 3600 + Fraction(mi) * 60 + Fraction(s)) / 86400


def ulps(x, k):
    for _ in range(abs(k)):
        x = math.nextafter(x, INF if k > 0 else -INF)
    return x


def mk(Epoch, j):
    e = Epoch()
    e._jde = j
    return e


def jde_of(r):
    return r._jde if hasattr(r, '_jde') else r


# ------------------------------------------------------------------ clause 1: JDE -> fields -> JDE
def check_jde(ctx, Epoch, j, klass):
    inp = [j]
    e = mk(Epoch, j)
    try:
        fd = e.get_full_date()
    except Exception as ex:  # noqa
        ctx.predicate('full_date_defined', False, inp, repr(ex), klass)
        ctx.case('get_full_date', [j], run_impl(e.get_full_date), q=None, klass='get_full_date/' + klass)
        return None
    y, m, d, h, mi, s = fd
    types_ok = all(type(v) is int for v in (y, m, d, h, mi)) and type(s) is float
    canon = (types_ok and 0 <= h <= 23 and 0 <= mi <= 59 and 0.0 <= s < 60.0 and civil_valid(y, m, d))
    ctx.predicate('fields_canonical', canon, inp, {'full_date': list(fd)}, klass)
    if canon:
        back = instant(y, m, d, h, mi, s)
        dev = abs(back - Fraction(j))
        ctx.deviation('roundtrip_fields_vs_jde', float(dev))
        ctx.predicate('roundtrip_fields', dev <= Fraction(TOL_RT), inp, {'full_date': list(fd), 'dev': float(dev)}, klass)
        out = run_impl(lambda: Epoch(y, m, d, h, mi, s).jde())
        ok = out.startswith('f') and abs(Fraction(_f(out)) - Fraction(j)) <= Fraction(TOL_RT)
        ctx.predicate('roundtrip_constructor', ok, inp, {'full_date': list(fd), 'rebuilt': out}, klass)
    # Epoch(jde) and Epoch(Epoch) keep the instant
    o1 = run_impl(lambda: Epoch(j).jde())
    ok1 = o1.startswith('f') and abs(Epoch(j).jde() - j) <= TOL_FORM
    ctx.predicate('epoch_of_jde', ok1, inp, o1, klass)
    o2 = run_impl(lambda: Epoch(e).jde())
    ctx.predicate('epoch_of_epoch', o2 == o1, inp, [o1, o2], klass)
    ctx.predicate('float_int_hash', float(e) == j and int(e) == int(j) and hash(e) == hash(j) and e.jde() == j,
                  inp, None, klass)
    # structural tie.  The exact model may sit on the other side of a minute boundary when binary64
    # rounds j + 0.5 (JDE just below a power of two) or day + f / r * 24 (small JDE): within one ulp of
    # a minute boundary only the binary64 model is compared; fields are compared exactly elsewhere.
    t = (Fraction(j) + Fraction(1, 2)) * 1440
    jd = j + 0.5
    near = abs(t - round(t)) <= max(Fraction(1440 * (math.nextafter(jd, INF) - jd)), Fraction(1, 10 ** 9))
    ctx.case('get_full_date', [j], enc(fd), q=(None if near else ('abs', 86400 * TOL_RT)), klass='get_full_date/' + klass)
    ctx.case('set_number', [j], o1, q=('abs', TOL_RT), klass='set_number/' + klass)
    ctx.case('set_epoch', [j], o2, q=('abs', TOL_RT), klass='set_epoch')
    ctx.case('to_int', [j], enc(int(e)), q='exact', klass='to_int')
    ctx.case('to_float', [j], enc(float(e)), q='exact', klass='to_float')
    return fd


def check_monotone(ctx, Epoch, j1, j2, klass='monotone'):
    """date/time tuple never decreases as JDE grows (j1 <= j2)."""
    try:
        t1 = mk(Epoch, j1).get_full_date()
        t2 = mk(Epoch, j2).get_full_date()
    except Exception as ex:  # noqa
        ctx.predicate('date_monotone', False, [j1, j2], repr(ex), klass)
        return
    ctx.predicate('date_monotone', tuple(t1) <= tuple(t2), [j1, j2], {'t1': list(t1), 't2': list(t2)}, klass)


# ------------------------------------------------------------------ clause 2: input forms
def mixed_case(rng, s):
    return ''.join(c.upper() if rng.random() < 0.5 else c.lower() for c in s)


def check_forms(ctx, Epoch, y, m, d, h, mi, s, klass, names=None):
    """One instant (integer d, h, mi; s float or int) through every documented signature."""
    inp = [y, m, d, h, mi, s]
    ref_out = run_impl(lambda: Epoch(y, m, d, h, mi, s).jde())
    qr = ('abs', TOL_RT)
    ctx.case('set_many', [y, m, d, [h, mi, s]], ref_out, q=qr, klass='set_many/' + klass)
    if not ref_out.startswith('f'):
        ctx.predicate('valid_instant_accepted', False, inp, ref_out, klass)
        return
    ref = Epoch(y, m, d, h, mi, s).jde()
    exact = instant(y, m, d, h, mi, s)
    dev = abs(Fraction(ref) - exact)
    ctx.deviation('constructor_vs_instant', float(dev))
    ctx.predicate('form_matches_instant', dev <= Fraction(TOL_FORM), inp, {'jde': ref, 'expected': float(exact)}, klass)
    forms = {}

    def form(name, fn, case=None):
        out = run_impl(lambda: jde_of(fn()))
        forms[name] = out
        if case is not None:
            ctx.case(case[0], case[1], out, q=qr, klass=case[0])

    form('tuple', lambda: Epoch((y, m, d, h, mi, s)).jde(), ('set_seq', [y, m, d, [h, mi, s]]))
    form('list', lambda: Epoch([y, m, d, h, mi, s]).jde())
    form('copy', lambda: Epoch(Epoch(y, m, d, h, mi, s)).jde())
    old = ctx.rng.uniform(0.0, JMAX)

    def via_set():
        e = mk(Epoch, old)
        e.set(y, m, d, h, mi, s)
        return e.jde()
    form('set', via_set, ('reset_many', [old, y, m, d, [h, mi, s]]))

    def via_set_tuple():
        e = Epoch(old)
        e.set((y, m, d, h, mi, s))
        return e.jde()
    form('set_tuple', via_set_tuple)
    fday = d + h / 24.0 + mi / 1440.0 + s / 86400.0
    if fday < civil_mlen(y, m) + 1 and fday < 32:
        form('fractional_day', lambda: Epoch(y, m, fday).jde(), ('set_many', [y, m, fday, []]))
    nm = names if names is not None else (ctx.rng.random() < 0.25)
    if nm:
        for label, text in (('short', SHORT[m - 1]), ('long', LONG[m - 1]),
                            ('short_mixed', ' ' + mixed_case(ctx.rng, SHORT[m - 1])),
                            ('long_mixed', mixed_case(ctx.rng, LONG[m - 1]) + '  ')):
            form('name_' + label, lambda: Epoch(y, text, d, h, mi, s).jde(),
                 ('set_many', [y, text, d, [h, mi, s]]) if label.endswith('mixed') else None)
        form('name_in_list', lambda: Epoch([y, LONG[m - 1].upper(), d, h, mi, s]).jde())
        form('float_month', lambda: Epoch(y, float(m), d, h, mi, s).jde(), ('set_many', [y, float(m), d, [h, mi, s]]))
    if 1 <= y <= 9999 and s == int(s) and dt_valid(y, m, d):
        si = int(s)
        form('datetime', lambda: Epoch(datetime.datetime(y, m, d, h, mi, si)).jde(),
             ('set_datetime', [y, m, d, h, mi, si, 0]))
    bad = {k: v for k, v in forms.items()
           if not (v.startswith('f') and abs(_f(v) - ref) <= TOL_FORM)}
    ctx.predicate('forms_agree', not bad, inp, {'reference': ref, 'disagree': bad}, klass)


def dt_valid(y, m, d):
    try:
        datetime.date(y, m, d)
        return True
    except ValueError:
        return False


def _f(tok):
    import core
    return core.from_bits(int(tok[1:]))


def check_datetime_forms(ctx, Epoch, y, m, d, h, mi, sec, us, klass):
    """datetime / date inputs against the separate-value form of the same instant."""
    inp = [y, m, d, h, mi, sec, us]
    s = sec + us / 1e6
    ref_out = run_impl(lambda: Epoch(y, m, d, h, mi, s).jde())
    o = run_impl(lambda: Epoch(datetime.datetime(y, m, d, h, mi, sec, us)).jde())
    ctx.case('set_datetime', [y, m, d, h, mi, sec, us], o, q=('abs', TOL_RT), klass='set_datetime')
    ok = o.startswith('f') and ref_out.startswith('f') and abs(_f(o) - _f(ref_out)) <= TOL_FORM
    ctx.predicate('datetime_form_agrees', ok, inp, [ref_out, o], klass)
    o2 = run_impl(lambda: Epoch(datetime.date(y, m, d)).jde())
    r2 = run_impl(lambda: Epoch(y, m, d).jde())
    ctx.case('set_date', [y, m, d], o2, q='exact', klass='set_date')
    ctx.predicate('date_form_agrees', o2 == r2 and o2.startswith('f'), inp, [r2, o2], klass)
    # check_input_date: every way of giving the date
    outs = {
        'cid_many': run_impl(lambda: Epoch.check_input_date(y, m, d).jde()),
        'cid_tuple': run_impl(lambda: Epoch.check_input_date((y, m, d)).jde()),
        'cid_list': run_impl(lambda: Epoch.check_input_date([y, m, d]).jde()),
        'cid_date': run_impl(lambda: Epoch.check_input_date(datetime.date(y, m, d)).jde()),
        'cid_datetime': run_impl(lambda: Epoch.check_input_date(datetime.datetime(y, m, d, h, mi, sec, us)).jde()),
        'cid_epoch': run_impl(lambda: Epoch.check_input_date(Epoch(y, m, d)).jde()),
    }
    ctx.case('cid_many', [y, m, d, []], outs['cid_many'], q='exact', klass='cid')
    ctx.case('cid_seq', [y, m, d, [h, mi]], run_impl(lambda: Epoch.check_input_date((y, m, d, h, mi)).jde()), q='exact', klass='cid')
    ctx.case('cid_date', [y, m, d], outs['cid_date'], q='exact', klass='cid')
    ctx.case('cid_datetime', [y, m, d, h, mi, sec, us], outs['cid_datetime'], q='exact', klass='cid')
    if r2.startswith('f'):
        ctx.case('cid_epoch', [_f(r2)], outs['cid_epoch'], q='exact', klass='cid')
    ctx.predicate('check_input_date_forms_agree', all(v == r2 for v in outs.values()), inp, outs, klass)


# ------------------------------------------------------------------ clause 3: arithmetic
def check_arith(ctx, Epoch, j, x, klass):
    inp = [j, x]
    e = mk(Epoch, j)
    xf = float(x)
    outs = {}
    try:
        a = e + x
        outs['add'] = a.jde()
        ctx.predicate('add_returns_new_epoch', isinstance(a, Epoch) and a is not e and e.jde() == j, inp, None, klass)
        dev = abs((a - e) - xf)
        ctx.deviation('(e+x)-e-x', dev)
        ctx.predicate('add_then_sub_epoch', dev <= TOL_RT, inp, {'(e+x)-e': a - e}, klass)
        ctx.predicate('add_translates', abs(Fraction(a.jde()) - (Fraction(j) + Fraction(xf))) <= Fraction(TOL_RT), inp, a.jde(), klass)
        b = e - x
        outs['sub'] = b.jde()
        dev = abs((e - b) - xf)
        ctx.deviation('e-(e-x)-x', dev)
        ctx.predicate('sub_then_sub_epoch', isinstance(b, Epoch) and isinstance(e - b, float) and dev <= TOL_RT, inp, {'e-(e-x)': e - b}, klass)
        r = x + e
        outs['radd'] = r.jde()
        ctx.predicate('radd_agrees', isinstance(r, Epoch) and abs(r.jde() - a.jde()) <= TOL_FORM, inp, [r.jde(), a.jde()], klass)
        c = mk(Epoch, j)
        c0 = c
        c += x
        outs['iadd'] = c.jde()
        ctx.predicate('iadd_agrees', isinstance(c, Epoch) and abs(c.jde() - a.jde()) <= TOL_FORM and c0.jde() == j, inp, [c.jde(), a.jde()], klass)
        c = mk(Epoch, j)
        c -= x
        outs['isub'] = c.jde()
        ctx.predicate('isub_agrees', isinstance(c, Epoch) and abs(c.jde() - b.jde()) <= TOL_FORM, inp, [c.jde(), b.jde()], klass)
    except Exception as ex:  # noqa
        ctx.predicate('arithmetic_defined', False, inp, repr(ex), klass)
    for op in ('add', 'sub', 'radd', 'iadd', 'isub'):
        if op in outs:
            ctx.case(op, [j, x], enc(outs[op]), q=('abs', TOL_RT), klass='arith/' + klass)
    if 'add' in outs:
        ctx.case('sub_epoch', [outs['add'], j], enc(mk(Epoch, outs['add']) - e), q=('abs', TOL_RT), klass='sub_epoch')


# ------------------------------------------------------------------ clause 4: order
PYOPS = {
    'lt': lambda a, b: a < b, 'le': lambda a, b: a <= b, 'gt': lambda a, b: a > b, 'ge': lambda a, b: a >= b,
    'eq': lambda a, b: a == b, 'ne': lambda a, b: a != b}


def check_order(ctx, Epoch, j1, j2, klass):
    inp = [j1, j2]
    e1, e2 = mk(Epoch, j1), mk(Epoch, j2)
    res = {}
    # boundary rule: |j1 - j2| within rounding of TOL (the binary64 literal 1e-10 is not 1/10**10 and the
    # subtraction rounds): only the binary64 model is compared for == and != there
    at_tol = abs(abs(Fraction(j1) - Fraction(j2)) - Fraction(1, 10 ** 10)) <= Fraction(1, 10 ** 22)
    for op, f in PYOPS.items():
        res[op] = run_impl(lambda: f(e1, e2))
        res[op + '_num'] = run_impl(lambda: f(e1, j2))
        qr = None if (at_tol and op in ('eq', 'ne')) else 'exact'
        ctx.case(op + '_epoch', [j1, j2], res[op], q=qr, klass='cmp_epoch')
        ctx.case(op, [j1, j2], res[op + '_num'], q=qr, klass='cmp_num')
    T = lambda b: 'T' if b else 'F'  # noqa
    for suffix in ('', '_num'):
        ok = (res['lt' + suffix] == T(j1 < j2) and res['le' + suffix] == T(j1 <= j2) and
              res['gt' + suffix] == T(j1 > j2) and res['ge' + suffix] == T(j1 >= j2))
        ctx.predicate('order_as_jde' + suffix, ok, inp, res, klass)
        # ==: equal JDE -> True; apart by more than the property's own tolerance -> False; in between the
        # coded rule |difference| < 1e-10 (base.TOL) decides
        close = abs(j1 - j2) < 1e-10
        if j1 == j2:
            okeq = res['eq' + suffix] == 'T'
        elif abs(j1 - j2) > TOL_RT:
            okeq = res['eq' + suffix] == 'F'
        else:
            okeq = res['eq' + suffix] == T(close)
        ctx.predicate('eq_as_jde' + suffix, okeq and res['ne' + suffix] == T(res['eq' + suffix] != 'T'), inp, res, klass)
    if j2 == int(j2) and abs(j2) < 2 ** 53:
        k = int(j2)
        ok = ((e1 < k) == (j1 < k) and (e1 <= k) == (j1 <= k) and (e1 > k) == (j1 > k) and (e1 >= k) == (j1 >= k))
        ctx.predicate('order_vs_int', ok, inp, None, klass)
        ctx.case('lt', [j1, k], enc(e1 < k), q='exact', klass='cmp_int')


# ------------------------------------------------------------------ error clauses (tie only)
def check_errors(ctx, Epoch):
    e = mk(Epoch, 2451545.0)
    ctx.case('set_none', [], run_impl(lambda: Epoch().jde()), q='exact')
    ctx.case('reset_none', [1234.5], run_impl(lambda: (lambda t: (t.set(), t.jde())[1])(mk(Epoch, 1234.5))), q='exact')
    ctx.case('set_two', [], run_impl(lambda: Epoch(2000, 1)), q='exact')
    ctx.case('set_other', [], run_impl(lambda: Epoch('2000-01-01')), q='exact')
    ctx.case('set_other', [], run_impl(lambda: Epoch(None)), q='exact', klass='set_other_none')
    ctx.case('set_seq_short', [], run_impl(lambda: Epoch((2000, 1))), q='exact')
    ctx.case('set_seq_short', [], run_impl(lambda: Epoch([])), q='exact', klass='set_seq_empty')
    ctx.case('cid_none', [], run_impl(lambda: Epoch.check_input_date()), q='exact')
    ctx.case('cid_two', [], run_impl(lambda: Epoch.check_input_date(2000, 1)), q='exact')
    ctx.case('cid_number', [2451545.0], run_impl(lambda: Epoch.check_input_date(2451545.0)), q='exact')
    ctx.case('cid_other', [], run_impl(lambda: Epoch.check_input_date('x')), q='exact')
    ctx.case('cid_seq_short', [], run_impl(lambda: Epoch.check_input_date((2000, 1))), q='exact')
    for op, f in PYOPS.items():
        ctx.case('cmp_other', [op, 2451545.0], run_impl(lambda: f(e, 'x')), q='exact', klass='cmp_other')
    ctx.case('arith_other', ['add', 2451545.0], run_impl(lambda: e + 'x'), q='exact', klass='arith_other')
    ctx.case('arith_other', ['sub', 2451545.0], run_impl(lambda: e - 'x'), q='exact', klass='arith_other')
    ctx.case('arith_other', ['radd', 2451545.0], run_impl(lambda: 'x' + e), q='exact', klass='arith_other')
    ctx.case('add_epoch', [2451545.0, 1.0], run_impl(lambda: e + mk(Epoch, 1.0)), q='exact', klass='arith_other')

    def iadd_bad():
        c = mk(Epoch, 2451545.0)
        c += 'x'
        return c
    ctx.case('arith_other', ['iadd', 2451545.0], run_impl(iadd_bad), q='exact', klass='arith_other')

    def isub_epoch():
        c = mk(Epoch, 2451545.0)
        c -= mk(Epoch, 1.0)
        return c
    ctx.case('isub_epoch', [2451545.0, 1.0], run_impl(isub_epoch), q='exact', klass='arith_other')
    # out-of-range fields are refused (ValueError), in every position
    for args in ((2000, 1, 1, 24), (2000, 1, 1, -1), (2000, 1, 1, 0, 60), (2000, 1, 1, 0, -0.5), (2000, 1, 1, 0, 0, 60),
                 (2000, 1, 1, 0, 0, -1e-9), (2000, 2, 30), (2001, 2, 29.0), (2000, 13, 1), (2000, 0, 1), (-4713, 12, 31),
                 (2000, 1, 0.999), (2000, 1, 32), (2000, 1, 1, 23.999, 59.999, 59.999), (2000, 1, 1, 1, 1, 1, 99)):
        out = run_impl(lambda: Epoch(*args).jde())
        ctx.case('set_many', [args[0], args[1], args[2], list(args[3:])], out, q=('abs', TOL_RT), klass='set_many/range')
        out = run_impl(lambda: Epoch(list(args)).jde())
        ctx.case('set_seq', [args[0], args[1], args[2], list(args[3:])], out, q=('abs', TOL_RT), klass='set_seq/range')
    for nm_ in ('Janu', 'xyz', '', 'J an', 'sept'):
        ctx.case('set_many', [2000, nm_, 1, []], run_impl(lambda: Epoch(2000, nm_, 1).jde()), q='exact', klass='set_many/badname')


# ------------------------------------------------------------------ generators
HOT_YEARS = [-4712, -4711, -1000, -1, 0, 1, 4, 100, 400, 1000, 1500, 1581, 1582, 1583, 1600, 1700, 1800, 1900,
             1970, 1972, 2000, 2016, 2017, 2024, 2100, 2400, 3000, 4000, 6000, 9999]
REFORM = 2299160.5


def boundary_jdes(rng, y, m, d):
    """Instants at and around 0h of a civil date: +-k ulp, +-1 ms, +-1 s, minute/hour boundaries."""
    j0 = float(instant(y, m, d))
    out = []
    for base in (j0, j0 + rng.randint(0, 23) / 24.0, j0 + rng.randint(0, 1439) / 1440.0, j0 + rng.randint(0, 86399) / 86400.0):
        for k in (-2, -1, 0, 1, 2):
            out.append(ulps(base, k))
        for dt in (1e-3, 1.0, 0.5e-3, 59.999999):
            out.append(base + dt / 86400.0)
            out.append(base - dt / 86400.0)
    return [j for j in out if 0.0 <= j <= JMAX]


def random_boundary_date(rng, hot_years):
    r = rng.random()
    if r < 0.1 and hot_years:
        y = rng.choice(hot_years) + rng.randint(-1, 1)
    elif r < 0.5:
        y = rng.choice(HOT_YEARS) + rng.randint(-1, 1)
    else:
        y = rng.randint(-4712, 10071)
    y = min(max(y, -4712), 10071)
    r = rng.random()
    if r < 0.3:
        m, d = rng.choice([(1, 1), (12, 31)])                       # year boundary
    elif r < 0.75:
        m = rng.randint(1, 12)
        d = rng.choice([1, civil_mlen(y, m)])                       # month boundary
    else:
        m = rng.randint(1, 12)
        d = rng.randint(1, civil_mlen(y, m))                        # day boundary
    if y == 1582 and m == 10 and 5 <= d <= 14:
        d = 4
    return y, m, d


def offsets(rng, j):
    u = ulps(j, 1) - j
    return [0, 0.0, 5e-324, -5e-324, 2.2250738585072014e-308, u, -u, u / 2, 3 * u, 1e-9, -1e-9, 1e-8, 0.5, -0.5, 1, -1,
            rng.uniform(-1e6, 1e6), rng.uniform(-1.0, 1.0), rng.randint(-10 ** 6, 10 ** 6), 1e6, -1e6,
            rng.uniform(-1e3, 1e3), rng.choice([365.25, 36525.0, 29.530588853, 1.0 / 86400.0, 1.0 / 1440.0])]


def generate(ctx, shard=0, nshards=1):
    from pymeeus.Epoch import Epoch
    rng = ctx.rng
    hot_years = [v for v in ctx.hot['ints'] if -4712 <= v <= 10071]
    hot_floats = [v for v in ctx.hot['floats'] if 0.0 <= v <= JMAX]
    jdes = []     # (jde, class)

    if shard == 0:
        check_errors(ctx, Epoch)
        # the reform instant, the origin, the upper end, powers of two
        for base, kl in ((REFORM, 'reform'), (0.0, 'origin'), (0.5, 'origin'), (1.5, 'origin'), (JMAX, 'top'),
                         (2451545.0, 'j2000'), (2400000.5, 'mjd0'), (REFORM - 10.0, 'reform'), (REFORM + 1.0, 'reform')):
            for k in range(-6, 7):
                jdes.append((ulps(base, k), kl))
            for dt in (1e-3, 1.0, 60.0, 3600.0):
                jdes.append((base + dt / 86400.0, kl))
                jdes.append((base - dt / 86400.0, kl))
        for k in range(-1074, 24):
            p = 2.0 ** k if k > -1074 else 5e-324
            for kk in (-1, 0, 1):
                jdes.append((ulps(p, kk), 'pow2'))
                jdes.append((ulps(p + 0.5, kk), 'pow2'))
        for n in range(0, 40):
            for k in (-2, -1, 0, 1, 2):
                jdes.append((ulps(n + 0.5, k), 'small'))
                jdes.append((ulps(float(n), k), 'small'))
        for v in hot_floats:
            for k in range(-3, 4):
                jdes.append((ulps(v, k), 'hot'))
        # documented examples
        for args, val in (((1987, 6, 19.5), 2446966.0), ((1977, 'Apr', 26.4), 2443259.9), ((1957, 'October', 4.81), 2436116.31),
                          ((333, 'Jan', 27, 12), 1842713.0), ((1900, 'Jan', 1), 2415020.5), ((-1001, 'august', 17.9), 1355671.4),
                          ((-4712, 1, 1.5), 0.0), ((837, 'Apr', 10, 7, 12), 2026871.8)):
            out = run_impl(lambda: Epoch(*args).jde())
            ctx.predicate('documented_example', out.startswith('f') and abs(_f(out) - val) <= TOL_RT, list(args) + [val], out)
            ctx.case('set_many', [args[0], args[1], args[2], list(args[3:])], out, q=('abs', TOL_RT), klass='set_many/doc')
        # the reform eve and month/year ends with the largest legal time of day, in every form
        top_s = math.nextafter(60.0, 0.0)
        for (y, m, d) in ((1582, 10, 4), (1582, 10, 15), (1582, 10, 3), (2000, 2, 29), (1900, 2, 28), (1500, 2, 29), (2000, 12, 31),
                          (-4712, 1, 1), (1999, 12, 31), (2016, 12, 31), (1582, 12, 31), (1583, 1, 1), (9999, 12, 31)):
            for (h, mi, s) in ((23, 59, top_s), (23, 59, 59.99999999999), (23, 59, 59.999999), (23, 59, 59), (0, 0, 0), (0, 0, 0.0),
                               (12, 0, 0), (23, 0, 0), (0, 59, top_s), (0, 0, 1e-9)):
                check_forms(ctx, Epoch, y, m, d, h, mi, s, 'forms_boundary', names=True)
        for (y, m, d, h, mi) in ((1582, 10, 4, 23, math.nextafter(60.0, 0.0)), (1582, 10, 4, math.nextafter(24.0, 0.0), 0),
                                 (2000, 1, 31, 23, math.nextafter(60.0, 0.0)), (1582, 10, 4, 23.5, 29.5)):
            # fractional hours / minutes: the separate-value form against the instant it denotes
            out = run_impl(lambda: Epoch(y, m, d, h, mi).jde())
            ctx.case('set_many', [y, m, d, [h, mi]], out, q=('abs', TOL_RT), klass='set_many/fractional_hm')
            exact = instant(y, m, d, h, mi, 0)
            ok = out.startswith('f') and abs(Fraction(_f(out)) - exact) <= Fraction(TOL_FORM)
            ctx.predicate('form_matches_instant', ok, [y, m, d, h, mi, 0], {'jde': out, 'expected': float(exact)}, 'forms_boundary')

    # ---- JDE stream
    n_uniform = ctx.n(40000, 200000) // nshards
    for _ in range(n_uniform):
        r = rng.random()
        if r < 0.8:
            jdes.append((rng.uniform(0.0, JMAX), 'uniform'))
        elif r < 0.9:
            jdes.append((rng.uniform(0.0, 10.0), 'small'))
        else:
            jdes.append((rng.uniform(0.0, 1.0) * 10 ** rng.uniform(-12, 6.7), 'loguniform'))
    n_bound = ctx.n(2000, 8000) // nshards
    for _ in range(n_bound):
        y, m, d = random_boundary_date(rng, hot_years)
        kl = 'boundary_julian' if (y, m, d) < (1582, 10, 15) else 'boundary_gregorian'
        for j in boundary_jdes(rng, y, m, d):
            jdes.append((j, kl))
    jdes = [(j, k) for (j, k) in jdes if 0.0 <= j <= JMAX]
    seen = set()
    for j, kl in jdes:
        if j in seen:
            continue
        seen.add(j)
        check_jde(ctx, Epoch, j, kl)
    # monotone: all adjacent pairs of the sorted sample (boundary clusters give +-ulp neighbours)
    srt = sorted(seen)
    for a, b in zip(srt, srt[1:]):
        check_monotone(ctx, Epoch, a, b)
    for j in rng.sample(srt, min(len(srt), ctx.n(8000, 30000) // nshards)):
        up = ulps(j, 1)
        if up <= JMAX:
            check_monotone(ctx, Epoch, j, up, 'monotone_ulp')

    # ---- input forms
    n_forms = ctx.n(8000, 40000) // nshards
    for _ in range(n_forms):
        y, m, d = random_boundary_date(rng, hot_years)
        if rng.random() < 0.5:
            d = rng.randint(1, civil_mlen(y, m))
            if y == 1582 and m == 10 and 5 <= d <= 14:
                d = 15
        h = rng.choice([0, 23, rng.randint(0, 23)])
        mi = rng.choice([0, 59, rng.randint(0, 59)])
        r = rng.random()
        if r < 0.3:
            s = rng.randint(0, 59)
        elif r < 0.4:
            s = rng.choice([0.0, 59.999999, 59.999, math.nextafter(60.0, 0.0), 1e-9, 59.99999999999, 30.0])
        else:
            s = rng.uniform(0.0, 60.0)
        check_forms(ctx, Epoch, y, m, d, h, mi, s, 'forms')
    n_dt = ctx.n(2000, 10000) // nshards
    for _ in range(n_dt):
        y, m, d = random_boundary_date(rng, hot_years)
        y = min(max(y, 1), 9999)
        d = min(d, civil_mlen(y, m))
        if y == 1582 and m == 10 and 5 <= d <= 14:
            d = 15
        if (y, m, d) < (1582, 10, 15) and m == 2 and d == 29 and not (y % 4 == 0 and (y % 100 != 0 or y % 400 == 0)):
            d = 28      # datetime is proleptic Gregorian: it has no 29 Feb 1500
        check_datetime_forms(ctx, Epoch, y, m, d, rng.choice([0, 23, rng.randint(0, 23)]), rng.choice([0, 59, rng.randint(0, 59)]),
                             rng.choice([0, 59, rng.randint(0, 59)]), rng.choice([0, 999999, 1, 500000, rng.randint(0, 999999)]), 'datetime')

    # ---- arithmetic
    n_ar = ctx.n(3000, 14000) // nshards
    for _ in range(n_ar):
        r = rng.random()
        if r < 0.5:
            j = rng.uniform(0.0, JMAX)
        elif r < 0.8 and srt:
            j = rng.choice(srt)
        else:
            j = rng.choice([0.0, 0.5, REFORM, JMAX, 2451545.0, 1e-300, 5e-324, ulps(REFORM, -1), 1.0, 4194304.0])
        for x in offsets(rng, j):
            kl = 'arith' if (j + x >= 0 and j - x >= 0) else 'arith_negative_result'
            check_arith(ctx, Epoch, j, x, kl)

    # ---- order
    n_ord = ctx.n(6000, 30000) // nshards
    for _ in range(n_ord):
        r = rng.random()
        j1 = rng.choice(srt) if (srt and r < 0.5) else rng.uniform(0.0, JMAX)
        r = rng.random()
        if r < 0.15:
            j2 = j1
        elif r < 0.35:
            j2 = ulps(j1, rng.choice([-2, -1, 1, 2]))
        elif r < 0.5:
            j2 = j1 + rng.choice([-1, 1]) * rng.choice([1e-10, 0.99e-10, 1.01e-10, 1e-11, 1e-9, 2e-10])
        elif r < 0.6:
            j1 = rng.uniform(0.0, 1.0) * 10 ** rng.uniform(-12, 0)
            j2 = j1 + rng.choice([-1, 1]) * rng.uniform(0.0, 3e-10)
        elif r < 0.7:
            j2 = float(round(j1))
        else:
            j2 = rng.choice(srt) if srt else rng.uniform(0.0, JMAX)
        check_order(ctx, Epoch, j1, j2, 'order')
    ctx.sample({'call': 'Epoch(2436116.31).get_full_date()', 'expected': [1957, 10, 4, 19, 26, 24.0]})
    ctx.sample({'call': 'Epoch(1582, 10, 4, 23, 59, 59.99999999999).jde()', 'expected': 2299160.5,
                'note': 'the folded day rounds up to 5.0; was 2299150.5 before the repair of _compute_jde'})


# ------------------------------------------------------------------ known findings, replay
def known_match(finding, failure):
    if failure.get('predicate') not in finding.get('predicates', [finding.get('predicate')]):
        return False
    inp = failure.get('input') or []
    for idx, rg in (finding.get('ranges') or {}).items():
        i = int(idx)
        if i >= len(inp) or isinstance(inp[i], bool) or not isinstance(inp[i], (int, float)) or not (rg[0] <= inp[i] <= rg[1]):
            return False
    return True


def replay(case):
    """Re-run one recorded failing case on the implementation; returns (still_fails, text)."""
    from pymeeus.Epoch import Epoch
    import core
    ctx = core.Ctx(PROPERTY, 'quick', 0)
    name = case.get('predicate', '')
    inp = case.get('input') or []
    if name in ('fields_canonical', 'roundtrip_fields', 'roundtrip_constructor', 'epoch_of_jde', 'epoch_of_epoch',
                'float_int_hash', 'full_date_defined'):
        check_jde(ctx, Epoch, inp[0], 'replay')
    elif name == 'date_monotone':
        check_monotone(ctx, Epoch, inp[0], inp[1], 'replay')
    elif name in ('forms_agree', 'form_matches_instant', 'valid_instant_accepted'):
        if isinstance(inp[3], float) or isinstance(inp[4], float):
            y, m, d, h, mi = inp[:5]
            out = run_impl(lambda: Epoch(y, m, d, h, mi).jde())
            exact = instant(y, m, d, h, mi, 0)
            ok = out.startswith('f') and abs(Fraction(_f(out)) - exact) <= Fraction(TOL_FORM)
            ctx.predicate('form_matches_instant', ok, inp, out, 'replay')
        else:
            check_forms(ctx, Epoch, *inp[:6], klass='replay', names=True)
    elif name in ('datetime_form_agrees', 'date_form_agrees', 'check_input_date_forms_agree'):
        check_datetime_forms(ctx, Epoch, *inp[:7], klass='replay')
    elif name in ('order_as_jde', 'order_as_jde_num', 'eq_as_jde', 'eq_as_jde_num', 'order_vs_int'):
        check_order(ctx, Epoch, inp[0], inp[1], 'replay')
    elif name == 'documented_example':
        out = run_impl(lambda: Epoch(*inp[:-1]).jde())
        ctx.predicate('documented_example', out.startswith('f') and abs(_f(out) - inp[-1]) <= TOL_RT, inp, out, 'replay')
    else:
        check_arith(ctx, Epoch, inp[0], inp[1], 'replay')
    return (len(ctx.pred_fail) > 0, ctx.pred_fail)
