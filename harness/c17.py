"""C17 — curve fitting returns the least-squares solution.

(S) structural tie: the Lean model of pymeeus/CurveFitting.py (lean/templates/CurveFitting.lean) in its
    binary64 instantiation against CPython, bit for bit (`set` in every input form and arity with the nine
    accumulated sums incl. the exactly rounded `fsum`, `linear_fitting`, `quadratic_fitting`,
    `general_fitting` on the evaluated basis columns, `correlation_coeff`), and the exact (Rat)
    instantiation on well-conditioned data (relative 1e-6) / integer data (1e-12).
(I) predicates on the implementation against an independent oracle: the normal equations of the same
    data and basis columns solved exactly with Python Fractions (Gaussian elimination).
"""
import math
import itertools
from fractions import Fraction
from core import run_impl, enc, enc_exc, from_bits

PROPERTY = 'C17'
FUNCTIONS = ['pymeeus/CurveFitting.py:CurveFitting.__init__', 'pymeeus/CurveFitting.py:CurveFitting.set',
             'pymeeus/CurveFitting.py:CurveFitting._compute_parameters',
             'pymeeus/CurveFitting.py:CurveFitting.correlation_coeff',
             'pymeeus/CurveFitting.py:CurveFitting.linear_fitting',
             'pymeeus/CurveFitting.py:CurveFitting.quadratic_fitting',
             'pymeeus/CurveFitting.py:CurveFitting.general_fitting',
             'pymeeus/base.py:TOL']

MANIFEST = dict(
    text=("Lean 4 theorems (Props/C17.lean) about the exact-arithmetic model of CurveFitting, for data sets of any "
          "length: whenever the determinant guard passes, the coefficients returned by the linear, quadratic and "
          "general (one, two or three basis functions) fits satisfy the normal equations (residuals orthogonal to every "
          "basis column), minimise the sum of squared residuals over all coefficient choices, recover noiseless data "
          "exactly, do not depend on the order of the points; the general fit on the columns (x^2, x, 1) equals the "
          "quadratic fit and on (x, 1) the linear fit (under the stated guard conditions); over the reals the "
          "correlation coefficient lies in [-1, 1], is +-1 on collinear data, is invariant under positive affine "
          "rescaling, changes sign under negation, and constant x or y gives ZeroDivisionError. Also: the returned "
          "coefficients are the UNIQUE solution of the normal equations; the determinant guards raise exactly when "
          "|det| < TOL (not only when it is zero); abscissae with at most two distinct values (quadratic) and linearly "
          "dependent basis functions (general) raise ZeroDivisionError; the one-list form and lists of unequal length "
          "reduce to the two-list form. The model is tied to "
          "/repo by running its binary64 instantiation against the real code bit for bit, and every clause is "
          "evaluated on the implementation against an exact rational solution of the normal equations. Not carried by "
          "a theorem: the relative 1e-6 of the binary64 results (checked on data whose equilibrated Gram matrix has "
          "condition number <= 1e6, see ASSUMPTIONS); the behaviour of binary64 on degenerate data (listed finding)."),
    note=("Trusted: Lean kernel, Mathlib, axioms propext/Classical.choice/Quot.sound; the hand-written model "
          "(lean/templates/CurveFitting.lean) and its correspondence run; math.fsum read as the exact sum rounded once; "
          "basis functions enter the model as their evaluated columns; the idealisation binary64 -> Rat/Real is "
          "modelled, not verified."),
    technique="Lean 4 proof (field_simp/ring on Cramer's rule, completion of squares, Cauchy-Schwarz) + model/implementation correspondence check + exact-rational oracle",
    ref='6 C17')

TRUSTED = ['general_fitting(f0, f1, f2): the model receives the columns [f_k(x_i)] evaluated by CPython (the callables '
           'themselves are not modelled); missing functions are columns of 0.0',
           'math.fsum is modelled as the exact rational sum rounded once to nearest-even (PF.toRat / PF.ofRat)',
           'int arguments are sent as the equal float',
           'oracle: exact solution of the normal equations in Fractions (harness/c17.py:solve_exact)']
ASSUMPTIONS = ['"well-conditioned": the Gram matrix of the basis columns scaled to unit diagonal has infinity-norm '
               'condition number <= 1e6 (computed exactly) and the quantities the code compares with its absolute TOL = 1e-10 '
               '(determinant, diagonal sums, their product) are >= 1e-6; only then the relative 1e-6 is asserted',
               'relative error of coefficients: max_k |a_k - exact_k| * ||column_k||_2 / max(||y||_2, max_j |exact_j| * '
               '||column_j||_2) (a coefficient that is exactly 0 has no relative error of its own)',
               'correlation: |r| <= 1 and r = +-1 on collinear data are asserted with 1e-9 slack in binary64',
               'degenerate data: constant x (linear, quadratic, correlation), constant y (correlation), fewer distinct '
               'abscissae than coefficients (quadratic), linearly dependent columns (general)']
RULE = 'distinct (model function, argument tuple) pairs sent to the binary64/exact model and to the implementation'

TOL = 1e-10
REL = 1e-6
COND_MAX = 1e6
MARGIN_MIN = 1e-6


def _CF():
    from pymeeus.CurveFitting import CurveFitting
    return CurveFitting


def fnums(out):
    """canonical output -> list of floats, or None when it is an exception token"""
    if out.startswith('E:'):
        return None
    return [from_bits(int(t[1:])) for t in out.split(' ')]


# ------------------------------------------------------------------ exact oracle
def gram(cols, ys):
    k = len(cols)
    C = [[Fraction(v) for v in c] for c in cols]
    Y = [Fraction(v) for v in ys]
    G = [[sum(a * b for a, b in zip(C[i], C[j])) for j in range(k)] for i in range(k)]
    b = [sum(a * y for a, y in zip(C[i], Y)) for i in range(k)]
    return G, b, Y


def solve(G, b):
    """Gaussian elimination in Fractions; None when singular"""
    k = len(G)
    A = [list(G[i]) + [b[i]] for i in range(k)]
    for c in range(k):
        p = None
        for r in range(c, k):
            if A[r][c] != 0:
                p = r
                break
        if p is None:
            return None
        A[c], A[p] = A[p], A[c]
        for r in range(k):
            if r != c and A[r][c] != 0:
                f = A[r][c] / A[c][c]
                A[r] = [u - f * v for u, v in zip(A[r], A[c])]
    return [A[i][k] / A[i][i] for i in range(k)]


def inverse(G):
    k = len(G)
    cols = []
    for j in range(k):
        e = [Fraction(1 if i == j else 0) for i in range(k)]
        s = solve(G, e)
        if s is None:
            return None
        cols.append(s)
    return [[cols[j][i] for j in range(k)] for i in range(k)]


def cond_equilibrated(G):
    """infinity-norm condition number of D^-1 G D^-1, D = sqrt(diag G) (computed in floats from the exact inverse)"""
    k = len(G)
    if any(G[i][i] == 0 for i in range(k)):
        return float('inf')
    inv = inverse(G)
    if inv is None:
        return float('inf')
    d = [math.sqrt(float(G[i][i])) for i in range(k)]
    n1 = max(sum(abs(float(G[i][j])) / (d[i] * d[j]) for j in range(k)) for i in range(k))
    n2 = max(sum(abs(float(inv[i][j])) * (d[i] * d[j]) for j in range(k)) for i in range(k))
    return n1 * n2


def det(G):
    k = len(G)
    if k == 1:
        return G[0][0]
    if k == 2:
        return G[0][0] * G[1][1] - G[0][1] * G[1][0]
    return (G[0][0] * (G[1][1] * G[2][2] - G[1][2] * G[2][1]) - G[0][1] * (G[1][0] * G[2][2] - G[1][2] * G[2][0])
            + G[0][2] * (G[1][0] * G[2][1] - G[1][1] * G[2][0]))


def guard_margin(G):
    """the quantities the implementation compares with TOL = 1e-10 (determinant, diagonal sums, their product)"""
    k = len(G)
    vals = [abs(det(G))] + [G[i][i] for i in range(k)]
    p = Fraction(1)
    for i in range(k):
        p *= G[i][i]
    vals.append(p)
    return float(min(vals))


def oracle(cols, ys):
    G, b, Y = gram(cols, ys)
    sol = solve(G, b)
    return {'G': G, 'b': b, 'sol': sol, 'cond': cond_equilibrated(G) if sol is not None else float('inf'),
            'margin': guard_margin(G),
            'norms': [math.sqrt(float(G[i][i])) for i in range(len(cols))],
            'ynorm': math.sqrt(float(sum(y * y for y in Y)))}


def relerr(coefs, orc):
    sol, nr = orc['sol'], orc['norms']
    M = max([orc['ynorm']] + [abs(float(s)) * n for s, n in zip(sol, nr)])
    if M == 0:
        M = 1.0
    return max(abs(float(Fraction(a) - s)) * n for a, s, n in zip(coefs, sol, nr)) / M


def ortho_dev(coefs, cols, ys, orc):
    """max_k |sum_i (y_i - fit_i) c_k[i]| / (||c_k|| * M), exact"""
    k = len(cols)
    G, b = orc['G'], orc['b']
    a = [Fraction(v) for v in coefs]
    nr = orc['norms']
    M = max([orc['ynorm']] + [abs(float(s)) * n for s, n in zip(a, nr)])
    if M == 0:
        M = 1.0
    dev = 0.0
    for i in range(k):
        r = b[i] - sum(G[i][j] * a[j] for j in range(k))
        dev = max(dev, abs(float(r)) / (nr[i] * M) if nr[i] > 0 else 0.0)
    return dev


# ------------------------------------------------------------------ basis functions (name -> callable)
def basis(name):
    if name == '1':
        return lambda x: 1.0
    if name == 'x':
        return lambda x: x
    if name == 'x2':
        return lambda x: x * x
    kind, k = name.split(':')
    k = float(k)
    if kind == 'sin':
        return lambda x: math.sin(k * x)
    if kind == 'cos':
        return lambda x: math.cos(k * x)
    if kind == 'exp':
        return lambda x: math.exp(k * x)
    raise ValueError(name)


def columns(names, xs):
    cols = [[float(basis(nm)(x)) for x in xs] for nm in names]
    return cols


def pad(cols, n):
    return cols + [[0.0] * n] * (3 - len(cols))


def fit_of(kind, xs, ys, names=None):
    """canonical output string of one fit of the implementation"""
    cf = _CF()(list(xs), list(ys))
    if kind == 'linear':
        return run_impl(cf.linear_fitting)
    if kind == 'quadratic':
        return run_impl(cf.quadratic_fitting)
    if kind == 'corr':
        return run_impl(cf.correlation_coeff)
    return run_impl(cf.general_fitting, *[basis(nm) for nm in names])


KIND_COLS = {'linear': ['x', '1'], 'quadratic': ['x2', 'x', '1']}


def names_of(kind, names):
    return KIND_COLS.get(kind, names)


# ------------------------------------------------------------------ predicates
def p_matches_exact(inp):
    """returned coefficients = exact solution of the normal equations to relative 1e-6 (well-conditioned data)"""
    kind, xs, ys, names = inp
    nm = names_of(kind, names)
    out = fit_of(kind, xs, ys, names)
    co = fnums(out)
    if co is None:
        return False, out
    co = co[:len(nm)]
    orc = oracle(columns(nm, xs), ys)
    if orc['sol'] is None:
        return False, 'oracle singular'
    e = relerr(co, orc)
    return e <= REL, {'impl': co, 'exact': [float(s) for s in orc['sol']], 'dev': e, 'lim': REL, 'cond': orc['cond']}


def p_residual_orthogonal(inp):
    kind, xs, ys, names = inp
    nm = names_of(kind, names)
    out = fit_of(kind, xs, ys, names)
    co = fnums(out)
    if co is None:
        return False, out
    cols = columns(nm, xs)
    orc = oracle(cols, ys)
    e = ortho_dev(co[:len(nm)], cols, ys, orc)
    return e <= 3 * REL, {'impl': co, 'dev': e, 'lim': 3 * REL}


def p_unused_coeffs_zero(inp):
    """general_fitting with one or two functions returns 0.0 for the coefficients of the missing ones"""
    kind, xs, ys, names = inp
    co = fnums(fit_of(kind, xs, ys, names))
    if co is None:
        return False, 'exception'
    return all(v == 0.0 for v in co[len(names):]) and len(co) == 3, co


def p_noiseless_recovered(inp):
    """y_i = sum_k a_k f_k(x_i) exactly representable (integer data): the coefficients come back exactly;
    otherwise to relative 1e-6"""
    kind, xs, coefs, names, exact = inp
    nm = names_of(kind, names)
    cols = columns(nm, xs)
    ys = [float(sum(Fraction(a) * Fraction(c[i]) for a, c in zip(coefs, cols))) for i in range(len(xs))]
    co = fnums(fit_of(kind, xs, ys, names))
    if co is None:
        return False, 'exception'
    co = co[:len(nm)]
    if exact:
        return co == [float(a) for a in coefs], {'impl': co, 'model': coefs}
    nr = [math.sqrt(sum(v * v for v in c)) for c in cols]
    M = max(abs(a) * n for a, n in zip(coefs, nr)) or 1.0
    e = max(abs(a - b) * n for a, b, n in zip(co, coefs, nr)) / M
    return e <= REL, {'impl': co, 'model': coefs, 'dev': e, 'lim': REL}


def p_perm_invariant(inp):
    kind, xs, ys, names, perm, exact = inp
    nm = names_of(kind, names)
    a = fnums(fit_of(kind, xs, ys, names))
    b = fnums(fit_of(kind, [xs[k] for k in perm], [ys[k] for k in perm], names))
    if a is None or b is None:
        return False, 'exception'
    if exact:
        return a == b, {'a': a, 'b': b}
    cols = columns(nm, xs)
    nr = [math.sqrt(sum(v * v for v in c)) for c in cols]
    M = max([math.sqrt(sum(y * y for y in ys))] + [abs(v) * n for v, n in zip(a, nr)]) or 1.0
    e = max(abs(u - v) * n for u, v, n in zip(a, b, nr)) / M
    return e <= REL, {'a': a, 'b': b, 'dev': e, 'lim': REL}


def _build(form, xs, ys):
    C = _CF()
    if form == 'lists':
        return C(list(xs), list(ys))
    if form == 'tuples':
        return C(tuple(xs), tuple(ys))
    if form == 'varargs':
        return C(*[v for p in zip(xs, ys) for v in p])
    if form == 'varargs_odd':
        return C(*([v for p in zip(xs, ys) for v in p] + [5.0]))
    if form == 'copy':
        return C(C(list(xs), list(ys)))
    if form == 'longer_y':
        return C(list(xs), list(ys) + [1.0, 2.0])
    if form == 'single':
        return C(list(ys))
    if form == 'set':
        c = C([1.0, 2.0, 3.0], [3.0, 1.0, 2.0])
        c.set(list(xs), list(ys))
        return c
    raise ValueError(form)


def _all_fits(c, names):
    return [run_impl(c.linear_fitting), run_impl(c.quadratic_fitting), run_impl(c.correlation_coeff),
            run_impl(c.general_fitting, *[basis(nm) for nm in names])]


def p_form_invariant(inp):
    """same points in the same order through another input form: identical results"""
    xs, ys, form, names = inp
    a = _all_fits(_build('lists', xs, ys), names)
    b = _all_fits(_build(form, xs, ys), names)
    return a == b, {'lists': a, form: b}


def p_general_equals(inp):
    """general_fitting(x^2, x, 1) = quadratic_fitting; general_fitting(x, 1) = linear_fitting (relative 1e-6)"""
    kind, xs, ys = inp
    nm = KIND_COLS[kind]
    a = fnums(fit_of(kind, xs, ys))
    b = fnums(fit_of('general', xs, ys, nm))
    if a is None or b is None:
        return False, {'special': a, 'general': b}
    b = b[:len(nm)]
    cols = columns(nm, xs)
    nr = [math.sqrt(sum(v * v for v in c)) for c in cols]
    M = max([math.sqrt(sum(y * y for y in ys))] + [abs(v) * n for v, n in zip(a, nr)]) or 1.0
    e = max(abs(u - v) * n for u, v, n in zip(a, b, nr)) / M
    return e <= REL, {'special': a, 'general': b, 'dev': e, 'lim': REL}


def _corr(xs, ys):
    return fnums(fit_of('corr', xs, ys))


def _cond_xy(xs, ys):
    return max(oracle(columns(['x', '1'], xs), ys)['cond'], oracle(columns(['x', '1'], ys), xs)['cond'])


def p_corr_range(inp):
    xs, ys = inp
    out = fit_of('corr', xs, ys)
    r = fnums(out)
    if r is None:
        return False, {'returned': out, 'cond': _cond_xy(xs, ys)}
    return -1.0 - 1e-9 <= r[0] <= 1.0 + 1e-9, {'returned': r[0], 'cond': _cond_xy(xs, ys)}


def p_corr_collinear(inp):
    xs, a, b = inp
    ys = [float(Fraction(a) * Fraction(x) + Fraction(b)) for x in xs]
    r = _corr(xs, ys)
    if r is None:
        return False, 'exception'
    want = 1.0 if a > 0 else -1.0
    return abs(r[0] - want) <= 1e-9, {'r': r[0], 'dev': abs(r[0] - want), 'lim': 1e-9}


def p_corr_affine(inp):
    xs, ys, ax, bx, ay, by = inp
    r0 = _corr(xs, ys)
    r1 = _corr([ax * x + bx for x in xs], [ay * y + by for y in ys])
    if r0 is None or r1 is None:
        return False, 'exception'
    return abs(r0[0] - r1[0]) <= REL, {'r': r0[0], 'rescaled': r1[0], 'dev': abs(r0[0] - r1[0]), 'lim': REL}


def p_corr_negation(inp):
    xs, ys = inp
    o = [fit_of('corr', xs, ys), fit_of('corr', [-x for x in xs], ys), fit_of('corr', xs, [-y for y in ys]),
         fit_of('corr', [-x for x in xs], [-y for y in ys])]
    if o[0].startswith('E:'):
        # ill-conditioned data on which correlation_coeff raises (listed finding): negation must not change that
        return o[1] == o[0] and o[2] == o[0] and o[3] == o[0], o
    r0, r1, r2, r3 = [fnums(v) for v in o]
    if None in (r1, r2, r3):
        return False, o
    return r1[0] == -r0[0] and r2[0] == -r0[0] and r3[0] == r0[0], [r0[0], r1[0], r2[0], r3[0]]


def guard_value(kind, xs, ys, names):
    """The quantity the library's own degeneracy guard compares with TOL, computed here the way the code documents it
    (sums accumulated in order in binary64; fsum for the plain sums of x and y).  None when there is no such guard
    (correlation_coeff).  The listed finding 'degenerate data not refused in binary64' is about data for which THIS
    number is >= TOL although the exact determinant is 0 - an absolute guard cannot see those; a degenerate data set
    whose guard value is below TOL must be refused, finding or not."""
    n = len(xs)
    if kind == 'linear':
        P_, Q_ = math.fsum(xs), 0.0
        for x in xs:
            Q_ += x * x
        return n * Q_ - P_ * P_
    if kind == 'quadratic':
        p, q, r, s_ = math.fsum(xs), 0.0, 0.0, 0.0
        for x in xs:
            x2 = x * x
            q += x2
            r += x2 * x
            s_ += x2 * x2
        q2 = q * q
        return n * q * s_ + 2.0 * p * q * r - q2 * q - p * p * s_ - n * r * r
    if kind == 'general':
        cols = pad(columns(names, xs), n)
        m = p = q = r = s_ = t = 0
        for i in range(n):
            a, b, c = cols[0][i], cols[1][i], cols[2][i]
            m += a * a
            p += a * b
            q += a * c
            r += b * b
            s_ += b * c
            t += c * c
        if abs(r) < TOL and abs(t) < TOL and abs(m) >= TOL:
            return None                      # one function: no determinant
        if abs(t) < TOL and abs(m) >= TOL and abs(r) >= TOL:
            return m * r - p * p
        if abs(m * r * t) < TOL:
            return m * r * t
        return m * r * t + 2.0 * p * q * s_ - m * s_ * s_ - r * q * q - t * p * p
    return None


def p_degenerate_raises(inp):
    """degenerate data raise ZeroDivisionError instead of returning numbers"""
    kind, xs, ys, names = inp
    out = fit_of(kind, xs, ys, names)
    det = {'returned': fnums(out) if not out.startswith('E:') else out}
    try:
        g = guard_value(kind, xs, ys, names)
        if g is not None:
            det['guard_value'] = g
    except Exception:  # noqa
        pass
    return out == 'E:ZeroDivisionError', det


EVAL = {f.__name__[2:]: f for f in (p_matches_exact, p_residual_orthogonal, p_unused_coeffs_zero, p_noiseless_recovered,
                                    p_perm_invariant, p_form_invariant, p_general_equals, p_corr_range,
                                    p_corr_collinear, p_corr_affine, p_corr_negation, p_degenerate_raises)}


def P(ctx, name, inp, klass=None):
    try:
        ok, det = EVAL[name](inp)
    except Exception as e:  # noqa
        ok, det = False, 'exception: ' + repr(e)
    if isinstance(det, dict) and 'dev' in det and det.get('lim'):
        ctx.deviation(name + '_dev_over_limit', det['dev'] / det['lim'])
    ctx.predicate(name, bool(ok), inp, det if not ok else None, klass or name)
    return ok


def small_integers(*lists):
    return all(v == int(v) and abs(v) <= 10 for l in lists for v in l)


def known_match(finding, failure):
    """known_findings.json (property C17).  (1) degenerate data for which binary64 rounding hides the zero determinant: numbers (or,
    for correlation_coeff, a ValueError from sqrt of a negative rounding residue) instead of ZeroDivisionError; data
    made of integers of magnitude <= 10 are exact in binary64 and are NOT covered by the finding.  (2) |r| > 1 from
    correlation_coeff on data whose conditioning is beyond the well-conditioned threshold."""
    if failure.get('predicate') != finding.get('predicate'):
        return False
    inp = failure.get('input') or []
    det = failure.get('detail')
    if not isinstance(det, dict):
        return False
    ret = det.get('returned')
    if finding['predicate'] == 'degenerate_raises':
        if small_integers(inp[1], inp[2]) and (inp[3] is None or all(nm in ('1', 'x', 'x2') for nm in inp[3])):
            return False
        if inp[0] == 'corr':
            return isinstance(ret, list) or ret == 'E:ValueError'
        # the finding is about determinants that binary64 rounding lifts to TOL or above; below TOL the library's own
        # guard sees the degeneracy and must refuse the data
        g = det.get('guard_value')
        if isinstance(g, (int, float)) and abs(g) < TOL:
            return False
        return isinstance(ret, list)
    if finding['predicate'] == 'corr_range':
        return det.get('cond', 0) > finding.get('cond_above', COND_MAX)
    return False


_known = None
_seen = [0, 0]


def enough_failures(ctx, limit=40):
    """fail fast: stop generating once `limit` predicate failures that are not listed findings were recorded
    (the run is a VIOLATION already; a broken implementation can make every further call very slow)"""
    global _known
    if _known is None:
        import core
        _known = [k for k in core.load_known() if k.get('property') == PROPERTY]
    for f in ctx.pred_fail[_seen[0]:]:
        if not any(known_match(k, f) for k in _known):
            _seen[1] += 1
    _seen[0] = len(ctx.pred_fail)
    return _seen[1] >= limit


# ------------------------------------------------------------------ generators
def gen_x(rng, n, hot):
    r = rng.random()
    if r < 0.2:
        lo = rng.randint(-20, 10)
        xs = [float(lo + k) for k in range(n)] if n <= 40 else [float(rng.randint(-1000, 1000)) for _ in range(n)]
        return xs, 'integer'
    if r < 0.5:
        return [rng.uniform(-1e3, 1e3) for _ in range(n)], 'spread'
    if r < 0.7:
        w = rng.choice([1.0, 10.0, 100.0])
        c = rng.uniform(-1e3 + w, 1e3 - w)
        return [c + rng.uniform(-w, w) for _ in range(n)], 'clustered_%g' % w
    if r < 0.8:
        w = rng.choice([1e-3, 1e-2, 1e-1])
        c = rng.choice([0.0, rng.uniform(-1e3 + 1, 1e3 - 1)])
        return [c + rng.uniform(-w, w) for _ in range(n)], 'tight_%g' % w
    if r < 0.9:
        return [rng.uniform(-3, 3) for _ in range(n)], 'small'
    return [rng.choice([-1e3, 1e3, 0.0, 999.5, -999.5] + [float(v) for v in hot.get('floats', [])][:4]) + rng.uniform(-1, 1) * 0 +
            rng.choice([0.0, 0.5, 0.25]) * k for k in range(n)] if n <= 8 else [rng.uniform(-1e3, 1e3) for _ in range(n)], 'boundary'


def gen_n(rng):
    r = rng.random()
    if r < 0.35:
        return rng.choice([2, 2, 3, 3, 4, 5, 6])
    if r < 0.8:
        return rng.randint(7, 60)
    if r < 0.9:
        return rng.choice([199, 200, 200, 128])
    return rng.randint(61, 200)


BASES = ['1', 'x', 'x2', 'sin:1', 'sin:2', 'sin:0.01', 'cos:1', 'cos:0.5', 'cos:0.01', 'exp:0.001', 'exp:0.004', 'exp:-0.002']


def gen_y(rng, xs, names):
    n = len(xs)
    cols = columns(names, xs)
    coefs = [rng.choice([rng.uniform(-5, 5), float(rng.randint(-4, 4)), 0.5]) for _ in names]
    base = [sum(a * c[i] for a, c in zip(coefs, cols)) for i in range(n)]
    amp = max(abs(v) for v in base) or 1.0
    r = rng.random()
    if r < 0.35:
        return base, 'noiseless'
    if r < 0.8:
        s = rng.choice([1e-6, 1e-3, 0.05, 0.5]) * amp
        return [v + rng.gauss(0, s) for v in base], 'noisy'
    return [rng.uniform(-3, 3) for _ in range(n)], 'random'


def tie_fit(ctx, kind, xs, ys, names, wellcond, integer):
    # exact model: integer data (1e-9) or |x| <= 3 with a condition number <= 1e4 (columns of comparable size)
    q = ('rel', 1e-9) if integer else (('rel', 1e-6) if wellcond == 'small' else None)
    if kind == 'linear':
        ctx.case('fit_linear', [xs, ys], fit_of(kind, xs, ys), q=q, klass='fit_linear')
    elif kind == 'quadratic':
        ctx.case('fit_quadratic', [xs, ys], fit_of(kind, xs, ys), q=q, klass='fit_quadratic')
    else:
        cols = pad(columns(names, xs), len(xs))
        ctx.case('fit_general', cols + [ys], fit_of(kind, xs, ys, names), q=q, klass='fit_general/%d' % len(names))


def check_dataset(ctx, rng, full_perms=False):
    hot = ctx.hot
    n = gen_n(rng)
    xs, xk = gen_x(rng, n, hot)
    r = rng.random()
    if r < 0.3:
        kind, names = 'linear', None
    elif r < 0.55:
        kind, names = 'quadratic', None
    else:
        kind = 'general'
        k = rng.choice([1, 2, 2, 3, 3])
        if xk.startswith('tight') or xk.startswith('clustered'):
            pool = ['1', 'x', 'x2', 'sin:1', 'cos:1', 'sin:2']
        else:
            pool = BASES
        names = rng.sample(pool, k)
        if rng.random() < 0.15:
            names = rng.choice([['x2', 'x', '1'], ['x', '1'], ['1'], ['x']])
    nm = names_of(kind, names)
    if n < len(nm):
        n = len(nm) + 1
        xs = (xs + [xs[-1] + 1.0, xs[-1] + 3.0, xs[-1] + 4.0])[:n]
    ys, yk = gen_y(rng, xs, nm)
    integer = (xk == 'integer' and n <= 12 and all(nm_ in ('1', 'x', 'x2') for nm_ in nm))
    if integer:
        ys = [float(round(y)) for y in ys]
    cols = columns(nm, xs)
    orc = oracle(cols, ys)
    wc = orc['sol'] is not None and orc['cond'] <= COND_MAX and orc['margin'] >= MARGIN_MIN
    klass = '%s/%s/%s/%s' % (kind, xk, yk, 'wellcond' if wc else 'illcond')
    inp = [kind, xs, ys, names]
    out = fit_of(kind, xs, ys, names)
    wq = 'small' if (wc and orc['cond'] <= 1e4 and max(abs(v) for v in xs) <= 3.0 and orc['margin'] >= 1e-3) else False
    tie_fit(ctx, kind, xs, ys, names, wq, integer)
    cf = _CF()(list(xs), list(ys))
    sums = ' '.join([str(cf._N)] + [enc(float(v)) for v in (cf._P, cf._Q, cf._R, cf._S, cf._T, cf._U, cf._V, cf._W)])
    ctx.case('fit_set', [xs, ys], sums, q=('rel', 1e-12) if integer else None, klass='fit_set')
    ctx.case('fit_corr', [xs, ys], run_impl(cf.correlation_coeff), q=None, klass='fit_corr')
    if wc:
        P(ctx, 'matches_exact', inp, 'matches_exact/' + klass)
        P(ctx, 'residual_orthogonal', inp, 'residual_orthogonal/' + kind)
        if kind == 'general':
            P(ctx, 'unused_coeffs_zero', inp, 'unused_coeffs_zero/%d' % len(names))
        # permutations
        if n <= 5 and full_perms:
            perms = list(itertools.permutations(range(n)))
        else:
            perms = []
            for _ in range(2):
                p = list(range(n))
                rng.shuffle(p)
                perms.append(p)
            perms.append(list(range(n - 1, -1, -1)))
        for p in perms:
            P(ctx, 'perm_invariant', [kind, xs, ys, names, list(p), integer and max(abs(y) for y in ys) < 1e4],
              'perm_invariant/' + ('exact' if integer else 'rel'))
        if kind in ('linear', 'quadratic'):
            P(ctx, 'general_equals', [kind, xs, ys], 'general_equals/' + kind)
            tie_fit(ctx, 'general', xs, ys, KIND_COLS[kind], wq, integer)
    form = rng.choice(['tuples', 'varargs', 'varargs_odd', 'copy', 'longer_y', 'set'])
    P(ctx, 'form_invariant', [xs, ys, form, nm], 'form_invariant/' + form)
    if xs == [float(k) for k in range(n)]:
        P(ctx, 'form_invariant', [xs, ys, 'single', nm], 'form_invariant/single')
    # correlation laws
    L = oracle(columns(['x', '1'], xs), ys)
    Ly = oracle(columns(['x', '1'], ys), xs)
    if L['sol'] is not None and Ly['sol'] is not None:
        P(ctx, 'corr_range', [xs, ys], 'corr_range')
        P(ctx, 'corr_negation', [xs, ys], 'corr_negation')
        if L['cond'] <= COND_MAX and Ly['cond'] <= COND_MAX:
            ax, ay = rng.choice([0.5, 2.0, 3.0, 10.0, 0.1]), rng.choice([0.25, 4.0, 7.0, 0.01])
            bx, by = rng.choice([0.0, 1.0, -2.5]), rng.choice([0.0, -1.0, 3.5])
            x2, y2 = [ax * x + bx for x in xs], [ay * y + by for y in ys]
            if oracle(columns(['x', '1'], x2), y2)['cond'] <= COND_MAX and oracle(columns(['x', '1'], y2), x2)['cond'] <= COND_MAX:
                P(ctx, 'corr_affine', [xs, ys, ax, bx, ay, by], 'corr_affine')
    if L['sol'] is not None and L['cond'] <= COND_MAX:
        a = rng.choice([2.0, -3.0, 0.5, -0.25, 1.0, -1.0, 7.0])
        b = rng.choice([0.0, 1.0, -4.0, 100.0])
        yl = [float(Fraction(a) * Fraction(x) + Fraction(b)) for x in xs]
        if oracle(columns(['x', '1'], yl), xs)['cond'] <= COND_MAX:
            P(ctx, 'corr_collinear', [xs, a, b], 'corr_collinear')
    # noiseless recovery
    if wc:
        if integer:
            coefs = [float(rng.randint(-5, 5)) for _ in nm]
            P(ctx, 'noiseless_recovered', [kind, xs, coefs, names, True], 'noiseless_recovered/exact')
        else:
            coefs = [rng.uniform(-5, 5) for _ in nm]
            P(ctx, 'noiseless_recovered', [kind, xs, coefs, names, False], 'noiseless_recovered/rel')


def check_degenerate(ctx, rng):
    n = rng.choice([2, 3, 5, 10, 22, 50, 200])
    r = rng.random()
    c = rng.choice([0.0, 1.0, 0.3, 0.1, -2.5, 3.0, 333.3, 1000.0, -999.9, rng.uniform(-1e3, 1e3)])
    ys = [rng.uniform(-3, 3) for _ in range(n)]
    if rng.random() < 0.3:
        # exact class: small integers, every sum and the determinant are exact in binary64
        c = float(rng.randint(-10, 10))
        ys = [float(rng.randint(-10, 10)) for _ in range(n)]
        if len(set(ys)) == 1:
            ys[0] += 1.0 if ys[0] < 10 else -1.0
    if r < 0.3:
        xs = [c] * n
        for kind in ('linear', 'quadratic', 'corr'):
            P(ctx, 'degenerate_raises', [kind, xs, ys, None], 'degenerate_raises/const_x/' + kind)
            ctx.case('fit_' + kind, [xs, ys], fit_of(kind, xs, ys), q=None, klass='fit_' + kind + '/degenerate')
        P(ctx, 'degenerate_raises', ['general', xs, ys, ['x', '1']], 'degenerate_raises/const_x/general')
    elif r < 0.5:
        xs = [rng.uniform(-1e3, 1e3) for _ in range(n)] if c != int(c) else [float(rng.randint(-10, 10)) for _ in range(n)]
        if len(set(xs)) == 1:
            xs[0] += 1.0 if xs[0] < 10 else -1.0
        yc = [c] * n
        P(ctx, 'degenerate_raises', ['corr', xs, yc, None], 'degenerate_raises/const_y/corr')
        ctx.case('fit_corr', [xs, yc], fit_of('corr', xs, yc), q=None, klass='fit_corr/degenerate')
    elif r < 0.7:
        # two distinct abscissae only: the quadratic is not determined
        c2 = c + rng.choice([1.0, 0.5, 10.0, -3.0]) if c != int(c) or abs(c) > 10 else float(rng.choice([v for v in range(-10, 11) if v != c]))
        xs = [rng.choice([c, c2]) for _ in range(n)]
        xs[0], xs[-1] = c, c2
        P(ctx, 'degenerate_raises', ['quadratic', xs, ys, None], 'degenerate_raises/two_x/quadratic')
        P(ctx, 'degenerate_raises', ['general', xs, ys, ['x2', 'x', '1']], 'degenerate_raises/two_x/general')
        ctx.case('fit_quadratic', [xs, ys], fit_of('quadratic', xs, ys), q=None, klass='fit_quadratic/degenerate')
    else:
        # linearly dependent basis columns
        xs = [rng.uniform(-10, 10) for _ in range(n)] if c != int(c) or n > 10 else [float(rng.randint(-5, 5)) for _ in range(n)]
        names = rng.choice([['x', 'x'], ['1', '1'], ['x', 'x', '1'], ['sin:1', 'sin:1', 'x'], ['x2', 'x', 'x']])
        P(ctx, 'degenerate_raises', ['general', xs, ys, names], 'degenerate_raises/dependent/general')
        ctx.case('fit_general', pad(columns(names, xs), n) + [ys], fit_of('general', xs, ys, names), q=None,
                 klass='fit_general/degenerate')


def impl_set(args):
    try:
        c = _CF()(*args)
    except Exception as e:  # noqa
        return enc_exc(e)
    if len(c) == 0:
        return 'empty'
    return ' '.join([str(c._N)] + [enc(float(v)) for v in (c._P, c._Q, c._R, c._S, c._T, c._U, c._V, c._W)])


def check_malformed(ctx):
    forms = [[], [5.0], [5], [[1.0]], [[]], [[1.0, 2.0]], [[3.0, 1.0, 2.0]], [1.0, 2.0], [[1.0, 2.0], 3.0], [3.0, [1.0, 2.0]],
             [1.0, 2.0, 3.0], [[1.0], [2.0], [3.0]], ['abc'], [[1.0, 2.0], 'abc'], ['abc', [1.0, 2.0]],
             [1.0, 2.0, 3.0, 'abc'], [1.0, 2.0, 'abc', 4.0, 5.0], [1.0, 2.0, 3.0, 4.0], [1.0, 2.0, 3.0, 4.0, 5.0],
             [1.0, 2.0, 1.0, 4.0], [[1.0, 2.0, 3.0], [1.0]], [[1.0, 2.0, 3.0], [4.0, 5.0]], [[1.0], [4.0, 5.0, 6.0]],
             [[1.0, 2.0, 3.0], []], [[1.0, 2.0], [1.0, 2.0], [1.0, 2.0]], [1.0, 2.0, 3.0, 4.0, 5.0, 6.0, 7.0],
             [[1.0, 1.0], [2.0, 3.0]]]
    for args in forms:
        ctx.case('fit_set', args, impl_set(args), q=('rel', 1e-12), klass='fit_set/arity')


def generate(ctx, shard=0, nshards=1):
    rng = ctx.rng
    if shard == 0:
        check_malformed(ctx)
    nds = ctx.n(6000, 60000) // nshards + 1
    _seen[0] = _seen[1] = 0
    for k in range(nds):
        if enough_failures(ctx):
            ctx.notes.append('generation stopped early: more than 40 new predicate failures in this shard')
            break
        check_dataset(ctx, rng, full_perms=(ctx.tier == 'thorough' and k % 4 == 0) or k % 25 == 0)
    for _ in range(ctx.n(2000, 16000) // nshards + 1):
        if enough_failures(ctx):
            break
        check_degenerate(ctx, rng)
    ctx.sample({'call': 'CurveFitting([0,1,2,3],[1,3,5,7]).linear_fitting()', 'expected': [2.0, 1.0]})
    ctx.sample({'call': 'CurveFitting([1,1,1],[1,2,3]).linear_fitting()', 'expected': 'ZeroDivisionError'})


def replay(case):
    name = case.get('predicate')
    inp = case.get('input')
    if name not in EVAL:
        return (False, 'unknown predicate ' + str(name))
    try:
        ok, det = EVAL[name](inp)
    except Exception as e:  # noqa
        ok, det = False, repr(e)
    return (not ok, {'predicate': name, 'input': inp, 'detail': det})
