"""C08 — Sun/Earth across frames; obliquity and nutation.

(S) structural tie: the binary64 instantiation of lean/templates/SunEarth.lean (+ Vsop.lean and the generated
    Earth tables) against pymeeus, bit for bit: mean/true obliquity, nutation, Sun.geometric/apparent
    geocentric position, the four rectangular_coordinates_* functions, the three *_coarse functions,
    Moon.longitude_mean_ascending_node.
(I) the numerical clauses of the property evaluated on the implementation (PRED below), with the stated
    tolerances: reflection, frames vs the library's own precession (2 arcsec / 1e-5 AU, years 1000-3000),
    norm = radius vector, obliquity vs the IAU cubic (3 arcsec), nutation vs the main-term model on the
    Moon's node (3.5 / 1.5 arcsec), true = mean + nutation, coarse vs VSOP87 (0.02 deg, 1800-2200), date forms.
"""
import datetime
import functools
import math

from core import run_impl, enc, enc_exc

PROPERTY = 'C08'
FUNCTIONS = ['pymeeus/Sun.py:Sun.geometric_geocentric_position', 'pymeeus/Sun.py:Sun.apparent_geocentric_position',
             'pymeeus/Sun.py:Sun.rectangular_coordinates_mean_equinox', 'pymeeus/Sun.py:Sun.rectangular_coordinates_j2000',
             'pymeeus/Sun.py:Sun.rectangular_coordinates_b1950', 'pymeeus/Sun.py:Sun.rectangular_coordinates_equinox',
             'pymeeus/Sun.py:Sun.true_longitude_coarse', 'pymeeus/Sun.py:Sun.apparent_longitude_coarse',
             'pymeeus/Sun.py:Sun.apparent_rightascension_declination_coarse',
             'pymeeus/Earth.py:Earth.geometric_heliocentric_position', 'pymeeus/Earth.py:Earth.apparent_heliocentric_position',
             'pymeeus/Earth.py:Earth.geometric_heliocentric_position_j2000',
             'pymeeus/Earth.py:VSOP87_L', 'pymeeus/Earth.py:VSOP87_B', 'pymeeus/Earth.py:VSOP87_R',
             'pymeeus/Earth.py:VSOP87_L_J2000', 'pymeeus/Earth.py:VSOP87_B_J2000',
             'pymeeus/Coordinates.py:mean_obliquity', 'pymeeus/Coordinates.py:true_obliquity',
             'pymeeus/Coordinates.py:nutation_longitude', 'pymeeus/Coordinates.py:nutation_obliquity',
             'pymeeus/Coordinates.py:NUTATION_ARG_TABLE', 'pymeeus/Coordinates.py:NUTATION_SINE_COEF_TABLE',
             'pymeeus/Coordinates.py:NUTATION_COSINE_COEF_TABLE',
             'pymeeus/Coordinates.py:vsop_pos', 'pymeeus/Coordinates.py:geometric_vsop_pos', 'pymeeus/Coordinates.py:apparent_vsop_pos',
             'pymeeus/Moon.py:Moon.longitude_mean_ascending_node',
             'pymeeus/Angle.py:Angle.reduce_deg', 'pymeeus/Angle.py:Angle.reduce_dms', 'pymeeus/Angle.py:Angle.dms2deg',
             'pymeeus/Angle.py:Angle.set', 'pymeeus/Angle.py:Angle.to_positive', 'pymeeus/Angle.py:Angle.__add__',
             'pymeeus/Angle.py:Angle.__sub__', 'pymeeus/Angle.py:Angle.__neg__', 'pymeeus/Angle.py:Angle.rad',
             'pymeeus/Epoch.py:Epoch.check_input_date']

MANIFEST = dict(
    text=("Lean 4 theorems (Props/C08.lean) about the real-number model of the Sun/Earth frame functions "
          "(templates/SunEarth.lean, Vsop.lean; Earth tables regenerated from the source): the Sun's position is the "
          "Earth's reflected (longitude + 180 mod 360 in [0, 360), latitude negated, same distance), geometric and "
          "apparent; x^2+y^2+z^2 of the rectangular coordinates: exactly r^2 in the J2000-ecliptic vector, preserved "
          "exactly by the arbitrary-equinox rotation (orthogonality from sin^2+cos^2=1), within 1e-9 r^2 by the "
          "decimal J2000 matrix, r^2 (1 + sin^2 beta) for the mean-equinox function as coded; "
          "rectangular_coordinates_b1950 is NOT the B1950 matrix applied to the vector (counterexample + what it does "
          "compute); rectangular_coordinates_equinox at the equinox J2000.0 is rectangular_coordinates_j2000; Angle(0, 0, s) "
          "is exactly s/3600 degrees below a full turn (all carries); mean obliquity = Laskar's polynomial in closed "
          "form; shape and first rows of the nutation tables; the annual frequency is shared by the J2000 latitude and "
          "longitude tables and equals the L1 rate, while the second harmonic of VSOP87_L_J2000 is mistyped "
          "(counterexample theorem for the known finding); true obliquity = mean + nutation (mod 360); mean obliquity within 3 arcsec of the IAU cubic for "
          "|u| <= 0.2; nutation in longitude / obliquity within 3.5 / 1.5 arcsec of the main-term model, both on the series' "
          "own node argument and on Moon.longitude_mean_ascending_node, for |T| <= 40 centuries, from the sums of the "
          "absolute values of the generated coefficients. PARTIAL: 'equals the "
          "of-date position carried by the library's own precession to 2 arcsec' and 'coarse vs VSOP87 to 0.02 deg' "
          "are agreements between independent series: covered by the bit-exact correspondence run and the "
          "predicates on the implementation only. On the current tree the frame clause FAILS (known findings: a "
          "mistyped frequency in Earth.VSOP87_L_J2000, the starting-epoch argument T of rectangular_coordinates_equinox, "
          "and the overwritten variables of rectangular_coordinates_b1950)."),
    note=("Trusted: Lean kernel, Mathlib, axioms propext/Classical.choice/Quot.sound; hand-written model "
          "lean/templates/SunEarth.lean + Vsop.lean and the table translator tools/gen_tables.py, validated on every "
          "run by the bit-for-bit correspondence run; idealisation binary64 -> reals. Date-argument forms are exercised on the implementation only (Epoch "
          "construction is C01/C02)."),
    technique="Lean 4 proof + model/implementation correspondence check + property predicates on the implementation",
    ref='6 C08')

TRUSTED = ['tools/gen_tables.py (translator of the coefficient tables and of the Earth wrappers), validated by the '
           'table digests of harness/c07.py and by the bit-exact runs of this module']
ASSUMPTIONS = ['an Epoch enters the model as its JDE',
               "frame clause: 'carried there by the library's own precession' = Coordinates.precession_ecliptical for "
               "(lon, lat) and Coordinates.precession_equatorial (via right ascension / declination) for rectangular "
               'coordinates; B1950.0 = JDE 2433282.4235 as in the library docstrings',
               'norm clause tolerance: 1e-9 relative (the statement gives none)']
RULE = 'distinct (model function, argument tuple) pairs sent to the model and to the implementation'

B1950_JDE = 2433282.4235


# ------------------------------------------------------------------ helpers
def mk_epoch(jde):
    from pymeeus.Epoch import Epoch
    return Epoch(jde)


def norm_jde(j):
    return mk_epoch(j).jde()


@functools.lru_cache(maxsize=1)
def ranges():
    from pymeeus.Epoch import Epoch
    return {'wide': (Epoch(-2000, 1, 1.0).jde(), Epoch(4000, 12, 31.0).jde()),
            'frames': (Epoch(1000, 1, 1.0).jde(), Epoch(3000, 12, 31.0).jde()),
            'coarse': (Epoch(1800, 1, 1.0).jde(), Epoch(2200, 12, 31.0).jde()),
            'iau': (2451545.0 - 20 * 36525.0, 2451545.0 + 20 * 36525.0)}


def wrap180(d):
    d = math.fmod(d, 360.0)
    if d > 180.0:
        d -= 360.0
    if d <= -180.0:
        d += 360.0
    return d


def sep_arcsec(l1, b1, l2, b2):
    l1, b1, l2, b2 = map(math.radians, (l1, b1, l2, b2))
    v1 = (math.cos(b1) * math.cos(l1), math.cos(b1) * math.sin(l1), math.sin(b1))
    v2 = (math.cos(b2) * math.cos(l2), math.cos(b2) * math.sin(l2), math.sin(b2))
    c = (v1[1] * v2[2] - v1[2] * v2[1], v1[2] * v2[0] - v1[0] * v2[2], v1[0] * v2[1] - v1[1] * v2[0])
    return math.degrees(math.atan2(math.sqrt(sum(x * x for x in c)), sum(a * b for a, b in zip(v1, v2)))) * 3600.0


def carry_xyz(v, e0, e1):
    """an equatorial vector of the mean equinox of e0 carried to the mean equinox of e1 by the library's precession"""
    from pymeeus.Angle import Angle
    from pymeeus.Coordinates import precession_equatorial
    x, y, z = v
    r = math.sqrt(x * x + y * y + z * z)
    ra = Angle(math.atan2(y, x), radians=True)
    dec = Angle(math.asin(z / r), radians=True)
    ra2, dec2 = precession_equatorial(e0, e1, ra, dec)
    a, d = ra2.rad(), dec2.rad()
    return (r * math.cos(d) * math.cos(a), r * math.cos(d) * math.sin(a), r * math.sin(d))


def T(x):
    """tuple of Angles / floats -> tuple of floats"""
    return tuple(float(v) if not hasattr(v, 'rad') else v() for v in x)


def impl(call):
    try:
        r = call()
        if isinstance(r, tuple):
            return enc(T(r))
        return enc(T((r,))[0])
    except Exception as e:  # noqa
        return enc_exc(e)


# ------------------------------------------------------------------ predicates
def p_reflection(jde, kind, flag):
    from pymeeus.Sun import Sun
    from pymeeus.Earth import Earth
    e = mk_epoch(jde)
    if kind == 'geometric':
        s = T(Sun.geometric_geocentric_position(e, flag)); g = T(Earth.geometric_heliocentric_position(e, flag))
    else:
        s = T(Sun.apparent_geocentric_position(e, flag)); g = T(Earth.apparent_heliocentric_position(e, flag))
    dl = abs(wrap180(s[0] - g[0] - 180.0))
    ok = dl <= 1e-9 and abs(s[1] + g[1]) <= 1e-12 and s[2] == g[2] and 0.0 <= s[0] < 360.0
    return ok, {'sun': s, 'earth': g, 'dlon': dl}


def p_frame_earth_j2000(jde, tofk5):
    from pymeeus.Earth import Earth
    from pymeeus.Epoch import JDE2000
    from pymeeus.Coordinates import precession_ecliptical
    e = mk_epoch(jde)
    l, b, r = Earth.geometric_heliocentric_position(e, tofk5)
    lj, bj, rj = Earth.geometric_heliocentric_position_j2000(e, tofk5)
    l2, b2 = precession_ecliptical(e, JDE2000, l, b)
    s = sep_arcsec(l2(), b2(), lj(), bj())
    # the latitude part on its own: the listed finding about the J2000 series is a LONGITUDE defect (a frequency
    # of the L series); the latitudes agree to 0.43 arcsec over the whole range and must keep doing so
    return (s <= 2.0 and abs(r - rj) <= 1e-5), {'sep_arcsec': s, 'dr_au': abs(r - rj),
                                                'dlat_arcsec': abs(b2() - bj()) * 3600.0}


def _rect(jde):
    from pymeeus.Sun import Sun
    e = mk_epoch(jde)
    return e, Sun.rectangular_coordinates_mean_equinox(e)


def p_frame_rect_j2000(jde):
    from pymeeus.Sun import Sun
    from pymeeus.Epoch import JDE2000
    e, xm = _rect(jde)
    a, v = carry_xyz(xm, e, JDE2000), Sun.rectangular_coordinates_j2000(e)
    d = math.dist(a, v)
    # component along the pole of the J2000 ecliptic (latitude part; 1.5e-6 AU at most on the unchanged code)
    eps = math.radians(23.4392911)
    pole = abs((-a[1] * math.sin(eps) + a[2] * math.cos(eps)) - (-v[1] * math.sin(eps) + v[2] * math.cos(eps)))
    return d <= 1e-5, {'error_au': d, 'pole_error_au': pole}


def p_frame_rect_b1950(jde):
    from pymeeus.Sun import Sun
    e, xm = _rect(jde)
    d = math.dist(carry_xyz(xm, e, mk_epoch(B1950_JDE)), Sun.rectangular_coordinates_b1950(e))
    return d <= 1e-5, {'error_au': d}


def p_frame_rect_equinox(jde, eq_jde):
    from pymeeus.Sun import Sun
    e, xm = _rect(jde)
    q = mk_epoch(eq_jde)
    d = math.dist(carry_xyz(xm, e, q), Sun.rectangular_coordinates_equinox(e, q))
    return d <= 1e-5, {'error_au': d}


def p_norm(jde, which, eq_jde=None):
    from pymeeus.Sun import Sun
    e = mk_epoch(jde)
    r = Sun.geometric_geocentric_position(e)[2]
    if which == 'mean_equinox':
        v = Sun.rectangular_coordinates_mean_equinox(e)
    elif which == 'j2000':
        v = Sun.rectangular_coordinates_j2000(e)
    elif which == 'b1950':
        v = Sun.rectangular_coordinates_b1950(e)
    else:
        v = Sun.rectangular_coordinates_equinox(e, mk_epoch(eq_jde))
    n = math.sqrt(sum(t * t for t in v))
    return abs(n - r) <= 1e-9 * r, {'norm': n, 'r': r, 'norm_error_au': abs(n - r)}


def p_obliquity_iau(jde):
    from pymeeus.Coordinates import mean_obliquity
    t = (jde - 2451545.0) / 36525.0
    iau = 23.0 + 26.0 / 60.0 + 21.448 / 3600.0 + (-46.8150 * t - 0.00059 * t * t + 0.001813 * t ** 3) / 3600.0
    d = abs(mean_obliquity(mk_epoch(jde))() - iau) * 3600.0
    return d <= 3.0, {'diff_arcsec': d}


def p_nutation_main_term(jde):
    from pymeeus.Coordinates import nutation_longitude, nutation_obliquity
    from pymeeus.Moon import Moon
    e = mk_epoch(jde)
    om = Moon.longitude_mean_ascending_node(e).rad()
    d1 = abs(nutation_longitude(e)() * 3600.0 + 17.1996 * math.sin(om))
    d2 = abs(nutation_obliquity(e)() * 3600.0 - 9.2025 * math.cos(om))
    return (d1 <= 3.5 and d2 <= 1.5), {'dpsi_residual_arcsec': d1, 'deps_residual_arcsec': d2}


def p_true_obliquity_sum(jde):
    from pymeeus.Coordinates import mean_obliquity, true_obliquity, nutation_obliquity
    e = mk_epoch(jde)
    d = abs(wrap180(true_obliquity(e)() - mean_obliquity(e)() - nutation_obliquity(e)()))
    return d <= 1e-10, {'diff_deg': d}


def p_coarse(jde):
    from pymeeus.Sun import Sun
    from pymeeus.Coordinates import true_obliquity, ecliptical2equatorial
    e = mk_epoch(jde)
    tl, r = Sun.true_longitude_coarse(e)
    ls, bs, rs = Sun.geometric_geocentric_position(e)
    al, r2 = Sun.apparent_longitude_coarse(e)
    la, ba, ra_ = Sun.apparent_geocentric_position(e)
    a, d, r3 = Sun.apparent_rightascension_declination_coarse(e)
    a2, d2 = ecliptical2equatorial(la, ba, true_obliquity(e))
    dev = {'true_lon': abs(wrap180(tl() - ls())), 'apparent_lon': abs(wrap180(al() - la())),
           'ra': abs(wrap180(a() - a2())), 'dec': abs(d() - d2())}
    return max(dev.values()) <= 0.02, dev


def p_date_forms(y, m, d):
    from pymeeus.Epoch import Epoch
    import pymeeus.Coordinates as C
    e = Epoch(y, m, d)
    forms = [(e,), (y, m, d), ((y, m, d),), ([y, m, d],)]
    if 1 <= y <= 9999:
        forms += [(datetime.date(y, m, d),), (datetime.datetime(y, m, d),)]
    bad = []
    for fn in (C.mean_obliquity, C.true_obliquity, C.nutation_longitude, C.nutation_obliquity):
        ref = fn(e)()
        for f in forms:
            v = fn(*f)()
            if v != ref:
                bad.append([fn.__name__, repr(f)[:40], v, ref])
    # forms that carry a time of day: whatever instant the library makes of them, the three obliquity functions must
    # make the SAME instant of the same arguments (true obliquity = mean obliquity + nutation in obliquity, exactly as
    # the code adds them)
    h, mi, sec = (7 * y + 3 * m + d) % 24, (11 * d + m) % 60, float((13 * y + 5 * d) % 60) + 0.25
    timed = [(y, m, d + (h + mi / 60.0) / 24.0), (y, m, d, h, mi, sec), ((y, m, d, h, mi, sec),), ([y, m, d, h, mi, sec],),
             (Epoch(y, m, d, h, mi, sec),), (y, m, d, h), (y, m, d, h, mi)]
    if 1 <= y <= 9999:
        timed += [(datetime.datetime(y, m, d, h, mi, int(sec)),), (datetime.datetime(y, m, d, h, mi, int(sec), 250000),)]
    for f in forms + timed:
        try:
            t, s_ = C.true_obliquity(*f)(), (C.mean_obliquity(*f) + C.nutation_obliquity(*f))()
        except Exception as ex:  # noqa
            bad.append(['true_obliquity', repr(f)[:60], repr(ex)[:60], None])
            continue
        if t != s_:
            bad.append(['true_obliquity != mean + nutation', repr(f)[:60], t, s_])
    for kw in ({'utc': True}, {'leap_seconds': 30.0}):
        for f in ((y, m, d), (y, m, d, h, mi, sec)):
            try:
                t, s_ = C.true_obliquity(*f, **kw)(), (C.mean_obliquity(*f, **kw) + C.nutation_obliquity(*f, **kw))()
            except Exception as ex:  # noqa
                bad.append(['true_obliquity', repr((f, kw))[:60], repr(ex)[:60], None])
                continue
            if t != s_:
                bad.append(['true_obliquity != mean + nutation', repr((f, kw))[:60], t, s_])
    return not bad, {'mismatches': bad[:4]}


PRED = {'reflection': p_reflection, 'frame_earth_j2000': p_frame_earth_j2000, 'frame_rect_j2000': p_frame_rect_j2000,
        'frame_rect_b1950': p_frame_rect_b1950, 'frame_rect_equinox': p_frame_rect_equinox, 'norm': p_norm,
        'norm_b1950': p_norm, 'obliquity_iau': p_obliquity_iau, 'nutation_main_term': p_nutation_main_term,
        'true_obliquity_sum': p_true_obliquity_sum, 'coarse_vs_vsop': p_coarse, 'date_forms': p_date_forms}


def check(ctx, name, inp, klass=None):
    try:
        ok, detail = PRED[name](*inp)
    except Exception as ex:  # noqa
        ok, detail = False, {'exception': repr(ex)}
    ctx.predicate(name, bool(ok), list(inp), detail, klass or name)
    return ok, detail


def known_match(k, f):
    """a listed finding matches a failure when the predicate is one of the listed ones and every listed detail
    value stays below the listed bound (so a NEW defect that produces larger errors is not hidden)"""
    preds = k.get('predicates') or [k.get('predicate')]
    if f.get('predicate') not in preds:
        return False
    d = f.get('detail') or {}
    for key, lim in (k.get('detail_max') or {}).items():
        if key in d and not (isinstance(d[key], (int, float)) and d[key] <= lim):
            return False
    if 'exception' in d:
        return False
    inp = f.get('input') or []
    for idx, rng in (k.get('ranges') or {}).items():
        i = int(idx)
        if i >= len(inp) or not isinstance(inp[i], (int, float)) or not (rng[0] <= inp[i] <= rng[1]):
            return False
    return True


# ------------------------------------------------------------------ correspondence
def tie_epoch(ctx, jde, klass, eqs=()):
    from pymeeus.Sun import Sun
    from pymeeus.Moon import Moon
    import pymeeus.Coordinates as C
    e = mk_epoch(jde)
    ctx.case('mean_obliquity', [jde], impl(lambda: C.mean_obliquity(e)), q=None, klass='obliquity/' + klass)
    ctx.case('true_obliquity', [jde], impl(lambda: C.true_obliquity(e)), q=None, klass='obliquity/' + klass)
    ctx.case('nutation_longitude', [jde], impl(lambda: C.nutation_longitude(e)), q=None, klass='nutation/' + klass)
    ctx.case('nutation_obliquity', [jde], impl(lambda: C.nutation_obliquity(e)), q=None, klass='nutation/' + klass)
    for f in (True, False):
        ctx.case('sun_geometric_geocentric_position', [jde, f], impl(lambda: Sun.geometric_geocentric_position(e, f)),
                 q=None, klass='sun_position/' + klass)
        ctx.case('sun_apparent_geocentric_position', [jde, f], impl(lambda: Sun.apparent_geocentric_position(e, f)),
                 q=None, klass='sun_position/' + klass)
    ctx.case('rectangular_coordinates_mean_equinox', [jde], impl(lambda: Sun.rectangular_coordinates_mean_equinox(e)),
             q=None, klass='rectangular/' + klass)
    ctx.case('rectangular_coordinates_j2000', [jde], impl(lambda: Sun.rectangular_coordinates_j2000(e)), q=None,
             klass='rectangular/' + klass)
    ctx.case('rectangular_coordinates_b1950', [jde], impl(lambda: Sun.rectangular_coordinates_b1950(e)), q=None,
             klass='rectangular/' + klass)
    for q in eqs:
        ctx.case('rectangular_coordinates_equinox', [jde, q],
                 impl(lambda: Sun.rectangular_coordinates_equinox(e, mk_epoch(q))), q=None, klass='rectangular_equinox/' + klass)
    ctx.case('true_longitude_coarse', [jde], impl(lambda: Sun.true_longitude_coarse(e)), q=None, klass='coarse/' + klass)
    ctx.case('apparent_longitude_coarse', [jde], impl(lambda: Sun.apparent_longitude_coarse(e)), q=None, klass='coarse/' + klass)
    ctx.case('apparent_rightascension_declination_coarse', [jde],
             impl(lambda: Sun.apparent_rightascension_declination_coarse(e)), q=None, klass='coarse/' + klass)
    ctx.case('longitude_mean_ascending_node', [jde], impl(lambda: Moon.longitude_mean_ascending_node(e)), q=None,
             klass='moon_node/' + klass)


def patched_frames(ctx, rng, n):
    """Evidence for the proposed repair of the known finding C08-j2000-series-frequency: the same frame
    comparison with the single coefficient Earth.VSOP87_L_J2000[0][2][2] set to 12566.1517 in THIS process
    (the source tree is not touched).  Recorded as a deviation, not as a predicate."""
    import pymeeus.Earth as EM
    lo, hi = ranges()['frames']
    old = EM.VSOP87_L_J2000[0][2][2]
    worst = 0.0
    try:
        EM.VSOP87_L_J2000[0][2][2] = 12566.1517
        for _ in range(n):
            j = norm_jde(rng.uniform(lo, hi))
            ok, d = p_frame_earth_j2000(j, True)
            worst = max(worst, d['sep_arcsec'])
            ok, d = p_frame_rect_j2000(j)
            ctx.deviation('frame_rect_j2000_au_with_frequency_12566.1517', d['error_au'])
    finally:
        EM.VSOP87_L_J2000[0][2][2] = old
    ctx.deviation('frame_earth_j2000_arcsec_with_frequency_12566.1517', worst)
    ctx.notes.append('with Earth.VSOP87_L_J2000[0][2][2] = 12566.1517 (in-process patch) the J2000 frame clause holds: '
                     'max separation %.3f arcsec over %d epochs in 1000-3000' % (worst, n))


def size(ctx, quick, thorough, dense=None):
    """sample count: when the source fingerprint of a modelled function changed (ctx.scale > 1) the quick tier
    switches to the densest enumeration that still fits in 2-3 minutes (`dense`, default: the thorough count),
    whatever the scale; otherwise the tier's own count"""
    if ctx.tier == 'quick' and ctx.scale > 1:
        return max(1, dense if dense is not None else thorough)
    return ctx.n(quick, thorough)


# ------------------------------------------------------------------ generator
def generate(ctx, shard=0, nshards=1):
    rng = ctx.rng
    R = ranges()
    hot = [v for v in ctx.hot['floats'] if 990000 < v < 3190000]
    if shard == 0:
        for j in (2451545.0, B1950_JDE, R['wide'][0], R['wide'][1], R['frames'][0], R['frames'][1], 2448908.5):
            j = norm_jde(j)
            tie_epoch(ctx, j, 'anchor', eqs=(2467616.0, B1950_JDE, 2451545.0))
        patched_frames(ctx, rng, size(ctx, 40, 400))
        for (y, m, d) in ((1987, 4, 10), (2000, 1, 1), (1992, 10, 13), (1582, 10, 4), (1582, 10, 15), (-1000, 7, 12),
                          (1, 1, 1), (9999, 12, 31), (2016, 12, 31), (1972, 1, 1), (3000, 2, 28), (2000, 2, 29)):
            check(ctx, 'date_forms', [y, m, d])
    # --- reflection / obliquity / nutation over -2000..4000
    n = max(1, size(ctx, 1200, 16000) // nshards)
    lo, hi = R['wide']
    for k in range(n):
        u = rng.random()
        if u < 0.1 and hot:
            j = rng.choice(hot) + rng.uniform(-30, 30)
        elif u < 0.2:
            j = rng.choice([lo, hi]) + rng.uniform(-1, 1) * 36525.0
        else:
            j = rng.uniform(lo, hi)
        j = norm_jde(min(max(j, lo), hi))
        f = rng.random() < 0.5
        check(ctx, 'reflection', [j, 'geometric', f], 'reflection/geometric')
        check(ctx, 'reflection', [j, 'apparent', f], 'reflection/apparent')
        check(ctx, 'nutation_main_term', [j])
        check(ctx, 'true_obliquity_sum', [j])
        if k % 3 == 0:
            tie_epoch(ctx, j, 'wide')
    lo, hi = R['iau']
    for k in range(max(1, size(ctx, 400, 6000) // nshards)):
        j = norm_jde(rng.choice([rng.uniform(lo, hi), lo + rng.random() * 36525, hi - rng.random() * 36525]))
        check(ctx, 'obliquity_iau', [j])
    # --- frames, years 1000..3000, all seasons; equinox epochs within +-3 centuries (of the date and of J2000)
    lo, hi = R['frames']
    n = max(1, size(ctx, 480, 8000) // nshards)
    for k in range(n):
        u = rng.random()
        if u < 0.12:
            j = rng.choice([lo, hi, 2451545.0, B1950_JDE]) + rng.uniform(-1, 1) * 3652.5
        else:
            j = rng.uniform(lo, hi)
        j = norm_jde(min(max(j, lo), hi))
        check(ctx, 'frame_earth_j2000', [j, rng.random() < 0.7])
        check(ctx, 'frame_rect_j2000', [j])
        check(ctx, 'frame_rect_b1950', [j])
        check(ctx, 'norm', [j, 'mean_equinox'], 'norm/mean_equinox')
        check(ctx, 'norm', [j, 'j2000'], 'norm/j2000')
        check(ctx, 'norm_b1950', [j, 'b1950'], 'norm/b1950')
        eqs = [norm_jde(j + rng.uniform(-300, 300) * 365.25), norm_jde(2451545.0 + rng.uniform(-300, 300) * 365.25)]
        if k % 16 == 0:
            eqs.append(j)                      # equinox of the date itself
        for q in eqs:
            check(ctx, 'frame_rect_equinox', [j, q])
            check(ctx, 'norm', [j, 'equinox', q], 'norm/equinox')
        if k % 3 == 0:
            tie_epoch(ctx, j, 'frames', eqs=eqs[:2])
    # --- coarse formulas, 1800..2200
    lo, hi = R['coarse']
    for k in range(max(1, size(ctx, 480, 8000) // nshards)):
        j = norm_jde(rng.uniform(lo, hi))
        check(ctx, 'coarse_vs_vsop', [j])
        if k % 3 == 0:
            tie_epoch(ctx, j, 'coarse')
    # --- date forms
    for k in range(max(1, size(ctx, 64, 800) // nshards)):
        y = rng.choice([rng.randint(-2000, 4000), rng.randint(1, 9999), 1582, 1972, 2000])
        m = rng.randint(1, 12)
        d = rng.randint(1, 28)
        if (y, m) == (1582, 10) and 5 <= d <= 14:
            d = 20
        check(ctx, 'date_forms', [y, m, d])
    ctx.sample({'call': 'Sun.rectangular_coordinates_b1950(Epoch(1992, 10, 13.0))',
                'impl': [-0.941495571665932, -0.3025992185063502, -0.1157869450319487],
                'note': 'pinned by tests/test_sun.py; not the B1950 matrix applied to the vector'})
    ctx.sample({'call': 'Earth.VSOP87_L_J2000[0][2]', 'impl': [34894.0, 4.6261, 12556.1517], 'vsop87': [34894.275, 4.62610242189, 12566.1516999828]})


def replay(case):
    import core
    ctx = core.Ctx(PROPERTY, 'quick', 0)
    name = case.get('predicate')
    inp = case.get('input') or []
    if name not in PRED:
        return (False, {'error': 'unknown predicate ' + str(name)})
    check(ctx, name, inp)
    return (len(ctx.pred_fail) > 0, ctx.pred_fail or {'ok': True, 'predicate': name, 'input': inp})
