#!/venv/bin/python
"""bin/check <Cxx> quick|thorough   |   bin/check <Cxx> --replay <file>

Exit 0: the property held on everything explored (KNOWN-FINDING lines may be printed).
Exit 1: `VIOLATION property=<id> replay=<path>[ no-failing-input-found]`.
Exit 2: infrastructure failure (never a pass).
"""
import fcntl
import importlib
import json
import multiprocessing as mp
import os
import re
import subprocess
import sys
import time
import traceback

HERE = os.path.dirname(os.path.abspath(__file__))
sys.path.insert(0, HERE)
import core  # noqa: E402
import fingerprint  # noqa: E402

sys.path.insert(0, core.REPO)

ALLOWED_AXIOMS = {'propext', 'Classical.choice', 'Quot.sound'}
FORBIDDEN = re.compile(r'\bsorry\b|\badmit\b|^\s*axiom\s|native_decide|bv_decide|implemented_by|\bunsafe\s|maxHeartbeats\s+0\b')


def log(*a):
    print(*a, flush=True)


# ------------------------------------------------------------------ Lean side (T)
class LakeLock:
    def __enter__(self):
        os.makedirs(core.WORK, exist_ok=True)
        self.f = open(os.path.join(core.WORK, 'lake.lock'), 'w')
        fcntl.flock(self.f, fcntl.LOCK_EX)
        return self

    def __exit__(self, *a):
        fcntl.flock(self.f, fcntl.LOCK_UN)
        self.f.close()


def strip_comments(text):
    text = re.sub(r'/-.*?-/', lambda m: '\n' * m.group(0).count('\n'), text, flags=re.S)
    text = re.sub(r'--.*', '', text)
    return text


def theorem_spans(path):
    """[(name, first_line, last_line)] of the theorems of a Lean file (namespace-qualified)."""
    src = open(path).read()
    code = strip_comments(src).split('\n')
    ns = []
    out = []
    starts = []
    for i, line in enumerate(code, 1):
        m = re.match(r'\s*namespace\s+(\S+)', line)
        if m:
            ns.append(m.group(1))
        m = re.match(r'\s*end\s+(\S+)\s*$', line)
        if m and ns and ns[-1] == m.group(1):
            ns.pop()
        m = re.match(r'\s*(?:@\[[^\]]*\]\s*)?(?:private\s+|protected\s+)?(theorem|lemma)\s+(\S+)', line)
        if m:
            starts.append(('.'.join(ns + [m.group(2)]), i))
        elif re.match(r'\s*(?:@\[[^\]]*\]\s*)?(?:noncomputable\s+)?(def|example|instance|abbrev|structure|inductive)\b', line):
            starts.append((None, i))
    for k, (name, ln) in enumerate(starts):
        end = starts[k + 1][1] - 1 if k + 1 < len(starts) else len(code)
        if name:
            out.append((name, ln, end))
    return out


def lean_check(prop, thorough):
    """Build the property's theorem module, audit axioms. Returns dict."""
    res = {'obligations': 0, 'discharged': 0, 'failed': [], 'axioms': {}, 'forbidden': [], 'build_ok': False,
           'checker_cmd': '', 'log': ''}
    props_file = os.path.join(core.LEAN_DIR, 'Pymeeus', 'Props', prop + '.lean')
    if not os.path.exists(props_file):
        res['log'] = 'no theorem file ' + props_file
        return res
    spans = theorem_spans(props_file)
    res['obligations'] = len(spans)
    res['theorems'] = [s[0] for s in spans]
    # forbidden tokens anywhere in the library
    for dp, dn, fns in os.walk(os.path.join(core.LEAN_DIR, 'Pymeeus')):
        for fn in fns:
            if fn.endswith('.lean'):
                p = os.path.join(dp, fn)
                for i, line in enumerate(strip_comments(open(p).read()).split('\n'), 1):
                    if FORBIDDEN.search(line):
                        res['forbidden'].append('%s:%d: %s' % (os.path.relpath(p, core.LEAN_DIR), i, line.strip()))
    target = 'Pymeeus.Props.' + prop
    cmd = ['lake', 'build', 'driver', target]
    res['checker_cmd'] = 'cd lean && python3 ../tools/instantiate.py && ' + ' '.join(cmd) + \
        ' && lake env lean .work/Audit_%s.lean  (#print axioms for every theorem)' % prop
    with LakeLock():
        pi = subprocess.run([sys.executable, os.path.join(core.ROOT, 'tools', 'instantiate.py')],
                            stdout=subprocess.PIPE, stderr=subprocess.STDOUT, text=True)
        if pi.returncode != 0:
            # A translator (tools/gen_*.py) rejected the current source: the generated part of the model
            # cannot be regenerated, so nothing is proved about the new code (DESIGN.md section 4, row 1).
            # Not an infrastructure error: go on to the failing-input search with the last model.
            res['log'] = 'model regeneration failed (translator rejected the current source):\n' + pi.stdout[-3000:]
            res['failed'] = [s_[0] for s_ in spans]
            res['discharged'] = 0
            res['regeneration_failed'] = True
            return res
        if thorough:
            # do not trust cached .olean of the property module: force re-elaboration
            for ext in ('olean', 'ilean', 'trace', 'olean.hash', 'ilean.hash'):
                p = os.path.join(core.LEAN_DIR, '.lake', 'build', 'lib', 'lean', 'Pymeeus', 'Props', prop + '.' + ext)
                if os.path.exists(p):
                    os.remove(p)
        t0 = time.time()
        p = subprocess.run(cmd, cwd=core.LEAN_DIR, stdout=subprocess.PIPE, stderr=subprocess.STDOUT, text=True)
        res['build_s'] = round(time.time() - t0, 1)
        res['log'] = p.stdout[-6000:]
        res['build_ok'] = (p.returncode == 0)
        if not res['build_ok']:
            failed = set()
            whole = False
            for m in re.finditer(r'error: (\S+?\.lean):(\d+):(\d+)', p.stdout):
                f, ln = m.group(1), int(m.group(2))
                if os.path.basename(f) == prop + '.lean' and 'Props' in f:
                    hit = [n for (n, a, b) in spans if a <= ln <= b]
                    if hit:
                        failed.update(hit)
                    else:
                        whole = True
                else:
                    whole = True
            if whole or not failed:
                failed = set(s[0] for s in spans)
            res['failed'] = sorted(failed)
            res['discharged'] = res['obligations'] - len(failed)
            return res
        # axiom audit
        os.makedirs(os.path.join(core.LEAN_DIR, '.work'), exist_ok=True)
        audit = os.path.join(core.LEAN_DIR, '.work', 'Audit_%s.lean' % prop)
        with open(audit, 'w') as f:
            f.write('import %s\n' % target)
            for (n, a, b) in spans:
                f.write('#print axioms %s\n' % n)
        p = subprocess.run(['lake', 'env', 'lean', audit], cwd=core.LEAN_DIR, stdout=subprocess.PIPE,
                           stderr=subprocess.STDOUT, text=True)
        text = p.stdout
        if thorough:
            t0 = time.time()
            p2 = subprocess.run(['lake', 'env', 'leanchecker', target], cwd=core.LEAN_DIR,
                                stdout=subprocess.PIPE, stderr=subprocess.STDOUT, text=True)
            res['leanchecker'] = {'exit': p2.returncode, 'wall_s': round(time.time() - t0, 1), 'tail': p2.stdout[-300:]}
            if p2.returncode != 0:
                res['build_ok'] = False
                res['failed'] = [s[0] for s in spans]
                res['log'] += '\nleanchecker failed:\n' + p2.stdout[-2000:]
                return res
    flat = re.sub(r'\s+', ' ', text)
    for (n, a, b) in spans:
        m = re.search(r"'%s' depends on axioms: \[([^\]]*)\]" % re.escape(n), flat)
        if m:
            ax = set(x.strip() for x in m.group(1).split(',') if x.strip())
        elif re.search(r"'%s' does not depend on any axioms" % re.escape(n), flat):
            ax = set()
        else:
            res['failed'].append(n)
            res['axioms'][n] = ['<not found in audit output>']
            continue
        res['axioms'][n] = sorted(ax)
        if not ax <= ALLOWED_AXIOMS:
            res['failed'].append(n)
    if res['forbidden']:
        res['failed'] = [s[0] for s in spans]
    res['discharged'] = res['obligations'] - len(set(res['failed']))
    if res['failed']:
        res['build_ok'] = False
        res['log'] += '\naudit:\n' + text[-3000:]
    return res


# ------------------------------------------------------------------ harness side (S)+(I)
OBJ_CLASSES = {'C01': ['Epoch'], 'C02': ['Epoch'], 'C10': ['Epoch'], 'C16': ['Epoch'], 'C19': ['Epoch'],
               'C03': ['Angle'], 'C04': ['Angle'], 'C12': ['Interpolation', 'Angle'], 'C17': ['CurveFitting'],
               'C09': ['Minor', 'Angle', 'Epoch'], 'C18': ['Earth', 'Angle'], 'C11': ['Angle', 'Epoch']}


def _shard(args):
    prop, tier, seed, scale, hot, shard, nshards = args
    try:
        mod = importlib.import_module(prop.lower())
        cov = (hot or {}).get('cov') or []
        if cov:
            import changecov
            changecov.start(core.REPO, cov)
        ctx = core.Ctx(prop, tier, seed + 7919 * shard, scale, hot)
        known = core.load_known()

        def matcher(f):
            k = match_known(f, known, prop, mod)
            return k['id'] if k else None
        ctx.known_matcher = matcher
        if os.environ.get('VERIF_NO_NOISE') != '1' and prop != 'C20':    # C20 has its own history tests
            try:
                import history
                ctx.noise = history.Noise(ctx.rng.__class__(ctx.rng.random()))
            except Exception:      # noqa: the noise is an extra; without the effect skeleton there is none
                ctx.noise = None
        forms_only = os.environ.get('FORMS_ONLY') == '1'     # (diagnostic: what the argument-form check alone sees)
        if not forms_only:
            mod.generate(ctx, shard, nshards)
        if os.environ.get('VERIF_NO_FORMS') != '1':
            # every documented way of writing the same call must give the same result (harness/forms.py), for the
            # functions this property models; ten times the sampling for changed functions and their callers
            try:
                import forms
                specs = list(getattr(mod, 'FUNCTIONS', []))
                changed = set(hot.get('changed', [])) if isinstance(hot, dict) else set()
                boost = [s_ for s_ in specs if changed and (s_ in changed or (call_closure([s_])[0] & changed))] \
                    if scale > 1 else []
                big = 10.0 if (tier == 'thorough' or scale > 1) else 1.0
                forms.check(ctx, specs, 5 if tier != 'thorough' else 50, ctx.rng.__class__(ctx.rng.random()),
                            shard, nshards, budget_s=3.0 * big, boost=boost)
            except Exception:      # noqa: an extra; it must never turn a check into an infrastructure error
                ctx.notes.append('argument forms: not run (%s)' % traceback.format_exc().strip().split('\n')[-1][:200])
        if shard == 0 and prop != 'C20' and not forms_only:
            # object-history checks for the stateful classes this property's functions take or return
            import objhistory
            objhistory.check(ctx, OBJ_CLASSES.get(prop, ['Angle', 'Epoch']), n=int(120 * min(scale, 4)))
        if ctx.noise is not None:
            ctx.notes.append('history noise: %d calls of %d distinct public functions in %.1f s' % (
                ctx.noise.calls, len(ctx.noise.names), ctx.noise.spent))
        mism, stats = core.compare_cases(ctx)
        return {'ok': True, 'mism': mism[:200], 'n_mism': len(mism), 'stats': stats, 'pred_fail': ctx.pred_fail[:500],
                'n_pred_fail': len(ctx.pred_fail) + getattr(ctx, 'pred_fail_overflow', 0) +
                sum(max(0, v - 3) for v in ctx.known_counts.values()),
                'known_counts': ctx.known_counts, 'overflow': getattr(ctx, 'pred_fail_overflow', 0),
                'pred_count': ctx.pred_count, 'pred_classes': ctx.pred_classes, 'case_classes': ctx.case_classes,
                'n_cases': len(ctx.cases), 'samples': ctx.samples, 'max_dev': ctx.max_dev,
                'exhaustive': ctx.exhaustive, 'notes': ctx.notes,
                'cov_hit': (changecov.hits(core.REPO) if cov else []),
                'distinct': len(set((c[0], c[1]) for c in ctx.cases))}
    except Exception:
        tb = traceback.format_exc()
        # an exception that comes out of the implementation while the harness is driving it with inputs of the
        # property's domain is a finding about the implementation, not an infrastructure error
        frames = traceback.extract_tb(sys.exc_info()[2])
        in_impl = bool(frames) and os.path.realpath(frames[-1].filename).startswith(os.path.realpath(core.REPO) + os.sep)
        if in_impl:
            where = [f for f in frames if not os.path.realpath(f.filename).startswith(os.path.realpath(core.REPO) + os.sep)]
            at = '%s:%d %s' % (os.path.basename(where[-1].filename), where[-1].lineno, (where[-1].line or '')[:120]) if where else '?'
            fail = {'predicate': 'implementation_raised_in_domain', 'input': [at], 'detail': tb[-1500:], 'class': 'harness'}
            return {'ok': True, 'mism': [], 'n_mism': 0, 'stats': {'F_lines': 0, 'Q_lines': 0}, 'pred_fail': [fail],
                    'n_pred_fail': 1, 'known_counts': {}, 'overflow': 0, 'pred_count': 1, 'pred_classes': {'harness': 1},
                    'case_classes': {}, 'n_cases': 0, 'samples': [], 'max_dev': {}, 'exhaustive': False,
                    'notes': ['shard %d stopped: the implementation raised inside the harness at %s' % (shard, at)],
                    'cov_hit': [], 'distinct': 0}
        return {'ok': False, 'error': tb}


def run_harness(prop, tier, seed, scale, hot, timeout_s=None):
    nshards = 16 if (tier == 'thorough' or scale > 1) else 8
    nshards = min(nshards, os.cpu_count() or 1)
    args = [(prop, tier, seed, scale, hot, i, nshards) for i in range(nshards)]
    timed_out = False
    with mp.Pool(nshards) as pool:
        if timeout_s is None:
            parts = pool.map(_shard, args)
        else:
            # the failing-input search is bounded in wall time: the shards that finished in time are used
            res = [pool.apply_async(_shard, (a,)) for a in args]
            t_end = time.time() + timeout_s
            parts = []
            for r_ in res:
                try:
                    parts.append(r_.get(timeout=max(1.0, t_end - time.time())))
                except mp.TimeoutError:
                    timed_out = True
            pool.terminate()
    agg = {'mism': [], 'n_mism': 0, 'pred_fail': [], 'n_pred_fail': 0, 'pred_count': 0, 'pred_classes': {},
           'case_classes': {}, 'n_cases': 0, 'samples': [], 'max_dev': {}, 'F_lines': 0, 'Q_lines': 0,
           'exhaustive': False, 'errors': [], 'distinct': 0, 'notes': [], 'known_counts': {}, 'overflow': 0,
           'cov_hit': set()}
    for p in parts:
        if not p['ok']:
            agg['errors'].append(p['error'])
            continue
        agg['cov_hit'] |= set(tuple(x) for x in p.get('cov_hit', []))
        agg['mism'] += p['mism']
        agg['n_mism'] += p['n_mism']
        agg['pred_fail'] += p['pred_fail']
        agg['n_pred_fail'] += p['n_pred_fail']
        agg['overflow'] += p['overflow']
        for k, v in p['known_counts'].items():
            agg['known_counts'][k] = agg['known_counts'].get(k, 0) + v
        agg['pred_count'] += p['pred_count']
        agg['n_cases'] += p['n_cases']
        agg['distinct'] += p['distinct']
        agg['F_lines'] += p['stats']['F_lines']
        agg['Q_lines'] += p['stats']['Q_lines']
        agg['exhaustive'] = agg['exhaustive'] or p['exhaustive']
        agg['notes'] += p['notes']
        for k, v in p['pred_classes'].items():
            agg['pred_classes'][k] = agg['pred_classes'].get(k, 0) + v
        for k, v in p['case_classes'].items():
            agg['case_classes'][k] = agg['case_classes'].get(k, 0) + v
        for k, v in p['max_dev'].items():
            agg['max_dev'][k] = max(agg['max_dev'].get(k, 0.0), v)
        for s in p['samples']:
            if len(agg['samples']) < 12:
                agg['samples'].append(s)
    if timed_out:
        agg['notes'].append('search stopped after %d s: %d of %d shards finished' % (timeout_s, len(parts), nshards))
    return agg


def call_closure(specs):
    """(closure set, report dict by name) of the call graph of lean/.work/effects_report.json from `specs`."""
    p = os.path.join(core.LEAN_DIR, '.work', 'effects_report.json')
    try:
        rep = json.load(open(p))
    except Exception:       # noqa
        return set(specs), {}
    by = {f['name']: f for f in rep.get('functions', [])}
    todo = [s_ for s_ in specs if s_ in by]
    seen = set(specs)
    done = set()
    while todo:
        f = todo.pop()
        if f in done:
            continue
        done.add(f)
        seen.add(f)
        todo.extend(c for c in by[f].get('callees', []) if c in by and c not in done)
    return seen, by


def dependency_props(prop, specs, changed):
    """Other properties whose modelled functions include a CHANGED function that this property's code reaches.
    Their correspondence runs are then part of this property's failing-input search: this property's model
    mirrors those helpers, so if their tie to the code breaks, so does this one's."""
    closure, by = call_closure(specs)
    files = set(c.split(':')[0] for c in closure)
    ch = [c for c in changed if c in closure or (c not in by and c.split(':')[0] in files)]
    deps = []
    if not ch:
        return deps, ch
    for i in range(1, 20):          # C20 has its own machinery
        q = 'C%02d' % i
        if q == prop:
            continue
        try:
            m = importlib.import_module(q.lower())
        except Exception:   # noqa
            continue
        if set(getattr(m, 'FUNCTIONS', [])) & set(ch):
            deps.append(q)
    return deps, ch


def purity_closure(specs):
    """Functions reachable from `specs` (call graph of lean/.work/effects_report.json) that the effect
    analysis does not accept."""
    p = os.path.join(core.LEAN_DIR, '.work', 'effects_report.json')
    try:
        rep = json.load(open(p))
    except Exception:       # noqa: no report (translator not run): nothing to say
        return []
    if rep.get('translator_failed'):
        return ['<effect translator failed: %s>' % str(rep['translator_failed'])[:200]]
    by = {f['name']: f for f in rep.get('functions', [])}
    todo = [s_ for s_ in specs if s_ in by]
    seen = set()
    while todo:
        f = todo.pop()
        if f in seen:
            continue
        seen.add(f)
        todo.extend(c for c in by[f].get('callees', []) if c in by and c not in seen)
    return sorted(f for f in seen if not by[f].get('accepted', True))


def match_known(failure, known, prop, mod):
    for k in known:
        if k.get('property') != prop:
            continue
        if hasattr(mod, 'known_match'):
            if mod.known_match(k, failure):
                return k
            continue
        if k.get('predicate') != failure.get('predicate'):
            continue
        ok = True
        inp = failure.get('input') or []
        for idx, rng in (k.get('ranges') or {}).items():
            i = int(idx)
            if i >= len(inp) or not isinstance(inp[i], (int, float)) or not (rng[0] <= inp[i] <= rng[1]):
                ok = False
        if 'input_equals' in k and list(k['input_equals']) != list(inp):
            ok = False
        if ok:
            return k
    return None


def simplest(fails):
    def size(f):
        return len(json.dumps(f.get('input'), default=str))
    return sorted(fails, key=size)[0]


def main():
    if len(sys.argv) < 3:
        log(__doc__)
        sys.exit(2)
    prop = sys.argv[1]
    mod = importlib.import_module(prop.lower())
    if sys.argv[2] == '--replay':
        case = json.load(open(sys.argv[3]))
        if case.get('kind') == 'no-failing-input-found':
            log('replay file names broken obligations, no concrete input:', json.dumps(case.get('broken'))[:2000])
            sys.exit(1)
        if case.get('predicate') == 'object_history_consistent':
            import objhistory
            still, detail = objhistory.replay(case['input'])
        elif case.get('predicate') == 'argument_forms_agree':
            import forms
            still, detail = forms.replay(case['input'])
        else:
            still, detail = mod.replay(case)
        log(json.dumps(detail, default=str)[:4000])
        if still:
            log('VIOLATION property=%s replay=%s' % (prop, sys.argv[3]))
            sys.exit(1)
        log('replay: the recorded input no longer violates the property')
        sys.exit(0)
    tier = sys.argv[2]
    assert tier in ('quick', 'thorough')
    seed = int(os.environ.get('VERIF_SEED', '0') or 0)
    t0 = time.time()
    try:
        lean = lean_check(prop, tier == 'thorough')
    except Exception:
        log(traceback.format_exc())
        sys.exit(2)
    log('[T] %s: %d/%d theorems discharged, build %s (%.1fs)' % (
        prop, lean['discharged'], lean['obligations'], 'ok' if lean['build_ok'] else 'FAILED', lean.get('build_s', 0)))
    if not os.path.exists(core.DRIVER):
        log(lean['log'])
        log('model driver could not be built')
        sys.exit(2)
    # purity obligation: every per-call model assumes the modelled functions (and what they call) carry no
    # hidden state; the effect analysis of C20 (tools/py2effects.py, regenerated from the current source) says
    # which functions it accepts.  A rejected function in the call closure of this property's FUNCTIONS breaks
    # the tie between the model and the code for this property.
    impure = purity_closure(getattr(mod, 'FUNCTIONS', []))
    if impure:
        log('[T] purity: the effect analysis rejects %d function(s) reachable from the modelled code: %s' % (
            len(impure), ', '.join(impure[:6])))
    fp = fingerprint.compare(getattr(mod, 'FUNCTIONS', []))
    hot = dict(fp['hot'], changed=list(fp['changed']))
    scale = 1.0
    if fp['changed']:
        log('[S] source of modelled functions differs from the golden fingerprint: %s' % ', '.join(fp['changed'][:8]))
        scale = 4.0
    # exercise obligation: the changed statements of functions in this property's call closure must be executed by
    # the check (harness/changecov.py); only on a changed tree
    cov_targets = []
    if fp['changed']:
        closure_, by_ = call_closure(getattr(mod, 'FUNCTIONS', []))
        cov_targets = fingerprint.changed_statements([c for c in fp['changed'] if c in closure_])
        if cov_targets:
            hot = dict(hot)
            hot['cov'] = cov_targets
    agg = run_harness(prop, tier, seed, scale, hot)
    cov_hit = set(agg['cov_hit'])
    if agg['errors']:
        log(agg['errors'][0])
        sys.exit(2)
    known = core.load_known()
    new_fail, known_hits = [], {}
    for f in agg['pred_fail']:
        k = match_known(f, known, prop, mod)
        if k:
            known_hits.setdefault(k['id'], [k, 0])
        else:
            new_fail.append(f)
    for kid, cnt in agg['known_counts'].items():
        for k in known:
            if k.get('id') == kid and k.get('property') == prop:
                known_hits.setdefault(kid, [k, 0])[1] = cnt
    if agg['overflow']:
        log('[I] note: %d failures beyond the per-shard retention limit were counted but not inspected' % agg['overflow'])
    broken = []
    if not lean['build_ok']:
        broken.append({'theorems': lean['failed'], 'log': lean['log'][-1500:]})
    if agg['n_mism']:
        broken.append({'correspondence': agg['mism'][:5], 'count': agg['n_mism']})
    # dependency cross-check: a changed helper that this property's code reaches and that ANOTHER property models
    if fp['changed']:
        deps, ch = dependency_props(prop, getattr(mod, 'FUNCTIONS', []), fp['changed'])
        for q in deps[:4]:
            modq = importlib.import_module(q.lower())
            aggq = run_harness(q, 'quick', seed, 1.0, hot)
            cov_hit |= set(aggq['cov_hit'])
            newq = [f for f in aggq['pred_fail'] if not match_known(f, known, q, modq)]
            log('[S] dependency %s (models changed helper(s) %s): %d mismatches, %d new predicate failures' % (
                q, ', '.join(c.split(':')[1] for c in ch[:3]), aggq['n_mism'], len(newq)))
            if aggq['n_mism'] or newq:
                broken.append({'dependency': q, 'changed_helpers': ch[:6], 'mismatches': aggq['mism'][:3],
                               'predicate_failures': newq[:3],
                               'why': 'a helper this property\'s code calls changed, and the check of the property that '
                                      'models it (%s) no longer ties it to the code / finds it violating its own clauses; '
                                      'this property\'s model mirrors that helper' % q})
    if impure:
        broken.append({'purity': impure[:20], 'why': 'functions in the call closure of the modelled code are not accepted '
                       'by the effect analysis (hidden state / writes to arguments, globals or self in a non-mutator); '
                       'the per-call model of this property assumes they are pure'})
    not_ex = []
    if cov_targets:
        import changecov
        not_ex = changecov.unexecuted(cov_targets, cov_hit)
        if not_ex:
            # changed statements this property's own inputs do not reach (an option of a shared constructor, ...):
            # the checks of the other properties that model the function they sit in run here too, as above
            deps_all, ch_all = dependency_props(prop, getattr(mod, 'FUNCTIONS', []), fp['changed'])
            tried = set(deps[:4]) if fp['changed'] else set()
            for q in deps_all:
                if not not_ex or len(tried) >= 10:
                    break
                if q in tried:
                    continue
                modq = importlib.import_module(q.lower())
                want = set('%s:%s' % (t['file'], t['fn']) for t in not_ex)
                if not (set(getattr(modq, 'FUNCTIONS', [])) & want):
                    continue
                tried.add(q)
                aggq = run_harness(q, 'quick', seed, 1.0, hot)
                cov_hit |= set(aggq['cov_hit'])
                newq = [f for f in aggq['pred_fail'] if not match_known(f, known, q, modq)]
                before = len(not_ex)
                not_ex = changecov.unexecuted(not_ex, cov_hit)
                log('[S] dependency %s (models %s): %d mismatches, %d new predicate failures; executes %d more changed statements' % (
                    q, ', '.join(sorted(w.split(':')[1] for w in want)[:3]), aggq['n_mism'], len(newq), before - len(not_ex)))
                if aggq['n_mism'] or newq:
                    broken.append({'dependency': q, 'mismatches': aggq['mism'][:3], 'predicate_failures': newq[:3],
                                   'why': 'the check of the property that models a changed helper of this property\'s code (%s) '
                                          'no longer ties it to the code / finds it violating its own clauses' % q})
        if not_ex:
            log('[S] %d of %d changed statements in the call closure were not executed by this check: %s' % (
                len(not_ex), len(cov_targets), ', '.join('%s:%d' % (t['file'], t['first']) for t in not_ex[:6])))
            broken.append({'not_exercised': not_ex[:30], 'why': 'changed statements of the implementation that no call of '
                           'this check executed: neither the correspondence run nor the predicates say anything about them'})
    searched = False
    if broken and not new_fail:
        # failing-input search: a much larger exploration of the property's predicates on the implementation
        searched = True
        log('[search] obligations/correspondence broken; searching the implementation for a failing input ...')
        agg2 = run_harness(prop, tier, seed + 1, max(scale, 1.0) * (10.0 if tier == 'quick' else 4.0), hot,
                           timeout_s=float(os.environ.get('VERIF_SEARCH_TIMEOUT') or (600 if tier == 'quick' else 1800)))
        agg['notes'] += [n_ for n_ in agg2['notes'] if n_.startswith('search stopped')]
        for f in agg2['pred_fail']:
            if not match_known(f, known, prop, mod):
                new_fail.append(f)
        if agg2['n_mism'] and not any('correspondence' in b for b in broken):
            broken.append({'correspondence': agg2['mism'][:5], 'count': agg2['n_mism'], 'where': 'failing-input search'})
        if not_ex:
            cov_hit |= set(agg2['cov_hit'])
            still = changecov.unexecuted(not_ex, cov_hit)
            broken = [b for b in broken if 'not_exercised' not in b]
            if still:
                broken.append({'not_exercised': still[:30], 'why': 'changed statements of the implementation that no call of '
                               'this check (failing-input search included) executed: neither the correspondence run nor '
                               'the predicates say anything about them'})
            else:
                log('[search] the larger run executed every changed statement')
            not_ex = still
        agg['search'] = {'pred_count': agg2['pred_count'], 'n_pred_fail': agg2['n_pred_fail'], 'n_cases': agg2['n_cases']}
    log('[S] %d cases (%d F lines, %d Q lines), %d mismatches; [I] %d predicate evaluations, %d failures (%d known)' % (
        agg['n_cases'], agg['F_lines'], agg['Q_lines'], agg['n_mism'], agg['pred_count'], agg['n_pred_fail'],
        sum(v[1] for v in known_hits.values())))
    violations = 0
    exit_code = 0
    for kid, (k, cnt) in sorted(known_hits.items()):
        log('KNOWN-FINDING: property=%s %s (%d inputs of this run)' % (prop, k['what'], cnt))
    # listed findings are printed even when this run's sample did not hit them
    for k in known:
        if k.get('property') == prop and k['id'] not in known_hits:
            log('KNOWN-FINDING: property=%s %s (listed; not sampled by this run)' % (prop, k['what']))
    if new_fail:
        f = simplest(new_fail)
        f = dict(f)
        f['property'] = prop
        f['kind'] = 'failing-input'
        f['seed'] = seed
        f['broken'] = broken
        path = core.write_replay(prop, f)
        log('VIOLATION property=%s replay=%s' % (prop, path))
        violations = len(new_fail)
        exit_code = 1
    elif broken:
        path = core.write_replay(prop, {'property': prop, 'kind': 'no-failing-input-found', 'broken': broken,
                                        'changed_functions': fp['changed'], 'seed': seed})
        log('VIOLATION property=%s replay=%s no-failing-input-found' % (prop, path))
        violations = 1
        exit_code = 1
    wall = time.time() - t0
    ev = {
        'property_id': prop, 'tier': tier, 'seed': seed, 'level': 'proof', 'wall_s': round(wall, 2),
        'violations': violations,
        'coverage': {
            'obligations': lean['obligations'], 'discharged': lean['discharged'],
            'checker_cmd': lean['checker_cmd'],
            'trusted_base': getattr(mod, 'TRUSTED', []) + [
                'Lean 4.33.0 kernel + Mathlib v4.33.0; axioms per theorem listed under axioms (only propext, Classical.choice, Quot.sound accepted)',
                'hand-written model lean/templates/*.lean, tied to /repo by the correspondence run counted below',
                'idealisation binary64 -> Rat/Real: modelled, not verified (max_ideal_vs_float_deviation)',
                'CPython 3.12 + glibc libm as semantics of the implementation'],
            'theorems': lean.get('theorems', []),
            'axioms': lean['axioms'],
            'leanchecker': lean.get('leanchecker'),
            'traces_validated_against_impl': agg['n_cases'],
            'evaluations': agg['n_cases'] + agg['pred_count'],
            'distinct_nontrivial': agg['distinct'],
            'rule': getattr(mod, 'RULE', 'distinct (model function, argument tuple) pairs sent to the model and to the implementation'),
            'model_lines_binary64_bit_exact': agg['F_lines'], 'model_lines_exact_rational': agg['Q_lines'],
            'correspondence_mismatches': agg['n_mism'],
            'predicate_evaluations_on_impl': agg['pred_count'], 'predicate_classes': agg['pred_classes'],
            'case_classes': agg['case_classes'],
            'predicate_failures': agg['n_pred_fail'], 'known_findings_hit': {k: v[1] for k, v in known_hits.items()},
            'max_ideal_vs_float_deviation': agg['max_dev'],
            'source_fingerprint_changed': fp['changed'], 'hot_literals': {k: v for k, v in hot.items() if k != 'cov'},
            'changed_statements': {'in_call_closure': len(cov_targets), 'not_executed': not_ex[:30]},
            'failing_input_search': agg.get('search'),
            'samples': agg['samples'] or [{'note': 'no sample recorded'}],
            'exhaustive': bool(agg['exhaustive']),
            'notes': agg['notes'][:10],
        },
        'assumptions': getattr(mod, 'ASSUMPTIONS', []),
    }
    core.write_evidence(prop, ev)
    log('%s %s: exit %d in %.1fs' % (prop, tier, exit_code, wall))
    sys.exit(exit_code)


if __name__ == '__main__':
    main()
