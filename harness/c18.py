"""C18 — Earth ellipsoid quantities and surface distance satisfy their identities.

(S) structural tie: the binary64 instantiation of lean/templates/Ellipsoid.lean (`Ellipsoid.b/e`, `IAU76`, `WGS84`,
    `rho`, `rho_sinphi`, `rho_cosphi`, `rp`, `linear_velocity`, `rm`, `distance`, `parallax_correction`,
    `parallax_ecliptical`) against pymeeus, bit for bit, for the built-in and for user ellipsoids.
(I) the clauses of the property evaluated on the implementation with the tolerances of the statement
    (functions `p_*`; every predicate can be replayed from its recorded input).  The meridian arc is the
    Simpson quadrature of the textbook meridian radius of curvature a(1-e^2)/(1-e^2 sin^2)^(3/2) (oracle, not
    pymeeus' `rm`); the great circle is taken on the sphere of mean radius (2a+b)/3.
"""
import math
from core import run_impl, enc

PROPERTY = 'C18'
FUNCTIONS = ['pymeeus/Earth.py:Ellipsoid.b', 'pymeeus/Earth.py:Ellipsoid.e', 'pymeeus/Earth.py:Ellipsoid.__init__',
             'pymeeus/Earth.py:IAU76', 'pymeeus/Earth.py:WGS84', 'pymeeus/Earth.py:Earth.__init__',
             'pymeeus/Earth.py:Earth.set', 'pymeeus/Earth.py:Earth.rho',
             'pymeeus/Earth.py:Earth.rho_sinphi', 'pymeeus/Earth.py:Earth.rho_cosphi', 'pymeeus/Earth.py:Earth.rp',
             'pymeeus/Earth.py:Earth.linear_velocity', 'pymeeus/Earth.py:Earth.rm', 'pymeeus/Earth.py:Earth.distance',
             'pymeeus/Earth.py:Earth.parallax_correction', 'pymeeus/Earth.py:Earth.parallax_ecliptical',
             'pymeeus/Angle.py:Angle.reduce_deg', 'pymeeus/Angle.py:Angle.rad', 'pymeeus/Angle.py:Angle.__add__',
             'pymeeus/Angle.py:Angle.__sub__', 'pymeeus/Angle.py:Angle.__abs__', 'pymeeus/Angle.py:Angle.__gt__',
             'pymeeus/Angle.py:Angle.to_positive', 'pymeeus/Angle.py:Angle.dms2deg', 'pymeeus/Angle.py:Angle.reduce_dms']

MANIFEST = dict(
    text=("Lean 4 theorems over the reals (Props/C18.lean) about a hand-written model of Ellipsoid.b/e, rho_sinphi, "
          "rho_cosphi, rp, linear_velocity, rm and distance, for EVERY ellipsoid with a > 0, 0 <= f < 1 and every latitude: "
          "the sea-level observer lies on the meridian ellipse; rp = a * rho_cosphi (two differently coded formulas); "
          "rm(0) = b^2/a, rm(+-90) = a^2/b, rm monotone in |phi|; linear_velocity = omega * rp; height adds (h/a)(cos phi, sin phi); "
          "distance is symmetric, (0, 0) for coincident points, a*|dlambda| along the equator for |dlambda| < 180 "
          "(the Andoyer correction terms vanish there); antipodal points: the model (exact reals) divides by zero; "
          "distance IS Andoyer's formula with exactly three cases (s = 0, c = 0, else; no threshold, no near-antipodal branch), is "
          "360-periodic in either longitude, s + c = 1 (haversine: omega = asin sqrt s), on a sphere it is the great-circle distance, "
          "for every valid ellipsoid it lies within [(1-2f), (1+f)] of the great circle 2 omega a (the correction is in [-2, 1] because "
          "P/c + Q/s <= 1), hence within 0.6 % of the great circle on the mean sphere (2a+b)/3 for f <= 0.0035: the 0.6 % clause is "
          "a theorem; on a meridian it equals the first-order meridian arc a[(1-f/2)|dphi| - (3f/2) sin|dphi| cos(phi1+phi2)] "
          "exactly (so the 1e-4 clause is an O(f^2) statement, measured only); rp = a / 0 and the limit (0, b/a + h/a) of the observer's "
          "coordinates at the equator / poles; Earth.rho is even, 1 at the equator, 0.9966472 = b/a(IAU76) at the poles, in between; "
          "parallax_correction and parallax_ecliptical (as repaired by f8a396f, ea54de3): declination / latitude in [-90, 90], "
          "longitude in [0, 360), and for EVERY input with the body outside the Earth the angular displacement p satisfies "
          "cos p >= sqrt(1 - s^2), p <= asin s with s = rho sin 8.794''/distance (vector geometry + Cauchy-Schwarz); "
          "(alpha', delta') -> (alpha, delta) as distance -> infinity for |delta| < 90 (Filter.Tendsto). "
          "The model is tied to /repo by running its binary64 instantiation against the real code bit for bit. "
          "Numerical only (no theorem, (S)+(I)): distance vs the meridian-arc integral to 1e-4 (second order in f)."),
    note=("Trusted: Lean kernel, Mathlib, axioms propext/Classical.choice/Quot.sound; the hand-written model "
          "(lean/templates/Ellipsoid.lean, Kepler.lean for the Angle helpers) and its bit-exact correspondence run; the "
          "idealisation binary64 -> reals; the Simpson quadrature and the vector formula used as oracles. Known finding: "
          "Andoyer's first-order formula misses the 1e-4 meridian clause for f in (0.0099, 0.01] (error f^2/(1-f)^2)."),
    technique="Lean 4 proof over the reals (trigonometric identities, arctan, monotonicity) + model/implementation correspondence check",
    ref='6 C18')

TRUSTED = ['harness/c18.py oracles: Simpson quadrature of the meridian radius of curvature; vector formula of the '
           'topocentric direction; great circle by atan2 of cross and dot product']
ASSUMPTIONS = ['theorems are about the real-number reading of the code; binary64 rounding is measured by the predicates, not proved',
               'Angle arguments are modelled by their _deg values']
RULE = 'distinct (model function, argument tuple) pairs sent to the binary64 model and to the implementation'

SIN_PI0 = math.sin(math.radians(8.794 / 3600.0))
A_WGS84 = 6378137.0
ABS_TOL_DEG = 1e-9      # 3.6 micro-arcsecond: rounding of Angle values near 360 degrees is 5.7e-14 degree per operation
F_WGS84 = 1.0 / 298.257223563


def earth_of(a, f, om):
    from pymeeus.Earth import Earth, Ellipsoid
    return Earth(Ellipsoid(a, f, om))


def close(x, y, rel, ab=0.0):
    return abs(x - y) <= rel * max(abs(x), abs(y)) + ab


# ------------------------------------------------------------------ oracles
def rm_textbook(a, f, phi):
    e2 = f * (2.0 - f)
    return a * (1.0 - e2) / (1.0 - e2 * math.sin(phi) ** 2) ** 1.5


def meridian_arc(a, f, lat1, lat2, n=256):
    p1, p2 = math.radians(lat1), math.radians(lat2)
    h = (p2 - p1) / n
    s = rm_textbook(a, f, p1) + rm_textbook(a, f, p2)
    for i in range(1, n):
        s += (4.0 if i % 2 else 2.0) * rm_textbook(a, f, p1 + i * h)
    return abs(s * h / 3.0)


def unit(lon, lat):
    l, p = math.radians(lon), math.radians(lat)
    return (math.cos(p) * math.cos(l), math.cos(p) * math.sin(l), math.sin(p))


def angle_between(u, v):
    cr = (u[1] * v[2] - u[2] * v[1], u[2] * v[0] - u[0] * v[2], u[0] * v[1] - u[1] * v[0])
    return math.atan2(math.sqrt(sum(c * c for c in cr)), sum(a * b for a, b in zip(u, v)))


def observer(lat, h):
    """(rho cos phi', rho sin phi') of WGS84 from the standard C/S formulas (independent of pymeeus' atan form)."""
    p = math.radians(lat)
    c = 1.0 / math.sqrt(math.cos(p) ** 2 + (1.0 - F_WGS84) ** 2 * math.sin(p) ** 2)
    s = (1.0 - F_WGS84) ** 2 * c
    return (c + h / A_WGS84) * math.cos(p), (s + h / A_WGS84) * math.sin(p)


def topo_ecliptic_oracle(lon, lat, obs_lat, obl, sid, dist, h):
    rc, rs = observer(obs_lat, h)
    th, ep = math.radians(sid), math.radians(obl)
    ox, oy, oz = rc * math.cos(th), rc * math.sin(th), rs
    ex, ey, ez = ox, oy * math.cos(ep) + oz * math.sin(ep), -oy * math.sin(ep) + oz * math.cos(ep)
    u = unit(lon, lat)
    x, y, z = (dist * u[0] - SIN_PI0 * ex, dist * u[1] - SIN_PI0 * ey, dist * u[2] - SIN_PI0 * ez)
    return math.degrees(math.atan2(y, x)) % 360.0, math.degrees(math.atan2(z, math.hypot(x, y)))


def parallax_bound_deg(dist, h):
    """horizontal parallax asin(sin 8.794'' / distance), scaled by the observer's geocentric distance rho <= 1 + h/a."""
    return math.degrees(math.asin(min(1.0, (1.0 + max(h, 0.0) / A_WGS84) * SIN_PI0 / dist)))


# ------------------------------------------------------------------ predicates
def p_on_ellipse(inp):
    """(rho cos phi')^2 + (rho sin phi' * a/b)^2 = 1 at sea level (1e-12)."""
    a, f, om, lat = inp
    try:
        e = earth_of(a, f, om)
        c, s = e.rho_cosphi(lat, 0.0), e.rho_sinphi(lat, 0.0)
        b = e._ellip.b()
    except Exception as ex:  # noqa
        return False, repr(ex)
    v = c * c + (s * a / b) ** 2
    return abs(v - 1.0) <= 1e-12, {'value': v, 'dev': abs(v - 1.0)}


def p_parallel_radius(inp):
    """rp(phi) = a * rho_cosphi(phi, 0) (1e-12 of a)."""
    a, f, om, lat = inp
    try:
        e = earth_of(a, f, om)
        r, c = e.rp(lat), e.rho_cosphi(lat, 0.0)
    except Exception as ex:  # noqa
        return False, repr(ex)
    dev = abs(r - a * c) / a
    return dev <= 1e-12, {'rp': r, 'a*rho_cosphi': a * c, 'dev': dev}


def p_rm_ends(inp):
    """rm(0) = b^2/a, rm(+-90) = a^2/b, b^2/a <= rm <= a^2/b, rm monotone in |phi| (1e-12)."""
    a, f, om, lat1, lat2 = inp
    try:
        e = earth_of(a, f, om)
        b = e._ellip.b()
        r0, rn, rs = e.rm(0.0), e.rm(90.0), e.rm(-90.0)
        r1, r2 = e.rm(lat1), e.rm(lat2)
    except Exception as ex:  # noqa
        return False, repr(ex)
    lo, hi = b * b / a, a * a / b
    ok = close(r0, lo, 1e-12) and close(rn, hi, 1e-12) and close(rs, hi, 1e-12)
    ok = ok and all(lo * (1 - 1e-12) <= r <= hi * (1 + 1e-12) for r in (r1, r2))
    if abs(lat1) <= abs(lat2):
        ok = ok and r1 <= r2 * (1 + 1e-13)
    else:
        ok = ok and r2 <= r1 * (1 + 1e-13)
    return ok, {'rm0': r0, 'b2/a': lo, 'rm90': rn, 'a2/b': hi, 'rm1': r1, 'rm2': r2}


def p_linear_velocity(inp):
    """linear_velocity(phi) = omega * rp(phi)."""
    a, f, om, lat = inp
    try:
        e = earth_of(a, f, om)
        v, r = e.linear_velocity(lat), e.rp(lat)
    except Exception as ex:  # noqa
        return False, repr(ex)
    return close(v, om * r, 1e-15), {'v': v, 'omega*rp': om * r}


def p_height(inp):
    """height adds h/a times (cos phi, sin phi) (1e-14)."""
    a, f, om, lat, h = inp
    try:
        e = earth_of(a, f, om)
        dc = e.rho_cosphi(lat, h) - e.rho_cosphi(lat, 0.0)
        ds = e.rho_sinphi(lat, h) - e.rho_sinphi(lat, 0.0)
    except Exception as ex:  # noqa
        return False, repr(ex)
    p = math.radians(lat)
    dev = max(abs(dc - h / a * math.cos(p)), abs(ds - h / a * math.sin(p)))
    return dev <= 1e-14 * max(1.0, abs(h / a) * 1e2), {'dc': dc, 'ds': ds, 'dev': dev}


def p_dist_symmetric(inp):
    """distance(p, q) = distance(q, p) (same value or the same exception)."""
    a, f, om, l1, p1, l2, p2 = inp
    e = earth_of(a, f, om)
    r1 = run_impl(lambda: e.distance(l1, p1, l2, p2))
    r2 = run_impl(lambda: e.distance(l2, p2, l1, p1))
    if r1.startswith('E:') or r2.startswith('E:'):
        return r1 == r2, {'pq': r1, 'qp': r2}
    d1, d2 = e.distance(l1, p1, l2, p2), e.distance(l2, p2, l1, p1)
    return close(d1[0], d2[0], 1e-12) and close(d1[1], d2[1], 1e-12), {'pq': d1, 'qp': d2}


def p_dist_coincident(inp):
    """zero for coincident points (same coordinates: exactly (0, 0); same point written differently: < 1e-6 m)."""
    a, f, om, l1, p1, l2, p2 = inp
    try:
        d = earth_of(a, f, om).distance(l1, p1, l2, p2)
    except Exception as ex:  # noqa
        return False, repr(ex)
    if (l1, p1) == (l2, p2):
        return d[0] == 0.0 and d[1] == 0.0, {'dist': d}
    return abs(d[0]) <= 1e-6 * (a / A_WGS84), {'dist': d}


def p_dist_equator(inp):
    """along the equator distance = a * |longitude difference| (1e-12)."""
    a, f, om, l1, l2 = inp
    try:
        d = earth_of(a, f, om).distance(l1, 0.0, l2, 0.0)
    except Exception as ex:  # noqa
        return False, repr(ex)
    dl = abs(math.remainder(l1 - l2, 360.0))
    exp = a * math.radians(dl)
    ab = a * math.radians(4.0 * math.ulp(max(abs(l1), abs(l2), 1.0)))   # the longitudes are only known to an ulp
    return close(d[0], exp, 1e-12, ab), {'dist': d[0], 'expected': exp}


def p_dist_meridian(inp):
    """along a meridian distance = integral of the meridian radius of curvature (1e-4)."""
    a, f, om, lon, p1, p2 = inp
    try:
        d = earth_of(a, f, om).distance(lon, p1, lon, p2)
    except Exception as ex:  # noqa
        return False, repr(ex)
    arc = meridian_arc(a, f, p1, p2)
    if arc <= 1e-3 * a / A_WGS84:      # sub-millimetre arcs: absolute comparison
        return abs(d[0] - arc) <= 1e-4 * arc + 2e-9 * a / A_WGS84, {'dist': d[0], 'arc': arc}
    dev = abs(d[0] - arc) / arc
    return dev <= 1e-4, {'dist': d[0], 'arc': arc, 'dev': dev}


def p_dist_great_circle(inp):
    """within 0.6 % of the great-circle distance (sphere of mean radius (2a+b)/3)."""
    a, f, om, l1, p1, l2, p2 = inp
    try:
        d = earth_of(a, f, om).distance(l1, p1, l2, p2)
    except Exception as ex:  # noqa
        return False, repr(ex)
    g = angle_between(unit(l1, p1), unit(l2, p2)) * a * (1.0 - f / 3.0)
    if g == 0.0:
        return d[0] == 0.0, {'dist': d[0], 'great_circle': g}
    dev = abs(d[0] - g) / g
    if g <= 1e-3 * a / A_WGS84:      # sub-millimetre separations: the coordinates themselves are only known to ~1e-9 m
        return abs(d[0] - g) <= 0.006 * g + 2e-9 * a / A_WGS84, {'dist': d[0], 'great_circle': g}
    return dev <= 0.006, {'dist': d[0], 'great_circle': g, 'dev': dev}


def p_parallax_equatorial(inp):
    """parallax_correction displaces the body by at most the horizontal parallax; -> 0 as distance grows."""
    from pymeeus.Earth import Earth
    from pymeeus.Angle import Angle
    ra, dec, lat, dist, ha, h = inp[:6]
    try:
        r2, d2 = Earth.parallax_correction(Angle(ra), Angle(dec), Angle(lat), dist, Angle(ha), h)
        r3, d3 = Earth.parallax_correction(Angle(ra), Angle(dec), Angle(lat), dist * 1000.0, Angle(ha), h)
    except Exception as ex:  # noqa
        return False, repr(ex)
    u = unit(ra, dec)
    sep = math.degrees(angle_between(u, unit(r2._deg, d2._deg)))
    sep_far = math.degrees(angle_between(u, unit(r3._deg, d3._deg)))
    bound = parallax_bound_deg(dist, h)
    ok = sep <= bound * (1 + 1e-9) + ABS_TOL_DEG and sep_far <= bound / 999.0 + ABS_TOL_DEG
    ok = ok and -90.0 <= d2._deg <= 90.0 and -90.0 <= d3._deg <= 90.0          # a declination
    return ok, {'dec': d2._deg, 'shift_deg': sep, 'bound_deg': bound, 'shift_at_1000x': sep_far}


def ecl_flag(lon, lat, obs_lat, obl, sid, dist, h):
    """Input classes (regions of the defects repaired by ea54de3), from the vector oracle, at the two distances the predicate evaluates
    (bit mask): 2 = topocentric longitude within 0.006 degree of 90/270 (the latitude formula is 0/0 there and
    amplifies the rounding of cos(lon')); 1 = topocentric latitude < 0 and cos(topocentric longitude) > 0."""
    fl = 0
    for d in (dist, dist * 1000.0):
        tl, tb = topo_ecliptic_oracle(lon, lat, obs_lat, obl, sid, d, h)
        c = math.cos(math.radians(tl))
        if abs(c) < 1e-4:
            fl |= 2
        if tb < 1e-9 and c > -1e-4:
            fl |= 1
    return fl


def polar_cap_flag(dec, dist, h):
    """1 when the body is within the horizontal parallax of a celestial pole (region of the defect repaired by f8a396f; input class)."""
    return 1 if 90.0 - abs(dec) <= parallax_bound_deg(dist, h) * 1.001 + 1e-9 else 0


def p_parallax_ecliptical(inp):
    """parallax_ecliptical displaces the body by at most the horizontal parallax; -> 0 as distance grows."""
    from pymeeus.Earth import Earth
    from pymeeus.Angle import Angle
    lon, lat, semi, obs_lat, obl, sid, dist, h = inp[:8]
    A = Angle
    try:
        r = Earth.parallax_ecliptical(A(lon), A(lat), A(semi), A(obs_lat), A(obl), A(sid), dist, h)
        r3 = Earth.parallax_ecliptical(A(lon), A(lat), A(semi), A(obs_lat), A(obl), A(sid), dist * 1000.0, h)
    except Exception as ex:  # noqa
        return False, repr(ex)
    u = unit(lon, lat)
    sep = math.degrees(angle_between(u, unit(r[0]._deg, r[1]._deg)))
    sep_far = math.degrees(angle_between(u, unit(r3[0]._deg, r3[1]._deg)))
    bound = parallax_bound_deg(dist, h)
    ok = sep <= bound * (1 + 1e-9) + ABS_TOL_DEG and sep_far <= bound / 999.0 + ABS_TOL_DEG
    ok = ok and -90.0 <= r[1]._deg <= 90.0 and 0.0 <= r[0]._deg < 360.0         # a latitude, a longitude
    return ok, {'topo': [r[0]._deg, r[1]._deg, r[2]._deg], 'shift_deg': sep, 'bound_deg': bound,
                'shift_at_1000x': sep_far, 'vector_oracle': topo_ecliptic_oracle(lon, lat, obs_lat, obl, sid, dist, h)}


PRED = {'on_ellipse': p_on_ellipse, 'parallel_radius': p_parallel_radius, 'rm_ends_monotone': p_rm_ends,
        'linear_velocity': p_linear_velocity, 'height_term': p_height, 'distance_symmetric': p_dist_symmetric,
        'distance_coincident_zero': p_dist_coincident, 'distance_equator': p_dist_equator,
        'distance_meridian_arc': p_dist_meridian, 'distance_great_circle': p_dist_great_circle,
        'parallax_equatorial_bound': p_parallax_equatorial, 'parallax_ecliptical_bound': p_parallax_ecliptical}


def pred(ctx, name, inp, klass=None):
    ok, detail = PRED[name](inp)
    ctx.predicate(name, ok, inp, detail, klass or name)
    if isinstance(detail, dict) and 'dev' in detail:
        ctx.deviation(name + '.dev', abs(detail['dev']))
    return ok


# ------------------------------------------------------------------ generators
def size(ctx, quick, thorough):
    """Number of samples: the tier's size; when the source of a modelled function changed (ctx.scale > 1) at least
    the thorough size (the most exhaustive enumeration this module has; it fits in about two minutes)."""
    n = ctx.n(quick, thorough)
    return max(n, thorough) if ctx.scale > 1 else n


def gen_ell(rng):
    r = rng.random()
    if r < 0.3:
        return (6378140.0, 1.0 / 298.257, 7.292114992e-5, 'IAU76')
    if r < 0.6:
        return (6378137.0, 1.0 / 298.257223563, 7292115e-11, 'WGS84')
    a = rng.choice([6378137.0, 1.0, 3396190.0, 10 ** rng.uniform(3, 8)])
    f = rng.choice([0.0, 0.01, 0.0034, 1.0 / 298.257, rng.uniform(0.0, 0.01), 10 ** rng.uniform(-8, -2)])
    om = rng.choice([7.292115e-5, 0.0, rng.uniform(0, 1e-3)])
    return (a, f, om, 'user')


def gen_lat(rng, hot=()):
    r = rng.random()
    if r < 0.3:
        return rng.choice([0.0, 90.0, -90.0, 45.0, -45.0, 1e-9, -1e-9, 89.999999999, -89.999999999, 89.99999999999999,
                           1e-300, 30.0, 60.0, 35.264389682754654])
    if r < 0.35 and hot:
        h = rng.choice(list(hot))
        if -90.0 <= h <= 90.0:
            return h
    if r < 0.45:
        return rng.choice([1, -1]) * (90.0 - 10 ** rng.uniform(-12, 0))
    if r < 0.55:
        return rng.choice([1, -1]) * 10 ** rng.uniform(-12, 0)
    return rng.uniform(-90.0, 90.0)


def gen_lon(rng):
    r = rng.random()
    if r < 0.2:
        return rng.choice([0.0, 180.0, -180.0, 90.0, -90.0, 360.0, 1e-9, 179.999999999])
    return rng.uniform(-180.0, 180.0)


def gen_height(rng):
    return rng.choice([0.0, -500.0, 9000.0, rng.uniform(-500.0, 9000.0), rng.uniform(-500.0, 9000.0)])


def clamp_lat(x):
    return max(-90.0, min(90.0, x))


def generate(ctx, shard=0, nshards=1):
    from pymeeus.Earth import Earth, Ellipsoid, IAU76, WGS84
    from pymeeus.Angle import Angle
    rng = ctx.rng
    hot = ctx.hot['floats']
    A = Angle

    def tie(fn, args, call, klass):
        ctx.case(fn, args, run_impl(call), q=None, klass=klass)

    def dist_tie(ell, l1, p1, l2, p2, klass):
        a, f, om = ell[:3]
        e = earth_of(a, f, om)
        tie('distance', [a, f, om, l1, p1, l2, p2], lambda: e.distance(l1, p1, l2, p2), 'distance/' + klass)

    def pc_tie(ra, dec, lat, dist, ha, h, klass):
        def call():
            r = Earth.parallax_correction(A(ra), A(dec), A(lat), dist, A(ha), h)
            return (r[0]._deg, r[1]._deg)
        tie('parallax_correction', [A(ra)._deg, A(dec)._deg, A(lat)._deg, dist, A(ha)._deg, h], call, klass)

    def pe_tie(lon, lat, semi, obs_lat, obl, sid, dist, h, klass):
        def call():
            r = Earth.parallax_ecliptical(A(lon), A(lat), A(semi), A(obs_lat), A(obl), A(sid), dist, h)
            return (r[0]._deg, r[1]._deg, r[2]._deg)
        tie('parallax_ecliptical', [A(lon)._deg, A(lat)._deg, A(semi)._deg, A(obs_lat)._deg, A(obl)._deg,
                                    A(sid)._deg, dist, h], call, klass)

    if shard == 0:
        tie('ell_iau76', [], lambda: (IAU76._a, IAU76._f, IAU76._omega), 'builtin_ellipsoids')
        tie('ell_wgs84', [], lambda: (WGS84._a, WGS84._f, WGS84._omega), 'builtin_ellipsoids')
        ctx.predicate('default_ellipsoid_is_wgs84', Earth()._ellip is WGS84, [], None)
        for ell in ((6378140.0, 1.0 / 298.257, 7.292114992e-5), (6378137.0, 1.0 / 298.257223563, 7292115e-11),
                    (1.0, 0.0, 0.0), (1.0, 0.01, 1.0)):
            a, f, om = ell
            e = earth_of(a, f, om)
            for lat in (0.0, 90.0, -90.0, 45.0, -45.0, 30.0, 89.99999999999999):
                pred(ctx, 'on_ellipse', [a, f, om, lat], 'on_ellipse/corpus')
                pred(ctx, 'parallel_radius', [a, f, om, lat], 'parallel_radius/corpus')
                pred(ctx, 'rm_ends_monotone', [a, f, om, lat, 0.0], 'rm/corpus')
                tie('rm', [a, f, om, lat], lambda: e.rm(lat), 'rm/corpus')
                tie('rp', [a, f, om, lat], lambda: e.rp(lat), 'rp/corpus')
            for (l1, p1, l2, p2, k) in ((0.0, 0.0, 0.0, 0.0, 'coincident'), (10.0, 20.0, 10.0, 20.0, 'coincident'),
                                        (0.0, 90.0, 77.0, 90.0, 'coincident_pole'), (10.0, 20.0, 370.0, 20.0, 'coincident_turn'),
                                        (0.0, 0.0, 180.0, 0.0, 'antipodal'), (10.0, 20.0, -170.0, -20.0, 'antipodal'),
                                        (0.0, 90.0, 0.0, -90.0, 'antipodal'), (0.0, 0.0, 90.0, 0.0, 'equatorial'),
                                        (2.3372, 48.8364, -77.0656, 38.9214, 'meeus_example')):
                dist_tie(ell, l1, p1, l2, p2, k)
                pred(ctx, 'distance_symmetric', [a, f, om, l1, p1, l2, p2], 'distance_symmetric/' + k)
                if k.startswith('coincident'):
                    pred(ctx, 'distance_coincident_zero', [a, f, om, l1, p1, l2, p2], 'distance_coincident_zero/' + k)
        # error classes outside the domain of the property: tie only
        for (a, f) in ((0.0, 0.0), (1.0, -0.1), (1.0, 2.5), (1.0, 1.0), (-1.0, 0.003)):
            e = earth_of(a, f, 1e-4)
            tie('ell_e', [a, f, 1e-4], lambda: e._ellip.e(), 'outside_domain')
            tie('rho_sinphi', [a, f, 1e-4, 40.0, 100.0], lambda: e.rho_sinphi(40.0, 100.0), 'outside_domain')
            tie('rho_cosphi', [a, f, 1e-4, 40.0, 100.0], lambda: e.rho_cosphi(40.0, 100.0), 'outside_domain')
            tie('rp', [a, f, 1e-4, 90.0], lambda: e.rp(90.0), 'outside_domain')
            if f != 2.5:     # (negative float) ** 1.5 is a complex number in Python; the model says `.other`
                tie('rm', [a, f, 1e-4, 90.0], lambda: e.rm(90.0), 'outside_domain')
            dist_tie((a, f, 1e-4), 1.0, 2.0, 3.0, 4.0, 'outside_domain')
        pc_tie(10.0, 20.0, 30.0, 0.0, 40.0, 0.0, 'outside_domain')
        pe_tie(10.0, 20.0, 0.25, 30.0, 23.44, 40.0, 0.0, 0.0, 'outside_domain')
        # Meeus example 40.a (Mars, Palomar) and 40.b-like call
        pc_tie(339.530208, -15.771083, 33.356111, 0.37276, 288.7958, 1706.0, 'meeus_example')
        pe_tie(181.77703, 2.12197, 0.2781, 50.0, 23.44, 209.77, 0.0024650163, 0.0, 'meeus_example')
        ctx.sample({'call': 'Earth().distance(2.3372, 48.8364, -77.0656, 38.9214)', 'expected': '6181628 m (Meeus ex. 11.c: 6181.63 km)'})
        ctx.sample({'call': 'Earth.parallax_ecliptical(Angle(10), Angle(-10), Angle(0.25), Angle(40), Angle(23.44), Angle(100), 1.0)',
                    'expected': 'topo_lat -10.0007 (169.999 before ea54de3)'})

    # ---- ellipsoid quantities
    for _ in range(size(ctx, 14000, 300000) // nshards + 1):
        a, f, om, name = gen_ell(rng)
        e = earth_of(a, f, om)
        lat = gen_lat(rng, hot)
        h = gen_height(rng)
        latarg = A(lat) if rng.random() < 0.3 else lat       # both argument forms of the latitude
        tie('ell_b', [a, f, om], lambda: e._ellip.b(), 'ellipsoid/' + name)
        tie('ell_e', [a, f, om], lambda: e._ellip.e(), 'ellipsoid/' + name)
        tie('rho', [lat], lambda: e.rho(latarg), 'rho')
        tie('rho_sinphi', [a, f, om, lat, h], lambda: e.rho_sinphi(latarg, h), 'rho_sinphi/' + name)
        tie('rho_cosphi', [a, f, om, lat, h], lambda: e.rho_cosphi(latarg, h), 'rho_cosphi/' + name)
        tie('rp', [a, f, om, lat], lambda: e.rp(latarg), 'rp/' + name)
        tie('linear_velocity', [a, f, om, lat], lambda: e.linear_velocity(latarg), 'linear_velocity/' + name)
        tie('rm', [a, f, om, lat], lambda: e.rm(latarg), 'rm/' + name)
        kl = '/' + name + ('/pole' if abs(abs(lat) - 90.0) < 1e-6 else '/equator' if abs(lat) < 1e-6 else '')
        pred(ctx, 'on_ellipse', [a, f, om, lat], 'on_ellipse' + kl)
        pred(ctx, 'parallel_radius', [a, f, om, lat], 'parallel_radius' + kl)
        pred(ctx, 'rm_ends_monotone', [a, f, om, lat, gen_lat(rng)], 'rm' + kl)
        pred(ctx, 'linear_velocity', [a, f, om, lat], 'linear_velocity' + kl)
        pred(ctx, 'height_term', [a, f, om, lat, h], 'height_term' + kl)

    # ---- surface distance
    for _ in range(size(ctx, 14000, 300000) // nshards + 1):
        a, f, om, name = gen_ell(rng)
        ell = (a, f, om)
        l1, p1 = gen_lon(rng), gen_lat(rng, hot)
        r = rng.random()
        if r < 0.12:
            k, l2, p2 = 'coincident', l1, p1
        elif r < 0.17:
            k, l2, p2 = 'coincident_turn', l1 + rng.choice([360.0, -360.0]), p1
        elif r < 0.22:
            p1 = rng.choice([90.0, -90.0])
            k, l2, p2 = 'coincident_pole', gen_lon(rng), p1
        elif r < 0.32:
            k, l2, p2 = 'antipodal', l1 + rng.choice([180.0, -180.0]), -p1
        elif r < 0.42:
            k = 'near_antipodal'
            l2 = l1 + 180.0 + rng.uniform(-1, 1) * 10 ** rng.uniform(-12, 0)
            p2 = clamp_lat(-p1 + rng.uniform(-1, 1) * 10 ** rng.uniform(-12, 0))
        elif r < 0.5:
            k = 'near_coincident'
            l2 = l1 + rng.uniform(-1, 1) * 10 ** rng.uniform(-12, 0)
            p2 = clamp_lat(p1 + rng.uniform(-1, 1) * 10 ** rng.uniform(-12, 0))
        elif r < 0.65:
            k, l2, p2 = 'same_meridian', l1, gen_lat(rng, hot)
        elif r < 0.8:
            k, p1, l2, p2 = 'equatorial', 0.0, gen_lon(rng), 0.0
        else:
            k, l2, p2 = 'random', gen_lon(rng), gen_lat(rng, hot)
        dist_tie(ell, l1, p1, l2, p2, k)
        dist_tie(ell, l2, p2, l1, p1, k)
        pred(ctx, 'distance_symmetric', [a, f, om, l1, p1, l2, p2], 'distance_symmetric/' + k)
        if k.startswith('coincident'):
            pred(ctx, 'distance_coincident_zero', [a, f, om, l1, p1, l2, p2], 'distance_coincident_zero/' + k)
        if k == 'equatorial' and abs(abs(l1 - l2) - 180.0) > 1e-9:
            pred(ctx, 'distance_equator', [a, f, om, l1, l2], 'distance_equator/' + name)
        if k == 'same_meridian' and p1 != p2 :
            pred(ctx, 'distance_meridian_arc', [a, f, om, l1, p1, p2], 'distance_meridian_arc/' + name)
        if f <= 0.0034 and k not in ('coincident', 'coincident_turn', 'coincident_pole'):
            pred(ctx, 'distance_great_circle', [a, f, om, l1, p1, l2, p2], 'distance_great_circle/' + k)

    # ---- parallax
    for _ in range(size(ctx, 8000, 200000) // nshards + 1):
        dist = rng.choice([1e-3, 1e3, 0.0025695, 1.0, 10 ** rng.uniform(-3, 3), 10 ** rng.uniform(-3, 3)])
        h = gen_height(rng)
        obs = gen_lat(rng, hot)
        ra, ha, sid = rng.uniform(0, 360), rng.choice([0.0, 90.0, 180.0, 270.0, rng.uniform(0, 360)]), rng.uniform(0, 360)
        dec = gen_lat(rng)
        pc_tie(ra, dec, obs, dist, ha, h, 'parallax_correction')
        cap = polar_cap_flag(dec, dist, h)
        pred(ctx, 'parallax_equatorial_bound', [ra, dec, obs, dist, ha, h, cap],
             'parallax_equatorial_bound' + ('/polar_cap' if cap else ''))
        lon = rng.choice([0.0, 90.0, 180.0, 270.0, rng.uniform(0, 360), rng.uniform(0, 360)])
        lat = rng.choice([0.0, rng.uniform(-90, 90), rng.uniform(-10, 10), rng.uniform(-1, 1) * 10 ** rng.uniform(-9, 0)])
        if abs(lat) > 89.9:          # the ecliptic pole: topocentric longitude is arbitrary, the formulas divide by n ~ 0
            lat = math.copysign(89.9, lat)
        semi = rng.choice([0.25, 0.0, rng.uniform(0, 0.3)])
        obl = rng.uniform(22.0, 24.5)
        pe_tie(lon, lat, semi, obs, obl, sid, dist, h, 'parallax_ecliptical')
        fl = ecl_flag(lon, lat, obs, obl, sid, dist, h)
        pred(ctx, 'parallax_ecliptical_bound', [lon, lat, semi, obs, obl, sid, dist, h, fl],
             'parallax_ecliptical_bound/' + ('other', 'south_front', 'lon_90_270', 'south_front+lon_90_270')[fl])


def known_match(finding, failure):
    """`ranges` as in the default matcher, plus `mask`: {index: bits} and `dev_at_most_first_order_error`."""
    if finding.get('predicate') != failure.get('predicate'):
        return False
    inp = failure.get('input') or []
    for idx, rng in (finding.get('ranges') or {}).items():
        i = int(idx)
        if i >= len(inp) or not isinstance(inp[i], (int, float)) or not (rng[0] <= inp[i] <= rng[1]):
            return False
    for idx, bits in (finding.get('mask') or {}).items():
        i = int(idx)
        if i >= len(inp) or not isinstance(inp[i], int) or not (inp[i] & bits):
            return False
    if finding.get('dev_at_most_first_order_error'):
        # the failure must be explained by the first-order error of Andoyer's formula, f^2/(1-f)^2 (+0.1 %)
        det = failure.get('detail')
        f = inp[1]
        if not isinstance(det, dict) or 'dev' not in det or not (det['dev'] <= (f / (1.0 - f)) ** 2 * 1.001):
            return False
    return True


def replay(case):
    name = case.get('predicate')
    inp = case.get('input')
    if name not in PRED:
        return (False, 'unknown predicate %r' % (name,))
    ok, detail = PRED[name](inp)
    return (not ok, {'predicate': name, 'input': inp, 'detail': detail})
