"""C13 — planetary event finders return real events, in order, none skipped.

(T) Props/C13.lean: the selection logic of the 28 Meeus ch. 36 periodic-term finders and of the 7
    perihelion_aphelion first approximations, for all queries, on records regenerated from the
    source by tools/gen_finders.py.
(S) the binary64 instantiation of the one generic evaluator (templates/Finders.lean, composed with
    EpochCal.year and EpochOps.Epoch.init) on the generated records against CPython, bit for bit, on every
    case the whole chain: from the `_jde` of the query epoch through `epoch.year()`, k, jde0, corr to the
    `_jde` of the returned `Epoch(jde0 + corr)` (and the elongation angle); the first approximation `jde` of every
    perihelion_aphelion (read from the abscissae handed to Interpolation).
(I) the property's own predicates on the implementation, against the library's VSOP87 positions:
    the event occurs within 1 day (Mercury..Mars) / 2 days (beyond) of the returned instant;
    order, spacing, distance to the query as the query advances by 1/20 period; ValueError
    exactly outside -2000..4000.
"""
import math
import os
import sys

import core
from core import enc, Fraction

PROPERTY = 'C13'

PLANETS = ['Mercury', 'Venus', 'Earth', 'Mars', 'Jupiter', 'Saturn', 'Uranus', 'Neptune']
CH36 = ['inferior_conjunction', 'superior_conjunction', 'conjunction', 'opposition',
        'western_elongation', 'eastern_elongation', 'station_longitude_1', 'station_longitude_2']
HAS36 = {'Mercury': CH36[:2] + CH36[4:], 'Venus': CH36[:2] + CH36[4:], 'Earth': [],
         'Mars': CH36[2:4] + CH36[6:], 'Jupiter': CH36[2:4] + CH36[6:], 'Saturn': CH36[2:4] + CH36[6:],
         'Uranus': CH36[2:4], 'Neptune': CH36[2:4]}
HASPA = ['Mercury', 'Venus', 'Earth', 'Mars', 'Jupiter', 'Saturn', 'Uranus']
FINDERS36 = ['%s.%s' % (p, m) for p in PLANETS for m in HAS36[p]]
FINDERSPA = ['%s.perihelion_aphelion' % p for p in HASPA]
FINDERSND = ['%s.passage_nodes' % p for p in HASPA]
#: accuracy of the series stated by the property: 1 day Mercury-Mars, 2 days beyond
TOL = {'Mercury': 1.0, 'Venus': 1.0, 'Earth': 1.0, 'Mars': 1.0, 'Jupiter': 2.0, 'Saturn': 2.0, 'Uranus': 2.0,
       'Neptune': 2.0}
#: the property gives no angular figure for "equal to the reported angle"; 0.05 degree is the change of
#: Mercury's elongation within one day (the time accuracy) of its maximum
ANGLE_TOL = 0.05

FUNCTIONS = (['pymeeus/%s.py:%s.%s' % (p, p, m) for p in PLANETS for m in HAS36[p]]
             + ['pymeeus/%s.py:%s.perihelion_aphelion' % (p, p) for p in HASPA]
             + ['pymeeus/%s.py:%s.passage_nodes' % (p, p) for p in HASPA]
             + ['pymeeus/Epoch.py:Epoch.year', 'pymeeus/Epoch.py:Epoch.get_doy', 'pymeeus/Epoch.py:Epoch.leap',
                'pymeeus/Epoch.py:Epoch.is_leap', 'pymeeus/Epoch.py:Epoch.get_date', 'pymeeus/Epoch.py:Epoch._compute_jde',
                'pymeeus/Epoch.py:Epoch.set', 'pymeeus/Angle.py:Angle.reduce_deg', 'pymeeus/Angle.py:Angle.to_positive',
                'pymeeus/Angle.py:Angle.rad', 'pymeeus/Epoch.py:Epoch.get_full_date',
                'pymeeus/Coordinates.py:passage_nodes_elliptic'])

MANIFEST = dict(
    text=("PARTIAL. Proved in Lean 4 (Props/C13.lean, 38 theorems), for the 28 Meeus ch. 36 periodic-term finders "
          "(conjunctions, oppositions, greatest elongations, stations) on data records regenerated from the current source "
          "by tools/gen_finders.py. (a) For every real value y of epoch.year(): the period count "
          "k = round((365.2425 y + 1721060 - A)/B) (half-even) is monotone and takes every integer between its extremes; "
          "|corr - c0| <= C_f for all angles and |t| <= 41, C_f the sum of absolute amplitude polynomials computed by the "
          "kernel from the source constants; result(k+1) - result(k) in [B - 2 C_f, B + 2 C_f], B - 2 C_f > 0 (strictly "
          "increasing, none skipped or repeated); ValueError iff y < -2000 or y > 4000. (b) For every rational query JDE j in "
          "[0, 5373484.5): the model is the composition Epoch.year (exact calendar model of templates/EpochCal.lean, theorems of "
          "C16) -> finder over the reals -> Epoch(jde0 + corr) (constructor of templates/EpochOps.lean at the reals, proved to "
          "store its argument exactly); year() is strictly increasing in j; ValueError iff year() outside [-2000, 4000] iff j "
          "before -2000 Jan 1.0 or after 4000 Jan 1.0; the JDE of the returned Epoch never moves backwards as j advances, "
          "consecutive counts are B +- 2 C_f apart, |365.2425 year() + 1721060 - j| <= 18 (proved calendar term, 17.5 d at "
          "-2000) and |returned JDE - j| <= B/2 + |c0| + C_f + 18 < B. For the 7 perihelion_aphelion: k monotone, onto, "
          "first approximations strictly increasing one period apart, also as functions of the query JDE; the count is the "
          "nearest admissible one (|k - C(year - Y0)| <= 1/2), perihelia and aphelia alternate, and - PARTIAL, under the "
          "hypothesis that the returned value lies in the interpolation bracket [jde - d, jde + d] - final results of "
          "different orbits are ordered and P - var - 2d apart. Tables (kernel-decided on the regenerated records): every "
          "series has degree <= 2 in t with linear/quadratic coefficient sums <= 0.14 / 0.002; brackets d >= 1/2 day, "
          "2d < P - var. The reported elongation angle is a number in [14, 48.1] degrees within elonRad of elonMid (never "
          "reduced by to_positive); all multipliers of sin(j m) are whole numbers and the Angle(...) normalisations change "
          "angles by whole turns only, so corr equals Meeus' formula at the raw angles M0 + k M1, c0 + c1 t, and the mean "
          "anomaly used is in [0, 2 pi); the two-body node passage (model of C11) is less than half an orbital period from "
          "the perihelion it is computed from; the range guard accepts year() = -2000.0 and 4000.0 themselves. NOT proved, "
          "measured only: that the returned instants are events of the VSOP87 theory (agreement of two independent series), "
          "everything after the first approximation in perihelion_aphelion (VSOP87 + Interpolation.minmax) and passage_nodes "
          "(two-body motion). Measured by (I) on the implementation: sign change of the event function across "
          "[t - tol, t + tol] with tol = 1 day Mercury..Mars / 2 days beyond, order/spacing/distance for queries advancing by "
          "1/20 period over eras (quick) or the whole of -2000..4000 (thorough), ValueError outside."),
    note=("Trusted: Lean kernel, Mathlib, axioms propext/Classical.choice/Quot.sound; the translator tools/gen_finders.py "
          "(rejects any statement shape it does not know; validated on every run by the bit-for-bit agreement of the "
          "binary64 evaluation of its records with CPython); the hand-written templates Finders.lean, EpochCore.lean, "
          "EpochCal.lean, EpochOps.lean, whose binary64 instantiation is run against CPython from the query's _jde to the "
          "_jde of the returned Epoch on every case; real/rational arithmetic stands for binary64 in the theorems "
          "(idealisation measured, not proved). Known findings: see known_findings.json (property C13)."),
    technique="Lean 4 proof over generated data records (generic lemma + kernel-decided side conditions), composed with the "
              "proved calendar model + bit-exact whole-chain model/implementation correspondence + predicate evaluation "
              "against VSOP87 positions",
    ref='6 C13')

TRUSTED = ['tools/gen_finders.py (ast translator; fails on unknown shapes; its records are validated by the bit-exact run)',
           'the query _jde is a rational number in the theorems (every binary64 is one); Epoch.year is evaluated in the exact '
           'rational instantiation of templates/EpochCal.lean and cast to the reals, where sin/cos live; the stub for '
           'datetime.date(...).timetuple().tm_yday in that template is validated by the bit-exact run',
           'perihelion_aphelion: only the first approximation jde is modelled; it is read from the abscissae the '
           'implementation passes to Interpolation (a recording subclass installed by the harness, /repo untouched)',
           'event predicates use the library\'s own VSOP87 positions (geocentric_position, Sun.apparent_geocentric_position, '
           'geometric_heliocentric_position) as the property prescribes']
ASSUMPTIONS = ['binary64 rounding does not change k away from ties of round(): measured by the bit-exact run, not proved']
RULE = 'distinct (finder, query _jde) pairs sent to the binary64 model and to the implementation; predicates counted separately'

J_LO = 990557.5    # Epoch(-2000, 1, 1.0)
J_HI = 3182029.5   # Epoch(4000, 1, 1.0)

_ENV = {}


def env():
    """Import the planet classes once; install the recording Interpolation in the planet modules."""
    if _ENV:
        return _ENV
    import importlib
    from pymeeus.Epoch import Epoch
    from pymeeus.Sun import Sun
    from pymeeus.Interpolation import Interpolation
    from pymeeus.Coordinates import true_obliquity, equatorial2ecliptical

    class SpyInterpolation(Interpolation):
        last = None

        def __init__(self, *a, **k):
            if a and isinstance(a[0], list):
                SpyInterpolation.last = list(a[0])
            Interpolation.__init__(self, *a, **k)

    cls = {}
    for p in PLANETS:
        mod = importlib.import_module('pymeeus.' + p)
        cls[p] = getattr(mod, p)
        if hasattr(mod, 'Interpolation'):
            mod.Interpolation = SpyInterpolation
    _ENV.update(Epoch=Epoch, Sun=Sun, cls=cls, Spy=SpyInterpolation, true_obliquity=true_obliquity,
                equatorial2ecliptical=equatorial2ecliptical)
    assert Epoch(-2000, 1, 1.0).jde() == J_LO and Epoch(4000, 1, 1.0).jde() == J_HI
    return _ENV


_BOUNDS = {}


def bounds():
    """B, centre and radius of corr (ch. 36) / P, Q, delta, corr bound (perihelion_aphelion): the exact
    rationals of the generated records, i.e. the constants of the theorems, read from the model driver."""
    if _BOUNDS:
        return _BOUNDS
    names = FINDERS36 + FINDERSPA
    lines = ['F finder_bounds ' + enc(n) for n in FINDERS36] + ['F pa_bounds ' + enc(n) for n in FINDERSPA]
    outs = core.run_driver(lines)
    for n, o in zip(names, outs):
        if o.startswith('?'):
            raise RuntimeError('model has no record for ' + n)
        v = [Fraction(int(t.split('/')[0]), int(t.split('/')[1])) for t in o.split(' ')]
        if n in FINDERS36:
            _BOUNDS[n] = dict(B=float(v[0]), mid=float(v[1]), rad=float(v[2]))
        else:
            P, Q, delta, crad = [float(x) for x in v]
            var = 2.0 * (delta + crad) + abs(Q) * 400.0
            _BOUNDS[n] = dict(B=P, mid=0.0, rad=var / 2.0, delta=delta)
            pn = n.split('.')[0]
            _BOUNDS[pn + '.passage_nodes'] = dict(B=P, mid=0.0, rad=var / 2.0 + 0.001 * P)
    return _BOUNDS


def kind_of(finder):
    m = finder.split('.')[1]
    return 'ch36' if m in CH36 else ('pa' if m == 'perihelion_aphelion' else 'nodes')


def call(finder, variant, q):
    """Run a finder on the query JDE q -> (jde of the result, angle | radius | None). Raises as the implementation."""
    E = env()
    p, m = finder.split('.')
    c = E['cls'][p]
    e = E['Epoch'](q)
    if m in CH36:
        r = getattr(c, m)(e)
    else:
        r = getattr(c, m)(e, variant)
    if isinstance(r, tuple):
        return r[0].jde(), float(r[1])
    return r.jde(), None


# ------------------------------------------------------------------ event functions (library's VSOP87 positions)
def w180(x):
    return (x + 180.0) % 360.0 - 180.0


def geo(c, jde):
    """apparent geocentric ecliptical longitude of the planet, of the Sun, and the elongation (degrees)."""
    E = env()
    Ep = E['Epoch']
    ra, dec, elon = c.geocentric_position(Ep(jde))
    eps = E['true_obliquity'](Ep(jde))
    lon, _lat = E['equatorial2ecliptical'](ra, dec, eps)
    ls = E['Sun'].apparent_geocentric_position(Ep(jde))[0]
    return float(lon), float(ls), float(elon)


def event_function(finder, variant):
    """(g, direction, tol): the event is a zero of g at which direction * g goes from - to +."""
    E = env()
    p, m = finder.split('.')
    c = E['cls'][p]
    Ep = E['Epoch']
    tol = TOL[p]
    if m in ('inferior_conjunction', 'superior_conjunction', 'conjunction', 'opposition'):
        target = 180.0 if m == 'opposition' else 0.0

        def g(t):
            lo, ls, _ = geo(c, t)
            return w180(lo - ls - target)
        # the Sun overtakes an outer planet; an inner planet overtakes the Sun at superior conjunction only
        return g, (1.0 if m == 'superior_conjunction' else -1.0), tol
    if m in ('western_elongation', 'eastern_elongation'):
        h = 0.02

        def g(t):
            return (geo(c, t + h)[2] - geo(c, t - h)[2]) / (2 * h)
        return g, -1.0, tol          # elongation maximal: derivative + -> -
    if m in ('station_longitude_1', 'station_longitude_2'):
        h = 0.02

        def g(t):
            return w180(geo(c, t + h)[0] - geo(c, t - h)[0]) / (2 * h)
        return g, (-1.0 if m.endswith('1') else 1.0), tol   # 1: direct -> retrograde, 2: retrograde -> direct
    if m == 'perihelion_aphelion':
        h = 0.05

        def g(t):
            return (float(c.geometric_heliocentric_position(Ep(t + h))[2])
                    - float(c.geometric_heliocentric_position(Ep(t - h))[2])) / (2 * h)
        return g, (1.0 if variant else -1.0), tol      # r minimal: derivative - -> +
    if m == 'passage_nodes':
        def g(t):
            return w180(float(c.geometric_heliocentric_position(Ep(t))[1]))
        return g, (1.0 if variant else -1.0), tol      # ascending: latitude - -> +
    raise ValueError(finder)


def scan_offset(g, d, t0, span, n):
    """Offset from t0 of the nearest zero of g with the right direction in [t0 - span, t0 + span], or None."""
    ts = [t0 - span + 2.0 * span * i / n for i in range(n + 1)]
    vs = [d * g(t) for t in ts]
    best = None
    for i in range(n):
        a, b = vs[i], vs[i + 1]
        if a <= 0.0 < b or (a < 0.0 <= b):
            r = ts[i] + (ts[i + 1] - ts[i]) * (a / (a - b)) - t0
            if best is None or abs(r) < abs(best):
                best = r
    return best


def check_event(finder, variant, t0, angle=None):
    """The event occurs within tol of t0: the event function changes sign, in the right direction, across
    [t0 - tol, t0 + tol].  Returns (ok, detail, estimated offset of the event from t0, angle deviation)."""
    g, d, tol = event_function(finder, variant)
    a, b = d * g(t0 - tol), d * g(t0 + tol)
    ok = (a <= 0.0 <= b) and (a < b)
    off = None
    if ok:
        off = -tol + 2.0 * tol * (a / (a - b))
    detail = {'result_jde': t0, 'tol_days': tol, 'g_before': a, 'g_after': b}
    adev = None
    m = finder.split('.')[1]
    if m in ('western_elongation', 'eastern_elongation'):
        E = env()
        c = E['cls'][finder.split('.')[0]]
        lo, ls, el = geo(c, t0 + (off or 0.0))
        side = w180(lo - ls)
        detail['side'] = side
        if (m == 'western_elongation') != (side < 0.0):
            ok = False
            detail['wrong_side'] = True
        if angle is not None:
            adev = abs(angle - el)
            detail['angle_reported'] = angle
            detail['elongation_at_event'] = el
    if not ok:
        wide = scan_offset(g, d, t0, 40.0 * tol, 80)
        detail['nearest_event_offset_days'] = wide
    else:
        detail['offset_days'] = off
    return ok, detail, off, adev


# ------------------------------------------------------------------ predicates on one query / a pair of queries
def pred_event(ctx, finder, variant, q, res=None):
    """returns an instant at which the event does occur (and the reported elongation equals the maximum)."""
    inp = [finder, variant, q]
    if res is None:
        try:
            res = call(finder, variant, q)
        except Exception as ex:  # noqa
            ctx.predicate('returns_instant', False, inp, repr(ex), 'returns_instant/' + finder)
            return
    t0, extra = res
    m = finder.split('.')[1]
    ok, detail, off, adev = check_event(finder, variant, t0, extra if m.endswith('elongation') else None)
    record(ctx, 'event_occurs', ok, inp, detail, 'event_occurs/' + finder)
    if off is not None:
        ctx.deviation('event_offset_days/' + finder, abs(off))
    if adev is not None:
        record(ctx, 'elongation_angle', adev <= ANGLE_TOL, inp, detail, 'elongation_angle/' + finder)
        ctx.deviation('elongation_angle_deg/' + finder, adev)


MAX_FAIL_PER_CLASS = 6
_failcount = {}


def record(ctx, name, ok, inp, detail, klass):
    """ctx.predicate, except that after MAX_FAIL_PER_CLASS recorded failures of one (predicate, finder, variant)
    further failures of that class are only counted (max_dev['further_failures/...']): one systematic failure must
    not fill the failure list (it is capped) and hide a different one."""
    if not ok:
        key = '%s/%s/%s' % (name, inp[0], inp[1])
        n = _failcount.get(key, 0) + 1
        _failcount[key] = n
        if n > MAX_FAIL_PER_CLASS:
            ctx.pred_count += 1
            ctx.pred_classes[klass] = ctx.pred_classes.get(klass, 0) + 1
            ctx.deviation('further_failures/' + key, float(n - MAX_FAIL_PER_CLASS))
            return
    ctx.predicate(name, ok, inp, detail, klass)


def pred_pair(ctx, finder, variant, q0, r0, q1, r1, b):
    """q0 < q1 consecutive queries (1/20 period apart), r0, r1 the results."""
    inp = [finder, variant, q0, q1]
    record(ctx, 'order_never_backwards', r1 >= r0, inp, {'results': [r0, r1], 'diff': r1 - r0}, 'order/' + finder)
    if r1 != r0:
        lo, hi = b['B'] - 2.0 * b['rad'] - 1e-6, b['B'] + 2.0 * b['rad'] + 1e-6
        d = r1 - r0
        detail = {'results': [r0, r1], 'diff': d, 'allowed': [lo, hi]}
        if abs(d) <= TOL[finder.split('.')[0]]:
            # two distinct results closer than the accuracy of the series: the same event reported twice with
            # different instants ("consecutive distinct results are one period apart ... no event repeated")
            record(ctx, 'distinct_results_same_event', False, inp, detail, 'spacing/' + finder)
        else:
            record(ctx, 'spacing_one_period', lo <= d <= hi, inp, detail, 'spacing/' + finder)
            ctx.deviation('spacing_minus_period_days/' + finder, abs(d - b['B']))
    else:
        record(ctx, 'distinct_results_same_event', True, inp, None, 'spacing/' + finder)


def pred_near(ctx, finder, variant, q, r, b):
    inp = [finder, variant, q]
    record(ctx, 'within_one_period_of_query', abs(r - q) <= b['B'], inp, {'result': r, 'period': b['B'], 'distance': abs(r - q)},
           'near_query/' + finder)
    ctx.deviation('distance_to_query_over_period/' + finder, abs(r - q) / b['B'])


def tie36(ctx, finder, e, out, klass):
    """(S), the whole chain: the model gets the `_jde` of the query epoch and runs Epoch.year(), the period count,
    the series and the final Epoch(jde0 + corr) itself; compared bit for bit with what the implementation returned."""
    ctx.case('finder_jde', [finder, e.jde()], out, q=None, klass=klass)


def impl36(finder, e):
    E = env()
    p, m = finder.split('.')
    try:
        r = getattr(E['cls'][p], m)(e)
    except Exception as ex:  # noqa
        return core.enc_exc(ex), None
    if isinstance(r, tuple):
        return enc(r[0].jde()) + ' ' + enc(float(r[1])), (r[0].jde(), float(r[1]))
    return enc(r.jde()) + ' None', (r.jde(), None)


def implpa(finder, variant, e):
    """perihelion_aphelion / passage_nodes -> (result | exception, first approximation jde)."""
    E = env()
    p, m = finder.split('.')
    E['Spy'].last = None
    try:
        r = getattr(E['cls'][p], m)(e, variant)
    except Exception as ex:  # noqa
        return ex, (E['Spy'].last or [None, None])[1]
    jde1 = (E['Spy'].last or [None, None])[1]
    if isinstance(r, tuple):
        return (r[0].jde(), float(r[1])), jde1
    return (r.jde(), None), jde1


# ------------------------------------------------------------------ sweeps
def sweep(ctx, finder, variant, q_start, q_end, step, tie_every=1, event_every=0, klass='era', pairs=True):
    """Queries advancing by `step` from q_start to q_end: order, spacing, distance, tie, event predicates."""
    E = env()
    Ep = E['Epoch']
    b = bounds()[finder]
    kind = kind_of(finder)
    prev = None
    i = 0
    n_events = 0
    last_event_res = None
    q = q_start
    while q <= q_end:
        e = Ep(q)
        qq = e.jde()
        if kind == 'ch36':
            out, res = impl36(finder, e)
            if i % tie_every == 0:
                tie36(ctx, finder, e, out, 'finder_jde/' + klass)
            if res is None:
                ctx.predicate('returns_instant', False, [finder, variant, qq], out, 'returns_instant/' + finder)
        else:
            r, jde1 = implpa(finder, variant, e)
            if isinstance(r, Exception):
                record(ctx, 'returns_instant', False, [finder, variant, qq], repr(r), 'returns_instant/' + finder)
                res = None
            else:
                ctx.predicate('returns_instant', True, [finder, variant, qq], None, 'returns_instant/' + finder)
                res = r
            if kind == 'pa' and jde1 is not None and i % tie_every == 0:
                ctx.case('pa_jde', [finder, e.jde(), bool(variant)], enc(jde1), q=None, klass='pa_jde/' + klass)
        if res is not None:
            pred_near(ctx, finder, variant, qq, res[0], b)
            if prev is not None and pairs:
                pred_pair(ctx, finder, variant, prev[0], prev[1], qq, res[0], b)
            if event_every and res[0] != last_event_res and (n_events == 0 or i % event_every == 0):
                pred_event(ctx, finder, variant, qq, res)
                last_event_res = res[0]
                n_events += 1
            prev = (qq, res[0])
        else:
            prev = None      # a refused query is reported by returns_instant; do not pair its neighbours
        i += 1
        q = q_start + i * step


def era_starts(ctx, b_period, n_periods):
    """Windows of n_periods periods: both ends of the domain, the calendar reform, J2000, and spread eras."""
    w = n_periods * b_period
    mids = [Epoch_jd(y) for y in (-1300, -600, 0, 700, 1582.8, 2000, 2700, 3400)]
    wins = [(J_LO, J_LO + w), (J_HI - w, J_HI)]
    for m in mids:
        lo = max(J_LO, m - w / 2)
        wins.append((lo, min(J_HI, lo + w)))
    return wins


def Epoch_jd(year):
    return 365.2425 * year + 1721060.0


def range_checks(ctx, finder, n):
    """ValueError exactly outside -2000..4000 (epochs before -2000 Jan 1.0 or after 4000 Jan 1.0)."""
    E = env()
    Ep = E['Epoch']
    rng = ctx.rng
    qs = [J_LO, J_HI, J_LO + 1e-5, J_HI - 1e-5, J_LO - 1e-5, J_HI + 1e-5, J_LO - 1.0, J_HI + 1.0, J_LO + 1.0, J_HI - 1.0,
          J_LO - 366.0, J_HI + 366.0, 0.0, 5000000.0, J_HI + 0.5, J_LO - 0.5]
    for _ in range(n):
        r = rng.random()
        if r < 0.4:
            qs.append(rng.uniform(0.0, J_LO))
        elif r < 0.8:
            qs.append(rng.uniform(J_HI, 5.37e6))       # Epoch.year() itself stops at year 9999
        else:
            qs.append(rng.choice([J_LO, J_HI]) + rng.uniform(-400.0, 400.0))
    for q in qs:
        e = Ep(q)
        qq = e.jde()
        out, res = impl36(finder, e)
        outside = qq < J_LO or qq > J_HI
        ok = (out == 'E:ValueError') if outside else (res is not None)
        ctx.predicate('range_refusal', ok, [finder, None, qq], {'outside': outside, 'got': out}, 'range_refusal/' + (
            'outside' if outside else 'inside'))
        tie36(ctx, finder, e, out, 'finder_jde/range')


def leap_day_checks(ctx, finder, variant, years):
    """Queries on 29 February of Julian century years (Epoch.year was repaired recently): a result, in order with
    the neighbouring days."""
    E = env()
    Ep = E['Epoch']
    b = bounds()[finder]
    kind = kind_of(finder)
    for y in years:
        prev = None
        for (mm, dd) in ((2, 28.5), (2, 29.0), (2, 29.5), (2, 29.99), (3, 1.5)):
            e = Ep(y, mm, dd)
            qq = e.jde()
            inp = [finder, variant, qq]
            try:
                if kind == 'ch36':
                    out, res = impl36(finder, e)
                    tie36(ctx, finder, e, out, 'finder_jde/leap_day')
                    if res is None:
                        raise RuntimeError(out)
                    r = res[0]
                else:
                    r = call(finder, variant, qq)[0]
            except Exception as ex:  # noqa
                record(ctx, 'returns_instant', False, inp, repr(ex), 'returns_instant/leap_day')
                continue
            ctx.predicate('returns_instant', True, inp, None, 'returns_instant/leap_day')
            pred_near(ctx, finder, variant, qq, r, b)
            if prev is not None:
                record(ctx, 'order_never_backwards', r >= prev[1], [finder, variant, prev[0], qq],
                       {'results': [prev[1], r], 'diff': r - prev[1]}, 'order/leap_day')
            prev = (qq, r)


# ------------------------------------------------------------------ generate
def tasks(ctx):
    """The work of one run, as a list of (callable, args); task i is done by shard i mod 4.

    `ctx.scale` > 1 (changed source, failing-input search) widens the cheap parts only - the sweeps and random
    queries of the periodic-term finders - by at most 4; the VSOP87-bound parts keep their size so that a quick
    run stays within minutes."""
    T = []
    b = bounds()
    thorough = ctx.tier == 'thorough'
    sc = min(max(ctx.scale, 1.0), 4.0)
    centuries = [y for y in range(-2000, 1600, 100)]

    def n(quick, thor):
        return max(1, int((thor if thorough else quick) * sc))
    # ---- Meeus ch. 36 finders
    for f in FINDERS36:
        B = b[f]['B']
        nper = n(14, 30)
        for (lo, hi) in era_starts(ctx, B, nper):
            T.append((sweep, (ctx, f, None, lo, hi, B / 20.0, 1 if sc == 1.0 else 3, 90 if thorough else int(120 * sc), 'era')))
        if thorough and ctx.scale <= 1.0:
            # the whole of -2000..4000 in steps of 1/20 period, in 6 slices (the sweeps are independent)
            for s in range(6):
                lo = J_LO + (J_HI - J_LO) * s / 6.0
                hi = J_LO + (J_HI - J_LO) * (s + 1) / 6.0 + B
                T.append((sweep, (ctx, f, None, lo, min(hi, J_HI), B / 20.0, 12, 0, 'whole_range')))
        T.append((range_checks, (ctx, f, n(40, 400))))
        T.append((leap_day_checks, (ctx, f, None, centuries if thorough else centuries[::4] + [1500])))
        T.append((random_queries, (ctx, f, None, n(60, 600), 40 if thorough else 4)))
    # ---- perihelion / aphelion, node passages
    for f in FINDERSPA + FINDERSND:
        P = b[f]['B']
        for variant in (True, False):
            nper = 3 if P < 1000 else 2
            wins = era_starts(ctx, P, nper)
            if P > 5000:       # Jupiter, Saturn, Uranus: few periods in 6000 years, sweep long stretches instead
                wins = [(J_LO, J_LO + 2.2 * P), (J_HI - 2.2 * P, J_HI), (Epoch_jd(2000) - 1.1 * P, Epoch_jd(2000) + 1.1 * P),
                        (Epoch_jd(0) - 1.1 * P, Epoch_jd(0) + 1.1 * P)]
                if thorough:
                    wins = [(J_LO + (J_HI - J_LO) * s / 6.0, J_LO + (J_HI - J_LO) * (s + 1) / 6.0) for s in range(6)]
            elif thorough:
                wins = era_starts(ctx, P, 12 if P < 300 else 6)
            for (lo, hi) in wins:
                T.append((sweep, (ctx, f, variant, lo, hi, P / 20.0, 1, 20 if P < 5000 else 1, 'era')))
            T.append((leap_day_checks, (ctx, f, variant, centuries[::2] if thorough else centuries[::6] + [1500])))
            T.append((random_queries, (ctx, f, variant, 120 if thorough else 10, 30 if thorough else 3)))
    # ---- a perihelion_aphelion / passage_nodes finder whose own source changed: EVERY orbit of -2000..4000 once
    # (one query per period: a result, within one period of the query, in order, one period apart).  The second stage
    # of these finders searches a bracket around the first approximation, and how close the true event comes to the
    # edge of that bracket varies from orbit to orbit: a slip can hit a single orbit in six thousand years.
    changed = set(ctx.hot.get('changed', [])) if isinstance(ctx.hot, dict) else set()
    for f in FINDERSPA + FINDERSND:
        planet, meth = f.split('.')
        if ('pymeeus/%s.py:%s' % (planet, f)) not in changed:
            continue
        P = b[f]['B']
        nsl = 8
        for variant in (True, False):
            for s_ in range(nsl):
                lo = J_LO + (J_HI - J_LO) * s_ / nsl
                hi = J_LO + (J_HI - J_LO) * (s_ + 1) / nsl
                # steps of 0.7 period visit every orbit; the order / spacing predicates are for the fine sweeps only
                # (the count follows the decimal year, which is not linear in the JDE: a coarse step may pass two events)
                T.append((sweep, (ctx, f, variant, lo, hi, 0.7 * P, 50, 0, 'every_orbit', False)))
    return T


def random_queries(ctx, finder, variant, n, n_events):
    """Random query epochs over the whole domain: a result, within one period, tie; the event predicate on some."""
    E = env()
    Ep = E['Epoch']
    b = bounds()[finder]
    kind = kind_of(finder)
    for i in range(n):
        q = ctx.rng.uniform(J_LO, J_HI)
        e = Ep(q)
        qq = e.jde()
        if kind == 'ch36':
            out, res = impl36(finder, e)
            tie36(ctx, finder, e, out, 'finder_jde/random')
        else:
            r, jde1 = implpa(finder, variant, e)
            res = None if isinstance(r, Exception) else r
            if kind == 'pa' and jde1 is not None:
                ctx.case('pa_jde', [finder, e.jde(), bool(variant)], enc(jde1), q=None, klass='pa_jde/random')
            out = repr(r)
        record(ctx, 'returns_instant', res is not None, [finder, variant, qq], None if res else out,
               'returns_instant/' + finder)
        if res is None:
            continue
        pred_near(ctx, finder, variant, qq, res[0], b)
        if i < n_events:
            pred_event(ctx, finder, variant, qq, res)


WORKERS = 4


def generate(ctx, shard=0, nshards=1):
    w = min(WORKERS, nshards)
    if shard >= w:
        return           # at most 4 worker processes evaluate VSOP87 series (machine shared with other checks)
    env()
    T = tasks(ctx)
    for i, (fn, args) in enumerate(T):
        if i % w == shard:
            fn(*args)
    if shard == 0:
        ctx.sample({'call': 'Venus.inferior_conjunction(Epoch(1882, 12, 1.0)).get_date()', 'expected': '1882-12-06.69'})
        ctx.sample({'call': 'Saturn.conjunction(Epoch(2125, 6, 1.0))', 'note': 'k, jde0, corr tied bit for bit'})
        ctx.notes.append('tolerances: event within 1 day (Mercury..Mars) / 2 days (Jupiter..Neptune); elongation angle %.2f deg; '
                         'spacing within B +- 2 C_f of the theorems' % ANGLE_TOL)


# ------------------------------------------------------------------ replay, known findings
def replay(case):
    ctx = core.Ctx(PROPERTY, 'quick', 0)
    env()
    _failcount.clear()
    name = case.get('predicate')
    inp = case.get('input') or []
    finder, variant = inp[0], inp[1]
    b = bounds()[finder]
    if name in ('event_occurs', 'elongation_angle', 'returns_instant'):
        pred_event(ctx, finder, variant, inp[2])
        if name == 'returns_instant' and not ctx.pred_fail:
            return (False, 'a result is returned now')
    elif name in ('order_never_backwards', 'spacing_one_period', 'distinct_results_same_event'):
        r0, r1 = call(finder, variant, inp[2])[0], call(finder, variant, inp[3])[0]
        pred_pair(ctx, finder, variant, inp[2], r0, inp[3], r1, b)
    elif name == 'within_one_period_of_query':
        pred_near(ctx, finder, variant, inp[2], call(finder, variant, inp[2])[0], b)
    elif name == 'range_refusal':
        E = env()
        e = E['Epoch'](inp[2])
        out, res = impl36(finder, e)
        outside = e.jde() < J_LO or e.jde() > J_HI
        ok = (out == 'E:ValueError') if outside else (res is not None)
        ctx.predicate('range_refusal', ok, inp, {'outside': outside, 'got': out})
    fails = [f for f in ctx.pred_fail if f['predicate'] == name]
    return (len(fails) > 0, fails or ctx.pred_fail)


def known_match(finding, failure):
    """A listed finding names a predicate and the finders it concerns (and optionally a variant)."""
    inp = failure.get('input') or []
    if finding.get('predicate') != failure.get('predicate') or not inp:
        return False
    if inp[0] not in finding.get('finders', []):
        return False
    if 'variant' in finding and finding['variant'] != inp[1]:
        return False
    return True
