"""C20 — calls are side-effect free and total on their documented domain.

(T) lean/Pymeeus/Props/C20.lean: soundness of the effect analysis for all programs / heaps /
    executions, history and copy-independence corollaries, and — re-checked on every run against the
    effect skeleton that tools/py2effects.py regenerates from the current source — `check_current`,
    `mutators_documented`, `guards_current`.
(S) the skeleton is an abstraction, so it is validated dynamically here: every public callable is
    called with well-typed in-domain arguments; arguments (deeply) and all module-level tables and
    constants are snapshotted before and after; the skeleton's summary predicts what may change
    (nothing; for the documented mutators the receiver object itself).  Attributes the translator
    treated as scalar must hold scalars.
(I) the predicates of the property on the implementation: no argument / global changed
    (`no_side_effect`), mutators change only self (`mutator_only_self`), equal arguments give equal
    results whatever was called in between (`history_equal`, `repeat_equal`), copies are independent
    (`copy_independent`), in-domain calls return finite values of the documented type and stable arity
    without raising (`total_in_domain`), ill-typed calls raise TypeError/ValueError only
    (`illtyped_exception_class`), never return a non-value (`illtyped_no_nonvalue`) and are refused
    where the docstring promises TypeError (`illtyped_rejected`).
"""
import copy
import datetime
import fnmatch
import hashlib
import importlib
import inspect
import json
import math
import os
import pickle
import re
import subprocess
import sys

import core

PROPERTY = 'C20'


def _all_functions():
    """Every function and method of every module (the skeleton covers them all): source fingerprints make
    the runner escalate the search and hand new literals to the generators when any of them changes."""
    import ast as _ast
    out = []
    d = os.path.join(core.REPO, 'pymeeus')
    try:
        files = sorted(os.listdir(d))
    except OSError:
        return out
    for fn in files:
        if not fn.endswith('.py') or fn == '__init__.py':
            continue
        try:
            tree = _ast.parse(open(os.path.join(d, fn)).read())
        except (OSError, SyntaxError):
            continue
        for n in tree.body:
            if isinstance(n, _ast.FunctionDef) and n.name != 'main':
                out.append('pymeeus/%s:%s' % (fn, n.name))
            elif isinstance(n, _ast.ClassDef):
                for b in n.body:
                    if isinstance(b, _ast.FunctionDef):
                        out.append('pymeeus/%s:%s.%s' % (fn, n.name, b.name))
    return out


FUNCTIONS = _all_functions()

MANIFEST = dict(
    text=("Lean 4 (Props/C20.lean): a verified effect analysis. A small imperative object language with a heap "
          "(new, alias, load, store to attribute / element, call, nondeterministic if/while, return, raise; numbers "
          "abstracted) with big-step semantics; a decidable analysis `check`; the theorem, for every program, heap, "
          "arguments and execution (loops and recursion unbounded): check P = true implies a public call leaves every "
          "object that existed before it unchanged (a documented mutator: every object but its receiver); corollaries for "
          "histories of calls and for copies. The effect skeleton of all ~336 functions and methods of the 19 modules is "
          "regenerated from the current source on every run and `check currentProgram = true` is re-evaluated in the "
          "Lean kernel; guard logic (isinstance formulas) is decided over all class combinations. The skeleton is tied "
          "to /repo by deep snapshots of arguments and of all module tables around real calls of every public callable; "
          "totality and rejection of ill-typed arguments are checked on the implementation only (partial)."),
    note=("Trusted: Lean kernel; tools/py2effects.py as the abstraction of Python into the effect language (validated "
          "dynamically: no unpredicted mutation in any sampled call; conservative: unclassified constructs become a "
          "write to an unknown object and fail the check); docstring types as the typed API (pruning dynamic dispatch); "
          "caller-supplied callbacks assumed pure; at most 12 positional *args. Equality of computed numbers "
          "(determinism of float code) and totality are outside the model and covered by (I) only."),
    technique="Lean 4 proof of a static effect analysis + per-run kernel evaluation on the regenerated skeleton + dynamic snapshot check",
    ref='6 C20')

TRUSTED = ['tools/py2effects.py: translation of the Python source into the effect language (abstraction, checked dynamically by harness/c20.py)',
           'docstring :type lines as the typed API of pymeeus (used to prune dispatch and to generate well-typed arguments)']
ASSUMPTIONS = ['caller-supplied callables (CurveFitting.general_fitting f0,f1,f2) have no side effect',
               'a parameter documented only as "list" has the element shape of what the library itself passes (VSOP tables: numbers); elements of undocumented sequences are numbers or library objects, not nested containers',
               'calls with more positional *args than the model reserves (max(4, library use), at most 12) are outside the skeleton',
               'scalar computations are deterministic (IEEE arithmetic, libm): outside the effect model, sampled by history_equal/repeat_equal',
               'Epoch.utc2local / local=True read the system clock and time zone']
RULE = ('distinct (function, argument specification, check kind) triples evaluated on the implementation; '
        'C20 has no executable numeric model: the correspondence run is the snapshot comparison against the skeleton summaries')

ROOT = core.ROOT
EFFECTS_JSON = os.path.join(os.environ.get('VERIF_WORK_DIR') or os.path.join(ROOT, '.work'), 'effects.json')


# ----------------------------------------------------------------------------- library access
def lib():
    if core.REPO not in sys.path:
        sys.path.insert(0, core.REPO)
    mods = {}
    for m in ('base', 'Angle', 'Epoch', 'Interpolation', 'CurveFitting', 'Coordinates', 'Earth', 'Sun', 'Moon',
              'Mercury', 'Venus', 'Mars', 'Jupiter', 'Saturn', 'Uranus', 'Neptune', 'Pluto', 'Minor', 'JupiterMoons'):
        try:
            mods[m] = importlib.import_module('pymeeus.' + m)
        except Exception:        # noqa: a module that does not import is reported by the caller
            mods[m] = None
    return mods


def skeleton():
    if not os.path.exists(EFFECTS_JSON):
        subprocess.run([sys.executable, os.path.join(ROOT, 'tools', 'py2effects.py')], check=False)
    return json.load(open(EFFECTS_JSON))


# ----------------------------------------------------------------------------- argument specifications
# A *spec* is JSON; decode() builds fresh Python objects from it, so "equal arguments" = decode twice.
def decode(s, L):
    if isinstance(s, dict):
        (k, v), = s.items()
        if k == 'Angle':
            return L['Angle'].Angle(v)
        if k == 'Epoch':
            return L['Epoch'].Epoch(v)
        if k == 'tuple':
            return tuple(decode(x, L) for x in v)
        if k == 'complex':
            return complex(v[0], v[1])
        if k == 'Interpolation':
            return L['Interpolation'].Interpolation(list(v[0]), list(v[1]))
        if k == 'CurveFitting':
            return L['CurveFitting'].CurveFitting(list(v[0]), list(v[1]))
        if k == 'Ellipsoid':
            return L['Earth'].Ellipsoid(*v)
        if k == 'Earth':
            return L['Earth'].Earth() if v is None else L['Earth'].Earth(decode(v, L))
        if k == 'Minor':
            return L['Minor'].Minor(*[decode(x, L) for x in v])
        if k == 'Sun':
            return L['Sun'].Sun()
        if k == 'global':
            m, n = v.split('.')
            return getattr(L[m], n)
        if k == 'date':
            return datetime.date(*v)
        if k == 'datetime':
            return datetime.datetime(*v)
        if k == 'callable':
            return {'one': (lambda x: 1.0), 'x': (lambda x: x), 'x2': (lambda x: x * x), 'sin': math.sin,
                    'cos': math.cos}[v]
        if k == 'kw':
            return KW({a: decode(b, L) for a, b in v.items()})
        raise ValueError('bad spec %r' % (s,))
    if isinstance(s, list):
        return [decode(x, L) for x in s]
    if s == '<inf>':
        return float('inf')
    if s == '<nan>':
        return float('nan')
    return s


class KW(dict):
    """keyword arguments inside a positional spec list"""


def split_kw(args):
    pos, kw = [], {}
    for a in args:
        if isinstance(a, KW):
            kw.update(a)
        else:
            pos.append(a)
    return pos, kw


# ----------------------------------------------------------------------------- snapshots
SCALARS = (int, float, bool, str, type(None), complex)


def canon(v, depth=0):
    """Canonical, comparable, JSON-able image of a value (NaN-safe)."""
    if isinstance(v, float):
        return 'f:' + repr(v)
    if isinstance(v, SCALARS):
        return type(v).__name__ + ':' + repr(v)
    if depth > 8:
        return 'deep'
    if isinstance(v, (list, tuple)):
        return [type(v).__name__] + [canon(x, depth + 1) for x in v]
    if isinstance(v, dict):
        return ['dict'] + [[canon(k, depth + 1), canon(x, depth + 1)] for k, x in sorted(v.items(), key=lambda kv: repr(kv[0]))]
    if isinstance(v, (datetime.date, datetime.datetime)):
        return 'dt:' + v.isoformat()
    if hasattr(v, '__dict__'):
        return [type(v).__name__] + [[k, canon(x, depth + 1)] for k, x in sorted(vars(v).items())]
    return 'obj:' + type(v).__name__


def reach(v, out, depth=0):
    """All non-scalar objects reachable from v: id -> object."""
    if isinstance(v, SCALARS) or isinstance(v, (datetime.date,)) or callable(v) and not hasattr(v, '__dict__'):
        return
    if id(v) in out or depth > 8:
        return
    out[id(v)] = v
    if isinstance(v, (list, tuple)):
        for x in v:
            reach(x, out, depth + 1)
    elif isinstance(v, dict):
        for x in v.values():
            reach(x, out, depth + 1)
    elif hasattr(v, '__dict__') and not inspect.isfunction(v) and not inspect.isclass(v):
        for x in vars(v).values():
            reach(x, out, depth + 1)


def shallow(v):
    """The object's own state (not following references): what a store to this object changes."""
    if isinstance(v, (list, tuple)):
        return [type(v).__name__] + [(canon(x) if isinstance(x, SCALARS) else id(x)) for x in v]
    if isinstance(v, dict):
        return ['dict'] + [[repr(k), (canon(x) if isinstance(x, SCALARS) else id(x))] for k, x in sorted(v.items(), key=lambda kv: repr(kv[0]))]
    if hasattr(v, '__dict__'):
        return [type(v).__name__] + [[k, (canon(x) if isinstance(x, SCALARS) else id(x))] for k, x in sorted(vars(v).items())]
    return 'obj'


class Globals(object):
    """All module-level data objects of pymeeus (tables, constants, objects such as JDE2000, WGS84)."""

    def __init__(self, L):
        self.items = []
        self.holders = []       # (name, class or function object) whose own attributes are state
        seen = set()
        for mname, mod in sorted(L.items()):
            if mod is None:
                continue
            for n, v in sorted(vars(mod).items()):
                if n.startswith('__') or inspect.ismodule(v) or inspect.isclass(v) or inspect.isroutine(v):
                    continue
                key = (mname, n)
                self.items.append((key, mod, n, id(v) in seen))
                seen.add(id(v))
            # hidden module-level state: class-level data attributes and attributes of function objects
            for n, v in sorted(vars(mod).items()):
                if inspect.isclass(v) and getattr(v, '__module__', None) == mod.__name__:
                    self.holders.append(('%s.%s' % (mname, n), v))
                    for mn, mv in sorted(vars(v).items()):
                        fn = getattr(mv, '__func__', mv)
                        if inspect.isfunction(fn):
                            self.holders.append(('%s.%s.%s' % (mname, n, mn), fn))
                elif inspect.isfunction(v) and getattr(v, '__module__', None) == mod.__name__:
                    self.holders.append(('%s.%s' % (mname, n), v))
        self.base = self.snap()

    def digest(self, v):
        try:
            return hashlib.sha1(pickle.dumps(v, protocol=4)).hexdigest()
        except Exception:    # noqa
            return hashlib.sha1(json.dumps(canon(v)).encode()).hexdigest()

    def snap(self):
        out = {}
        for key, mod, n, dup in self.items:
            v = getattr(mod, n, None)
            out[key] = (id(v), self.digest(v) if not dup else None)
        for name, h in self.holders:
            if inspect.isclass(h):
                st = {k: v for k, v in vars(h).items()
                      if not (k.startswith('__') or inspect.isroutine(getattr(v, '__func__', v)) or isinstance(v, property))}
            else:
                st = dict(vars(h))
            if st:
                out[(name, '<attributes>')] = (0, self.digest(canon(st)))
        return out

    def changed(self, before, after):
        return ['%s.%s' % k for k in set(before) | set(after) if before.get(k) != after.get(k)]


# ----------------------------------------------------------------------------- calling
def resolve(f, L):
    """-> (callable taking the decoded positional list, is_method, class or None)"""
    mod = L.get(f['module'])
    if mod is None:
        return None
    if f['cls']:
        cls = getattr(mod, f['cls'], None)
        if cls is None:
            return None
        raw = inspect.getattr_static(cls, f['name'], None)
        if raw is None:
            return None
        if isinstance(raw, staticmethod):
            return (getattr(cls, f['name']), False, cls)
        if f['name'] == '__init__':
            return (cls, False, cls)
        return (getattr(cls, f['name']), True, cls)
    fn = getattr(mod, f['name'], None)
    return (fn, False, None) if fn is not None else None


def invoke(fn, args):
    pos, kw = split_kw(args)
    return fn(*pos, **kw)


DIVISION_OPERATORS = {'__mod__', '__rmod__', '__imod__', '__truediv__', '__rtruediv__', '__itruediv__',
                      '__div__', '__rdiv__', '__idiv__'}


def documented_raises(fn, cls=None):
    """Exception class names that the docstring of a callable documents in `:raises:` lines.
    The property says out-of-range arguments are rejected "with TypeError or ValueError *as
    documented*": an exception class the function itself documents (e.g. ZeroDivisionError for
    a zero divisor of an Angle, or for degenerate curve-fitting data) is a documented rejection."""
    import re as _re
    docs = [getattr(fn, '__doc__', None) or '']
    if cls is not None and fn is cls:
        docs.append(getattr(getattr(cls, '__init__', None), '__doc__', None) or '')
        docs.append(getattr(getattr(cls, 'set', None), '__doc__', None) or '')
    out = set()
    for d in docs:
        for line in d.split('\n'):
            if ':raises' in line:
                out.update(_re.findall(r'\b([A-Z][A-Za-z]*Error)\b', line))
    return out


def finite(v, depth=0):
    if isinstance(v, float):
        return math.isfinite(v)
    if isinstance(v, complex):
        return False
    if isinstance(v, (list, tuple)):
        return all(finite(x, depth + 1) for x in v)
    if hasattr(v, '__dict__') and depth < 4:
        return all(finite(x, depth + 1) for x in vars(v).values())
    return True


# ----------------------------------------------------------------------------- generators
ANGLE_B = [0.0, 90.0, -90.0, 180.0, 360.0, -180.0, 45.0, 1e-9, 359.999999, 23.44, -23.44]
JDE_B = [2451545.0, 2299160.5, 2299159.5, 2415020.5, 2460000.25, 2440587.5, 2451179.5, 2453736.5]
TARGETS = {'Moon.moon_phase': ['new', 'first', 'full', 'last'],
           'Moon.moon_perigee_apogee': ['perigee', 'apogee'], 'Moon.moon_passage_nodes': ['ascending', 'descending'],
           'Moon.moon_maximum_declination': ['northern', 'southern'],
           'Sun.get_equinox_solstice': ['spring', 'summer', 'autumn', 'winter']}
XS = [[1.0, 2.0, 3.0, 4.0, 5.0, 6.0], [7.0, 8.0, 9.0], [0.0, 10.0, 20.0, 30.0, 40.0], [-3.0, -1.0, 2.0, 5.5, 7.25]]
YS = [[2.0, 4.5, 6.1, 8.3, 9.9, 12.2], [0.884226, 0.877366, 0.870531], [1.0, 3.0, 2.0, 5.0, 4.0], [0.5, -0.25, 3.0, 2.0, 8.0]]


def g_angle(rng, lo=-360.0, hi=720.0):
    r = rng.random()
    if lo == 0 and hi == 360 and rng.random() < 0.3:
        lo = -360.0     # a longitude-like Angle may hold a negative value: (-360, 360) is its documented range
    if r < 0.3:
        v = rng.choice(ANGLE_B)
        return {'Angle': min(max(v, lo), hi)}
    return {'Angle': rng.uniform(lo, hi)}


WIDE = False      # set by harness/history.py: draw years and epochs from the whole calendar


def g_epoch(rng, ylo=1800, yhi=2200):
    if WIDE and rng.random() < 0.4:
        return {'Epoch': round(rng.uniform(0.0, 3912880.0), rng.choice([0, 1, 6]))}
    if rng.random() < 0.25 and ylo <= 1582 <= yhi or (ylo <= 1900 and yhi >= 2030 and rng.random() < 0.25):
        v = rng.choice([x for x in JDE_B if (ylo - 2000) * 365.25 + 2451545 <= x <= (yhi - 2000) * 365.25 + 2451545] or [2451545.0])
        return {'Epoch': v}
    y = rng.uniform(ylo, yhi)
    return {'Epoch': round(2451545.0 + (y - 2000.0) * 365.25 + rng.random(), 6)}


HOT = {'ints': [], 'floats': []}


def g_float(rng, lo=-1000.0, hi=1000.0):
    r = rng.random()
    hot = [x for x in HOT['floats'] + HOT['ints'] if lo <= x <= hi]
    if hot and r > 0.85:
        return float(rng.choice(hot))
    if r < 0.2:
        c = [x for x in (0.0, 1.0, -1.0, 0.5, 1e-9, 2.0, 100.0) if lo <= x <= hi]
        if c:
            return rng.choice(c)
    return rng.uniform(lo, hi)


def interp_spec(rng):
    i = rng.randrange(len(XS))
    return {'Interpolation': [XS[i], YS[i]]}


def curve_spec(rng):
    i = rng.randrange(len(XS))
    return {'CurveFitting': [XS[i], YS[i]]}


def angle_list(rng, n):
    return [g_angle(rng, 0.0, 360.0) for _ in range(n)]


# name-based domains (documented ranges / physical meaning of the parameter)
def by_name(rng, fq, p, doc):
    d = (doc or '').lower()
    if p in ('epoch', 'epoch0', 'epoch1', 'epoch2', 'start_epoch', 'final_epoch', 'equinox_epoch', 't') and \
            ('epoch' in d or p != 't' or 'Minor' in fq or 'passage_nodes' in fq):
        if fq.startswith('Pluto'):
            return g_epoch(rng, 1890, 2095)
        if fq.startswith('Coordinates.precession') or 'equinox2equinox' in fq or 'motion_in_space' in fq:
            return g_epoch(rng, 1600, 2400)
        return g_epoch(rng, 1850, 2150)
    if p in ('latitude', 'geo_latitude', 'obs_lat', 'lat', 'lat1', 'lat2', 'start_lat', 'declination', 'dec', 'start_dec',
             'delta', 'delta1', 'delta2', 'delta3', 'delta_star', 'delta_star1', 'delta_star2', 'elevation',
             'true_elevation', 'apparent_elevation', 'h0') or re.match(r'delta\d_\d$', p):
        lim = 60.0 if ('rise_set' in fq or 'times_rise' in fq) else 89.0
        if 'diurnal_path' in fq:
            lim = 40.0            # the body must rise and set at this latitude
        if 'elevation' in p:
            return g_angle(rng, 0.5, 89.0)
        if p == 'h0':
            return {'Angle': rng.choice([-0.5667, -0.8333, 0.125])}
        return g_angle(rng, -lim, lim)
    if p in ('right_ascension', 'ra', 'start_ra', 'alpha', 'alpha1', 'alpha2', 'alpha3', 'alpha_star', 'alpha_star1',
             'alpha_star2', 'hour_angle', 'longitude', 'lon', 'lon0', 'lon1', 'lon2', 'start_lon', 'azimuth',
             'local_sidereal_time', 'sidereal_time', 'theta0', 'sun_lon', 'omega', 'w', 'arg0', 'mean_anomaly') \
            or re.match(r'alpha\d_\d$', p):
        if fq.startswith('Ellipsoid'):
            return None
        return g_angle(rng, 0.0, 359.999)
    if p in ('i', 'i0') and not fq.startswith('JupiterMoons'):
        return g_angle(rng, 0.0, 60.0)
    if p in ('obliquity', 'epsilon', 'true_obliquity'):
        return {'Angle': rng.uniform(22.0, 24.5)}
    if p in ('nutation_longitude',):
        return {'Angle': rng.uniform(-0.005, 0.005)}
    if p in ('p_motion_ra', 'p_motion_dec', 'p_motion_lon', 'p_motion_lat'):
        return {'Angle': rng.uniform(-0.001, 0.001)}
    if p == 'semidiameter':
        return {'Angle': rng.uniform(0.2, 0.3)}
    if p in ('eccentricity', 'e'):
        return round(rng.choice([0.0, 0.1, 0.5, 0.9, rng.uniform(0.0, 0.97)]), 6)
    if p in ('a', 'q', 'r', 'sun_dist', 'earth_dist', 'sun_earth_dist', 'distance', 'DELTA', 'R'):
        return rng.uniform(0.3, 40.0)
    if p in ('year', 'yyyy'):
        hot = [x for x in HOT['ints'] if 1 <= x <= 3000]
        if hot and rng.random() < 0.3:
            return rng.choice(hot)
        if WIDE and rng.random() < 0.5:
            # history noise: the whole calendar, with Julian-calendar and century years well represented
            return rng.choice([rng.randint(-4712, 6000), rng.choice([-4712, -4, 0, 4, 100, 900, 1000, 1404, 1500, 1581,
                                                                         1582, 1700, 1900, 2100, 2400]), rng.randint(1, 1582)])
        return rng.choice([1900, 2000, 2024, 1999, 1582, 1583, 2100, rng.randint(1600, 2200)])
    if p in ('month', 'mm'):
        return rng.randint(1, 12)
    if p in ('day', 'dd'):
        return rng.randint(1, 28)
    if p == 'doy':
        return rng.randint(1, 365)
    if p in ('height', 'altitude'):
        return rng.uniform(0.0, 4000.0)
    if p == 'pressure':
        return rng.uniform(900.0, 1050.0)
    if p == 'temperature':
        return rng.uniform(-20.0, 35.0)
    if p == 'i_sat':
        return rng.randint(1, 4)
    if p == 'target':
        return rng.choice(TARGETS.get(fq, ['new']))
    if p in ('fancy', 'n_dec', 'n', 'max_iter', 'number', 'ordinal'):
        return {'fancy': rng.random() < 0.5, 'n_dec': rng.randint(0, 6), 'n': rng.randint(0, 6), 'max_iter': 1000,
                'number': rng.randint(1600, 2200), 'ordinal': rng.randint(0, 130)}[p]
    if p in ('tol',):
        return rng.choice([1e-10, 1e-6, 0.5])
    if p in ('time',):
        return rng.uniform(-4000.0, 4000.0)
    if p in ('velocity',):
        return rng.uniform(-100.0, 100.0)
    if p in ('delta_t',):
        return rng.uniform(50.0, 80.0)
    if p in ('ellipsoid',):
        return rng.choice([{'global': 'Earth.WGS84'}, {'global': 'Earth.IAU76'}, {'Ellipsoid': [6378140.0, 0.0033528, 7.292e-5]}])
    if p in ('vsop_l', 'vsop_b', 'vsop_r'):
        pl = rng.choice(['Venus', 'Mars', 'Jupiter'])
        return {'global': '%s.VSOP87_%s' % (pl, p[-1].upper())}
    if p in ('parameters1', 'parameters2'):
        return {'global': 'Venus.ORBITAL_ELEM'}
    if p in ('f0', 'f1', 'f2'):
        return {'callable': {'f0': 'x2', 'f1': 'x', 'f2': 'one'}[p]}
    return None


def by_doc(rng, fq, p, doc, default_present):
    d = doc or ''
    dl = d.lower()
    has_angle = 'Angle' in d
    has_epoch = 'Epoch' in d
    if 'list' in dl and 'angle' in dl:
        return angle_list(rng, 3)
    if has_angle and not has_epoch and ('int' not in dl or rng.random() < 0.6):
        return g_angle(rng)
    if has_epoch and not has_angle:
        return g_epoch(rng)
    if 'bool' in dl:
        return rng.random() < 0.5
    if 'str' in dl and 'int' not in dl:
        return 'x'
    if 'float' in dl or 'int' in dl:
        if 'float' not in dl:
            return rng.randint(0, 10)
        return g_float(rng)
    if 'list' in dl or 'tuple' in dl:
        return [g_float(rng) for _ in range(4)]
    if default_present:
        return '<default>'
    return g_float(rng)


def receiver_spec(rng, cls):
    if cls == 'Angle':
        return g_angle(rng)
    if cls == 'Epoch':
        if rng.random() < 0.25:
            return g_epoch(rng, -500, 1582)       # Julian-calendar dates
        return g_epoch(rng)
    if cls == 'Interpolation':
        return interp_spec(rng)
    if cls == 'CurveFitting':
        return curve_spec(rng)
    if cls == 'Ellipsoid':
        return {'Ellipsoid': [6378137.0, 1.0 / 298.257223563, 7292115e-11]}
    if cls == 'Earth':
        return {'Earth': rng.choice([None, {'global': 'Earth.IAU76'}])}
    if cls == 'Minor':
        return {'Minor': [1.5, 0.85, {'Angle': 11.9}, {'Angle': 334.7}, {'Angle': 186.2}, {'Epoch': 2448192.5}]}
    if cls == 'Sun':
        return {'Sun': []}
    return None


# hand-written domains where names and docstrings are not enough: qual -> function(rng) -> list of positional specs
def special_args(rng, fq):
    A, E = g_angle, g_epoch
    if fq in ('Angle.__init__', 'Angle.set'):
        return rng.choice([[g_float(rng)], [A(rng)], [rng.randint(-400, 400), rng.randint(0, 59), rng.uniform(0, 59.9)],
                           [[12.0, 30.0, 15.5]], [{'tuple': [-23.0, 26.0]}], [[rng.uniform(-7, 7)], {'kw': {'radians': True}}],
                           [rng.uniform(-7, 7), {'kw': {'radians': True}}], [9.0, 14.0, 55.8, {'kw': {'ra': True}}], [],
                           [1.0, 2.0, 3.0, -1.0]])
    if fq == 'Angle.set_ra':
        return rng.choice([[rng.uniform(0, 24)], [9, 14, 55.8], [[9.0, 14.0, 55.8]], [A(rng)]])
    if fq in ('Epoch.__init__', 'Epoch.set'):
        return rng.choice([_ymd(rng, 1700, 2200), [rng.choice(JDE_B)], [E(rng)],
                           [[2005, 6, 7.5]], [{'tuple': [1987, 6, 19.5]}], [2012, 7, 1, 0, 0, 0.0, {'kw': {'utc': True}}],
                           [{'date': [2003, 9, 14]}], [{'datetime': [2003, 9, 14, 12, 30, 1]}], [1991, 'Jul', 11.0],
                           [2016, 12, 31.5, {'kw': {'leap_seconds': 26.0}}], []])
    if fq in ('Interpolation.__init__', 'Interpolation.set'):
        i = rng.randrange(len(XS))
        return rng.choice([[XS[i], YS[i]], [YS[i]], [{'Interpolation': [XS[i], YS[i]]}], [1.0, 2.0, 3.0, 5.0, 4.0, 9.0, 8.0, 1.0],
                           [{'tuple': XS[i]}, {'tuple': YS[i]}], []])
    if fq in ('CurveFitting.__init__', 'CurveFitting.set'):
        i = rng.randrange(len(XS))
        return rng.choice([[XS[i], YS[i]], [YS[i]], [{'CurveFitting': [XS[i], YS[i]]}], [1.0, 2.0, 3.0, 5.0, 4.0, 9.0, 8.0, 1.0], []])
    if fq in ('Minor.__init__', 'Minor.set'):
        return [rng.uniform(0.3, 5.0), rng.uniform(0.0, 0.95), A(rng, 0, 60), A(rng, 0, 360), A(rng, 0, 360), E(rng, 1980, 2030)]
    if fq == 'Ellipsoid.__init__':
        return [6378137.0, 1.0 / 298.257223563, 7292115e-11]
    if fq in ('Earth.__init__',):
        return rng.choice([[], [{'global': 'Earth.IAU76'}]])
    if fq.startswith('Interpolation.') and fq.split('.')[1] in ('__call__', 'derivative'):
        return ['<recv>', '<x-in-range>']
    if fq == 'Interpolation.minmax':
        return [{'recv': {'Interpolation': [[12.0, 16.0, 20.0], [1.3814294, 1.3812213, 1.3812453]]}}]
    if fq == 'Interpolation.root':
        return ['<recv-root>']
    if fq in ('Coordinates.mean_obliquity', 'Coordinates.true_obliquity', 'Coordinates.nutation_longitude',
              'Coordinates.nutation_obliquity'):
        return rng.choice([[E(rng)], _ymd(rng, 1800, 2100)])
    if fq == 'Epoch.check_input_date':
        return rng.choice([[E(rng)], _ymd(rng, 1800, 2100)])
    if fq == 'Epoch.get_month':
        return [rng.choice([rng.randint(1, 12), 'Jan', 'march', 'DEC'])] + ([rng.random() < 0.5] if rng.random() < 0.5 else [])
    if fq == 'Epoch.rise_set':
        return ['<recv>', A(rng, -55.0, 55.0), A(rng, -180.0, 180.0)] + ([rng.uniform(0, 3000)] if rng.random() < 0.3 else [])
    if fq == 'Coordinates.times_rise_transit_set':
        ra = rng.uniform(0, 350)
        de = rng.uniform(-30, 30)
        return [A(rng, -180, 180), A(rng, -50, 50), {'Angle': ra}, {'Angle': de}, {'Angle': ra + 0.9}, {'Angle': de + 0.2},
                {'Angle': ra + 1.8}, {'Angle': de + 0.4}, {'Angle': -0.5667}, rng.uniform(50, 80), {'Angle': rng.uniform(0, 360)}]
    # the docstring examples (Meeus' worked examples): data for which the event exists
    if fq in ('Coordinates.planet_star_conjunction', 'Coordinates.planet_star_occultation'):
        return [[{'Angle': 225.966404167}, {'Angle': 227.4888625}, {'Angle': 228.907908333}, {'Angle': 230.210966667}, {'Angle': 231.386229167}], [{'Angle': -8.959586111}, {'Angle': -9.151077778}, {'Angle': -9.293872222}, {'Angle': -9.387847222}, {'Angle': -9.433613889}],
                {'Angle': 229.251858333}, {'Angle': -9.382908333}]
    if fq == 'Coordinates.planetary_conjunction':
        return [[{'Angle': 156.125520833}, {'Angle': 156.251425}, {'Angle': 156.302145833}, {'Angle': 156.275979167}, {'Angle': 156.171604167}], [{'Angle': 6.442236111}, {'Angle': 6.1827}, {'Angle': 5.959188889}, {'Angle': 5.774186111}, {'Angle': 5.630125}],
                [{'Angle': 156.863229167}, {'Angle': 156.635041667}, {'Angle': 156.371008333}, {'Angle': 156.071629167}, {'Angle': 155.7376}], [{'Angle': 4.078286111}, {'Angle': 3.93185}, {'Angle': 3.800975}, {'Angle': 3.686180556}, {'Angle': 3.587947222}]]
    if fq == 'Coordinates.planet_stars_in_line':
        return [[{'Angle': 118.980666667}, {'Angle': 119.593958333}, {'Angle': 120.204125}, {'Angle': 120.811083333}, {'Angle': 121.41475}], [{'Angle': 21.684166667}, {'Angle': 21.589833333}, {'Angle': 21.493944444}, {'Angle': 21.396527778}, {'Angle': 21.297611111}],
                {'Angle': 113.568333333}, {'Angle': 31.897555556}, {'Angle': 116.250416667}, {'Angle': 28.036805556}]
    if fq == 'Coordinates.minimum_angular_separation':
        return [{'Angle': 160.0 + 0.5 * i} for i in range(3)] + [{'Angle': 5.0 - 0.2 * i} for i in range(3)] + \
               [{'Angle': 161.0 + 0.1 * i} for i in range(3)] + [{'Angle': 5.5 - 0.1 * i} for i in range(3)]
    if fq == 'Coordinates.relative_position_angle' or fq == 'Coordinates.angular_separation':
        return [A(rng, 0, 360), A(rng, -85, 85), A(rng, 0, 360), A(rng, -85, 85)]
    if fq == 'Coordinates.length_orbit':
        return [rng.uniform(0.0, 0.95), rng.uniform(0.3, 40.0)]
    if fq in ('Coordinates.velocity',):
        a = rng.uniform(0.5, 30.0)
        return [rng.uniform(0.6 * a, 1.4 * a), a]
    if fq == 'Coordinates.kepler_equation':
        return [round(rng.uniform(0.0, 0.97), 6), A(rng, -360, 360)]   # mean anomaly of either sign (C11)
    if fq == 'Coordinates.orbital_elements':
        pl = rng.choice(['Venus', 'Mars', 'Jupiter'])
        return [E(rng), {'global': pl + '.ORBITAL_ELEM'}, {'global': pl + '.ORBITAL_ELEM'}]
    if fq == 'Coordinates.straight_line' or fq == 'Coordinates.circle_diameter':
        return [{'Angle': rng.uniform(1, 119)}, {'Angle': rng.uniform(-80, 80)}, {'Angle': rng.uniform(121, 239)},
                {'Angle': rng.uniform(-80, 80)}, {'Angle': rng.uniform(241, 359)}, {'Angle': rng.uniform(-80, 80)}]
    if fq == 'Coordinates.motion_in_space':
        return [A(rng, 0, 360), A(rng, -80, 80), rng.uniform(1.0, 100.0), rng.uniform(-50, 50), {'Angle': rng.uniform(-1e-4, 1e-4)},
                {'Angle': rng.uniform(-1e-4, 1e-4)}, rng.uniform(-4000, 4000)]
    if fq == 'Coordinates.passage_nodes_elliptic':
        return [A(rng, 0, 360), rng.uniform(0.0, 0.95), rng.uniform(0.5, 30.0), E(rng), rng.random() < 0.5]
    if fq == 'Coordinates.passage_nodes_parabolic':
        return [{'Angle': rng.uniform(5.0, 175.0) + rng.choice([0.0, 180.0])}, rng.uniform(0.3, 5.0), E(rng), rng.random() < 0.5]
    if fq == 'Coordinates.phase_angle':
        s, e = rng.uniform(0.4, 30), rng.uniform(0.5, 30)
        return [s, e, rng.uniform(abs(s - e) + 0.05, s + e - 0.05)]
    if fq.endswith('.magnitude'):
        return None
    if fq == 'Earth.distance':
        return ['<recv>', A(rng, -180, 180), A(rng, -85, 85), A(rng, -180, 180), A(rng, -85, 85)]
    if fq == 'JupiterMoons.correct_rectangular_positions':
        R = rng.uniform(4.5, 27.0)
        return [R, rng.randint(1, 4), rng.uniform(4.0, 6.2), rng.uniform(-R, R), rng.uniform(-2, 2), rng.uniform(-R, R)]
    if fq in ('JupiterMoons.check_coordinates',):
        return [rng.uniform(-3, 3), rng.uniform(-3, 3)]
    if fq in ('JupiterMoons.check_occultation', 'JupiterMoons.check_eclipse'):
        return [rng.uniform(-3, 3), rng.uniform(-3, 3), rng.uniform(-20, 20)]
    if fq == 'JupiterMoons.apparent_rectangular_coordinates':
        return [g_epoch(rng), rng.uniform(-25, 25), rng.uniform(-25, 25), rng.uniform(-2, 2), rng.uniform(0, 6.28), rng.uniform(0, 0.1),
                rng.uniform(0, 6.28), rng.uniform(0, 6.28), rng.uniform(-0.02, 0.02), rng.uniform(0, 6.28)]
    if fq == 'CurveFitting.general_fitting':
        return ['<recv>', {'callable': 'x2'}, {'callable': 'x'}, {'callable': 'one'}]
    if fq == 'Epoch.get_doy':
        y = rng.choice([rng.randint(1600, 2200), rng.randint(-500, 1582), 1500, 1000, 4, 1582, 1583, 2000, 1900])
        m_ = rng.randint(1, 12)
        return [y, m_, day_of(rng, y, m_)]
    if fq == 'Epoch.doy2date':
        return [rng.randint(1600, 2200), rng.uniform(1, 365)]
    if fq == 'Epoch.tt2ut':
        return [rng.randint(-500, 2200), rng.randint(1, 12)]
    if fq == 'Epoch.leap_seconds':
        return [rng.randint(1960, 2030), rng.randint(1, 12)]
    if fq in ('Epoch.is_julian', 'Epoch.check_input_date_x'):
        return _ymd(rng, 1500, 1700, frac=False)
    if fq in ('Epoch.get_date', 'Epoch.get_full_date', 'Epoch.year', 'Epoch.tt2utc', 'Epoch.jde'):
        return ['<recv>']
    if fq in ('Epoch.__sub__',):
        return ['<recv>', rng.choice([g_float(rng, -1000, 1000), E(rng)])]
    if fq in ('Epoch.__add__', 'Epoch.__iadd__', 'Epoch.__isub__', 'Epoch.__radd__'):
        return ['<recv>', g_float(rng, -1000, 1000)]
    if fq == 'Angle.__pow__' or fq == 'Angle.__ipow__' or fq == 'Angle.__rpow__':
        return [{'recv': {'Angle': rng.uniform(0.1, 20.0)}}, rng.choice([2, 0.5, 1.0, 3])]
    if fq in ('Angle.__div__', 'Angle.__truediv__', 'Angle.__idiv__', 'Angle.__itruediv__', 'Angle.__mod__', 'Angle.__imod__'):
        return ['<recv>', rng.choice([rng.uniform(0.5, 50.0), {'Angle': rng.uniform(0.5, 300.0)}, -3.0])]
    if fq in ('Angle.__rdiv__', 'Angle.__rtruediv__', 'Angle.__rmod__'):
        return [{'recv': {'Angle': rng.uniform(0.5, 300.0)}}, rng.uniform(-50.0, 50.0)]
    return None


_MLEN = [31, 28, 31, 30, 31, 30, 31, 31, 30, 31, 30, 31]


def month_length(y, m):
    """days of month m of year y in the calendar in force (Julian rule before 1583); independent of pymeeus"""
    y = int(y)
    leap = (y % 4 == 0) if y < 1583 else (y % 4 == 0 and (y % 100 != 0 or y % 400 == 0))
    return 29 if (m == 2 and leap) else _MLEN[m - 1]


def day_of(rng, y, m, frac=True):
    """a day of that month: the last day (with or without a fraction) one time in three, so that every month end is
    visited; days 5..14 of October 1582 do not exist"""
    n = month_length(y, m)
    d = n if rng.random() < 0.34 else rng.randint(1, n)
    if (int(y), m) == (1582, 10) and 5 <= d <= 14:
        d = 15
    if frac and rng.random() < 0.6:
        return d + rng.choice([0.0, 0.25, 0.5, rng.random() * 0.999])
    return d


def _ymd(rng, y0, y1, frac=True):
    y, m = rng.randint(y0, y1), rng.randint(1, 12)
    return [y, m, day_of(rng, y, m, frac)]



def gen_args(rng, f, sig_info, full=False):
    """-> (list of positional specs incl. receiver, tag)"""
    fq = f['qual']
    params, ptypes, defaults, is_method, cls = sig_info
    sp = special_args(rng, fq)
    recv = receiver_spec(rng, f['cls']) if is_method else None
    if sp is not None:
        out = []
        for s in sp:
            if s == '<recv>':
                continue
            if isinstance(s, dict) and 'recv' in s:
                recv = s['recv']
                continue
            out.append(s)
        if is_method and f['name'] != '__init__':
            if '<recv-root>' in sp:
                recv = {'Interpolation': [[-2.0, -1.0, 0.0, 1.0, 2.0, 3.0], [-9.0, -2.0, -1.0, 0.0, 7.0, 26.0]]}
                out = [x for x in out if x != '<recv-root>']
            if '<x-in-range>' in out:
                xs = recv['Interpolation'][0]
                out = [(rng.uniform(min(xs), max(xs)) if x == '<x-in-range>' else x) for x in out]
            out = [recv] + out
        return out, 'special'
    out = [recv] if (is_method and f['name'] != '__init__') else []
    names = params[1:] if is_method or f['name'] == '__init__' else params
    for p in names:
        if p.startswith('*'):
            continue
        v = by_name(rng, fq, p, ptypes.get(p))
        if v is None:
            v = by_doc(rng, fq, p, ptypes.get(p), p in defaults)
        if v == '<default>':
            break
        if not full and p in defaults and rng.random() < 0.3 and not any(q not in defaults for q in names[names.index(p):]):
            break
        out.append(v)
    return out, 'typed'


def near_variants(specs):
    """[(position, nearby spec, how)]: an Epoch a few seconds away, a float / Angle a few ulp (and 1e-9) away"""
    out = []
    for i, s in enumerate(specs):
        if isinstance(s, dict) and 'Epoch' in s:
            out.append((i, {'Epoch': s['Epoch'] + 5.0 / 86400.0}, 'epoch+5s'))
            out.append((i, {'Epoch': s['Epoch'] - 1e-7}, 'epoch-9ms'))
        elif isinstance(s, dict) and 'Angle' in s:
            out.append((i, {'Angle': s['Angle'] * (1.0 + 4e-16) + 5e-324}, 'angle+ulp'))
            out.append((i, {'Angle': s['Angle'] + 1e-9}, 'angle+1e-9'))
        elif isinstance(s, float):
            out.append((i, s * (1.0 + 4e-16) + 5e-324, 'float+ulp'))
        elif isinstance(s, int) and not isinstance(s, bool):
            out.append((i, s + 1, 'int+1'))
    # one variant of every position first, then the second variants
    firsts, seen = [], set()
    for v in out:
        if v[0] not in seen:
            firsts.append(v)
            seen.add(v[0])
    return firsts + [v for v in out if v not in firsts]


def far_variant(specs):
    """the same call far away: Epochs 1000.3 days later, Angles 37 degrees on, floats scaled"""
    out = []
    for s in specs:
        if isinstance(s, dict) and 'Epoch' in s:
            out.append({'Epoch': s['Epoch'] + 1000.3})
        elif isinstance(s, dict) and 'Angle' in s:
            out.append({'Angle': (s['Angle'] + 37.0) if abs(s['Angle'] + 37.0) < 89.0 or abs(s['Angle']) > 89.0 else s['Angle'] * 0.5})
        elif isinstance(s, float):
            out.append(s * 1.25 + 0.01)
        else:
            out.append(s)
    return out


# keyword forms of views that take **kwargs (documented keywords)
VIEW_KW = {'Epoch.get_date': [{'utc': True}, {'leap_seconds': 10.0}, {'local': False}],
           'Epoch.get_full_date': [{'utc': True}, {'leap_seconds': 10.0}],
           'Epoch.tt2utc': [{}],
           'Epoch.year': [{}], 'Epoch.doy': [{}], 'Epoch.leap': [{}], 'Epoch.julian': [{}]}

REUSE_SPECS = {
    'Angle': [{'Angle': -87.25}, {'Angle': 311.7}, {'Angle': -1e-9}, {'Angle': 0.0}],
    'Epoch': [{'Epoch': 2457753.0}, {'Epoch': 2451545.0}, {'Epoch': 2299160.5}, {'Epoch': 2441683.25}],
    'Interpolation': [{'Interpolation': [[12.0, 16.0, 20.0], [1.3814294, 1.3812213, 1.3812453]]},
                      {'Interpolation': [[-2.0, -1.0, 0.0, 1.0, 2.0, 3.0], [-9.0, -2.0, -1.0, 0.0, 7.0, 26.0]]}],
    'CurveFitting': [{'CurveFitting': [[1.0, 2.0, 3.0, 4.0, 5.0, 6.0], [2.0, 4.5, 6.1, 8.3, 9.9, 12.2]]}],
}


BAD = [('None', None), ('str', 'x'), ('complex', {'complex': [1.0, 2.0]}), ('list', [1.0])]


# ----------------------------------------------------------------------------- signatures (from the source, not from inspect)
def signature_info(L):
    """qual -> (params, ptypes, defaults, is_method, cls) using the translator's own reading of the source"""
    sys.path.insert(0, os.path.join(ROOT, 'tools'))
    import py2effects
    w = py2effects.World()
    out = {}
    for f in w.all:
        out[f.qual] = (list(f.params) + (['*' + f.vararg] if f.vararg else []) + (['**' + f.kwarg] if f.kwarg else []),
                       dict(f.ptypes), set(f.defaults), f.is_method, f.cls, f.doc)
    return out


# ----------------------------------------------------------------------------- the checks
class Checker(object):
    def __init__(self, ctx):
        self.ctx = ctx
        self.L = lib()
        self.sk = skeleton()
        self.fns = [f for f in self.sk['functions'] if f['kind'] != 'helper']
        self.sig = signature_info(self.L)
        self.G = Globals(self.L)
        self.arity = {}
        self.scalar_fields = self.scalar_field_table()

    def scalar_field_table(self):
        # attributes the skeleton never loads as references are treated as scalars by the translator
        return {'Angle': ['_deg', '_tol'], 'Epoch': ['_jde'], 'Ellipsoid': ['_a', '_f', '_omega']}

    def pred(self, name, ok, inp, detail=None, klass=None):
        self.ctx.predicate(name, ok, inp, detail, klass or name)

    # ---- one in-domain call: effects + totality
    def call_in_domain(self, f, specs, tag, record=True):
        L = self.L
        r = resolve(f, L)
        fq = f['qual']
        inp = {'kind': 'call', 'fn': fq, 'args': specs}
        if r is None:
            self.pred('callable_exists', False, inp, 'not found in the library', 'api')
            return None
        fn, is_method, cls = r
        try:
            args = decode(specs, L)
        except Exception as e:   # noqa: building the arguments failed: a generator problem or a constructor defect
            inp2 = dict(inp, sig='build:' + type(e).__name__)
            self.pred('total_in_domain', False, inp2, 'building the arguments raised %r' % (e,), 'build')
            return None
        pos, kw = split_kw(args)
        objs = {}
        for a in pos + list(kw.values()):
            reach(a, objs)
        before = {i: shallow(o) for i, o in objs.items()}
        deep_before = [canon(a) for a in pos]
        g0 = self.G.snap()
        exc, res = None, None
        try:
            res = fn(*pos, **kw)
        except Exception as e:   # noqa
            exc = e
        g1 = self.G.snap()
        # ---- effects
        mut = f['kind'] == 'mutator' and f['name'] != '__init__'
        recv_id = id(pos[0]) if (mut and pos) else None
        changed = [i for i, o in objs.items() if shallow(o) != before[i]]
        gch = self.G.changed(g0, g1)
        bad = [type(objs[i]).__name__ for i in changed if i != recv_id]
        what = {'changed_objects': bad, 'changed_globals': gch, 'exception': repr(exc) if exc else None}
        if mut:
            self.pred('mutator_only_self', not bad and not gch, dict(inp, sig='effect'), what, 'mutator')
        else:
            self.pred('no_side_effect', not bad and not gch, dict(inp, sig='effect'), what, 'pure')
        # (S) the skeleton's prediction: only the own objects of the parameters in summary.writes may change
        pred_w = f['summary']['writes']
        recv_off = 1 if f['name'] == '__init__' else 0      # the model's parameter 0 of __init__ is the new object
        allowed = set(id(pos[i - recv_off]) for i in pred_w if 0 <= i - recv_off < len(pos))
        unpredicted = [type(objs[i]).__name__ for i in changed if i not in allowed]
        self.pred('skeleton_predicts_effects', not unpredicted and not gch, dict(inp, sig='effect'),
                  dict(what, predicted_writes=pred_w, unpredicted=unpredicted), 'skeleton')
        self.ctx.case('effects:' + fq, [hashlib.sha1(json.dumps(specs, sort_keys=True, default=str).encode()).hexdigest()[:16]],
                      'snapshot', q=None, klass='effects/' + f['kind'], f=False)
        # scalar attributes hold scalars
        for o in list(objs.values()) + ([res] if res is not None else []):
            for fld in self.scalar_fields.get(type(o).__name__, []):
                if hasattr(o, fld):
                    v = getattr(o, fld)
                    okv = isinstance(v, (int, float)) and not isinstance(v, bool) or isinstance(v, bool)
                    self.pred('scalar_fields', okv, dict(inp, sig='field:' + fld), '%s.%s = %r' % (type(o).__name__, fld, v), 'skeleton')
        # ---- totality
        if record:
            if exc is not None and tag.startswith('boundary:') and \
                    type(exc).__name__ in documented_raises(r[0], r[2]) - {'TypeError'}:
                # a boundary input refused with the exception class the docstring documents for it
                # (degenerate data, zero divisor, ...) is a documented rejection, not a totality failure
                self.pred('boundary_rejected_as_documented', True, dict(inp, sig=tag + '/documented:' + type(exc).__name__), repr(exc), 'total/' + tag)
            elif exc is not None:
                self.pred('total_in_domain', False, dict(inp, sig=tag + '/raise:' + type(exc).__name__), repr(exc), 'total/' + tag)
            else:
                okf = finite(res)
                self.pred('total_in_domain', okf, dict(inp, sig=tag + '/nonfinite'), repr(res)[:200], 'total/' + tag)
                okt, why = self.rtype_ok(f, res)
                self.pred('documented_type', okt, dict(inp, sig='type'), why, 'type')
        return (exc, res, pos)

    def rtype_ok(self, f, res):
        doc = self.sig.get(f['qual'], (None,) * 6)[5] or ''
        m = re.search(r':rtype:\s*(.*)', doc)
        if not m or f['name'] == '__init__':
            return True, None
        t = m.group(1).strip().lower()
        Angle, Epoch = self.L['Angle'].Angle, self.L['Epoch'].Epoch
        ok = True
        if ',' in t or ' or ' in t:
            return True, None          # several documented types: not checked
        if res is None and 'None' in doc:
            return True, None          # the prose documents a None result
        if t.startswith('tuple'):
            ok = isinstance(res, tuple)
            if ok:
                k = (f['qual'])
                prev = self.arity.setdefault(k, len(res))
                if prev != len(res) and f['qual'] not in ('Epoch.get_date', 'Epoch.rise_set'):
                    return False, 'arity %d then %d' % (prev, len(res))
        elif 'angle' in t and 'float' not in t and 'int' not in t and 'tuple' not in t:
            ok = isinstance(res, Angle)
        elif 'epoch' in t and 'float' not in t and 'tuple' not in t and 'none' not in t:
            ok = isinstance(res, Epoch)
        elif t.startswith('bool'):
            ok = isinstance(res, bool)
        elif t.startswith('str'):
            ok = isinstance(res, str)
        elif t.startswith('float') or t.startswith('int'):
            ok = isinstance(res, (int, float)) and not isinstance(res, bool) or isinstance(res, (Angle,)) and 'angle' in t
        elif t.startswith('list'):
            ok = isinstance(res, list)
        elif t.startswith('none'):
            ok = res is None
        return ok, None if ok else 'documented :rtype: %s, returned %s' % (t, type(res).__name__)

    # ---- repeatability / histories
    def history(self, f, specs, g, gspecs):
        L = self.L
        rf, rg = resolve(f, L), resolve(g, L)
        if rf is None or rg is None:
            return
        inp = {'kind': 'history', 'fn': f['qual'], 'args': specs, 'between': g['qual'], 'between_args': gspecs, 'sig': 'history'}

        def run(r, sp):
            try:
                return ('ok', canon(invoke(r[0], decode(sp, L))))
            except Exception as e:   # noqa
                return ('exc', type(e).__name__)
        a = run(rf, specs)
        run(rg, gspecs)
        b = run(rf, specs)
        self.pred('history_equal', a == b, inp, {'first': str(a)[:150], 'second': str(b)[:150]}, 'history')

    def repeat(self, f, specs):
        L = self.L
        rf = resolve(f, L)
        if rf is None or f['kind'] == 'mutator':
            return
        inp = {'kind': 'repeat', 'fn': f['qual'], 'args': specs, 'sig': 'repeat'}
        try:
            args = decode(specs, L)
            a = canon(invoke(rf[0], args))
            b = canon(invoke(rf[0], args))
        except Exception:  # noqa: totality is judged elsewhere
            return
        self.pred('repeat_equal', a == b, inp, {'first': str(a)[:150], 'second': str(b)[:150]}, 'history')

    # ---- near-argument histories: f(a') just before f(a) must not change f(a)
    def outcome(self, fn, args):
        try:
            return ('ok', canon(invoke(fn, args)))
        except Exception as e:   # noqa
            return ('exc', type(e).__name__)

    def near_history(self, f, specs, far):
        """Baseline: f(a) evaluated right after an unrelated far call.  Then, for a few a' close to a (an Epoch a
        few seconds away, a float / Angle a few ulp away), f(a') followed by f(a) must give the baseline; and
        so must f on the *same* argument objects re-valued through set() from a' back to a."""
        L = self.L
        rf = resolve(f, L)
        if rf is None or f['kind'] == 'mutator':
            return
        far_specs = far_variant(specs)

        def go_far():
            # an unrelated call, then the same function far away from a (evicts one-entry caches)
            if far is not None:
                rg = resolve(far[0], L)
                if rg is not None:
                    self.outcome(rg[0], decode(far[1], L))
            self.outcome(rf[0], decode(far_specs, L))
        go_far()
        base = self.outcome(rf[0], decode(specs, L))
        if base[0] != 'ok':
            return
        for (i, near, how) in near_variants(specs)[:4]:
            sp2 = specs[:i] + [near] + specs[i + 1:]
            inp = {'kind': 'near', 'fn': f['qual'], 'args': specs, 'near_args': sp2, 'pos': i, 'sig': 'near:' + how}
            go_far()
            self.outcome(rf[0], decode(sp2, L))
            again = self.outcome(rf[0], decode(specs, L))
            self.pred('near_history_equal', again == base, inp,
                      {'after_far_call': str(base)[:140], 'after_near_call': str(again)[:140]}, 'history/near')
            # the same objects, re-valued in place through their documented mutator
            key = next(iter(specs[i])) if isinstance(specs[i], dict) else None
            if key in ('Angle', 'Epoch'):
                go_far()
                objs = decode(specs, L)
                try:
                    objs[i].set(near[key])
                    self.outcome(rf[0], objs)
                    objs[i].set(specs[i][key])
                except Exception:   # noqa
                    continue
                again = self.outcome(rf[0], objs)
                self.pred('near_history_equal', again == base, dict(inp, sig='revalued:' + how),
                          {'fresh_objects': str(base)[:140], 'revalued_objects': str(again)[:140]}, 'history/revalued')

    # ---- object reuse: view, (mutator,) view on one object  ==  view on a fresh object in the same state
    def rebuild(self, o):
        """A fresh object with the public state of o, built through the constructor."""
        L = self.L
        n = type(o).__name__
        if n == 'Angle':
            r = L['Angle'].Angle(o())
            r.set_tolerance(o.get_tolerance())
            return r
        if n == 'Epoch':
            return L['Epoch'].Epoch(o.jde())
        if n == 'Interpolation':
            r = L['Interpolation'].Interpolation(list(o._x), list(o._y))
            r.set_tolerance(o.get_tolerance())
            return r
        if n == 'CurveFitting':
            return L['CurveFitting'].CurveFitting(list(o._x), list(o._y))
        return None

    def views_of(self, cls, rng, nvar):
        """(function, argument specs without the receiver) for the side-effect-free methods of a class"""
        out = []
        for f in self.fns:
            if f['cls'] != cls or f['kind'] != 'pure' or f['name'] in ('__init__', '__hash__'):
                continue
            si = self.sig.get(f['qual'])
            if si is None or not si[3]:
                continue
            for _ in range(nvar):
                sp, _tag = gen_args(rng, f, si[:5])
                out.append((f, sp[1:]))
            for kw in VIEW_KW.get(f['qual'], []):
                out.append((f, [{'kw': kw}]))
        return out

    def reuse_step(self, obj, f, argspecs):
        pos, kw = split_kw(decode(argspecs, self.L))
        try:
            return ('ok', canon(getattr(obj, f['name'])(*pos, **kw)))
        except Exception as e:   # noqa
            return ('exc', type(e).__name__)

    def object_reuse(self, cls, spec, first, mut, second):
        """first = (view, args) | None, mut = (mutator, args) | None, second = (view, args)"""
        L = self.L
        o = decode(spec, L)
        steps = []
        for st in (first, mut):
            if st is not None:
                self.reuse_step(o, st[0], st[1])
                steps.append([st[0]['qual'], st[1]])
        same = self.reuse_step(o, second[0], second[1])
        try:
            fresh_obj = self.rebuild(o)
        except Exception:   # noqa: the mutator left an empty / unusable object: nothing to compare
            return
        if fresh_obj is None:
            return
        fresh = self.reuse_step(fresh_obj, second[0], second[1])
        inp = {'kind': 'reuse', 'fn': second[0]['qual'], 'cls': cls, 'args': [spec], 'steps': steps,
               'view_args': second[1], 'sig': 'reuse:' + ('+'.join(s[0].split('.')[-1] for s in steps) or 'none')}
        self.pred('object_reuse_equal', same == fresh, inp,
                  {'reused_object': str(same)[:140], 'fresh_object': str(fresh)[:140]}, 'history/reuse')

    # ---- copy constructors
    def copy_check(self, cls, spec, rng):
        L = self.L
        mutators = [m for m in self.fns if m['cls'] == cls and m['kind'] == 'mutator' and m['name'] != '__init__']
        klass = getattr(L[{'Ellipsoid': 'Earth'}.get(cls, cls)], cls)
        for via in ('ctor', 'set'):
            src = decode(spec, L)
            if via == 'ctor':
                cp = klass(src)
            else:
                cp = decode(spec, L)
                cp.set(src)
            objs = {}
            reach(src, objs)
            before = {i: shallow(o) for i, o in objs.items()}
            deep = canon(src)
            applied = []
            for m in mutators:
                sp, _ = gen_args(rng, m, self.sig[m['qual']][:5])
                try:
                    margs = decode(sp[1:], L)
                    pos, kw = split_kw(margs)
                    getattr(cp, m['name'])(*pos, **kw)
                    applied.append([m['qual'], sp[1:]])
                except Exception:   # noqa
                    applied.append([m['qual'], sp[1:], 'raised'])
                ok = canon(src) == deep and all(shallow(o) == before[i] for i, o in objs.items())
                self.pred('copy_independent', ok, {'kind': 'copy', 'fn': cls, 'args': [spec], 'via': via, 'mutators': applied,
                                                   'sig': 'copy'}, None, 'copy')

    # ---- out-of-range arguments: rejected with TypeError / ValueError, or a finite value; nothing else
    def out_of_range(self, f, specs, tag):
        r = resolve(f, self.L)
        inp = {'kind': 'oor', 'fn': f['qual'], 'args': specs}
        try:
            res = invoke(r[0], decode(specs, self.L))
            out = 'value' if finite(res) else 'nonvalue'
        except (TypeError, ValueError) as e:
            out = 'rejected'
        except Exception as e:   # noqa
            if type(e).__name__ in documented_raises(r[0], r[2]) or (
                    isinstance(e, ZeroDivisionError) and f['name'] in DIVISION_OPERATORS):
                out = 'rejected'          # the class the function's own docstring (or Python's operator protocol, C03) documents
            else:
                out = 'other:' + type(e).__name__
        self.pred('out_of_range_rejected', out in ('rejected', 'value'), dict(inp, sig='%s/%s' % (tag, out)), out, 'out_of_range')

    def must_reject(self, f, specs, tag, classes=('ValueError', 'TypeError')):
        """a call the function's own docstring says it refuses (`:raises:`): it must raise one of the documented
        classes - neither a value nor another exception class"""
        r = resolve(f, self.L)
        inp = {'kind': 'oor', 'fn': f['qual'], 'args': specs}
        try:
            invoke(r[0], decode(specs, self.L))
            out = 'accepted'
        except Exception as e:   # noqa
            out = 'rejected' if type(e).__name__ in classes else 'other:' + type(e).__name__
        self.pred('documented_rejection', out == 'rejected', dict(inp, sig='%s/%s' % (tag, out)), out, 'documented_rejection')

    # ---- ill-typed arguments
    def illtyped(self, f, specs):
        L = self.L
        r = resolve(f, L)
        if r is None:
            return
        fq = f['qual']
        doc = self.sig.get(fq, (None,) * 6)[5] or ''
        promises = 'TypeError' in doc
        first = 1 if (r[1] and f['name'] != '__init__') else 0
        trials = []
        for i in range(first, len(specs)):
            if isinstance(specs[i], dict) and 'kw' in specs[i]:
                continue
            for (bn, bv) in BAD:
                if bn == 'list' and isinstance(specs[i], list):
                    continue
                if bn == 'list' and re.search(r':type [^:\n]*:[^\n]*(list|tuple)', doc):
                    continue       # a sequence is one of the documented forms of this argument (Angle, Epoch, ...)
                trials.append(('pos%d:%s' % (i - first, bn), specs[:i] + [bv] + specs[i + 1:]))
        # an ill-typed value that COMPARES EQUAL (and hashes equal) to the valid number it replaces, tried right
        # after the valid call: anything that remembers results by argument would answer it from memory
        eqv = [i for i in range(first, len(specs)) if isinstance(specs[i], (int, float)) and not isinstance(specs[i], bool)
               and specs[i] == specs[i] and abs(specs[i]) < 1e300]
        if eqv:
            try:
                invoke(r[0], decode(specs, L))
            except Exception:   # noqa
                eqv = []
        for i in eqv[:3]:
            trials.append(('pos%d:complex-equal' % (i - first), specs[:i] + [{'complex': [float(specs[i]), 0.0]}] + specs[i + 1:]))
        trials.append(('arity:+1', specs + [1.0, 2.0, 3.0, 4.0, 5.0, 6.0, 7.0, 8.0, 9.0, 10.0, 11.0, 12.0, 13.0]))
        if len(specs) > first:
            trials.append(('arity:-all', specs[:first]))
        for (tag, sp) in trials:
            inp = {'kind': 'illtyped', 'fn': fq, 'args': sp}
            try:
                args = decode(sp, L)
                res = invoke(r[0], args)
                out = 'accepted'
            except (TypeError, ValueError):
                out = 'rejected'
                res = None
            except Exception as e:   # noqa
                out = 'other:' + type(e).__name__
                res = None
            if tag == 'arity:-all' and out == 'accepted':
                continue           # all remaining parameters had defaults: a well-typed call
            self.pred('illtyped_exception_class', not out.startswith('other:'), dict(inp, sig='%s:%s' % (tag, out)), out, 'illtyped')
            if out == 'accepted':
                nonvalue = (not finite(res)) or (res is None and ':rtype: None' not in doc and f['name'] not in ('__init__',) and f['kind'] != 'mutator')
                self.pred('illtyped_no_nonvalue', not nonvalue, dict(inp, sig='%s:nonvalue' % tag), repr(res)[:120], 'illtyped')
                if promises and not tag.startswith('arity'):
                    self.pred('illtyped_rejected', False, dict(inp, sig='%s:accepted' % tag), repr(res)[:120], 'illtyped')
            elif promises and not tag.startswith('arity'):
                self.pred('illtyped_rejected', True, dict(inp, sig=tag), None, 'illtyped')


# boundary inputs named by the property / DESIGN as likely trouble (they are *in* the documented domain)
def boundary_calls():
    return [
        ('Coordinates.kepler_equation', [1.0, {'Angle': 30.0}], 'oor:e=1'),
        ('Coordinates.kepler_equation', [0.0, {'Angle': 0.0}], 'e=0'),
        ('Coordinates.kepler_equation', [0.99, {'Angle': 2.0}], 'e=0.99'),
        ('Coordinates.angular_separation', [{'Angle': 10.0}, {'Angle': 20.0}, {'Angle': 190.0}, {'Angle': -20.0}], 'antipodes'),
        ('Coordinates.angular_separation', [{'Angle': 10.0}, {'Angle': 20.0}, {'Angle': 10.0}, {'Angle': 20.0}], 'coincident'),
        ('Coordinates.angular_separation', [{'Angle': 0.0}, {'Angle': 90.0}, {'Angle': 50.0}, {'Angle': 90.0}], 'pole'),
        ('Earth.distance', [{'Earth': None}, {'Angle': 0.0}, {'Angle': 0.0}, {'Angle': 180.0}, {'Angle': 0.0}], 'antipodes'),
        ('Earth.distance', [{'Earth': None}, {'Angle': 10.0}, {'Angle': 45.0}, {'Angle': -170.0}, {'Angle': -45.0}], 'antipodes'),
        ('Earth.distance', [{'Earth': None}, {'Angle': 10.0}, {'Angle': 45.0}, {'Angle': 10.0}, {'Angle': 45.0}], 'coincident'),
        ('Earth.distance', [{'Earth': None}, {'Angle': 0.0}, {'Angle': 90.0}, {'Angle': 0.0}, {'Angle': -90.0}], 'poles'),
        ('Epoch.rise_set', [{'Epoch': 2459021.5}, {'Angle': 66.5}, {'Angle': 0.0}], 'polar-midsummer'),
        ('Epoch.rise_set', [{'Epoch': 2459021.5}, {'Angle': 80.0}, {'Angle': 0.0}], 'oor:polar-day'),
        ('Epoch.rise_set', [{'Epoch': 2459204.5}, {'Angle': 80.0}, {'Angle': 0.0}], 'oor:polar-night'),
        ('Epoch.rise_set', [{'Epoch': 2459021.5}, {'Angle': 40.0}, {'Angle': 0.0}], 'mid-latitude'),
        ('Coordinates.relative_position_angle', [{'Angle': 10.0}, {'Angle': 20.0}, {'Angle': 10.0}, {'Angle': 20.0}], 'coincident'),
        ('Coordinates.diurnal_path_horizon', [{'Angle': 20.0}, {'Angle': 89.0}], 'circumpolar'),
        ('Coordinates.passage_nodes_parabolic', [{'Angle': 0.0}, 1.2, {'Epoch': 2451545.0}, False], 'oor:node-at-infinity'),
        ('Epoch.__init__', [1e30], 'oor:huge-jde'),
        ('Epoch.__init__', ['<inf>'], 'oor:inf-jde'),
        ('Coordinates.velocity', [1.0, 1.0], 'circular'),
        ('Coordinates.straight_line', [{'Angle': 10.0}, {'Angle': 80.0}, {'Angle': 10.0}, {'Angle': 80.0}, {'Angle': 50.0}, {'Angle': 20.0}], 'two-bodies-coincide'),
        ('Coordinates.circle_diameter', [{'Angle': 10.0}, {'Angle': 80.0}, {'Angle': 10.0}, {'Angle': 80.0}, {'Angle': 50.0}, {'Angle': 20.0}], 'two-bodies-coincide'),
        ('Coordinates.length_orbit', [0.0, 1.0], 'circular'),
        ('Coordinates.refraction_apparent2true', [{'Angle': 0.0}], 'horizon'),
        ('Coordinates.refraction_true2apparent', [{'Angle': 0.0}], 'horizon'),
        ('Coordinates.refraction_apparent2true', [{'Angle': 90.0}], 'zenith'),
        ('Coordinates.refraction_true2apparent', [{'Angle': 90.0}], 'zenith'),
        ('Coordinates.equatorial2horizontal', [{'Angle': 0.0}, {'Angle': 90.0}, {'Angle': 90.0}], 'pole'),
        ('Coordinates.horizontal2equatorial', [{'Angle': 0.0}, {'Angle': 90.0}, {'Angle': 0.0}], 'zenith-equator'),
        ('Coordinates.parallactic_angle', [{'Angle': 0.0}, {'Angle': 40.0}, {'Angle': 40.0}], 'zenith'),
        ('Angle.__truediv__', [{'Angle': 10.0}, 0.0], 'oor:zero-divisor'),
        ('Angle.__mod__', [{'Angle': 10.0}, 0.0], 'oor:zero-divisor'),
        ('Coordinates.velocity', [1.0, 0.0], 'oor:a=0'),
        ('Coordinates.length_orbit', [1.5, 1.0], 'oor:e>1'),
        ('Epoch.__init__', [2023, 13, 1.0], 'oor:month13'),
        ('Epoch.__init__', [2023, 2, 30.0], 'oor:feb30'),
        ('Interpolation.__call__', [{'Interpolation': [[1.0, 2.0, 3.0], [4.0, 5.0, 7.0]]}, 30.0], 'oor:outside-table'),
        ('Moon.moon_phase', [{'Epoch': 2451545.0}, 'gibbous'], 'oor:target'),
        ('Interpolation.__call__', [{'Interpolation': [[1.0, 2.0, 3.0], [4.0, 5.0, 7.0]]}, 3.0], 'end-of-table'),
        ('Interpolation.derivative', [{'Interpolation': [[1.0, 2.0, 3.0], [4.0, 5.0, 7.0]]}, 1.0], 'end-of-table'),
        ('CurveFitting.linear_fitting', [{'CurveFitting': [[1.0, 2.0, 3.0], [5.0, 5.0, 5.0]]}], 'constant-y'),
        ('CurveFitting.correlation_coeff', [{'CurveFitting': [[1.0, 2.0, 3.0], [5.0, 5.0, 5.0]]}], 'constant-y'),
        ('CurveFitting.quadratic_fitting', [{'CurveFitting': [[1.0, 2.0, 3.0], [5.0, 7.0, 5.0]]}], 'three-points'),
        ('Epoch.__init__', [1582, 10, 4.0], 'reform'),
        ('Epoch.__init__', [-4712, 1, 1.5], 'jd0'),
        ('Angle.__init__', [0, 0, 0.0], 'zero'),
    ]


def generate(ctx, shard=0, nshards=1):
    HOT['ints'], HOT['floats'] = list(ctx.hot.get('ints', [])), list(ctx.hot.get('floats', []))
    ck = Checker(ctx)
    rng = ctx.rng
    fns = ck.fns
    mine = [f for i, f in enumerate(fns) if i % nshards == shard]
    ncalls = ctx.n(6, 40)
    pool = []
    if ck.sk.get('failed'):
        ctx.notes.append('translator failed: ' + ck.sk['failed'])
    for f in mine:
        si = ck.sig.get(f['qual'])
        if si is None:
            ck.pred('callable_exists', False, {'kind': 'call', 'fn': f['qual'], 'args': []}, 'not in the source', 'api')
            continue
        last = None
        for k in range(ncalls):
            specs, tag = gen_args(rng, f, si[:5])
            r = ck.call_in_domain(f, specs, tag)
            last = specs
            if k < 2:
                pool.append((f, specs))
                ck.repeat(f, specs)
        if last is not None:
            ck.illtyped(f, gen_args(rng, f, si[:5], full=True)[0])
    # named boundary inputs (shard 0)
    byq = {f['qual']: f for f in fns}
    if shard == 0:
        # lists that must have the same number of entries, three at least (documented ValueError): every list
        # argument in turn one entry shorter, one entry longer, and all of them cut to two entries
        for q in ('Coordinates.planetary_conjunction', 'Coordinates.planet_star_conjunction',
                  'Coordinates.planet_star_occultation', 'Coordinates.planet_stars_in_line'):
            if q not in byq or ck.sig.get(q) is None:
                continue
            base, _tag = gen_args(rng, byq[q], ck.sig[q][:5])
            lists = [i for i, a in enumerate(base) if isinstance(a, list)]
            for i in lists:
                for how in ('short', 'long'):
                    v = [list(a) if isinstance(a, list) else a for a in base]
                    v[i] = v[i][:-1] if how == 'short' else v[i] + [v[i][-1]]
                    ck.must_reject(byq[q], v, 'uneven:%d-%s' % (i, how), ('ValueError',))
            v = [a[:2] if isinstance(a, list) else a for a in base]
            if lists:
                ck.must_reject(byq[q], v, 'two-entries', ('ValueError',))
            # documented: "if the number of entries is even, the last entry is discarded" and "list (or tuple)": every
            # list cut to an even count (four entries), as lists and as tuples, and the odd count given as tuples - the
            # caller's sequences stay as they were and the call is total (round 7: C20-h popped the caller's lists)
            if lists:
                for tagf, mk in (('even-lists', lambda a: list(a[:4])), ('even-tuples', lambda a: {'tuple': list(a[:4])}),
                                 ('odd-tuples', lambda a: {'tuple': list(a)})):
                    v = [mk(a) if isinstance(a, list) else a for a in base]
                    ck.call_in_domain(byq[q], v, 'boundary:' + tagf)
                    ck.repeat(byq[q], v)
        for (q, specs, tag) in boundary_calls():
            if q in byq and tag.startswith('oor:'):
                ck.out_of_range(byq[q], specs, tag)
            elif q in byq:
                ck.call_in_domain(byq[q], specs, 'boundary:' + tag)
        for cls, mk in (('Angle', g_angle), ('Epoch', g_epoch), ('Interpolation', interp_spec), ('CurveFitting', curve_spec)):
            for _ in range(ctx.n(4, 30)):
                ck.copy_check(cls, mk(rng), rng)
        # the translator itself on the Python shapes of hidden module-level state (class-level dicts, function
        # attributes, `global`, mutating methods of module containers, setattr, mutable defaults)
        try:
            sys.path.insert(0, os.path.join(ROOT, 'tools'))
            import py2effects
            for (q, want, got) in py2effects.selftest():
                ck.pred('translator_selftest', want == got, {'kind': 'selftest', 'fn': q, 'args': [], 'sig': 'selftest'},
                        'expected %s, the analysis %s it' % ('accept' if want else 'reject', 'accepts' if got else 'rejects'),
                        'skeleton')
        except Exception as e:   # noqa
            ck.pred('translator_selftest', False, {'kind': 'selftest', 'fn': 'py2effects.selftest', 'args': [], 'sig': 'selftest'},
                    repr(e), 'skeleton')
        ctx.sample({'call': 'l=[1.0]; Angle(l, radians=True); l', 'expected': [1.0]})
        ctx.sample({'call': 'a=Angle(40); b=a; a+=Angle(1); b()', 'expected': 40.0})
    # two-call histories: f(a), g(b), f(a) over ordered pairs from a random subset
    allpool = []
    r2 = core.random.Random(ctx.seed * 7 + 1)
    sub = r2.sample(fns, min(len(fns), ctx.n(24, 60)))
    for g in sub:
        si = ck.sig.get(g['qual'])
        if si is not None:
            allpool.append((g, gen_args(r2, g, si[:5])[0]))
    for (f, specs) in pool:
        if f['kind'] == 'mutator':
            continue
        for (g, gs) in rng.sample(allpool, min(len(allpool), ctx.n(2, 6))):
            ck.history(f, specs, g, gs)
    # near-argument histories (one argument tuple per function in quick, two in thorough)
    seen = set()
    for (f, specs) in pool:
        if f['qual'] in seen and ctx.tier != 'thorough':
            continue
        seen.add(f['qual'])
        ck.near_history(f, specs, rng.choice(allpool) if allpool else None)
    # object reuse: every (mutator, view) and a sample of (view, view) orders on one object vs a fresh one
    r3 = core.random.Random(ctx.seed * 11 + 5)
    k = 0
    for cls in ('Angle', 'Epoch', 'Interpolation', 'CurveFitting'):
        views = ck.views_of(cls, r3, 1 if ctx.tier != 'thorough' else 2)
        muts = [m for m in fns if m['cls'] == cls and m['kind'] == 'mutator' and m['name'] != '__init__']
        mut_calls = []
        for m in muts:
            for _ in range(ctx.n(3, 6)):
                mut_calls.append((m, gen_args(r3, m, ck.sig[m['qual']][:5])[0][1:]))
        specs_c = REUSE_SPECS[cls]
        for v in views:
            for mc in mut_calls:
                k += 1
                if k % nshards == shard:
                    ck.object_reuse(cls, specs_c[k % len(specs_c)], v, mc, v)
        pairs = [(a, b) for a in views for b in views]
        for (a, b) in r3.sample(pairs, min(len(pairs), ctx.n(900, 6000))):
            k += 1
            if k % nshards == shard:
                ck.object_reuse(cls, specs_c[k % len(specs_c)], a, None, b)
    ctx.notes.append('shard %d: %d public callables' % (shard, len(mine)))


def replay(case):
    ctx = core.Ctx(PROPERTY, 'quick', 0)
    ck = Checker(ctx)
    inp = case.get('input') or {}
    byq = {f['qual']: f for f in ck.fns}
    f = byq.get(inp.get('fn'))
    kind = inp.get('kind')
    if kind == 'copy':
        ck.copy_check(inp['fn'], inp['args'][0], core.random.Random(0))
    elif f is None:
        return (True, {'error': 'function %r no longer exists' % inp.get('fn')})
    elif kind == 'call':
        ck.call_in_domain(f, inp['args'], 'replay')
    elif kind == 'illtyped':
        r = resolve(f, ck.L)
        try:
            invoke(r[0], decode(inp['args'], ck.L))
            out = 'accepted'
        except (TypeError, ValueError):
            out = 'rejected'
        except Exception as e:  # noqa
            out = 'other:' + type(e).__name__
        want = case.get('predicate')
        bad = out.startswith('other:') if want == 'illtyped_exception_class' else out == 'accepted'
        return (bad, {'outcome': out})
    elif kind == 'oor':
        ck.out_of_range(f, inp['args'], 'replay')
    elif kind == 'near':
        ck.near_history(f, inp['args'], None)
    elif kind == 'selftest':
        pass
    elif kind == 'reuse':
        st = [(byq[q], a) for (q, a) in inp['steps']]
        first = st[0] if st and byq[inp['steps'][0][0]]['kind'] == 'pure' else None
        mut = next((s for s in st if s[0]['kind'] == 'mutator'), None)
        ck.object_reuse(inp['cls'], inp['args'][0], first, mut, (f, inp['view_args']))
    elif kind == 'history':
        ck.history(f, inp['args'], byq[inp['between']], inp['between_args'])
    elif kind == 'repeat':
        ck.repeat(f, inp['args'])
    fails = [p for p in ctx.pred_fail if p['predicate'] == case.get('predicate')] or ctx.pred_fail
    return (len(fails) > 0, fails[:3])


def known_match(finding, failure):
    """finding: {predicate, fn (fnmatch pattern), sigs: [fnmatch patterns on input.sig]}"""
    if finding.get('predicate') != failure.get('predicate'):
        return False
    inp = failure.get('input') or {}
    if not fnmatch.fnmatchcase(str(inp.get('fn')), finding.get('fn', '*')):
        return False
    sig = str(inp.get('sig', ''))
    return any(fnmatch.fnmatchcase(sig, s) for s in finding.get('sigs', ['*']))


# ----------------------------------------------------------------------------- maintenance utility
def propose_findings(seeds=(0, 1, 2), tiers=('quick', 'thorough')):
    """Run the harness and group the predicate failures into findings.d entries (one per predicate and
    function; `sigs` generalises the ill-typed value kind).  The output is reviewed by hand."""
    import run
    groups = {}
    for tier in tiers:
        for seed in seeds:
            agg = run.run_harness(PROPERTY, tier, seed, 1.0, {'ints': [], 'floats': []})
            for e in agg['errors']:
                print(e)
            for f in agg['pred_fail']:
                inp = f['input']
                sig = inp.get('sig', '')
                m = re.match(r'(pos\d+):\w+:(.*)$', sig)
                if m:
                    sig = '%s:*:%s' % (m.group(1), m.group(2))
                g = groups.setdefault((f['predicate'], inp.get('fn')), {'sigs': set(), 'ex': f, 'n': 0})
                g['sigs'].add(sig)
                g['n'] += 1
    out = []
    for (pred, fn), g in sorted(groups.items()):
        ex = g['ex']
        out.append({'property': PROPERTY, 'id': 'C20-%s-%s' % (pred, fn), 'predicate': pred, 'fn': fn,
                    'sigs': sorted(g['sigs']),
                    'what': '%s: %s  e.g. args=%s -> %s' % (pred, fn, json.dumps(ex['input'].get('args'), default=str)[:160],
                                                             str(ex['detail'])[:100])})
    return out


if __name__ == '__main__':
    sys.path.insert(0, os.path.dirname(os.path.abspath(__file__)))
    tiers = ('quick',) if '--quick' in sys.argv else ('quick', 'thorough')
    print(json.dumps({'findings': propose_findings(tiers=tiers)}, indent=1))
