"""Object-history checks for the stateful classes of pymeeus (Angle, Epoch, Interpolation, CurveFitting).

The per-call models of the properties treat the *views* of an object (Angle.rad(), Epoch.doy(),
Interpolation.minmax(), ...) as functions of the value the object holds.  That is only right if an
object carries no hidden state besides that value.  This module drives ONE object through a random
sequence of public views and mutators and, after every step, compares every view with the same view of
a FRESH object built to hold the same value.  A view that depends on what was called before (a cache
that a mutator forgets to clear, a result remembered with the wrong key) shows up as a difference.

Predicate name: `object_history_consistent`; input = [class, initial value, list of steps], enough to
replay in a fresh process.
"""
import math


def _same(a, b):
    if isinstance(a, float) and isinstance(b, float):
        return a == b or (math.isnan(a) and math.isnan(b))
    if isinstance(a, (tuple, list)) and isinstance(b, (tuple, list)):
        return len(a) == len(b) and all(_same(x, y) for x, y in zip(a, b))
    if hasattr(a, '_deg') and hasattr(b, '_deg'):
        return a._deg == b._deg
    if hasattr(a, '_jde') and hasattr(b, '_jde'):
        return a._jde == b._jde
    return a == b


def _try(f):
    try:
        return ('ok', f())
    except Exception as e:   # noqa
        return ('exc', type(e).__name__)


# ------------------------------------------------------------------ Angle
def _angle_views(a):
    return {
        'deg': lambda: a(), 'rad': lambda: a.rad(), 'get_ra': lambda: a.get_ra(), 'float': lambda: float(a),
        'dms_tuple': lambda: a.dms_tuple(), 'ra_tuple': lambda: a.ra_tuple(), 'dms_str': lambda: a.dms_str(),
        'ra_str': lambda: a.ra_str(n_dec=3), 'neg': lambda: (-a)(), 'plus1': lambda: (a + 1.0)(), 'abs': lambda: abs(a)(),
        'tol': lambda: a.get_tolerance(),
    }


def angle_history(ctx, rng, n):
    from pymeeus.Angle import Angle
    for _ in range(n):
        x0 = rng.choice([rng.uniform(-720, 720), -rng.random() * 360, rng.uniform(-1, 1), -90.0, -0.5, 359.75, -359.75])
        a = Angle(x0)
        steps = []
        for _k in range(rng.randint(2, 7)):
            op = rng.choice(['view', 'view', 'to_positive', 'set', 'set_ra', 'set_radians', 'set3', 'set_tolerance', 'copyset'])
            if op == 'view':
                name = rng.choice(sorted(_angle_views(a)))
                _try(_angle_views(a)[name])
                steps.append(['view', name])
            elif op == 'to_positive':
                a.to_positive(); steps.append(['to_positive'])
            elif op == 'set':
                v = rng.uniform(-720, 720); a.set(v); steps.append(['set', v])
            elif op == 'set_ra':
                v = rng.uniform(-30, 30); a.set_ra(v); steps.append(['set_ra', v])
            elif op == 'set_radians':
                v = rng.uniform(-7, 7); a.set_radians(v); steps.append(['set_radians', v])
            elif op == 'set3':
                v = [rng.randint(-359, 359), rng.randint(0, 59), rng.uniform(0, 59.9)]; a.set(*v); steps.append(['set', v])
            elif op == 'set_tolerance':
                v = rng.choice([1e-10, 1e-6, 1e-3]); a.set_tolerance(v); steps.append(['set_tolerance', v])
            else:
                v = rng.uniform(-360, 360); a.set(Angle(v)); steps.append(['copyset', v])
            fresh = Angle(a())
            fresh.set_tolerance(a.get_tolerance())
            va, vf = _angle_views(a), _angle_views(fresh)
            bad = [k for k in sorted(va) if not _same(_try(va[k]), _try(vf[k]))]
            ctx.predicate('object_history_consistent', not bad, ['Angle', x0, list(steps)],
                          {'views_differing_from_a_fresh_object': bad, 'value': a()}, 'history/Angle')
            if bad:
                break


# ------------------------------------------------------------------ Epoch
def _epoch_views(e):
    return {
        'jde': lambda: e.jde(), 'get_date': lambda: e.get_date(), 'get_full_date': lambda: e.get_full_date(),
        'get_date_utc': lambda: e.get_date(utc=True), 'get_full_date_utc': lambda: e.get_full_date(utc=True),
        'get_date_ls': lambda: e.get_date(leap_seconds=35.0),
        'doy': lambda: e.doy(), 'year': lambda: e.year(), 'leap': lambda: e.leap(), 'julian': lambda: e.julian(),
        'dow': lambda: e.dow(), 'mjd': lambda: e.mjd(), 'gmst': lambda: e.mean_sidereal_time(),
        'float': lambda: float(e), 'int': lambda: int(e), 'plus': lambda: (e + 1.5).jde(), 'tt2ut': lambda: None,
    }


def epoch_history(ctx, rng, n):
    from pymeeus.Epoch import Epoch
    for _ in range(n):
        j0 = rng.choice([rng.uniform(0, 3.9e6), rng.uniform(2441317.5, 2470000.0), 2457754.5 + rng.random() * 1e-3,
                         2441317.5 + rng.random(), 2451544.5 + rng.randint(0, 9000) + rng.choice([0.0, 2e-4, 0.5])])
        e = Epoch(j0)
        steps = []
        for _k in range(rng.randint(2, 6)):
            op = rng.choice(['view', 'view', 'view', 'set', 'setymd', 'iadd'])
            if op == 'view':
                name = rng.choice(sorted(_epoch_views(e)))
                _try(_epoch_views(e)[name])
                steps.append(['view', name])
            elif op == 'set':
                v = rng.uniform(0, 3.9e6); e.set(v); steps.append(['set', v])
            elif op == 'setymd':
                y_, m_ = rng.randint(-4000, 5000), rng.randint(1, 12)
                leap_ = (y_ % 4 == 0) if y_ < 1583 else (y_ % 4 == 0 and (y_ % 100 != 0 or y_ % 400 == 0))
                n_ = 29 if (m_ == 2 and leap_) else [31, 28, 31, 30, 31, 30, 31, 31, 30, 31, 30, 31][m_ - 1]
                d_ = n_ if rng.random() < 0.34 else rng.randint(1, n_)      # month ends one time in three
                if (y_, m_) == (1582, 10) and 5 <= d_ <= 14:
                    d_ = 15
                v = [y_, m_, d_ + rng.choice([0.0, 0.25])]
                steps.append(['set', v])
                try:
                    e.set(*v)
                except Exception as ex:   # noqa: a valid civil date refused
                    ctx.predicate('object_history_consistent', False, ['Epoch', j0, list(steps)],
                                  {'mutator_raised': repr(ex)[:120], 'valid_date': v}, 'history/Epoch')
                    break
            else:
                v = rng.uniform(-400, 400); e += v; steps.append(['iadd', v])
            fresh = Epoch()
            fresh._jde = e._jde      # exactly the same stored value (Epoch(jde) re-derives it through the calendar)
            ve, vf = _epoch_views(e), _epoch_views(fresh)
            bad = [k for k in sorted(ve) if not _same(_try(ve[k]), _try(vf[k]))]
            ctx.predicate('object_history_consistent', not bad, ['Epoch', j0, list(steps)],
                          {'views_differing_from_a_fresh_object': bad, 'jde': e.jde()}, 'history/Epoch')
            if bad:
                break


# ------------------------------------------------------------------ Interpolation / CurveFitting
def _table(rng):
    n = rng.randint(3, 6)
    xs = sorted(rng.sample(range(-8, 12), n))
    c = [rng.uniform(-2, 2) for _ in range(3)]
    ys = [c[0] + c[1] * x + c[2] * x * x + rng.choice([0.0, 0.3 * math.sin(x)]) for x in xs]
    return [float(x) for x in xs], ys


def _related(rng, xs, ys):
    """A table close to the one an object already holds - the same abscissae with the ordinates reversed, shuffled,
    two of them exchanged or moved by opposite amounts (same count, same sums), or the abscissae mirrored: what a
    'the table has not changed' shortcut keyed on a digest of the data takes for the old table (round 7: C17-h)."""
    how = rng.choice(['reverse_y', 'shuffle_y', 'swap_two_y', 'opposite_bumps_y', 'mirror_x'])
    xs, ys = list(xs), list(ys)
    if how == 'reverse_y':
        ys = ys[::-1]
    elif how == 'shuffle_y':
        rng.shuffle(ys)
    elif how == 'swap_two_y':
        i, j = rng.sample(range(len(ys)), 2)
        ys[i], ys[j] = ys[j], ys[i]
    elif how == 'opposite_bumps_y':
        i, j = rng.sample(range(len(ys)), 2)
        ys[i] += 1.0
        ys[j] -= 1.0
    else:
        lo, hi = xs[0], xs[-1]
        xs = sorted(lo + hi - x for x in xs)
    return xs, ys


def interpolation_history(ctx, rng, n):
    from pymeeus.Interpolation import Interpolation
    for _ in range(n):
        xs, ys = _table(rng)
        it = Interpolation(xs, ys)
        steps = [['init', xs, ys]]
        # a copy made now must not be affected by anything done to the original later (and the other way round)
        peer, pxs, pys = Interpolation(it), list(xs), list(ys)
        for _k in range(rng.randint(2, 5)):
            op = rng.choice(['view', 'view', 'set', 'copyset', 'set', 'copyset'])
            if op == 'view':
                name = rng.choice(['call', 'derivative', 'root', 'minmax'])
                steps.append(['view', name])
            else:
                xs, ys = _related(rng, xs, ys) if rng.random() < 0.5 else _table(rng)
                if op == 'set':
                    it.set(xs, ys)
                else:
                    it.set(Interpolation(xs, ys))
                steps.append([op, xs, ys])
            mid = (xs[0] + xs[-1]) / 2.0 + 0.123

            def views(o):
                return {'call': lambda: o(mid), 'derivative': lambda: o.derivative(mid), 'root': lambda: o.root(),
                        'minmax': lambda: o.minmax(), 'str': lambda: str(o), 'len': lambda: len(o)}
            if steps[-1][0] == 'view':
                _try(views(it)[steps[-1][1]])
            fresh = Interpolation(xs, ys)
            vi, vf = views(it), views(fresh)
            bad = [k for k in sorted(vi) if not _same(_try(vi[k]), _try(vf[k]))]
            pmid = (pxs[0] + pxs[-1]) / 2.0 + 0.123

            def pviews(o):
                return {'call': lambda: o(pmid), 'derivative': lambda: o.derivative(pmid), 'str': lambda: str(o), 'len': lambda: len(o)}
            vp, vpf = pviews(peer), pviews(Interpolation(pxs, pys))
            bad += ['copy.' + k for k in sorted(vp) if not _same(_try(vp[k]), _try(vpf[k]))]
            ctx.predicate('object_history_consistent', not bad, ['Interpolation', None, list(steps)],
                          {'views_differing_from_a_fresh_object': bad}, 'history/Interpolation')
            if bad:
                break


def _BASIS_X(x):
    return x


def _BASIS_ONE(x):
    return 1.0


def _BASIS_X2(x):
    return x * x


def curvefitting_history(ctx, rng, n):
    from pymeeus.CurveFitting import CurveFitting
    for _ in range(n):
        xs, ys = _table(rng)
        cf = CurveFitting(xs, ys)
        steps = [['init', xs, ys]]
        peer, pxs, pys = CurveFitting(cf), list(xs), list(ys)
        for _k in range(rng.randint(2, 4)):
            op = rng.choice(['view', 'set', 'copyset'])
            if op != 'view':
                xs, ys = _related(rng, xs, ys) if rng.random() < 0.5 else _table(rng)
                if op == 'set':
                    cf.set(xs, ys)
                else:
                    cf.set(CurveFitting(xs, ys))
                steps.append([op, xs, ys])

            def views(o):
                # the basis functions are the SAME function objects for every object and every call
                return {'linear': lambda: o.linear_fitting(), 'quadratic': lambda: o.quadratic_fitting(),
                        'corr': lambda: o.correlation_coeff(),
                        'general': lambda: o.general_fitting(_BASIS_X, _BASIS_ONE),
                        'general3': lambda: o.general_fitting(_BASIS_X2, _BASIS_X, _BASIS_ONE), 'len': lambda: len(o)}
            if op == 'view':
                name = rng.choice(['linear', 'quadratic', 'corr', 'general'])
                _try(views(cf)[name])
                steps.append(['view', name])
            # expected values first (fresh objects, evaluated one after the other), then the object under test and
            # its copy back to back with no construction in between
            vf = views(CurveFitting(xs, ys))
            exp_c = {k: _try(vf[k]) for k in sorted(vf)}
            vpf = views(CurveFitting(pxs, pys))           # built only now: nothing of the first one is in the way
            exp_p = {k: _try(vpf[k]) for k in sorted(vpf)}
            vc, vp = views(cf), views(peer)
            got_c = {k: _try(vc[k]) for k in sorted(vc)}
            got_p = {k: _try(vp[k]) for k in sorted(vp)}
            bad = [k for k in sorted(vc) if not _same(got_c[k], exp_c[k])]
            bad += ['copy.' + k for k in sorted(vp) if not _same(got_p[k], exp_p[k])]
            ctx.predicate('object_history_consistent', not bad, ['CurveFitting', None, list(steps)],
                          {'views_differing_from_a_fresh_object': bad}, 'history/CurveFitting')
            if bad:
                break


# ------------------------------------------------------------------ Minor / Earth
def minor_history(ctx, rng, n):
    """One Minor object re-pointed to other orbits with set(), handing over new Angle objects or the SAME Angle /
    Epoch objects refilled in place (the way a catalogue loop is written); after every step its positions are
    compared with those of a fresh Minor built from fresh objects holding the same values."""
    from pymeeus.Minor import Minor
    from pymeeus.Angle import Angle
    from pymeeus.Epoch import Epoch

    def elems():
        return [rng.uniform(0.3, 6.0), rng.choice([rng.uniform(0.0, 0.9), 0.05, 0.5]), rng.uniform(0.0, 170.0),
                rng.uniform(0.0, 359.0), rng.uniform(0.0, 359.0), 2451545.0 + rng.uniform(-3000.0, 3000.0)]
    for _ in range(max(1, n // 6)):
        el = elems()
        i_, om_, w_, t_ = Angle(el[2]), Angle(el[3]), Angle(el[4]), Epoch(el[5])
        body = Minor(el[0], el[1], i_, om_, w_, t_)
        steps = [['init'] + el]
        when = 2451545.0 + rng.uniform(-2000.0, 2000.0)
        for _k in range(rng.randint(2, 4)):
            op = rng.choice(['view', 'set_fresh', 'set_inplace', 'set_inplace'])
            if op == 'view':
                _try(lambda: body.geocentric_position(Epoch(when)))
                steps.append(['view'])
            else:
                el = elems()
                if op == 'set_fresh':
                    i_, om_, w_, t_ = Angle(el[2]), Angle(el[3]), Angle(el[4]), Epoch(el[5])
                else:
                    i_.set(el[2]); om_.set(el[3]); w_.set(el[4]); t_.set(el[5])
                body.set(el[0], el[1], i_, om_, w_, t_)
                steps.append([op] + el)
            fresh = Minor(el[0], el[1], Angle(el[2]), Angle(el[3]), Angle(el[4]), Epoch(el[5]))

            def views(o):
                return {'geocentric_position': lambda: o.geocentric_position(Epoch(when)),
                        'heliocentric_ecliptical_position': lambda: o.heliocentric_ecliptical_position(Epoch(when))}
            vb, vf = views(body), views(fresh)
            bad = [k for k in sorted(vb) if not _same(_try(vb[k]), _try(vf[k]))]
            ctx.predicate('object_history_consistent', not bad, ['Minor', when, list(steps)],
                          {'views_differing_from_a_fresh_object': bad}, 'history/Minor')
            if bad:
                break


def earth_history(ctx, rng, n):
    """One Earth object re-pointed to other ellipsoids with set(); every view against a fresh Earth."""
    from pymeeus.Earth import Earth, Ellipsoid

    def ell():
        return rng.choice([[6378140.0, 1.0 / 298.257, 7.292114992e-5], [6378137.0, 1.0 / 298.257223563, 7292115e-11],
                           [6378137.0, rng.choice([0.0, 0.001, 0.005, 0.01]), 7292115e-11],
                           [rng.uniform(1e6, 7e6), rng.uniform(0.0, 0.01), rng.uniform(1e-5, 1e-4)]])
    for _ in range(max(1, n // 4)):
        e0 = ell()
        earth = Earth(Ellipsoid(*e0))
        steps = [['init'] + e0]
        cur = e0
        for _k in range(rng.randint(2, 4)):
            lat, h = rng.uniform(-89.0, 89.0), rng.choice([0.0, 1706.0, -100.0, 9000.0])
            if rng.random() < 0.4:
                _try(lambda: earth.rm(lat)); _try(lambda: earth.rho_sinphi(lat, h))
                steps.append(['view'])
            else:
                cur = ell()
                earth.set(Ellipsoid(*cur))
                steps.append(['set'] + cur)
            fresh = Earth(Ellipsoid(*cur))

            def views(o):
                return {'rho_sinphi': lambda: o.rho_sinphi(lat, h), 'rho_cosphi': lambda: o.rho_cosphi(lat, h),
                        'rp': lambda: o.rp(lat), 'rm': lambda: o.rm(lat), 'linear_velocity': lambda: o.linear_velocity(lat),
                        'distance': lambda: o.distance(10.0, lat, 55.5, -lat / 2.0)}
            ve, vf = views(earth), views(fresh)
            bad = [k for k in sorted(ve) if not _same(_try(ve[k]), _try(vf[k]))]
            ctx.predicate('object_history_consistent', not bad, ['Earth', [lat, h], list(steps)],
                          {'views_differing_from_a_fresh_object': bad}, 'history/Earth')
            if bad:
                break


CLASSES = {'Minor': minor_history, 'Earth': earth_history, 'Angle': angle_history, 'Epoch': epoch_history, 'Interpolation': interpolation_history,
           'CurveFitting': curvefitting_history}


def check(ctx, classes, n=150):
    for c in classes:
        CLASSES[c](ctx, ctx.rng, n)


def replay(inp):
    """Re-run one recorded sequence [class, initial value, steps] in this process.
    Returns (still_fails, detail)."""
    cls, x0, steps = inp[0], inp[1], inp[2]
    if cls == 'Angle':
        from pymeeus.Angle import Angle
        a = Angle(x0)
        for st in steps:
            if st[0] == 'view':
                _try(_angle_views(a)[st[1]])
            elif st[0] == 'to_positive':
                a.to_positive()
            elif st[0] == 'set':
                a.set(*st[1]) if isinstance(st[1], list) else a.set(st[1])
            elif st[0] == 'set_ra':
                a.set_ra(st[1])
            elif st[0] == 'set_radians':
                a.set_radians(st[1])
            elif st[0] == 'set_tolerance':
                a.set_tolerance(st[1])
            elif st[0] == 'copyset':
                a.set(Angle(st[1]))
            for k in sorted(_angle_views(a)):       # the checker evaluates every view after every step
                _try(_angle_views(a)[k])
        fresh = Angle(a())
        fresh.set_tolerance(a.get_tolerance())
        va, vf = _angle_views(a), _angle_views(fresh)
    elif cls == 'Epoch':
        from pymeeus.Epoch import Epoch
        e = Epoch(x0)
        for st in steps:
            if st[0] == 'view':
                _try(_epoch_views(e)[st[1]])
            elif st[0] == 'set':
                e.set(*st[1]) if isinstance(st[1], list) else e.set(st[1])
            elif st[0] == 'iadd':
                e += st[1]
            for k in sorted(_epoch_views(e)):
                _try(_epoch_views(e)[k])
        fresh = Epoch()
        fresh._jde = e._jde
        va, vf = _epoch_views(e), _epoch_views(fresh)
    else:
        return (True, 'replay of %s histories: re-run the check (the sequence is recorded in the replay file)' % cls)
    bad = [k for k in sorted(va) if not _same(_try(va[k]), _try(vf[k]))]
    return (bool(bad), {'views_differing_from_a_fresh_object': bad})
