"""C04 — Sexagesimal and right-ascension decomposition and printing are canonical.

Specs: ['tuple', deg]  dms_tuple / ra_tuple;  ['str', deg, n_dec, fancy, ra]  dms_str / ra_str;
['round', x, n]  CPython round(x, n) against the model's `proundn` (the stub dms_str relies on).
The strings the implementation prints are parsed with a strict grammar (below); the (I) predicates
are evaluated on the parsed strings, the (S) tie compares the parsed fields with the model's
`dms_print` / `ra_print` (binary64 bit for bit; exact instantiation on inputs where binary64 is exact).
"""
import decimal
import math
import re
from fractions import Fraction

import core
from core import enc, run_impl

PROPERTY = 'C04'
FUNCTIONS = ['pymeeus/Angle.py:Angle.deg2dms', 'pymeeus/Angle.py:Angle.dms_tuple', 'pymeeus/Angle.py:Angle.ra_tuple',
             'pymeeus/Angle.py:Angle.dms_str', 'pymeeus/Angle.py:Angle.ra_str', 'pymeeus/Angle.py:Angle.reduce_deg',
             'pymeeus/Angle.py:Angle.__div__', 'pymeeus/Angle.py:Angle.__truediv__', 'pymeeus/Angle.py:Angle.__eq__',
             'pymeeus/Angle.py:Angle.__call__', 'pymeeus/base.py:TOL']

MANIFEST = dict(
    text=("Lean 4 theorems (Props/C04.lean) about the exact-arithmetic (Rat) model of Angle.deg2dms / dms_tuple / "
          "ra_tuple and of dms_str / ra_str up to the str.format call, for every rational |x| < 360 and every integer "
          "n_dec: the split gives integer d in [0,360) (h in [0,24)), integer m in [0,60), 0 <= s < 60, sign +-1 and "
          "sign*(d + m/60 + s/3600) = x exactly; after the rounding/carry chain m < 60, s < 60, d < 360 and the "
          "fields recombine modulo 360 to x with its seconds rounded half-even at decimal n (exactly for n <= 10, "
          "within 1e-10 arcsec beyond, where the 1e-10 carry threshold acts); the value handed to the formatter carries "
          "the sign on exactly the leading non-zero field. For RA the printed value reads back to value/15 rounded at n "
          "(the hour field is not wrapped and can show 24, which the property, reading printed RA modulo 24 h, allows). "
          "Also proved: the rounding carry fires exactly when the rounded seconds are 60 and then advances minutes / "
          "degrees with both wrap-arounds (n <= 10); the seconds shown are a whole multiple of 10**-n (at most n "
          "decimals); the printed sign is the sign of the value; the print does not depend on the object's tolerance; "
          "splitting and rebuilding through dms2deg is the identity; with n_dec < 0 the printed fields are dms_tuple's; "
          "the split after to_positive() is the split of the new value. str.format/repr are not modelled: the printed strings are parsed by a strict grammar and "
          "the predicates (no 60 field, sign once on the leading non-zero field, read-back = rounded value mod 360 / "
          "24 h, at most n decimals) are evaluated on the implementation's strings over values within 1e-12 of whole "
          "seconds/minutes/degrees, 0 and 360, n_dec -1..12, both styles, angle and RA. round(x, n) is a stub "
          "validated bit for bit against CPython on every run."),
    note=("Trusted: Lean kernel, Mathlib, axioms propext/Classical.choice/Quot.sound; hand-written model "
          "(lean/templates/Angle.lean) and its correspondence run; the string grammar in harness/c04.py; Python's "
          "str.format / repr(float); idealisation binary64 -> Rat modelled, not verified. Observation (allowed by the "
          "property): ra_str prints 24h 0' 0.0'' for values rounding up to a full turn."),
    technique="Lean 4 proof (floor/fract algebra over Rat, decimal rounding) + model/implementation correspondence check",
    ref='6 C04')

TRUSTED = [
    'strict grammar of the two output styles in harness/c04.py (parse_str); unparseable output counts as a violation',
    "Python's str.format and repr(float) (shortest round-trip representation): not modelled",
    'round(x, n) of CPython is modelled by PF.proundn / PQ.proundn; validated bit for bit on every run (class S/proundn)',
]
ASSUMPTIONS = [
    'n_dec is a Python int and fancy a bool (other types raise TypeError / behave as their truth value).',
    'Read-back tolerance: half a unit of the last requested decimal + 2e-10 arcsec (binary64 noise of the split and the 1e-10 carry threshold).',
]

FLOAT = r'(?:\d+\.\d+|\d+(?:\.\d+)?e[+-]\d\d+)'
NZINT = r'[1-9]\d*'
INT = r'(?:0|[1-9]\d*)'


def grammar(fancy, ra):
    u = 'h' if ra else 'd'
    if fancy:
        return [('zero', re.compile(r"^0%s 0' 0\.0''$" % u)),
                ('dms', re.compile(r"^(-?)(%s)%s (%s)' (%s)''$" % (NZINT, u, INT, FLOAT))),
                ('ms', re.compile(r"^(-?)(%s)' (%s)''$" % (NZINT, FLOAT))),
                ('s', re.compile(r"^(-?)(%s)''$" % FLOAT))]
    return [('zero', re.compile(r"^0:0:0\.0$")),
            ('dms', re.compile(r"^(-?)(%s):(%s):(%s)$" % (NZINT, INT, FLOAT))),
            ('ms', re.compile(r"^0:(-?)(%s):(%s)$" % (NZINT, FLOAT))),
            ('s', re.compile(r"^0:0:(-?)(%s)$" % FLOAT))]


_G = {(f, r): grammar(f, r) for f in (True, False) for r in (True, False)}


def parse_str(text, fancy, ra):
    """-> (kind, negative, D, m, s_text) or None.  Fields not present in the form are None."""
    for kind, rx in _G[(fancy, ra)]:
        mt = rx.match(text)
        if not mt:
            continue
        if kind == 'zero':
            return ('zero', False, None, None, None)
        g = mt.groups()
        if kind == 'dms':
            return ('dms', g[0] == '-', int(g[1]), int(g[2]), g[3])
        if kind == 'ms':
            return ('ms', g[0] == '-', None, int(g[1]), g[2])
        if float(g[1]) == 0.0:
            return None
        return ('s', g[0] == '-', None, None, g[1])
    return None


def A():
    from pymeeus.Angle import Angle
    return Angle


def cdev(x, v, modulus):
    d = (x - v) % modulus
    return min(d, modulus - d)


def is_dyadic(x):
    """binary64 arithmetic of deg2dms is exact on these (k / 2**20)"""
    return (x * 1048576.0) == math.floor(x * 1048576.0)


# ------------------------------------------------------------------ specs
def run_tuple(ctx, spec):
    _, adeg = spec
    a = A()(adeg)
    if core.fbits(a._deg) != core.fbits(adeg):
        return
    X = Fraction(a._deg)
    arg = [[float(a._deg), float(a._tol)]]
    dy = is_dyadic(adeg)
    for name, meth, lim, V, fn in (('dms', a.dms_tuple, 360, X, 'dms_tuple'), ('ra', a.ra_tuple, 24, X / 15, 'ra_tuple')):
        out = run_impl(meth)
        ctx.case(fn, arg, out, q=('exact' if dy and name == 'dms' else None), klass='S/%s/%s' % (fn, 'dyadic' if dy else 'any'))
        if out.startswith('E:'):
            ctx.predicate('tuple_returned', False, spec, out, 'tuple/' + name)
            continue
        d, m, s, sg = meth()
        ok_t = type(d) is int and type(m) is int and type(s) is float and sg in (1.0, -1.0)
        ctx.predicate('tuple_fields_are_integers_and_sign', ok_t, spec, [d, m, s, sg], 'tuple/' + name)
        ctx.predicate('tuple_fields_canonical', 0 <= d < lim and 0 <= m < 60 and 0.0 <= s < 60.0, spec, [d, m, s, sg], 'tuple/' + name)
        rec = Fraction(sg) * (d + Fraction(m, 60) + Fraction(s) / 3600)
        dev = abs(rec - V)
        ctx.deviation('tuple_recombination_' + name, float(dev))
        ctx.predicate('tuple_recombines_to_value', dev <= Fraction(1, 10 ** 9) / (15 if name == 'ra' else 1), spec,
                      {'fields': [d, m, s, sg], 'dev': float(dev)}, 'tuple/' + name)
    if adeg == adeg:
        out = run_impl(lambda: A().deg2dms(adeg))
        ctx.case('deg2dms', [adeg], out, q=('exact' if dy else None), klass='S/deg2dms')


def model_token(p, text):
    if p is None:
        return 's' + text.replace(' ', '_')
    kind, neg, D, m, st = p
    sg = -1 if neg else 1
    if kind == 'zero':
        return 'zero'
    if kind == 'dms':
        return 'dms %d %d %s' % (sg * D, m, enc(float(st)))
    if kind == 'ms':
        return 'ms %d %s' % (sg * m, enc(float(st)))
    return 's %s' % enc(sg * float(st))


def run_str(ctx, spec):
    _, adeg, n_dec, fancy, ra = spec[:5]
    a = A()(adeg)
    if core.fbits(a._deg) != core.fbits(adeg):
        return
    if len(spec) > 5:
        # the object's comparison tolerance is no part of what is printed: the printed form must be the same
        # whatever set_tolerance() was called with before (the model prints from the value alone)
        a.set_tolerance(spec[5])
    klass = 'str/%s/%s/n%s' % ('ra' if ra else 'dms', 'fancy' if fancy else 'colon', n_dec)
    meth = a.ra_str if ra else a.dms_str
    try:
        text = meth(fancy, n_dec)
    except Exception as e:  # noqa
        ctx.predicate('printed_form_parses', False, spec, repr(e), klass)
        ctx.case('ra_print' if ra else 'dms_print', [adeg, n_dec], core.enc_exc(e), q=None, klass='S/print')
        return
    p = parse_str(text, fancy, ra) if isinstance(text, str) else None
    # (S): the fields the model hands to the formatter
    dy = is_dyadic(adeg) and not ra
    ctx.case('ra_print' if ra else 'dms_print', [adeg, n_dec], model_token(p, str(text)),
             q=(('abs', 1e-9) if dy else None), klass='S/%s/%s' % ('ra_print' if ra else 'dms_print', 'dyadic' if dy else 'any'))
    # (I)
    ctx.predicate('printed_form_parses', p is not None, spec, text, klass)
    if p is None:
        return
    kind, neg, D, m, st = p
    modulus = 24 if ra else 360
    V = Fraction(a._deg) / (15 if ra else 1)
    s = Fraction(st) if st is not None else Fraction(0)
    ok60 = (m is None or m < 60) and s < 60
    ctx.predicate('no_60_in_minutes_or_seconds', ok60, spec, text, klass)
    val = (Fraction(D or 0) + Fraction(m or 0, 60) + s / 3600) * (-1 if neg else 1)
    if kind != 'zero':
        ctx.predicate('sign_matches_value', neg == (V < 0), spec, text, klass)
    unit = (Fraction(1, 2) / Fraction(10) ** n_dec) if n_dec >= 0 else Fraction(0)
    tol = (unit + Fraction(2, 10 ** 10)) / 3600
    dev = cdev(val, V, modulus)
    ctx.deviation('read_back_arcsec', float(max(Fraction(0), dev * 3600 - unit)))
    ctx.predicate('read_back_is_rounded_value', dev <= tol, spec, {'text': text, 'dev_arcsec': float(dev * 3600)}, klass)
    if n_dec >= 0 and st is not None:
        q = decimal.Decimal(st).scaleb(n_dec)
        ctx.predicate('at_most_n_decimals', q == q.to_integral_value(), spec, text, klass)
    if n_dec >= 0:
        # half-even at the requested decimal, away from ties blurred by binary64 noise
        T = abs(V) * 3600
        p10 = Fraction(10) ** n_dec
        y = T * p10
        fr = y - math.floor(y)
        # (binary64 noise of the split is up to ~2e-10 arcsec, i.e. 2e-10 * 10**n units of the last decimal)
        if abs(fr - Fraction(1, 2)) > max(Fraction(1, 10 ** 3), Fraction(2, 10 ** 10) * p10) and n_dec <= 9:
            k = math.floor(y) + (1 if fr > Fraction(1, 2) else 0)
            exp = (Fraction(k) / p10 / 3600) * (-1 if V < 0 else 1)
            ctx.predicate('read_back_equals_value_rounded_at_n', cdev(val, exp, modulus) <= Fraction(1, 10 ** 12) / 3600, spec,
                          {'text': text, 'expected_arcsec': float(exp * 3600)}, klass)


def run_round(ctx, spec):
    _, x, n = spec
    out = run_impl(lambda: round(x, n))
    ctx.case('proundn', [x, n], out, q=(('abs', 1e-12) if abs(x) < 1e3 else None), klass='S/proundn')


RUNNERS = {'tuple': run_tuple, 'str': run_str, 'round': run_round}


def run_spec(ctx, spec):
    RUNNERS[spec[0]](ctx, spec)


# ------------------------------------------------------------------ generators
def step(x, k):
    for _ in range(abs(k)):
        x = math.nextafter(x, math.inf if k > 0 else -math.inf)
    return x


def clamp(x):
    if x >= 360.0:
        return 359.99999999999994
    if x <= -360.0:
        return -359.99999999999994
    return x


def gen_value(rng):
    r = rng.random()
    if r < 0.15:
        return rng.uniform(-360.0, 360.0)
    if r < 0.25:
        return rng.randint(-360 * 2 ** 20 + 1, 360 * 2 ** 20 - 1) / 2.0 ** 20          # dyadic: binary64 exact
    if r < 0.30:
        return rng.choice([0.0, -0.0, 5e-324, -5e-324, 1e-20, -1e-20, 1e-7, -1e-7, 1e-9, -1e-9, 2.7777777777777777e-4,
                           -2.7777777777777777e-4, 359.99999999999994, -359.99999999999994, 1 / 60.0, -1 / 60.0,
                           1.0, -1.0, 15.0, 180.0, 359.0, 13.0, 1.1, -1.1, 0.1, 23.44694444])
    # near a whole second / minute / degree (and near 0 / 360)
    d = rng.choice([rng.randint(0, 359), rng.randint(0, 359), 0, 0, 359, 358, 1, 14, 15, 23, 179])
    k = rng.random()
    if k < 0.3:
        m, s = rng.choice([0, 59, 59, rng.randint(0, 59)]), rng.choice([0, 59, 59, 60, rng.randint(0, 59)])
    elif k < 0.6:
        m, s = rng.randint(0, 59), rng.choice([0, 60, rng.randint(0, 59)])
    else:
        m = rng.choice([59, rng.randint(0, 59)])
        n0 = rng.randint(0, 12)
        s = rng.choice([rng.randint(0, 60 * 10 ** min(n0, 6)) / 10.0 ** min(n0, 6),
                        (rng.randint(0, 60 * 10 ** min(n0, 6) - 1) + 0.5) / 10.0 ** min(n0, 6),    # decimal ties
                        60 - 10.0 ** -rng.randint(1, 13), 60 - 5 * 10.0 ** -rng.randint(1, 13), 59.5, 59.95, 59.9995])
    x = d + m / 60.0 + s / 3600.0
    if rng.random() < 0.3:
        x = x / 15.0 * 15.0 if rng.random() < 0.5 else (d % 24 + m / 60.0 + s / 3600.0) * 15.0     # whole RA seconds
    e = rng.random()
    if e < 0.3:
        pass
    elif e < 0.6:
        x = step(x, rng.choice([1, -1, 2, -2, 3, -3, 5, -8]))
    else:
        x = x + rng.choice([1, -1]) * 10.0 ** -rng.uniform(12, 17)
    if rng.random() < 0.45:
        x = -x
    return clamp(x)


def fixed_specs():
    s = []
    vals = [0.0, -0.0, 359.99999999999994, -359.99999999999994, 23 + 59 / 60.0 + 59.99999 / 3600.0,
            359 + 59 / 60.0 + 59.9999 / 3600.0, -(359 + 59 / 60.0 + 59.9999 / 3600.0), -0.0001, 0.9999999722222221,
            -(10 + 59.9999 / 3600.0), 1e-7, 1e-9, -1e-9, 13.0, 1.1, 1 / 60.0, 59 / 60.0 + 59.5 / 3600.0, 359.99986,
            -359.99986, 345.0, 15.0, 0.004166666666666667, 12.5, -12.5, 179.99999999999997, 59.99999999999999 / 3600.0,
            (59 + 59.99999999999 / 60) / 60, 5e-324, 1e-300]
    for x in vals:
        s.append(['tuple', x])
        for n in range(-1, 13):
            for fancy in (True, False):
                for ra in (True, False):
                    s.append(['str', x, n, fancy, ra])
    for x in (0.5, 1.5, 2.5, -0.5, 0.125, 0.375, 2.675, 59.9995, 59.99999999999999, 1e-7, 0.0, -0.0, 59.5, 60.0):
        for n in range(-2, 14):
            s.append(['round', x, n])
    return s


def gen_specs(ctx, count):
    rng = ctx.rng
    for _ in range(count):
        r = rng.random()
        if r < 0.2:
            yield ['tuple', gen_value(rng)]
        elif r < 0.9:
            x = gen_value(rng)
            ra = rng.random() < 0.5
            yield ['str', x, rng.choice([-1, 0, 0, 1, 2, 3, 4, 5, 6, 7, 8, 9, 10, 11, 12, rng.randint(-1, 12)]),
                   rng.random() < 0.5, ra]
        else:
            n = rng.randint(-2, 13)
            k = rng.random()
            if k < 0.4:
                x = rng.uniform(0, 60)
            elif k < 0.7:
                n0 = max(n, 0)
                x = (rng.randint(0, 60 * 10 ** min(n0, 9)) + 0.5) / 10.0 ** min(n0, 9) + rng.choice([0, 0, 1e-15, -1e-15])
            elif k < 0.85:
                x = 60 - 10.0 ** -rng.uniform(1, 16)
            else:
                x = rng.uniform(-400, 400) * 10.0 ** rng.randint(-6, 0)
            yield ['round', x, n]


def grid_specs(ctx):
    """Systematic enumeration: every degree of the circle x minutes {0, 59} x seconds at / just below the
    carry points, each exactly, +-1 ulp and a hair below, both signs; every whole minute of the circle;
    all printed variants for a ladder of n_dec.  Used in the thorough tier and whenever the source of a
    modelled function differs from the golden fingerprint (ctx.scale > 1)."""
    NS = (-1, 0, 1, 3, 6, 9, 12)
    for d in range(360):
        for m in (0, 59):
            for s in (0.0, 59.0, 59.5, 59.9995, 59.99999999999):
                x0 = d + m / 60.0 + s / 3600.0
                for x in (x0, step(x0, 1), step(x0, -1), x0 - 1e-13):
                    for x in (clamp(x), clamp(-x)):
                        if d % 8 == 0:
                            yield ['tuple', x]
                        for n in NS:
                            k = (d + n) % 4
                            yield ['str', x, n, k in (0, 1), k in (0, 2)]
                            if d % 15 == 14 or d in (0, 359):
                                yield ['str', x, n, k not in (0, 1), k in (0, 2)]
                                yield ['str', x, n, k in (0, 1), k not in (0, 2)]
    for mm in range(0, 21600, 1):
        x = mm / 60.0
        k = mm % 4
        yield ['str', x if mm % 2 else -x, (mm % 5) - 1, k in (0, 1), k in (0, 2)]
        if mm % 16 == 0:
            yield ['tuple', x]
    hot = [v for v in (ctx.hot['ints'] + ctx.hot['floats']) if isinstance(v, (int, float)) and abs(v) < 360]
    for v in hot:
        for x in (float(v), -float(v), step(float(v), 1), step(float(v), -1), float(v) / 60.0, float(v) / 3600.0):
            yield ['tuple', x]
            for n in range(-1, 13):
                for fancy in (True, False):
                    for ra in (True, False):
                        yield ['str', x, n, fancy, ra]
    for n in range(-2, 14):
        for i in range(0, 600):
            yield ['round', i / 10.0 + 0.05, n]
            yield ['round', 60 - 10.0 ** -(1 + i % 15), n]


TOLS = [0.0, 1e-3, 1e-6, 1e-12, 1.0]


def run_spec_tol(ctx, s):
    run_spec(ctx, s)
    if s[0] == 'str' and (core.fbits(s[1]) >> 2) % 5 == 0:
        run_spec(ctx, list(s) + [TOLS[(core.fbits(s[1]) >> 5) % len(TOLS)]])


def generate(ctx, shard=0, nshards=1):
    _plain = run_spec
    if shard == 0:
        for s in fixed_specs():
            run_spec(ctx, s)
            if s[0] == 'str':
                for t in TOLS[:3]:
                    run_spec(ctx, list(s) + [t])
        ctx.sample({'call': "Angle(23, 59, 59.99999).dms_str(n_dec=2)", 'expected': "24d 0' 0.0''"})
        ctx.sample({'call': "Angle(-0.0001).dms_str(False, 2)", 'expected': '0:0:-0.36'})
        ctx.sample({'call': 'Angle(1.1).dms_tuple()', 'expected': '(1, 6, ~3e-13, 1.0)'})
    changed = ctx.scale > 1
    if changed or ctx.tier == 'thorough':
        for i, s in enumerate(grid_specs(ctx)):
            if i % nshards == shard:
                run_spec_tol(ctx, s)
        ctx.notes.append('boundary grid enumerated in full')
    base = 700000 if ctx.tier != 'thorough' else 6000000
    # the random stream is not multiplied when the source changed (the grid above is the extra effort);
    # the failing-input search (scale >= 10) gets a larger stream, capped
    n = base if ctx.scale <= 4 else min(int(base * ctx.scale / 4), 12000000)
    for s in gen_specs(ctx, n // nshards):
        run_spec_tol(ctx, s)


def replay(case):
    ctx = core.Ctx(PROPERTY, 'quick', 0)
    run_spec(ctx, case.get('input'))
    return (len(ctx.pred_fail) > 0, ctx.pred_fail)


def known_match(finding, failure):
    if finding.get('predicate') != failure.get('predicate'):
        return False
    inp = failure.get('input') or []
    for idx, val in (finding.get('match') or {}).items():
        i = int(idx)
        if i >= len(inp) or inp[i] != val:
            return False
    for idx, bound in (finding.get('abs_ge') or {}).items():
        i = int(idx)
        if i >= len(inp) or not isinstance(inp[i], (int, float)) or abs(inp[i]) < bound:
            return False
    return True
