"""C06 — precession is a rigid, invertible rotation, consistent across routes.

(S) structural tie: the binary64 instantiation of lean/templates/Precession.lean against the real
    pymeeus.Coordinates functions, bit for bit (every call made below is also a tie case).
(I) the clauses of the property evaluated on the implementation; distances are measured on the sphere
    with the independent oracle of harness/sphere.py; the IAU 1976 angles zeta, z, theta of the oracle
    are written here from Meeus (21.2), not taken from the code.
"""
import math
from core import run_impl, enc, enc_exc
import sphere as S

PROPERTY = 'C06'
_C = 'pymeeus/Coordinates.py:'
_A = 'pymeeus/Angle.py:Angle.'
FUNCTIONS = [_C + f for f in ('precession_equatorial', 'precession_ecliptical', 'precession_newcomb', 'mean_obliquity',
                              'orbital_equinox2equinox', 'p_motion_equa2eclip', 'motion_in_space',
                              'equatorial2ecliptical', 'ecliptical2equatorial')] + \
            [_A + f for f in ('reduce_deg', 'reduce_dms', 'dms2deg', 'set', 'rad', '__add__', '__mul__', '__iadd__',
                              '__gt__', '__lt__', '__call__')] + \
            ['pymeeus/Epoch.py:Epoch.__sub__', 'pymeeus/Epoch.py:JDE2000']

MANIFEST = dict(
    text=("Lean 4 theorems (Props/C06.lean, over the reals, Mathlib) about the model of precession_equatorial, "
          "precession_newcomb and precession_ecliptical, for every pair of epochs and EVERY direction (both poles "
          "included; the source returns atan2(c, sqrt(a*a + b*b)) with no branch on the declination): the result never "
          "raises and its direction vector is Rz(z) Ry(theta) Rz(zeta) applied to the starting direction; the matrix "
          "is orthogonal, so the angle between two stars is unchanged; a zero interval is the identity; the "
          "polynomials of the source satisfy zeta(T+t,-t) = -z(T,t), z(T+t,-t) = -zeta(T,t), theta(T+t,-t) = -theta(T,t) "
          "identically, so precessing there and back is exactly the identity on directions; proper motion enters as a "
          "displacement of the starting coordinates by 100 t mu, each coordinate by its own proper motion, in all three "
          "precession functions; Angle(0,0,seconds) acts as seconds/3600 degrees, so the "
          "Euler angles are the source's polynomials / 3600; precession_newcomb and precession_ecliptical have the "
          "same rotation structure with their own angles and are the identity for a zero interval; "
          "p_motion_equa2eclip keeps the total proper motion; motion_in_space returns the direction of r u + t V "
          "(straight-line motion, linear in time); mean_obliquity within 10000 years of J2000 is 23d26'21.448\" plus Laskar's "
          "polynomial term by term (signs and coefficients); orbital_equinox2equinox never raises, returns an "
          "inclination in [0,180] obeying the spherical cosine rule, and the new elements describe the old orbit "
          "turned by exactly the rotation precession_ecliptical applies to a direction: the orbit pole always, the "
          "perihelion direction whenever the new inclination is not 0 or 180. NOT carried "
          "by a theorem (numerical agreements between different truncated series; measured on the implementation "
          "only): ecliptical there-and-back to 1e-6 degree, equatorial route vs ecliptical route through the mean "
          "obliquity of each epoch to 1e-4 degree, Newcomb vs FK5 to 0.005 degree for 1800-2100, orbital elements there "
          "and back (measured as the angle between the two orbit orientations, tolerance 1e-6 degree, the property "
          "names none). The model is tied to /repo by running its binary64 instantiation against the real functions "
          "bit for bit. Inputs: uniform directions, caps of 5 degrees and down to 1e-9 degree around both poles, stars "
          "that precess onto a pole, epoch pairs and triples within +-5 centuries of J2000 (+-20 for the exact "
          "clauses), proper motions up to 10 arcsec/yr, inclinations 0..180."),
    note=("Trusted: Lean kernel, Mathlib, axioms propext/Classical.choice/Quot.sound; the hand-written model "
          "(lean/templates/Precession.lean) and its bit-exact correspondence run; the idealisation binary64 -> real is "
          "measured, not proved. The findings of the first version of this check (asin declination near the poles, "
          "orbital inclinations below 1 and above 90 degrees) are fixed in /repo by fix: commits; one corner "
          " stays listed (known_findings.json (property C06)): i0 = 0 together with a zero interval."),
    technique="Lean 4 proof over the reals (rotation matrices, Complex.arg, ring identities of the precession polynomials) + bit-exact model/implementation correspondence + predicate check",
    ref='6 C06')

TRUSTED = ['harness/sphere.py: independent vector/matrix oracle', 'harness/c06.py: IAU 1976 precession angles (Meeus 21.2) '
           'typed from the book for the is_rotation predicate']
RULE = 'distinct (model function, argument tuple) pairs sent to the binary64 model and to the implementation'
J2000 = 2451545.0
TOL = 1e-9


def _mods():
    from pymeeus.Angle import Angle
    from pymeeus.Epoch import Epoch
    import pymeeus.Coordinates as C
    return Angle, Epoch, C


def jd(T):
    return J2000 + 36525.0 * T


def mk_epoch(jde):
    """An Epoch whose JDE is exactly `jde` (the constructor goes through the calendar date and can lose the last bit)."""
    _, Epoch, _ = _mods()
    e = Epoch()
    e._jde = float(jde)
    return e


def record(ctx, name, dev, inp):
    """Largest deviation seen, kept apart for the inputs that lie in a listed known-finding region."""
    known = inp.get('polecap', 90.0) <= 2e-3
    ctx.deviation(name + ('@known_finding_region' if known else ''), dev)


def tie(ctx, name, args, out, klass=None):
    ctx.case(name, [float(a) for a in args], out, q=None, klass=klass or name)


def vals(r):
    if isinstance(r, tuple):
        return tuple(x() if hasattr(x, 'rad') else float(x) for x in r)
    return (r(),) if hasattr(r, 'rad') else (float(r),)


def prec(ctx, name, jd0, jd1, lon, lat, pm=(0.0, 0.0)):
    """Call precession_<name>; register the tie case; returns (lon', lat') or None."""
    Angle, Epoch, C = _mods()
    try:
        # the proper motions in every documented form (Angle, plain number, left out when zero); the form is a
        # function of the arguments, so that a replay makes the same call
        form = int(abs(jd0) * 7.0 + abs(lon) * 13.0 + abs(lat) * 3.0 + abs(pm[0]) * 1e6 + abs(pm[1]) * 1e7) % 6
        f = getattr(C, 'precession_' + name)
        a4 = (mk_epoch(jd0), mk_epoch(jd1), Angle(lon), Angle(lat))
        if form == 1:
            r = f(*(a4 + (float(pm[0]), float(pm[1]))))
        elif form == 2:
            r = f(*(a4 + (Angle(pm[0]), float(pm[1]))))
        elif form == 3:
            r = f(*(a4 + (float(pm[0]), Angle(pm[1]))))
        elif form == 4 and pm[1] == 0.0:
            r = f(*a4) if pm[0] == 0.0 else f(*(a4 + (float(pm[0]),)))
        elif form == 5 and pm[0] == int(pm[0]) and pm[1] == int(pm[1]):
            r = f(*(a4 + (int(pm[0]), int(pm[1]))))
        else:
            r = f(*(a4 + (Angle(pm[0]), Angle(pm[1]))))
        v = vals(r)
        out = enc(v)
    except Exception as e:  # noqa
        v, out = None, enc_exc(e)
    tie(ctx, 'precession_' + name, [jd0, jd1, lon, lat, pm[0], pm[1]], out)
    return v


def fk5_angles(jd0, jd1):
    """IAU 1976 (Lieske) zeta, z, theta in degrees, Meeus (21.2)."""
    T = (jd0 - J2000) / 36525.0
    t = (jd1 - jd0) / 36525.0
    zeta = (2306.2181 + 1.39656 * T - 0.000139 * T * T) * t + (0.30188 - 0.000344 * T) * t * t + 0.017998 * t ** 3
    z = (2306.2181 + 1.39656 * T - 0.000139 * T * T) * t + (1.09468 + 0.000066 * T) * t * t + 0.018203 * t ** 3
    theta = (2004.3109 - 0.85330 * T - 0.000217 * T * T) * t - (0.42665 + 0.000217 * T) * t * t - 0.041833 * t ** 3
    return zeta / 3600.0, z / 3600.0, theta / 3600.0


def fk5_matrix(jd0, jd1):
    zeta, z, theta = fk5_angles(jd0, jd1)
    return S.matmul(S.rot_z(z), S.matmul(S.rot_y_prec(theta), S.rot_z(zeta)))


def asin_cap(start_lat, result_lat, name='equatorial'):
    """Distance of the result from a pole when it is computed with asin (start declination <= 85, or ecliptical)."""
    if name != 'ecliptical' and start_lat > 85.0:
        return 90.0
    return 90.0 - abs(result_lat)


def check_equatorial(ctx, name, jd0, jd1, lon, lat, lon2, lat2, klass, wide=True):
    """zero interval, rotation, there-and-back, angle preservation for precession_equatorial / _newcomb."""
    inp = {'check': 'equ', 'fn': name, 'args': [jd0, jd1, lon, lat], 'second': [lon2, lat2], 'polecap': 90.0}
    u = S.dirv(lon, lat)
    M = fk5_matrix(jd0, jd1)
    w = S.lonlat(S.matvec(M, u))
    inp['polecap'] = min(asin_cap(lat, w[1]), asin_cap(w[1], lat))
    # zero interval
    v0 = prec(ctx, name, jd0, jd0, lon, lat)
    S.predicate(ctx, PROPERTY, 'no_exception', v0 is not None, inp, 'zero interval', klass)
    if v0 is not None:
        dev = S.vsep(S.dirv(*v0), u)
        z_inp = dict(inp); z_inp['polecap'] = asin_cap(lat, lat)
        record(ctx, name + '_zero_interval', dev, z_inp)
        S.predicate(ctx, PROPERTY, 'zero_interval_identity', dev <= TOL, z_inp, {'out': v0, 'dev_deg': dev}, klass)
    v = prec(ctx, name, jd0, jd1, lon, lat)
    S.predicate(ctx, PROPERTY, 'no_exception', v is not None, inp, 'forward', klass)
    if v is None:
        return
    inp = dict(inp); inp['polecap'] = min(inp['polecap'], asin_cap(lat, v[1]))
    if name == 'equatorial':
        dev = S.vsep(S.dirv(*v), S.matvec(M, u))
        record(ctx, 'equatorial_is_rotation', dev, inp)
        S.predicate(ctx, PROPERTY, 'equatorial_is_rotation', dev <= TOL, inp, {'out': v, 'oracle': w, 'dev_deg': dev}, klass)
    S.predicate(ctx, PROPERTY, 'declination_range', -90.0 <= v[1] <= 90.0, inp, v, klass)
    # there and back
    b = prec(ctx, name, jd1, jd0, v[0], v[1])
    S.predicate(ctx, PROPERTY, 'no_exception', b is not None, inp, {'leg': 'back', 'from': v}, klass)
    if b is not None and name == 'equatorial':
        dev = S.vsep(S.dirv(*b), u)
        record(ctx, 'equatorial_there_and_back', dev, inp)
        S.predicate(ctx, PROPERTY, 'equatorial_there_and_back', dev <= TOL, inp, {'fwd': v, 'back': b, 'dev_deg': dev}, klass)
    # angle between two stars
    q = prec(ctx, name, jd0, jd1, lon2, lat2)
    if q is not None:
        w2 = S.lonlat(S.matvec(M, S.dirv(lon2, lat2)))
        a_inp = dict(inp); a_inp['polecap'] = min(asin_cap(lat, w[1]), asin_cap(lat2, w2[1]))
        dev = abs(S.sep_ref(lon, lat, lon2, lat2) - S.sep_ref(v[0], v[1], q[0], q[1]))
        record(ctx, name + '_preserves_angle', dev, a_inp)
        S.predicate(ctx, PROPERTY, 'preserves_angle', dev <= TOL, a_inp, {'dev_deg': dev}, klass)


def check_pm(ctx, name, jd0, jd1, lon, lat, pm, klass):
    """Proper motion displaces the start linearly in elapsed time: result(mu) = result(0) from (lon + mu dt, lat + mu dt)."""
    year = 365.25 if name != 'newcomb' else 365.242199
    dt = (jd1 - jd0) / year
    lon_s, lat_s = lon + pm[0] * dt, lat + pm[1] * dt
    w = S.lonlat(S.matvec(fk5_matrix(jd0, jd1), S.dirv(lon_s, lat_s)))
    inp = {'check': 'pm', 'fn': name, 'args': [jd0, jd1, lon, lat, pm[0], pm[1]],
           'polecap': asin_cap(lat_s, w[1], name) if name != 'ecliptical' else 90.0 - min(90.0, abs(lat_s) + 0.2)}
    v = prec(ctx, name, jd0, jd1, lon, lat, pm)
    v0 = prec(ctx, name, jd0, jd1, lon, lat)
    if abs(lat_s) <= 90.0 and abs(lon_s) < 360.0:
        vs = prec(ctx, name, jd0, jd1, lon_s, lat_s)
    else:
        vs = None
    S.predicate(ctx, PROPERTY, 'no_exception', v is not None and v0 is not None, inp, 'proper motion', klass)
    if v is None or v0 is None:
        return
    inp = dict(inp); inp['polecap'] = min(inp['polecap'], asin_cap(lat_s, v[1], name), asin_cap(lat, v0[1], name))
    if vs is not None:
        dev = S.vsep(S.dirv(*v), S.dirv(*vs))
        record(ctx, name + '_proper_motion_shift', dev, inp)
        S.predicate(ctx, PROPERTY, 'proper_motion_is_start_shift', dev <= TOL, inp, {'with_pm': v, 'shifted_start': vs, 'dev_deg': dev}, klass)
    # rigid: the displacement of the result equals the displacement of the start, mu * dt on the sphere
    d_out = S.sep_ref(v[0], v[1], v0[0], v0[1])
    d_in = S.sep_ref(lon_s, lat_s, lon, lat)
    record(ctx, name + '_proper_motion_linear', abs(d_out - d_in), inp)
    S.predicate(ctx, PROPERTY, 'proper_motion_linear', abs(d_out - d_in) <= TOL, inp, {'moved_out': d_out, 'moved_in': d_in}, klass)


def check_ecliptical(ctx, jd0, jd1, lon, lat, lon2, lat2, klass):
    inp = {'check': 'ecl', 'args': [jd0, jd1, lon, lat], 'second': [lon2, lat2], 'polecap': 90.0 - abs(lat),
           'span': max(abs(jd0 - J2000), abs(jd1 - J2000)) / 36525.0}
    u = S.dirv(lon, lat)
    v0 = prec(ctx, 'ecliptical', jd0, jd0, lon, lat)
    v = prec(ctx, 'ecliptical', jd0, jd1, lon, lat)
    S.predicate(ctx, PROPERTY, 'no_exception', v0 is not None and v is not None, inp, 'ecliptical', klass)
    if v0 is not None:
        dev = S.vsep(S.dirv(*v0), u)
        record(ctx, 'ecliptical_zero_interval', dev, inp)
        S.predicate(ctx, PROPERTY, 'zero_interval_identity', dev <= TOL, inp, {'out': v0, 'dev_deg': dev}, klass)
    if v is None:
        return
    inp = dict(inp); inp['polecap'] = min(inp['polecap'], 90.0 - abs(v[1]))
    b = prec(ctx, 'ecliptical', jd1, jd0, v[0], v[1])
    S.predicate(ctx, PROPERTY, 'no_exception', b is not None, inp, {'leg': 'back', 'from': v}, klass)
    if b is not None:
        dev = S.vsep(S.dirv(*b), u)
        record(ctx, 'ecliptical_there_and_back', dev, inp)
        S.predicate(ctx, PROPERTY, 'ecliptical_there_and_back', dev <= 1e-6, inp, {'fwd': v, 'back': b, 'dev_deg': dev}, klass)
    q = prec(ctx, 'ecliptical', jd0, jd1, lon2, lat2)
    if q is not None:
        a_inp = dict(inp); a_inp['polecap'] = min(inp['polecap'], 90.0 - abs(lat2), 90.0 - abs(q[1]))
        dev = abs(S.sep_ref(lon, lat, lon2, lat2) - S.sep_ref(v[0], v[1], q[0], q[1]))
        record(ctx, 'ecliptical_preserves_angle', dev, a_inp)
        S.predicate(ctx, PROPERTY, 'preserves_angle', dev <= TOL, a_inp, {'dev_deg': dev}, klass)


def obliquity(ctx, jde):
    Angle, Epoch, C = _mods()
    e = C.mean_obliquity(mk_epoch(jde))()
    tie(ctx, 'mean_obliquity', [jde], enc(e))
    return e


def conv(ctx, name, lon, lat, eps):
    Angle, Epoch, C = _mods()
    try:
        v = vals(getattr(C, name)(Angle(lon), Angle(lat), Angle(eps)))
        out = enc(v)
    except Exception as e:  # noqa
        v, out = None, enc_exc(e)
    tie(ctx, name, [lon, lat, eps], out)
    return v


def check_route(ctx, jd0, jd1, lon, lat, klass):
    """Equatorial route vs ecliptical route through the mean obliquity of each epoch (1e-4 degree)."""
    inp = {'check': 'route', 'args': [jd0, jd1, lon, lat], 'polecap': 90.0 - abs(lat)}
    e0, e1 = obliquity(ctx, jd0), obliquity(ctx, jd1)
    v = prec(ctx, 'equatorial', jd0, jd1, lon, lat)
    lb0 = conv(ctx, 'equatorial2ecliptical', lon, lat, e0)
    lb1 = prec(ctx, 'ecliptical', jd0, jd1, lb0[0], lb0[1]) if lb0 else None
    ad = conv(ctx, 'ecliptical2equatorial', lb1[0], lb1[1], e1) if lb1 else None
    w = S.lonlat(S.matvec(fk5_matrix(jd0, jd1), S.dirv(lon, lat)))
    caps = [90.0 - abs(lat), 90.0 - abs(w[1])]
    ecl0 = S.lonlat(S.matvec(S.rot_x(e0), S.dirv(lon, lat)))
    ecl1 = S.lonlat(S.matvec(S.rot_x(e1), S.dirv(*w)))
    caps += [90.0 - abs(ecl0[1]), 90.0 - abs(ecl1[1])]
    inp['polecap'] = min(caps)
    S.predicate(ctx, PROPERTY, 'no_exception', None not in (v, lb0, lb1, ad), inp, 'route', klass)
    if None in (v, lb0, lb1, ad):
        return
    dev = S.vsep(S.dirv(*v), S.dirv(*ad))
    record(ctx, 'route_equatorial_vs_ecliptical', dev, inp)
    S.predicate(ctx, PROPERTY, 'route_agreement', dev <= 1e-4, inp, {'equatorial': v, 'via_ecliptic': ad, 'dev_deg': dev}, klass)
    S.predicate(ctx, PROPERTY, 'obliquity_range', 22.0 < e0 < 25.0 and 22.0 < e1 < 25.0, inp, [e0, e1], klass)


def check_triple(ctx, jd0, jd1, jd2, lon, lat, klass):
    """t0 -> t1 -> t2 against t0 -> t2 directly (different truncated polynomials: 1e-4 degree, as for the routes),
    and t0 -> t1 -> t2 -> t0 (three exact inverses would give the identity; 1e-4 degree)."""
    inp = {'check': 'triple', 'args': [jd0, jd1, jd2, lon, lat], 'polecap': 90.0 - abs(lat)}
    a = prec(ctx, 'equatorial', jd0, jd1, lon, lat)
    b = prec(ctx, 'equatorial', jd1, jd2, a[0], a[1]) if a else None
    c = prec(ctx, 'equatorial', jd0, jd2, lon, lat)
    d = prec(ctx, 'equatorial', jd2, jd0, b[0], b[1]) if b else None
    if None in (a, b, c, d):
        caps = [90.0 - abs(lat)] + [90.0 - abs(S.lonlat(S.matvec(fk5_matrix(jd0, j), S.dirv(lon, lat)))[1]) for j in (jd1, jd2)]
        inp['polecap'] = min(caps)
        S.predicate(ctx, PROPERTY, 'no_exception', False, inp, 'triple', klass)
        return
    dev = S.vsep(S.dirv(*b), S.dirv(*c))
    ctx.deviation('composition_two_steps_vs_one', dev)
    S.predicate(ctx, PROPERTY, 'composition_agreement', dev <= 1e-4, inp, {'two_steps': b, 'direct': c, 'dev_deg': dev}, klass)
    dev = S.vsep(S.dirv(*d), S.dirv(lon, lat))
    S.predicate(ctx, PROPERTY, 'triple_round_trip', dev <= 1e-4, inp, {'dev_deg': dev}, klass)


def check_newcomb(ctx, jd0, jd1, lon, lat, klass):
    inp = {'check': 'newcomb', 'args': [jd0, jd1, lon, lat], 'polecap': 90.0}
    w = S.lonlat(S.matvec(fk5_matrix(jd0, jd1), S.dirv(lon, lat)))
    inp['polecap'] = asin_cap(lat, w[1])
    a = prec(ctx, 'equatorial', jd0, jd1, lon, lat)
    b = prec(ctx, 'newcomb', jd0, jd1, lon, lat)
    S.predicate(ctx, PROPERTY, 'no_exception', a is not None and b is not None, inp, 'newcomb', klass)
    if a is None or b is None:
        return
    dev = S.vsep(S.dirv(*a), S.dirv(*b))
    record(ctx, 'newcomb_vs_fk5', dev, inp)
    S.predicate(ctx, PROPERTY, 'newcomb_within_0.005_of_fk5', dev <= 0.005, inp, {'fk5': a, 'newcomb': b, 'dev_deg': dev}, klass)


def orbit(ctx, jd0, jd1, i0, arg0, lon0):
    Angle, Epoch, C = _mods()
    try:
        v = vals(C.orbital_equinox2equinox(mk_epoch(jd0), mk_epoch(jd1), Angle(i0), Angle(arg0), Angle(lon0)))
        out = enc(v)
    except Exception as e:  # noqa
        v, out = None, enc_exc(e)
    tie(ctx, 'orbital_equinox2equinox', [jd0, jd1, i0, arg0, lon0], out)
    return v


def check_orbit(ctx, jd0, jd1, i0, arg0, lon0, klass):
    """Reducing orbital elements to another equinox and back returns them: measured as the angle of the rotation between
    the two orbit orientations Rz(node) Rx(i) Rz(arg) (no coordinate singularity at small inclinations), 1e-6 degree;
    and the new elements describe the old orbit precessed like any other pair of ecliptical directions."""
    inp = {'check': 'orbit', 'args': [jd0, jd1, i0, arg0, lon0], 'inc_min': i0, 'inc_max': i0,
           'interval': abs(jd1 - jd0)}
    # perihelion direction and orbit pole of the old elements, precessed with precession_ecliptical
    m0 = S.euler_matrix(lon0, i0, arg0)
    peri0 = S.lonlat((m0[0][0], m0[1][0], m0[2][0]))
    pole0 = S.lonlat((m0[0][2], m0[1][2], m0[2][2]))
    p = prec(ctx, 'ecliptical', jd0, jd1, peri0[0], peri0[1])
    n = prec(ctx, 'ecliptical', jd0, jd1, pole0[0], pole0[1])
    if n is not None:
        inp['inc_max'] = max(i0, 90.0 - n[1])          # the inclination the new orbit really has
        inp['inc_min'] = min(i0, 90.0 - n[1])
    a = orbit(ctx, jd0, jd1, i0, arg0, lon0)
    b = orbit(ctx, jd1, jd0, a[0], a[1], a[2]) if a else None
    S.predicate(ctx, PROPERTY, 'orbit_no_exception', a is not None and b is not None, inp, {'fwd': a}, klass)
    if a is None or b is None:
        return
    dev = S.rot_angle(m0, S.euler_matrix(b[2], b[0], b[1]))
    ctx.deviation('orbit_there_and_back', dev if 1.0 <= inp['inc_min'] and inp['inc_max'] < 90.0 else 0.0)
    S.predicate(ctx, PROPERTY, 'orbit_there_and_back', dev <= 1e-6, inp, {'fwd': a, 'back': b, 'dev_deg': dev}, klass)
    m1 = S.euler_matrix(a[2], a[0], a[1])
    peri1 = S.lonlat((m1[0][0], m1[1][0], m1[2][0]))
    pole1 = S.lonlat((m1[0][2], m1[1][2], m1[2][2]))
    if p is not None and n is not None and min(90.0 - abs(peri0[1]), 90.0 - abs(pole0[1])) > 0.5:
        dev = max(S.vsep(S.dirv(*p), S.dirv(*peri1)), S.vsep(S.dirv(*n), S.dirv(*pole1)))
        ctx.deviation('orbit_vs_precession_ecliptical', dev if 1.0 <= inp['inc_min'] and inp['inc_max'] < 90.0 else 0.0)
        S.predicate(ctx, PROPERTY, 'orbit_precesses_like_a_direction', dev <= 1e-6, inp,
                      {'perihelion': peri1, 'precessed': p, 'orbit_pole': pole1, 'precessed_pole': n, 'dev_deg': dev}, klass)


def check_space(ctx, lon, lat, dist, vel, pm, time, klass):
    Angle, Epoch, C = _mods()
    inp = {'check': 'space', 'args': [lon, lat, dist, vel, pm[0], pm[1], time], 'polecap': 90.0 - abs(lat)}
    out = run_impl(lambda: vals(C.motion_in_space(Angle(lon), Angle(lat), dist, vel, Angle(pm[0]), Angle(pm[1]), time)))
    tie(ctx, 'motion_in_space', [lon, lat, dist, vel, pm[0], pm[1], time], out)
    out0 = run_impl(lambda: vals(C.motion_in_space(Angle(lon), Angle(lat), dist, vel, Angle(pm[0]), Angle(pm[1]), 0.0)))
    tie(ctx, 'motion_in_space', [lon, lat, dist, vel, pm[0], pm[1], 0.0], out0)
    if out.startswith('E:') or out0.startswith('E:'):
        S.predicate(ctx, PROPERTY, 'motion_in_space_runs', abs(lat) == 90.0 or dist == 0.0, inp, [out, out0], klass)
        return
    import core
    v = tuple(core.from_bits(int(t[1:])) for t in out.split())
    v0 = tuple(core.from_bits(int(t[1:])) for t in out0.split())
    u = S.dirv(lon, lat)
    dev = S.vsep(S.dirv(*v0), u)
    S.predicate(ctx, PROPERTY, 'motion_zero_time_identity', dev <= TOL, inp, {'out': v0, 'dev_deg': dev}, klass)
    # straight-line motion: P(t) = P(0) + t V, V = r (mu_dec north + mu_ra cos(dec) east) + (v / 977792) u  [pc / yr]
    l, p = math.radians(lon), math.radians(lat)
    north = (-math.sin(p) * math.cos(l), -math.sin(p) * math.sin(l), math.cos(p))
    east = (-math.sin(l), math.cos(l), 0.0)
    ma, md = math.radians(pm[0]), math.radians(pm[1])
    vel_vec = tuple(dist * (md * north[i] + ma * math.cos(p) * east[i]) + vel / 977792.0 * u[i] for i in range(3))
    pos = tuple(dist * u[i] + time * vel_vec[i] for i in range(3))
    dev = S.vsep(S.dirv(*v), pos)
    ctx.deviation('motion_in_space', dev)
    S.predicate(ctx, PROPERTY, 'motion_is_linear_in_time', dev <= TOL, inp, {'out': v, 'oracle': S.lonlat(pos), 'dev_deg': dev}, klass)


def check_pm_ecl(ctx, lon, lat, eps, pm, klass):
    """p_motion_equa2eclip: the total proper motion is the same in both frames (rotation).  The ecliptical latitude the
    function needs is taken from the oracle (atan2-based, accurate next to the poles; the library's own asin latitude
    is a listed C05 finding there)."""
    Angle, Epoch, C = _mods()
    beta = S.lonlat(S.matvec(S.rot_x(eps), S.dirv(lon, lat)))[1]
    inp = {'check': 'pm_ecl', 'args': [lon, lat, eps, pm[0], pm[1]], 'polecap': min(90.0 - abs(lat), 90.0 - abs(beta))}
    out = run_impl(lambda: C.p_motion_equa2eclip(Angle(pm[0]), Angle(pm[1]), Angle(lon), Angle(lat), Angle(beta), Angle(eps)))
    tie(ctx, 'p_motion_equa2eclip', [pm[0], pm[1], lon, lat, beta, eps], out)
    if out.startswith('E:'):
        S.predicate(ctx, PROPERTY, 'pm_ecl_runs', inp['polecap'] == 0.0, inp, out, klass)
        return
    import core
    ml, mb = (core.from_bits(int(t[1:])) for t in out.split())
    ma, md = math.radians(pm[0]), math.radians(pm[1])
    tot_eq = math.hypot(ma * math.cos(math.radians(lat)), md)
    tot_ec = math.hypot(ml * math.cos(math.radians(beta)), mb)
    rel = abs(tot_eq - tot_ec) / max(tot_eq, 1e-300)
    # the function divides by cos(beta)**2: within 0.01 degree of an ecliptic pole the quotient is not expected to keep 1e-9
    near = inp['polecap'] < 1e-2
    ctx.deviation('p_motion_total_relative' + ('@within_0.01deg_of_a_pole' if near else ''), rel)
    S.predicate(ctx, PROPERTY, 'total_proper_motion_invariant', rel <= 1e-9 or near, inp,
                {'equatorial': tot_eq, 'ecliptical': tot_ec, 'rel': rel}, klass)


def check_anchors(ctx):
    """Meeus examples 21.b (theta Persei), 21.c (Venus, ecliptical), 22.a (obliquity), 24.b (orbit)."""
    Angle, Epoch, C = _mods()
    # Meeus example 21.b (theta Persei) and 21.c (Venus, ecliptical) as anchors
    ctx.sample({'call': 'precession_equatorial(J2000, Epoch(2028, 11, 13.19), Angle(2,44,11.986,ra=True), Angle(49,13,42.48), 0.03425/3600*15, -0.0895/3600)',
                'expected': '(41.5472125, 49.3484833)'})
    v = prec(ctx, 'equatorial', J2000, Epoch(2028, 11, 13.19).jde(), (2 + 44 / 60.0 + 11.986 / 3600.0) * 15.0,
             49 + 13 / 60.0 + 42.48 / 3600.0, (0.03425 * 15.0 / 3600.0, -0.0895 / 3600.0))
    S.predicate(ctx, PROPERTY, 'anchor_meeus_21b', v is not None and abs(v[0] - (2 + 46 / 60.0 + 11.331 / 3600.0) * 15.0) < 1e-5
                  and abs(v[1] - (49 + 20 / 60.0 + 54.54 / 3600.0)) < 1e-5, {'check': 'anchor'}, v)
    o = orbit(ctx, 2358042.5305, 2433282.4235, 47.122, 151.4486, 45.7481)
    S.predicate(ctx, PROPERTY, 'anchor_meeus_24b_orbit', o is not None and abs(o[0] - 47.138) < 6e-4 and abs(o[1] - 151.4782) < 6e-5
                  and abs(o[2] - 48.6037) < 6e-5, {'check': 'anchor'}, o)
    v = prec(ctx, 'ecliptical', J2000, Epoch(-214, 6, 30.0).jde(), 149.48194, 1.76549)
    S.predicate(ctx, PROPERTY, 'anchor_meeus_21c', v is not None and abs(v[0] - 118.704) < 1e-3 and abs(v[1] - 1.615) < 1e-3,
                  {'check': 'anchor'}, v)
    e = obliquity(ctx, Epoch(1987, 4, 10.0).jde())
    S.predicate(ctx, PROPERTY, 'anchor_meeus_22a_obliquity', abs(e - (23 + 26 / 60.0 + 27.407 / 3600.0)) < 1e-6, {'check': 'anchor'}, e)


# ------------------------------------------------------------------ generators
NEAR = [0.0, 1e-9, 1e-7, 1e-5, 1e-4, 5e-4, 1e-3, 3e-3, 1e-2, 0.1, 1.0, 4.9, 5.0, 5.000001]


def rand_T(rng, tmax):
    r = rng.random()
    if r < 0.15:
        return rng.choice([-tmax, tmax, 0.0, -1.0, 1.0, 0.5, -0.5, 1e-6])
    return rng.uniform(-tmax, tmax)


def rand_dir(rng):
    """(lon, lat, class): uniform, caps of 5 degrees around both poles, very near the poles, around +85 (branch)."""
    r = rng.random()
    if r < 0.4:
        lon, lat = S.uniform_dir(rng)
        return lon, lat, 'uniform'
    if r < 0.6:
        sgn = rng.choice([-1, 1])
        lon, lat = S.cap_dir(rng, sgn, 5.0)
        return lon, lat, 'north_cap' if sgn > 0 else 'south_cap'
    if r < 0.8:
        sgn = rng.choice([-1, 1])
        return rng.uniform(0, 360), sgn * (90.0 - rng.choice(NEAR)), 'near_north_pole' if sgn > 0 else 'near_south_pole'
    if r < 0.9:
        return rng.uniform(0, 360), 85.0 + rng.choice([0.0, 1e-12, -1e-12, 1e-6, -1e-6, 0.01, -0.01]), 'branch_85'
    return rng.choice([0.0, 359.9999999, 180.0, 1e-9]), S.uniform_dir(rng)[1], 'seam'


def generate(ctx, shard=0, nshards=1):
    Angle, Epoch, C = _mods()
    rng = ctx.rng
    hot = list(ctx.hot['floats']) + [float(v) for v in ctx.hot['ints']]
    hot_lat = [v for v in hot if abs(v) <= 90.0]

    if shard == 0:
        check_anchors(ctx)
        for T in [x / 4.0 for x in range(-80, 81)]:
            obliquity(ctx, jd(T))

    n = ctx.n(40000, 2000000) // nshards
    for i in range(n):
        lon, lat, k = rand_dir(rng)
        if hot_lat and rng.random() < 0.25:
            lat = rng.choice(hot_lat) + rng.choice([0.0, 1e-9, -1e-9, 0.5, -0.5, 1e-3])
            lat = max(-90.0, min(90.0, lat))
            k = 'hot_literal'
        lon2, lat2, _ = rand_dir(rng)
        T0, T1 = rand_T(rng, 20.0), rand_T(rng, 20.0)
        if rng.random() < 0.2:
            # a star that precesses onto (or next to) a pole: choose the target, precess it back to get the start
            sgn = rng.choice([-1, 1])
            tgt = (rng.uniform(0, 360), sgn * (90.0 - rng.choice(NEAR[:9])))
            back = S.lonlat(S.matvec(S.transpose(fk5_matrix(jd(T0), jd(T1))), S.dirv(*tgt)))
            lon, lat, k = back[0], back[1], 'lands_on_pole'
        check_equatorial(ctx, 'equatorial', jd(T0), jd(T1), lon, lat, lon2, lat2, 'equ/' + k)
        # within +-5 centuries: the tolerance clauses
        T0, T1 = rand_T(rng, 5.0), rand_T(rng, 5.0)
        if i % 2 == 0:
            check_ecliptical(ctx, jd(T0), jd(T1), lon, lat, lon2, lat2, 'ecl/' + k)
            check_route(ctx, jd(T0), jd(T1), lon, lat, 'route/' + k)
        if i % 3 == 0:
            pm = (rng.uniform(-1, 1) * 10.0 / 3600.0, rng.uniform(-1, 1) * 10.0 / 3600.0)
            if rng.random() < 0.2:
                pm = rng.choice([(10.0 / 3600.0, 0.0), (0.0, -10.0 / 3600.0), (10.0 / 3600.0, 10.0 / 3600.0), (0.0, 0.0)])
            check_pm(ctx, rng.choice(['equatorial', 'equatorial', 'newcomb', 'ecliptical']), jd(T0), jd(T1), lon, lat, pm, 'pm/' + k)
        if i % 4 == 0:
            check_triple(ctx, jd(T0), jd(T1), jd(rand_T(rng, 5.0)), lon, lat, 'triple/' + k)
        if i % 3 == 1:
            y0, y1 = rng.uniform(1800, 2100), rng.uniform(1800, 2100)
            if rng.random() < 0.3:
                y0, y1 = rng.choice([(1800.0, 2100.0), (2100.0, 1800.0), (1900.0, 2000.0), (1950.0, 2000.0), (2000.0, 2100.0)])
            j0, j1 = J2000 + (y0 - 2000.0) * 365.25, J2000 + (y1 - 2000.0) * 365.25
            check_newcomb(ctx, j0, j1, lon, lat, 'newcomb/' + k)
            check_equatorial(ctx, 'newcomb', j0, j1, lon, lat, lon2, lat2, 'newcomb_rigid/' + k)
        if i % 3 == 2:
            r = rng.random()
            if r < 0.55:
                i0, ko = rng.uniform(1.0, 90.0), 'inc_1_90'
            elif r < 0.7:
                i0, ko = rng.choice([1.0, 1.000001, 1.5, 2.0, 5.0, 45.0, 89.0, 89.999, 90.0]), 'inc_special'
            elif r < 0.85:
                i0, ko = rng.choice([0.0, 1e-6, 0.01, 0.5, 0.999999]), 'inc_below_1'
            else:
                i0, ko = rng.uniform(90.0, 180.0), 'inc_retrograde'
            check_orbit(ctx, jd(T0), jd(T1), i0, rng.uniform(0, 360), rng.uniform(0, 360), 'orbit/' + ko)
        if i % 5 == 0:
            pm = (rng.uniform(-1, 1) * 10.0 / 3600.0, rng.uniform(-1, 1) * 10.0 / 3600.0)
            check_space(ctx, lon, lat, 10.0 ** rng.uniform(-0.5, 3.0), rng.choice([0.0, rng.uniform(-300, 300)]), pm,
                        rng.choice([0.0, 1.0, 1000.0, -1000.0, rng.uniform(-5000, 5000)]), 'space/' + k)
            check_pm_ecl(ctx, lon, lat, rng.uniform(0.0, 30.0), pm, 'pm_ecl/' + k)


def replay(case):
    import core
    ctx = core.Ctx(PROPERTY, 'quick', 0)
    inp = case.get('input') or {}
    a = inp.get('args', [])
    kind = inp.get('check')
    sec = inp.get('second') or [10.0, 20.0]
    if kind == 'anchor':
        check_anchors(ctx)
    elif kind == 'equ':
        check_equatorial(ctx, inp.get('fn', 'equatorial'), a[0], a[1], a[2], a[3], sec[0], sec[1], 'replay')
    elif kind == 'ecl':
        check_ecliptical(ctx, a[0], a[1], a[2], a[3], sec[0], sec[1], 'replay')
    elif kind == 'pm':
        check_pm(ctx, inp.get('fn', 'equatorial'), a[0], a[1], a[2], a[3], (a[4], a[5]), 'replay')
    elif kind == 'route':
        check_route(ctx, a[0], a[1], a[2], a[3], 'replay')
    elif kind == 'triple':
        check_triple(ctx, a[0], a[1], a[2], a[3], a[4], 'replay')
    elif kind == 'newcomb':
        check_newcomb(ctx, a[0], a[1], a[2], a[3], 'replay')
    elif kind == 'orbit':
        check_orbit(ctx, a[0], a[1], a[2], a[3], a[4], 'replay')
    elif kind == 'space':
        check_space(ctx, a[0], a[1], a[2], a[3], (a[4], a[5]), a[6], 'replay')
    elif kind == 'pm_ecl':
        check_pm_ecl(ctx, a[0], a[1], a[2], (a[3], a[4]), 'replay')
    fails = [f for f in ctx.pred_fail if f['predicate'] == case.get('predicate')] or ctx.pred_fail
    return (len(fails) > 0, fails)


known_match = S.known_match
