"""C10 — UTC <-> TT offset follows the IERS leap-second history and inverts.

(S) structural tie: GenF (bit for bit) / GenQ (exact ints, 2e-9 day on floats) `leap_seconds`, `leap_table`,
    `get_last_leap_second`, `epoch_set_kw` (constructor with utc= / leap_seconds=), `get_date_kw`
    (get_date with utc= / leap_seconds=), `tt2ut` against pymeeus.Epoch.
(I) every clause of the property evaluated on the implementation against the IERS Bulletin C list typed
    below (independent of LEAP_TABLE) and the civil day count of harness/c01.py.
"""
import math
from fractions import Fraction

from core import run_impl, enc, from_bits
from c01 import civil_jd, civil_mlen

PROPERTY = 'C10'
FUNCTIONS = ['pymeeus/Epoch.py:LEAP_TABLE', 'pymeeus/Epoch.py:Epoch.leap_seconds',
             'pymeeus/Epoch.py:Epoch.get_last_leap_second', 'pymeeus/Epoch.py:Epoch._compute_jde',
             'pymeeus/Epoch.py:Epoch.set', 'pymeeus/Epoch.py:Epoch.get_date', 'pymeeus/Epoch.py:Epoch.tt2ut',
             'pymeeus/Epoch.py:Epoch.get_doy', 'pymeeus/Epoch.py:Epoch.doy2date', 'pymeeus/Epoch.py:Epoch.is_leap',
             'pymeeus/Epoch.py:Epoch._check_values', 'pymeeus/Epoch.py:DAY2SEC', 'pymeeus/Epoch.py:DAY2MIN',
             'pymeeus/Epoch.py:DAY2HOURS', 'pymeeus/base.py:iint', 'pymeeus/Epoch.py:Epoch.utc2local']

MANIFEST = dict(
    text=("Lean 4 theorems (Props/C10.lean) about the exact-arithmetic model (templates/EpochCal.lean) of "
          "Epoch.leap_seconds, the utc=/leap_seconds= paths of the constructor and of get_date, and tt2ut: "
          "leap_seconds y m equals the IERS count (27 insertion dates typed in Spec/IERS.lean) for EVERY integer year "
          "and month 1..12, is monotone and constant after 2017-01; the constructor with utc=True adds exactly "
          "(32.184 + 10 + iers)/86400 day from 1972-01-01 and nothing before; an explicit non-zero leap_seconds replaces "
          "the table value (the clause is false at leap_seconds=0: counterexample theorem + known finding); "
          "get_date(utc=True) of an epoch built with utc=True returns the civil date-time EXACTLY for every date "
          "1972..9998 and every time of day, incl. the seconds around a leap second; the same with an explicit "
          "leap_seconds in both directions; Delta-T stays within 3.5 s of 42.184 s + leap seconds for every month "
          "1972..2018 and jumps by < 1 s at every segment joint after -500 (kernel-evaluated on the rational model). "
          "tt2ut equals, for EVERY year and month, the published Espenak-Meeus expression of its segment (Spec/DeltaT.lean, power form), each switch-over year on the later segment; in <-500, 500..1599, >=2150 the code evaluates it at the integer year (stated as coded); get_date(utc=False) = get_date(); the 1972 gate is the year, not the count; read-back with utc=True unchanged before 1972; get_last_leap_second for any last table entry (whole year -> 31 Dec of the year before, mid-year -> 30 June); table shape (27 strictly increasing keys = IERS dates, k-th value k); a time of day outside 0<=h<24, 0<=min<60, 0<=s<60 (incl. 23:59:60) is refused with ValueError whatever the kwargs. "
          "Outside the documented domain: leap_seconds for ANY numeric year/month (floats, months outside 1..12) is "
          "characterised exactly (incl. the index wrap returning 27 and the IndexError); the local= paths are modelled with "
          "Epoch.utc2local() as a parameter: local absent/False = the modelled constructor, local=True = utc=True + offset, "
          "offset 0 = the utc path in both directions; get_date(local=False) behaves as local=True (counterexample theorem + "
          "listed finding). "
          "The model is tied to /repo by running its binary64 and exact instantiations against the real code over the "
          "whole finite domain of the property already in the quick tier (every (year, month) 1950..2100 x 3 days x 3 "
          "times, every override 0..60, Delta-T for every month -2000..3000) plus the seconds around every leap-second "
          "insertion; the 1 ms read-back clause on binary64 is covered by these runs, not by a theorem."),
    note=("Trusted: Lean kernel, Mathlib, axioms propext/Classical.choice/Quot.sound; the hand-written model and its "
          "correspondence run; Spec/IERS.lean (the IERS list); idealisation binary64 -> Rat checked by (I) with the 1 ms "
          "tolerance of the property. Epoch.utc2local() itself (wall clock) is not modelled: it is a parameter of the model and is replaced by a constant in the runs."),
    technique="Lean 4 proof (comparison lemmas + kernel evaluation of finite tables) + model/implementation correspondence check",
    ref='6 C10')

TRUSTED = ['Spec/IERS.lean and the IERS list of this module (27 leap-second insertion dates, Bulletin C)',
           'stubs for CPython datetime.date used by get_doy / doy2date (validated against datetime by C16 and here)']
ASSUMPTIONS = ['Epoch.utc2local() reads the wall clock: a parameter of the model, replaced by constants in the correspondence run',
               'year and month are Python ints; seconds < 60 (the constructor refuses 23:59:60)',
               'theorems are about exact rational arithmetic; binary64 effects are checked by testing to 1 ms']

# IERS Bulletin C: a positive leap second was inserted at the end of the day before each of these dates
IERS = [(1972, 7), (1973, 1), (1974, 1), (1975, 1), (1976, 1), (1977, 1), (1978, 1), (1979, 1), (1980, 1), (1981, 7),
        (1982, 7), (1983, 7), (1985, 7), (1988, 1), (1990, 1), (1991, 1), (1992, 7), (1993, 7), (1994, 7), (1996, 1),
        (1997, 7), (1999, 1), (2006, 1), (2009, 1), (2012, 7), (2015, 7), (2017, 1)]
JOINTS = [500, 1600, 1700, 1800, 1860, 1900, 1920, 1941, 1961, 1986, 2005, 2050, 2150]
MS = 1e-3 / 86400.0


def iers(y, m):
    return sum(1 for (a, b) in IERS if (a, b) <= (y, m))


def expected_offset(y, m):
    return 42.184 + iers(y, m) if y >= 1972 else 0.0


def tok_float(t):
    return from_bits(int(t[1:]))


def kw_args(utc, ls):
    """driver encoding of the kwargs: utc 0 absent / 1 True / 2 False; leap_seconds flag + value"""
    u = 0 if utc is None else (1 if utc else 2)
    return [u, ls is not None, ls if ls is not None else 0]


def kwargs_of(utc, ls):
    kw = {}
    if utc is not None:
        kw['utc'] = utc
    if ls is not None:
        kw['leap_seconds'] = ls
    return kw


def instant(y, m, day):
    """civil (y, m, fractional day) -> day count (float JD)"""
    d = int(math.floor(day))
    return civil_jd(y, m, d) + (day - d)


# ------------------------------------------------------------------ one civil date-time
def check_datetime(ctx, Epoch, y, m, d, h, mi, s, klass, overrides=(), exact_q=True):
    inp = ['utc', y, m, d, h, mi, s]
    args = [y, m, d, h, mi, s]
    civil = civil_jd(y, m, d) + (h / 24.0 + mi / 1440.0 + s / 86400.0)
    qrule = ('abs', 2e-9) if exact_q else None
    try:
        e_tt = Epoch(*args)
        e_utc = Epoch(*args, utc=True)
    except Exception as ex:  # noqa
        ctx.predicate('utc_constructor_accepts', False, inp, repr(ex), klass)
        return
    off = (e_utc.jde() - e_tt.jde()) * 86400.0
    exp = expected_offset(y, m)
    ctx.deviation('offset_s', abs(off - exp))
    ctx.predicate('offset_is_iers', abs(off - exp) <= 1e-4, inp, {'offset_s': off, 'expected_s': exp}, klass)
    ctx.predicate('tt_is_civil_count', abs(e_tt.jde() - civil) <= 1e-9, inp, e_tt.jde(), klass)
    ctx.case('epoch_set_kw', args + kw_args(True, None), enc(e_utc.jde()), q=('abs', 2e-9), klass='ctor_utc/' + klass)
    ctx.case('epoch_set_kw', args + kw_args(None, None), enc(e_tt.jde()), q=('abs', 2e-9), klass='ctor_tt')
    ctx.case('epoch_set_kw', args + kw_args(False, None), run_impl(lambda: Epoch(*args, utc=False).jde()), q=('abs', 2e-9),
             klass='ctor_utc_false')
    # read back
    back = run_impl(lambda: e_utc.get_date(utc=True))
    ok = False
    try:
        by, bm, bd = e_utc.get_date(utc=True)
        dev = abs(instant(by, bm, bd) - civil)
        ctx.deviation('readback_day', dev)
        ok = dev <= MS and type(by) is int
        # the date fields themselves, unless the instant is within 1 ms of a midnight
        fr = (civil + 0.5) % 1.0
        if MS < fr < 1.0 - MS:
            ok = ok and (by, bm, int(bd)) == (y, m, d)
    except Exception as ex:  # noqa
        back = repr(ex)
    ctx.predicate('readback_utc', ok, inp, back, klass)
    ctx.case('get_date_kw', [e_utc.jde()] + kw_args(True, None), back, q=qrule, klass='get_date_utc/' + klass)
    ctx.case('get_date_kw', [e_utc.jde()] + kw_args(False, None), run_impl(lambda: e_utc.get_date(utc=False)), q=qrule,
             klass='get_date_utc_false')
    # explicit leap_seconds
    for L in overrides:
        check_override(ctx, Epoch, y, m, d, h, mi, s, L, klass, exact_q)


def check_override(ctx, Epoch, y, m, d, h, mi, s, L, klass, exact_q=True):
    inp = ['override', y, m, d, h, mi, s, L]
    args = [y, m, d, h, mi, s]
    civil = civil_jd(y, m, d) + (h / 24.0 + mi / 1440.0 + s / 86400.0)
    qrule = ('abs', 2e-9) if exact_q else None
    try:
        e_tt = Epoch(*args)
        e_l = Epoch(*args, leap_seconds=L)
        e_ul = Epoch(*args, utc=True, leap_seconds=L)
    except Exception as ex:  # noqa
        ctx.predicate('override_constructor_accepts', False, inp, repr(ex), klass)
        return
    exp = (42.184 + L) if y >= 1972 else 0.0
    off = (e_l.jde() - e_tt.jde()) * 86400.0
    off2 = (e_ul.jde() - e_tt.jde()) * 86400.0
    ctx.predicate('override_replaces_table', abs(off - exp) <= 1e-4 and abs(off2 - exp) <= 1e-4, inp,
                  {'offset_s': off, 'with_utc_s': off2, 'expected_s': exp}, klass)
    ctx.case('epoch_set_kw', args + kw_args(None, L), enc(e_l.jde()), q=('abs', 2e-9), klass='ctor_override')
    ctx.case('epoch_set_kw', args + kw_args(True, float(L)), enc(e_ul.jde()), q=('abs', 2e-9), klass='ctor_override_utc')
    back = run_impl(lambda: e_l.get_date(leap_seconds=L))
    ok = False
    try:
        by, bm, bd = e_l.get_date(leap_seconds=L)
        ok = abs(instant(by, bm, bd) - civil) <= MS
        by, bm, bd = e_l.get_date(utc=True, leap_seconds=L)
        ok = ok and abs(instant(by, bm, bd) - civil) <= MS
    except Exception as ex:  # noqa
        back = repr(ex)
    ctx.predicate('override_readback', ok, inp, back, klass)
    ctx.case('get_date_kw', [e_l.jde()] + kw_args(None, L), back, q=qrule, klass='get_date_override')
    ctx.case('get_date_kw', [e_l.jde()] + kw_args(True, L), run_impl(lambda: e_l.get_date(utc=True, leap_seconds=L)), q=qrule,
             klass='get_date_override_utc')


def check_table(ctx, Epoch, y, m, klass):
    out = run_impl(lambda: Epoch.leap_seconds(y, m))
    ctx.predicate('leap_seconds_is_iers', out == enc(iers(y, m)), ['ym', y, m], {'leap_seconds': out, 'iers': iers(y, m)}, klass)
    ctx.case('leap_seconds', [y, m], out, q='exact', klass='leap_seconds/' + klass)
    ny, nm = (y, m + 1) if m < 12 else (y + 1, 1)
    out2 = run_impl(lambda: Epoch.leap_seconds(ny, nm))
    ok = out.lstrip('-').isdigit() and out2.lstrip('-').isdigit() and int(out) <= int(out2) and \
        (int(out2) == int(out) if (ny, nm) > (2017, 1) else True) and int(out2) - int(out) <= 1
    ctx.predicate('leap_seconds_monotone', ok, ['ym', y, m], [out, out2], klass)


def check_deltat(ctx, Epoch, y, m, klass):
    out = run_impl(lambda: Epoch.tt2ut(y, m))
    ctx.case('tt2ut', [y, m], out, q=('abs', 1e-6), klass='tt2ut/' + klass)
    if 1972 <= y <= 2018:
        ok = out.startswith('f') and abs(tok_float(out) - (42.184 + iers(y, m))) <= 3.5
        if out.startswith('f'):
            ctx.deviation('deltaT_minus_leap_s', abs(tok_float(out) - (42.184 + iers(y, m))))
        ctx.predicate('deltat_vs_leap_seconds', ok, ['ym_dt', y, m], out, klass)
    if m == 1 and y in JOINTS:
        a = run_impl(lambda: Epoch.tt2ut(y - 1, 12))
        ok = out.startswith('f') and a.startswith('f') and abs(tok_float(out) - tok_float(a)) < 1.0
        ctx.predicate('deltat_joint', ok, ['ym_dt', y, m], [a, out], klass)


# ------------------------------------------------------------------ leap_seconds with any numeric arguments
def leap_any_spec(year, month):
    """Transcription of theorem C10.leap_seconds_any_arguments (exact rational arithmetic on the argument values):
    what Epoch.leap_seconds returns for ANY numeric year / month, in terms of the IERS list."""
    y, m = Fraction(year), Fraction(month)
    x = y + m / 12
    if x <= Fraction(3945, 2):
        return 0
    if x > 2017:
        return 27
    ly = y + (Fraction(1, 4) if m <= 6 else Fraction(3, 4))
    if ly <= Fraction(3945, 2):
        return 27                      # idx = 0: list_years[-1], the LAST entry of the table
    if ly > 2017:
        return 'E:Other'               # IndexError
    return sum(1 for (a, b) in IERS if Fraction(a) + Fraction(b - 1, 12) < ly)


def check_leap_any(ctx, Epoch, year, month, klass):
    out = run_impl(lambda: Epoch.leap_seconds(year, month))
    exp = leap_any_spec(year, month)
    ctx.predicate('leap_seconds_any_arguments', out == (exp if isinstance(exp, str) else enc(exp)), ['ym_any', year, month],
                  {'leap_seconds': out, 'theorem': exp}, klass)
    ctx.case('leap_seconds_num', [year, month], out, q='exact', klass='leap_seconds_num/' + klass)


# ------------------------------------------------------------------ local=: Epoch.utc2local() as a parameter
class utc2local_is:
    """Run a block with Epoch.utc2local() returning `off` (the wall clock is not modelled; the offset is a parameter).
    Only the class attribute of the imported module is replaced, for the duration of the block."""

    def __init__(self, Epoch, off):
        self.Epoch, self.off = Epoch, off

    def __enter__(self):
        self.saved = self.Epoch.__dict__['utc2local']
        off = self.off
        self.Epoch.utc2local = staticmethod(lambda: off)

    def __exit__(self, *a):
        self.Epoch.utc2local = self.saved


def kw_args3(utc, ls, loc, off):
    return kw_args(utc, ls) + [0 if loc is None else (1 if loc else 2), off]


def kwargs3(utc, ls, loc):
    kw = kwargs_of(utc, ls)
    if loc is not None:
        kw['local'] = loc
    return kw


def check_local(ctx, Epoch, y, m, d, h, mi, s, off, klass):
    args = [y, m, d, h, mi, s]
    inp = ['local', y, m, d, h, mi, s, off]
    with utc2local_is(Epoch, off):
        for utc in (None, True, False):
            for ls in (None, 35.0, 0):
                for loc in (None, True, False):
                    kw = kwargs3(utc, ls, loc)
                    out = run_impl(lambda: Epoch(*args, **kw).jde())
                    ctx.case('epoch_set_local', args + kw_args3(utc, ls, loc, off), out, q=('abs', 2e-9), klass='ctor_local')
                    if out.startswith('f'):
                        e = Epoch()
                        e._jde = tok_float(out)
                        back = run_impl(lambda: e.get_date(**kw))
                        # 0h instants may sit on the other side of midnight in exact arithmetic: binary64 tie only
                        ctx.case('get_date_local', [e._jde] + kw_args3(utc, ls, loc, off), back,
                                 q=('abs', 2e-9) if (h, mi, s) != (0, 0, 0) else None, klass='get_date_local')
        try:
            e_tt = Epoch(*args)
            e_lf = Epoch(*args, local=False)
            ctx.predicate('local_false_is_absent_ctor', e_lf.jde() == e_tt.jde(), inp, [e_lf.jde(), e_tt.jde()], klass)
            a, b = e_tt.get_date(local=False), e_tt.get_date()
            # get_date(local=False) behaves like local=True (the code tests the key, not the value): a defect of the
            # library, but `local` is no part of the statement of C10, so it is recorded as an observation
            # (theorem C10.get_date_local_false_counterexample, DESIGN.md 12.6), not evaluated as a predicate of C10
            ctx.deviation('observation/get_date_local_false_differs', 0.0 if tuple(a) == tuple(b) else 1.0)
            if off == 0.0:
                e_l, e_u = Epoch(*args, local=True), Epoch(*args, utc=True)
                ok = e_l.jde() == e_u.jde() and tuple(e_u.get_date(local=True)) == tuple(e_u.get_date(utc=True))
                ctx.predicate('local_zero_offset_is_utc', ok, inp, [e_l.jde(), e_u.jde()], klass)
        except ValueError:
            pass                       # an invalid date: the tie above has compared the exception classes


def leap_window_times(L):
    """UTC times (h, mi, s) in the last 75 s of a day, incl. the instant whose TT image is midnight."""
    delta = 42.184 + L
    secs = [86400 - 75.0, 86400 - 70.0, 86400 - delta - 0.001, 86400 - delta, 86400 - delta + 0.001, 86400 - 30.0,
            86400 - 1.0, 86400 - 0.001]
    out = []
    for t in secs:
        h = int(t // 3600)
        mi = int((t - 3600 * h) // 60)
        s = t - 3600 * h - 60 * mi
        out.append((h, mi, s))
    return out


def generate(ctx, shard=0, nshards=1):
    from pymeeus.Epoch import Epoch, LEAP_TABLE
    rng = ctx.rng
    hot_years = [v for v in ctx.hot['ints'] if -4712 <= v <= 9000]
    if shard == 0:
        # the table itself
        keys = list(LEAP_TABLE.keys())
        ctx.predicate('leap_table_sorted', keys == sorted(keys), ['table'], None)
        ctx.case('leap_table', [], '[' + ','.join(enc(k) + ' ' + enc(LEAP_TABLE[k]) for k in sorted(keys)) + ']', q=None,
                 klass='leap_table')
        tab = sorted((int(math.floor(k)), 7 if k % 1 else 1) for k in keys)
        ctx.predicate('leap_table_is_iers', tab == IERS and [LEAP_TABLE[k] for k in sorted(keys)] == list(range(1, 28)),
                      ['table'], tab)
        out = run_impl(Epoch.get_last_leap_second)
        ctx.predicate('last_leap_second', out == enc((2016, 12, 31.0, 27)), ['table'], out)
        ctx.case('get_last_leap_second', [], out, q='exact', klass='get_last_leap_second')
        # the same function on a table whose newest entry is a mid-year one (the IERS inserts leap seconds at the end
        # of June too; the present table happens to end with a December one): the table is extended in this
        # process only and restored at once
        try:
            LEAP_TABLE[2030.5] = 28
            out_mid = run_impl(Epoch.get_last_leap_second)
        finally:
            LEAP_TABLE.pop(2030.5, None)
        ctx.predicate('last_leap_second', out_mid == enc((2030, 6, 30.0, 28)), ['table+2030.5'], out_mid, 'last_leap_second/mid_year')
        ctx.case('get_last_leap_second_of', [2030.5, 28], out_mid, q='exact', klass='get_last_leap_second')
        ctx.case('get_last_leap_second_of', [2017.0, 27], out, q='exact', klass='get_last_leap_second')
        # leap_seconds outside the documented month range / far years: tie only
        for y in (1971, 1972, 1973, 2016, 2017, 2018, 1950, 0, -4712, 9999, 123456):
            for m in (-13, -1, 0, 1, 6, 7, 12, 13, 18, 19, 24, 25, 600):
                ctx.case('leap_seconds', [y, m], run_impl(lambda: Epoch.leap_seconds(y, m)), q='exact', klass='leap_seconds/malformed')
        # the seconds around every month end that carries a leap second (and the same month ends one year
        # later, which do not), both sides of the boundary
        for (a, b) in IERS + [(a + 1, b) for (a, b) in IERS] + [(1972, 1), (1971, 1), (2100, 1), (2050, 7)]:
            py, pm = (a, b - 1) if b > 1 else (a - 1, 12)
            L = iers(py, pm)
            last = civil_mlen(py, pm)
            for (h, mi, s) in leap_window_times(L):
                check_datetime(ctx, Epoch, py, pm, last, h, mi, s, 'leap_window')
            for t in (0.0, 0.001, 1.0, 30.0, 42.183, 42.184 + L, 43.185 + L, 69.0, 75.0):
                check_datetime(ctx, Epoch, a, b, 1, 0, int(t // 60), t - 60 * int(t // 60), 'leap_window', exact_q=(t > 0.0005))
        # Delta-T month by month over 1600..2150: from 1600 on every segment of the code is smooth in the decimal
        # year (a month moves it by well under 0.1 s), so a step of 1 s or more between two consecutive months is a
        # joint that jumps - wherever the code happens to put its joints
        prev = None
        for yy in range(1600, 2151):
            for mm in range(1, 13):
                out_ = run_impl(lambda: Epoch.tt2ut(yy, mm))
                cur = tok_float(out_) if out_.startswith('f') else None
                if prev is not None:
                    okj = cur is not None and prev[2] is not None and abs(cur - prev[2]) < 1.0
                    ctx.predicate('deltat_joint', okj, ['ym_step', prev[0], prev[1], yy, mm], [prev[2], cur], 'deltat_monthly_step')
                prev = (yy, mm, cur)
        for v in hot_years:
            for yy in (v - 1, v, v + 1):
                for m in range(1, 13):
                    check_table(ctx, Epoch, yy, m, 'hot')
                    if yy >= -4712:
                        check_datetime(ctx, Epoch, yy, m, 1, 0, 0, 0, 'hot', exact_q=False)
                        check_datetime(ctx, Epoch, yy, m, civil_mlen(yy, m), 23, 59, 59, 'hot')
        # leap_seconds with float / out-of-range arguments (theorem C10.leap_seconds_any_arguments)
        for y in (1971, 1971.5, 1972, 1972.25, 1972.5, 1973, 1980.75, 1999, 2016, 2016.5, 2016.75, 2017, 2017.25, 2018, 1950, 0, -4712.5,
                  9999, 123456.5):
            for m in (-13, -6, -3, -1, 0, 0.5, 1, 1.5, 3, 6, 6.0, 6.5, 7, 9, 12, 12.5, 13, 15, 18, 19, 24, 25, 600):
                check_leap_any(ctx, Epoch, y, m, 'grid')
        for _ in range(ctx.n(3000, 30000)):
            y = rng.choice([rng.randint(1965, 2025), rng.randint(1965, 2025) + rng.choice([0.25, 0.5, 0.75]), rng.randint(-5000, 10000),
                            rng.uniform(1960, 2030)])
            m = rng.choice([rng.randint(-30, 40), rng.randint(1, 12), rng.randint(-8, 24) * 0.5, rng.uniform(-20, 30)])
            check_leap_any(ctx, Epoch, y, m, 'random')
        # local=: Epoch.utc2local() as a parameter
        for off in (0.0, 3600.0, -18000.0, 19800.0, 7200.0, -34200.0):
            for (y, m, d, h, mi, s) in ((2000, 1, 1, 12, 0, 0), (2016, 12, 31, 23, 59, 30.5), (2017, 1, 1, 0, 0, 0), (1971, 12, 31, 23, 0, 0),
                                        (1972, 1, 1, 0, 30, 0), (1985, 7, 1, 2, 0, 10.25), (2024, 2, 29, 23, 30, 0), (1600, 3, 1, 6, 0, 0),
                                        (2000, 2, 30, 0, 0, 0)):
                check_local(ctx, Epoch, y, m, d, h, mi, s, off, 'local')
        for _ in range(ctx.n(150, 1500)):
            y = rng.choice([rng.randint(1950, 2100), rng.randint(1583, 3000)])
            m = rng.randint(1, 12)
            d = rng.randint(1, civil_mlen(y, m))
            off = rng.choice([0.0, 0.0, 3600.0 * rng.randint(-12, 14), 1800.0 * rng.randint(-24, 28), 60.0 * rng.randint(-720, 840)])
            check_local(ctx, Epoch, y, m, d, rng.randint(0, 23), rng.randint(0, 59), rng.choice([0, 30, rng.random() * 60.0]), off, 'local_random')
        # malformed constructor input with kwargs: the model must raise what the code raises
        for args in ([2000, 1, 0, 0, 0, 0], [2000, 2, 30, 0, 0, 0], [2000, 1, 1, 24, 0, 0], [2000, 1, 1, 0, 60, 0],
                     [2016, 12, 31, 23, 59, 60], [-4713, 1, 1, 0, 0, 0], [2000, 13, 1, 0, 0, 0], [1999, 2, 29, 0, 0, 0]):
            for (u, l) in ((True, None), (None, 5), (True, 5.0)):
                ctx.case('epoch_set_kw', args + kw_args(u, l), run_impl(lambda: Epoch(*args, **kwargs_of(u, l)).jde()),
                         q=('abs', 2e-9), klass='ctor_malformed')

    # ---------------- the finite domain of the property, whole, in every tier (sharded by year)
    ctx.exhaustive = True
    k = 0
    for y in range(1950 + shard, 2101, nshards):
        for m in range(1, 13):
            check_table(ctx, Epoch, y, m, 'domain')
            last = civil_mlen(y, m)
            for d in (1, 15, last):
                for (h, mi, s) in ((0, 0, 0), (12, 0, 0), (23, 59, 59)):
                    k += 1
                    # every override 0..60 on one date-time of each month (rotating; on all nine in the thorough tier),
                    # three of them elsewhere
                    if ctx.tier == 'thorough' or (d, h) == ((1, 15, last)[(y + m) % 3], (0, 12, 23)[(y // 3 + m) % 3]):
                        ov = range(0, 61)
                    else:
                        ov = (rng.randint(0, 60), rng.choice([0, 1, 10, 27, 37, 60]), rng.random() * 60.0)
                    check_datetime(ctx, Epoch, y, m, d, h, mi, s, 'domain', overrides=ov, exact_q=(h != 0))
    # Delta-T for every year.month -2000..3000
    for y in range(-2000 + shard, 3001, nshards):
        for m in range(1, 13):
            check_deltat(ctx, Epoch, y, m, 'domain')
    # beyond the stated domain: the table for any year, Delta-T for any year
    for _ in range(ctx.n(4000, 40000) // nshards):
        y = rng.choice([rng.randint(-4712, 10000), rng.randint(1960, 2030), rng.randint(-10 ** 6, 10 ** 6)])
        m = rng.randint(1, 12)
        check_table(ctx, Epoch, y, m, 'any_year')
        ctx.case('tt2ut', [y, m], run_impl(lambda: Epoch.tt2ut(y, m)), q=('rel', 1e-9), klass='tt2ut/any_year')
    # random civil date-times with random fractional seconds 1950..2100 (and a few outside)
    for _ in range(ctx.n(6000, 120000) // nshards):
        y = rng.choice([rng.randint(1950, 2100), rng.randint(1968, 2020), rng.randint(1583, 9000), rng.randint(-4712, 1582)])
        m = rng.randint(1, 12)
        d = rng.randint(1, civil_mlen(y, m))
        if y == 1582 and m == 10 and 5 <= d <= 14:
            continue
        h, mi = rng.randint(0, 23), rng.randint(0, 59)
        s = rng.choice([rng.random() * 60.0, float(rng.randint(0, 59)), 59.999, 0.001])
        ov = (rng.choice([1, 27, 37, 60, rng.random() * 60.0]),) if rng.random() < 0.3 else ()
        check_datetime(ctx, Epoch, y, m, d, h, mi, s, 'random', overrides=ov)
    ctx.sample({'call': 'Epoch.leap_seconds(2016, 12)', 'expected': 26})
    ctx.sample({'call': '(Epoch(1973,1,15,utc=True) - Epoch(1973,1,15)) * 86400', 'expected': 44.184})
    ctx.sample({'call': 'Epoch(2016,12,31,23,59,30,utc=True).get_full_date(utc=True)', 'expected': [2016, 12, 31, 23, 59, 30.0]})


def known_match(finding, failure):
    if finding.get('predicate') != failure.get('predicate'):
        return False
    inp = failure.get('input') or []
    for idx, rng_ in (finding.get('ranges') or {}).items():
        i = int(idx)
        if i >= len(inp) or not isinstance(inp[i], (int, float)) or not (rng_[0] <= inp[i] <= rng_[1]):
            return False
    return True


def replay(case):
    from pymeeus.Epoch import Epoch
    import core
    ctx = core.Ctx(PROPERTY, 'quick', 0)
    inp = case.get('input') or []
    kind = inp[0] if inp else None
    if kind == 'utc':
        check_datetime(ctx, Epoch, *inp[1:7], 'replay')
    elif kind == 'override':
        check_override(ctx, Epoch, *inp[1:8], 'replay')
    elif kind == 'ym':
        check_table(ctx, Epoch, inp[1], inp[2], 'replay')
    elif kind == 'ym_dt':
        check_deltat(ctx, Epoch, inp[1], inp[2], 'replay')
    elif kind == 'ym_step':
        a = run_impl(lambda: Epoch.tt2ut(inp[1], inp[2]))
        b = run_impl(lambda: Epoch.tt2ut(inp[3], inp[4]))
        okj = a.startswith('f') and b.startswith('f') and abs(tok_float(a) - tok_float(b)) < 1.0
        ctx.predicate('deltat_joint', okj, list(inp), [a, b], 'replay')
    elif kind == 'table':
        generate_table_only(ctx)
    elif kind == 'ym_any':
        check_leap_any(ctx, Epoch, inp[1], inp[2], 'replay')
    elif kind == 'local':
        check_local(ctx, Epoch, *inp[1:8], 'replay')
    only = case.get('predicate')
    fails = [f for f in ctx.pred_fail if f['predicate'] == only] or ctx.pred_fail
    return (len(fails) > 0, fails)


def generate_table_only(ctx):
    from pymeeus.Epoch import Epoch, LEAP_TABLE
    keys = list(LEAP_TABLE.keys())
    ctx.predicate('leap_table_sorted', keys == sorted(keys), ['table'], None)
    tab = sorted((int(math.floor(k)), 7 if k % 1 else 1) for k in keys)
    ctx.predicate('leap_table_is_iers', tab == IERS and [LEAP_TABLE[k] for k in sorted(keys)] == list(range(1, 28)), ['table'], tab)
    out = run_impl(Epoch.get_last_leap_second)
    ctx.predicate('last_leap_second', out == enc((2016, 12, 31.0, 27)), ['table'], out)
