"""Independent spherical-geometry oracle shared by harness/c05.py and harness/c06.py.

Nothing here is taken from pymeeus: directions are unit vectors, rotations are explicit 3x3
matrices built from the public definitions of the frames, angles between directions are
atan2(|cross|, dot).  All angles in degrees.
"""
import math

rad = math.radians
deg = math.degrees


def dirv(lon, lat):
    l, b = rad(lon), rad(lat)
    cb = math.cos(b)
    return (cb * math.cos(l), cb * math.sin(l), math.sin(b))


def dot(u, v):
    return u[0] * v[0] + u[1] * v[1] + u[2] * v[2]


def cross(u, v):
    return (u[1] * v[2] - u[2] * v[1], u[2] * v[0] - u[0] * v[2], u[0] * v[1] - u[1] * v[0])


def norm(u):
    return math.sqrt(dot(u, u))


def unit(u):
    n = norm(u)
    return (u[0] / n, u[1] / n, u[2] / n)


def vsep(u, v):
    """Angle between two vectors, degrees, atan2(|u x v|, u . v) (well conditioned everywhere)."""
    return deg(math.atan2(norm(cross(u, v)), dot(u, v)))


def sep(lon1, lat1, lon2, lat2):
    return vsep(dirv(lon1, lat1), dirv(lon2, lat2))


def lonlat(v):
    return (deg(math.atan2(v[1], v[0])) % 360.0, deg(math.atan2(v[2], math.hypot(v[0], v[1]))))


def matvec(m, v):
    return tuple(m[i][0] * v[0] + m[i][1] * v[1] + m[i][2] * v[2] for i in range(3))


def transpose(m):
    return tuple(tuple(m[j][i] for j in range(3)) for i in range(3))


def matmul(a, b):
    return tuple(tuple(sum(a[i][k] * b[k][j] for k in range(3)) for j in range(3)) for i in range(3))


def rot_x(a):
    """Frame rotation about x by a degrees: equatorial -> ecliptical for a = obliquity."""
    c, s = math.cos(rad(a)), math.sin(rad(a))
    return ((1, 0, 0), (0, c, s), (0, -s, c))


def rot_z(a):
    """Active rotation about z by a degrees (longitude + a)."""
    c, s = math.cos(rad(a)), math.sin(rad(a))
    return ((c, -s, 0), (s, c, 0), (0, 0, 1))


def rot_y_prec(a):
    """(x, y, z) -> (x cos a - z sin a, y, x sin a + z cos a)."""
    c, s = math.cos(rad(a)), math.sin(rad(a))
    return ((c, 0, -s), (0, 1, 0), (s, 0, c))


def horizontal_matrix(phi):
    """(hour angle, declination) direction -> (azimuth from South towards West, elevation) direction for an
    observer at latitude phi: the zenith is at (H=0, dec=phi), the South point at (H=0, dec=phi-90)."""
    zen = dirv(0.0, phi)
    south = (math.sin(rad(phi)), 0.0, -math.cos(rad(phi)))
    west = (0.0, 1.0, 0.0)        # H = 90 deg, on the equator
    return (south, west, zen)


def galactic_matrix():
    """B1950 definition: galactic pole at RA 192.25, Dec 27.4; the celestial pole has galactic longitude 123."""
    zg = dirv(192.25, 27.4)
    p = (0.0, 0.0, 1.0)
    k = dot(p, zg)
    n = unit((p[0] - k * zg[0], p[1] - k * zg[1], p[2] - k * zg[2]))    # l = 123, b = 0
    m = cross(zg, n)                                                     # l = 213, b = 0
    c, s = math.cos(rad(123.0)), math.sin(rad(123.0))
    xg = tuple(c * n[i] - s * m[i] for i in range(3))
    yg = tuple(s * n[i] + c * m[i] for i in range(3))
    return (xg, yg, zg)


def offset(lon, lat, dist, bearing):
    """The point at angular distance `dist` from (lon, lat) in position angle `bearing` (from North through East)."""
    d, b, l, p = rad(dist), rad(bearing), rad(lon), rad(lat)
    u = dirv(lon, lat)
    n = (-math.sin(p) * math.cos(l), -math.sin(p) * math.sin(l), math.cos(p))
    e = (-math.sin(l), math.cos(l), 0.0)
    t = tuple(math.cos(b) * n[i] + math.sin(b) * e[i] for i in range(3))
    v = tuple(math.cos(d) * u[i] + math.sin(d) * t[i] for i in range(3))
    return lonlat(v)


def wrap180(x):
    """x reduced to [-180, 180) using only exact floating-point steps for |x| < 720."""
    while x >= 180.0:
        x -= 360.0
    while x < -180.0:
        x += 360.0
    return x


def local_components(a1, d1, a2, d2):
    """Components of the direction of body 1 in the orthonormal frame (u2, east2, north2) at body 2, written with the
    differences (a1 - a2), (d1 - d2) so that they stay accurate for nearly coincident bodies:
       dot   = cos(dd) - 2 cos d1 cos d2 sin^2(da/2)
       east  = cos d1 sin da
       north = sin(dd) + 2 sin d2 cos d1 sin^2(da/2)
    |cross| = hypot(east, north)."""
    da = a1 - a2
    if da >= 180.0:
        da = (a1 - 360.0) - a2 if a1 >= 180.0 else a1 - (a2 + 360.0)
    elif da < -180.0:
        da = a1 - (a2 - 360.0) if a2 >= 180.0 else (a1 + 360.0) - a2
    da = rad(da)
    dd = rad(d1 - d2)
    c1, c2, s2 = math.cos(rad(d1)), math.cos(rad(d2)), math.sin(rad(d2))
    h = math.sin(da / 2.0) ** 2
    return (math.cos(dd) - 2.0 * c1 * c2 * h, c1 * math.sin(da), math.sin(dd) + 2.0 * s2 * c1 * h)


def sep_ref(a1, d1, a2, d2):
    dt, e, n = local_components(a1, d1, a2, d2)
    return deg(math.atan2(math.hypot(e, n), dt))


def pa_ref(a1, d1, a2, d2):
    """Position angle of body 1 relative to body 2 (at body 2, from North through East)."""
    dt, e, n = local_components(a1, d1, a2, d2)
    return deg(math.atan2(e, n))


def angdiff(x, y):
    return abs((x - y + 180.0) % 360.0 - 180.0)


def uniform_dir(rng):
    z = rng.uniform(-1.0, 1.0)
    return (rng.uniform(0.0, 360.0), deg(math.asin(z)))


def cap_dir(rng, sign, cap):
    """Uniform in the cap of radius `cap` degrees around the pole of the given sign."""
    h = rng.random() * (1.0 - math.cos(rad(cap)))
    return (rng.uniform(0.0, 360.0), sign * (90.0 - deg(math.acos(1.0 - h))))


def euler_matrix(node, inc, arg):
    """Orientation of an orbit: Rz(node) Rx(inc) Rz(arg) (active)."""
    c, s = math.cos(rad(inc)), math.sin(rad(inc))
    rx = ((1, 0, 0), (0, c, -s), (0, s, c))
    return matmul(rot_z(node), matmul(rx, rot_z(arg)))


def rot_angle(a, b):
    """Angle (degrees) of the rotation a^T b between two rotation matrices (0 when equal)."""
    m = matmul(transpose(a), b)
    # axis-angle: sin from the antisymmetric part, cos from the trace
    sx, sy, sz = m[2][1] - m[1][2], m[0][2] - m[2][0], m[1][0] - m[0][1]
    s = math.sqrt(sx * sx + sy * sy + sz * sz) / 2.0
    c = (m[0][0] + m[1][1] + m[2][2] - 1.0) / 2.0
    return deg(math.atan2(s, c))


# ------------------------------------------------------------------ predicate bookkeeping
_KNOWN = {}


def known_match(finding, failure):
    """A listed finding covers a failure when the predicate is one of `predicates` and every key of `where`
    (a numeric field of the failure's input) lies in the listed closed interval."""
    if failure.get('predicate') not in finding.get('predicates', []):
        return False
    inp = failure.get('input') or {}
    for key, (lo, hi) in (finding.get('where') or {}).items():
        v = inp.get(key)
        if not isinstance(v, (int, float)) or not (lo <= v <= hi):
            return False
    return True


def predicate(ctx, prop, name, ok, inp, detail=None, klass=None, keep=25):
    """ctx.predicate.  (Failures covered by a listed finding are counted and stored only a few times per finding
    and shard by core.Ctx.predicate itself, so that repetitions of a listed finding cannot crowd out a new failure.)"""
    ctx.predicate(name, ok, inp, detail, klass)
