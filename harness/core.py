"""Harness core: line protocol to the Lean model driver, canonical encodings, comparison
rules, evidence writer, known-findings handling.

Every property module (harness/cXX.py) exposes

    PROPERTY  = 'C01'
    def generate(ctx) -> None      # calls ctx.case(...) / ctx.predicate(...)

and this module runs the three parts of a check described in DESIGN.md §0:
 (T) theorem build + axiom audit (harness/lean_build.py),
 (S) the structural tie  : model (Lean, F = binary64, Q = exact) vs the real pymeeus,
 (I) the property's own predicates evaluated on the real pymeeus.
"""
import fractions
import hashlib
import json
import math
import os
import random
import struct
import subprocess
import sys
import tempfile
import time

ROOT = os.path.dirname(os.path.dirname(os.path.abspath(__file__)))
REPO = os.environ.get('VERIF_REPO', '/repo')
LEAN_DIR = os.environ.get('VERIF_LEAN_DIR') or os.path.join(ROOT, 'lean')   # a private copy when several trees are checked at once
DRIVER = os.path.join(LEAN_DIR, '.lake', 'build', 'bin', 'driver')
WORK = os.environ.get('VERIF_WORK_DIR') or os.path.join(ROOT, '.work')
OUT = os.environ.get('VERIF_OUT_DIR') or ROOT     # evidence/ and replays/ live here (a side directory when a changed copy of /repo is checked)

Fraction = fractions.Fraction


# ----------------------------------------------------------------------------- encoding
def fbits(x):
    return struct.unpack('>Q', struct.pack('>d', float(x)))[0]


def from_bits(n):
    return struct.unpack('>d', struct.pack('>Q', n))[0]


def enc(v):
    """Encode one Python value as a driver argument / output token."""
    if v is None:
        return 'None'
    if isinstance(v, bool):
        return 'T' if v else 'F'
    if isinstance(v, int):
        return str(v)
    if isinstance(v, float):
        return 'f%d' % fbits(v)
    if isinstance(v, str):
        return 's' + v.replace(' ', '_')
    if isinstance(v, (list,)):
        return '[' + ','.join(enc(x) for x in v) + ']'
    if isinstance(v, tuple):
        return ' '.join(enc(x) for x in v)
    raise TypeError('cannot encode %r' % (v,))


ERRMAP = {ValueError: 'ValueError', TypeError: 'TypeError', ZeroDivisionError: 'ZeroDivisionError'}


def enc_exc(e):
    for k, name in ERRMAP.items():
        if type(e) is k:
            return 'E:' + name
    return 'E:Other'


def run_impl(fn, *args, **kw):
    """Call the implementation; return the canonical output string."""
    try:
        r = fn(*args, **kw)
    except Exception as e:  # noqa
        return enc_exc(e)
    return enc(r)


def parse_q_token(t):
    """Token of a Q-model output -> Fraction | int | str."""
    if '/' in t and not t.startswith('E:'):
        n, d = t.split('/')
        return Fraction(int(n), int(d))
    return t


def parse_f_token(t):
    if t.startswith('f') and t[1:].isdigit():
        return from_bits(int(t[1:]))
    return t


# ----------------------------------------------------------------------------- driver
def run_driver(lines):
    """Run the model driver on a list of lines; return the list of output lines."""
    if not lines:
        return []
    if not os.path.exists(DRIVER):
        raise RuntimeError('model driver not built: ' + DRIVER)
    data = ('\n'.join(lines) + '\n').encode()
    p = subprocess.run([DRIVER], input=data, stdout=subprocess.PIPE, stderr=subprocess.PIPE)
    if p.returncode != 0:
        raise RuntimeError('driver failed: ' + p.stderr.decode()[-2000:])
    out = p.stdout.decode().split('\n')
    if out and out[-1] == '':
        out.pop()
    if len(out) != len(lines):
        raise RuntimeError('driver returned %d lines for %d inputs' % (len(out), len(lines)))
    return out


def run_driver_parallel(lines, jobs=None):
    jobs = jobs or min(16, os.cpu_count() or 1)
    if len(lines) < 20000 or jobs <= 1:
        return run_driver(lines)
    import concurrent.futures as cf
    n = len(lines)
    size = (n + jobs - 1) // jobs
    chunks = [lines[i:i + size] for i in range(0, n, size)]
    with cf.ThreadPoolExecutor(max_workers=jobs) as ex:
        outs = list(ex.map(run_driver, chunks))
    res = []
    for o in outs:
        res.extend(o)
    return res


# ----------------------------------------------------------------------------- context
class Ctx:
    """Collects cases and predicate results for one property run."""

    def __init__(self, prop, tier, seed, scale=1.0, hot=None):
        self.prop = prop
        self.tier = tier
        self.seed = seed
        self.rng = random.Random((seed * 1000003) ^ int(hashlib.sha1(prop.encode()).hexdigest()[:8], 16))
        self.scale = scale          # >1 when the failing-input search escalates
        self.hot = hot or {'ints': [], 'floats': []}
        self.cases = []             # (fn, argstr, impl_out, qrule, klass)
        self.pred_fail = []         # dicts
        self.known_matcher = None   # callable(failure) -> finding id | None (set by the runner)
        self.noise = None           # history.Noise (set by the runner)
        self.noise_period = 53
        self.known_counts = {}
        self.pred_count = 0
        self.pred_classes = {}
        self.case_classes = {}
        self.samples = []
        self.max_dev = {}
        self.exhaustive = False
        self.notes = []

    def n(self, quick, thorough):
        base = thorough if self.tier == 'thorough' else quick
        return max(1, int(base * self.scale))

    # -- structural tie ------------------------------------------------------
    def _tick(self):
        # history noise (harness/history.py): every so often, call an unrelated public function
        self._ticks = getattr(self, '_ticks', 0) + 1
        if self.noise is not None and self._ticks % (self.noise_period * (1 + self.noise.calls // 200)) == 0:
            self.noise.call(1)      # the period grows with the calls made, so the noise spreads over the whole run

    def case(self, fn, args, impl_out, q='exact', klass=None, f=True):
        """Register one correspondence case.

        fn/args   : driver function and Python argument values
        impl_out  : canonical output string of the implementation (enc()/run_impl())
        q         : None (no Q run) | 'exact' | ('abs', tol) | ('rel', tol) | ('absmod', tol, modulus)   rule for float tokens
        f         : whether the binary64 model must agree bit for bit
        """
        self._tick()
        argstr = ' '.join(enc(a) for a in args)
        self.cases.append((fn, argstr, impl_out, q, klass or fn, f))
        k = klass or fn
        self.case_classes[k] = self.case_classes.get(k, 0) + 1

    # -- property predicates on the implementation ---------------------------
    def predicate(self, name, ok, inp, detail=None, klass=None):
        self._tick()
        self.pred_count += 1
        k = klass or name
        self.pred_classes[k] = self.pred_classes.get(k, 0) + 1
        if not ok:
            f = {'predicate': name, 'input': inp, 'detail': detail}
            # failures inside a listed known finding are counted, and only a few are kept, so that a noisy
            # finding can never crowd a new failure out of the retained list
            kid = self.known_matcher(f) if self.known_matcher else None
            if kid is not None:
                self.known_counts[kid] = self.known_counts.get(kid, 0) + 1
                if self.known_counts[kid] > 3:
                    return
                f['known'] = kid
            if len(self.pred_fail) < 2000:
                self.pred_fail.append(f)
            else:
                self.pred_fail_overflow = getattr(self, 'pred_fail_overflow', 0) + 1

    def deviation(self, name, dev):
        if dev > self.max_dev.get(name, -1.0):
            self.max_dev[name] = dev

    def sample(self, s):
        if len(self.samples) < 12:
            self.samples.append(s)


def compare_cases(ctx):
    """Run the model on all registered cases; return (mismatches, stats)."""
    lines = []
    index = []
    for i, (fn, argstr, impl_out, q, klass, f) in enumerate(ctx.cases):
        if f:
            lines.append('F %s %s' % (fn, argstr)); index.append((i, 'F'))
        if q is not None:
            lines.append('Q %s %s' % (fn, argstr)); index.append((i, 'Q'))
    outs = run_driver_parallel(lines)
    mism = []
    nF = nQ = 0
    for (i, kind), o in zip(index, outs):
        fn, argstr, impl_out, q, klass, f = ctx.cases[i]
        if o.startswith('?'):
            mism.append({'kind': kind, 'fn': fn, 'args': argstr, 'impl': impl_out, 'model': o, 'why': 'driver cannot run this line'})
            continue
        if kind == 'F':
            nF += 1
            if o != impl_out:
                mism.append({'kind': 'F', 'fn': fn, 'args': argstr, 'impl': impl_out, 'model': o,
                             'why': 'binary64 model differs from CPython bit for bit'})
        else:
            nQ += 1
            it = impl_out.split(' ')
            mt = o.split(' ')
            bad = None
            if len(it) != len(mt):
                bad = 'arity'
            else:
                for a, b in zip(it, mt):
                    qa = parse_q_token(b)
                    if isinstance(qa, Fraction):
                        if a.startswith('f'):
                            x = from_bits(int(a[1:]))
                            if math.isnan(x) or math.isinf(x):
                                bad = 'nonfinite'; break
                            dev = abs(Fraction(x) - qa)
                        elif a.lstrip('-').isdigit():
                            dev = abs(Fraction(int(a)) - qa)
                        else:
                            bad = 'type'; break
                        if q == 'exact':
                            if dev != 0:
                                bad = 'value'; break
                        else:
                            mode, tol = q[0], q[1]
                            if mode == 'absmod':
                                # ('absmod', tol, modulus): agreement up to a multiple of the modulus
                                md = Fraction(q[2])
                                dev = dev % md
                                dev = min(dev, md - dev)
                            lim = Fraction(tol) if mode in ('abs', 'absmod') else Fraction(tol) * max(1, abs(qa))
                            ctx.deviation(fn, float(dev))
                            if dev > lim:
                                bad = 'value dev=%g' % float(dev); break
                    else:
                        if a != b:
                            bad = 'token'; break
            if bad:
                mism.append({'kind': 'Q', 'fn': fn, 'args': argstr, 'impl': impl_out, 'model': o,
                             'why': 'exact model differs from the implementation (%s)' % bad})
    return mism, {'F_lines': nF, 'Q_lines': nQ}


# ----------------------------------------------------------------------------- findings
def load_known():
    out = []
    p = os.path.join(ROOT, 'known_findings.json')
    if os.path.exists(p):
        out += json.load(open(p)).get('findings', [])
    d = os.path.join(ROOT, 'findings.d')
    if os.path.isdir(d):
        for fn in sorted(os.listdir(d)):
            if fn.endswith('.json'):
                out += json.load(open(os.path.join(d, fn))).get('findings', [])
    return out


def write_replay(prop, obj):
    d = os.path.join(OUT, 'replays')
    os.makedirs(d, exist_ok=True)
    s = json.dumps(obj, sort_keys=True, indent=1, default=str)
    h = hashlib.sha1(s.encode()).hexdigest()[:12]
    p = os.path.join(d, '%s-%s.json' % (prop, h))
    with open(p, 'w') as f:
        f.write(s + '\n')
    return p


def write_evidence(prop, ev):
    d = os.path.join(OUT, 'evidence')
    os.makedirs(d, exist_ok=True)
    p = os.path.join(d, prop + '.json')
    tmp = p + '.tmp'
    with open(tmp, 'w') as f:
        json.dump(ev, f, indent=1, sort_keys=True, default=str)
        f.write('\n')
    os.replace(tmp, p)
    return p
