"""C01 — calendar date <-> Julian Day is an exact bijection on civil days.

(S) structural tie: GenF/GenQ `epoch_ymd`, `get_date`, `get_month_str`, `is_leap`, `mjd`
    against pymeeus.Epoch, exact (every quantity is an integer or k + 1/2).
(I) predicates on the implementation against an independent day count (oracle below, which
    shares nothing with Meeus' formula: Julian years counted directly, Gregorian dates through
    CPython's datetime ordinal).
"""
import datetime
from core import run_impl, enc

PROPERTY = 'C01'
FUNCTIONS = ['pymeeus/Epoch.py:Epoch._compute_jde', 'pymeeus/Epoch.py:Epoch.get_date',
             'pymeeus/Epoch.py:Epoch._check_values', 'pymeeus/Epoch.py:Epoch.get_month',
             'pymeeus/Epoch.py:Epoch.is_leap', 'pymeeus/Epoch.py:Epoch.is_julian',
             'pymeeus/Epoch.py:Epoch.set', 'pymeeus/Epoch.py:Epoch.mjd', 'pymeeus/Epoch.py:Epoch.jde',
             'pymeeus/Epoch.py:Epoch.__init__', 'pymeeus/base.py:iint']

MANIFEST = dict(
    text=("Lean 4 theorems (Props/C01.lean) about the exact-arithmetic model of Epoch's date<->JDE core, for every "
          "integer year >= -4712 without upper bound: read-back returns the date, consecutive civil dates are 1 day "
          "apart incl. the 1582 reform step, every day number is hit (bijection), validation accepts exactly the days "
          "the month has, the three anchors, month names; added: acceptance IFF (year >= -4712, month 1..12, 1 <= day <= month length) with ValueError for a bad year / month, the month by name validated like the month by number (Feb 29 by name), the reform boundary values 2299159.5 / 2299160.5 themselves, acceptance iff for a fractional day (1 <= day < length + 1) (read-back at any time of day and totality of get_date on JDE >= -0.5 are C16.roundtrip_instant / C16.get_date_total and C02). The model is tied to /repo by running it (binary64 and "
          "exact instantiations) against the real code bit for bit: sampled in quick, all 3.9 million civil dates "
          "-4712..6000 in thorough."),
    note=("Trusted: Lean kernel, Mathlib, axioms propext/Classical.choice/Quot.sound; the hand-written model "
          "(lean/templates/EpochCore.lean) and its correspondence run; string month names restricted to ASCII; "
          "quantities are integers or k+1/2 so binary64 is exact and there is no idealisation gap for this property."),
    technique="Lean 4 proof (staged omega over Meeus' floor recipes) + model/implementation correspondence check",
    ref='6 C01')

YMIN, YMAX = -4712, 6000
MLEN = [31, 28, 31, 30, 31, 30, 31, 31, 30, 31, 30, 31]
SHORT = ['Jan', 'Feb', 'Mar', 'Apr', 'May', 'Jun', 'Jul', 'Aug', 'Sep', 'Oct', 'Nov', 'Dec']
LONG = ['January', 'February', 'March', 'April', 'May', 'June', 'July', 'August', 'September',
        'October', 'November', 'December']


# ------------------------------------------------------------------ independent oracle
def civil_leap(y):
    if y < 1582:
        return y % 4 == 0
    if y == 1582:
        return False
    return y % 4 == 0 and (y % 100 != 0 or y % 400 == 0)


def civil_mlen(y, m):
    return 29 if (m == 2 and civil_leap(y)) else MLEN[m - 1]


def civil_valid(y, m, d):
    if y < YMIN or not (1 <= m <= 12) or not (1 <= d <= civil_mlen(y, m)):
        return False
    if y == 1582 and m == 10 and 5 <= d <= 14:
        return False
    return True


def civil_jd(y, m, d):
    """Julian Day at 0h of a civil date, by counting days (returns a Fraction-free float k+0.5
    as exact Python float; all values < 2^53)."""
    if (y, m, d) >= (1582, 10, 15):
        return datetime.date(y, m, d).toordinal() + 1721424.5 if y <= 9999 else None
    # Julian calendar: days from -4712-01-01 (JD -0.5)
    n = 365 * (y + 4712) + (y + 4712 + 3) // 4
    for mm in range(1, m):
        n += 29 if (mm == 2 and y % 4 == 0) else MLEN[mm - 1]
    n += d - 1
    return n - 0.5


def civil_next(y, m, d):
    if (y, m, d) == (1582, 10, 4):
        return (1582, 10, 15)
    if d < civil_mlen(y, m):
        return (y, m, d + 1)
    if m < 12:
        return (y, m + 1, 1)
    return (y + 1, 1, 1)


# ------------------------------------------------------------------ checks on one date
def check_date(ctx, Epoch, y, m, d, klass, names=False):
    inp = [y, m, d]
    exp = civil_jd(y, m, d)
    try:
        e = Epoch(y, m, d)
        j = e.jde()
    except Exception as ex:  # noqa
        ctx.predicate('valid_date_accepted', False, inp, repr(ex), klass)
        return
    ctx.predicate('jde_equals_day_count', j == exp, inp, {'jde': j, 'expected': exp}, klass)
    back = e.get_date()
    ok = (back[0] == y and back[1] == m and back[2] == d and type(back[0]) is int and type(back[1]) is int)
    ctx.predicate('roundtrip_exact', ok, inp, {'get_date': list(back)}, klass)
    ny, nm, nd = civil_next(y, m, d)
    if ny <= 9999:
        try:
            j2 = Epoch(ny, nm, nd).jde()
            ctx.predicate('consecutive_plus_one', j2 - j == 1.0, inp, {'next': [ny, nm, nd], 'diff': j2 - j}, klass)
        except Exception as ex:  # noqa
            ctx.predicate('consecutive_plus_one', False, inp, repr(ex), klass)
    ctx.predicate('mjd', e.mjd() == j - 2400000.5, inp, None, klass)
    # structural tie
    ctx.case('epoch_ymd', [y, m, d], enc(j), q='exact', klass='epoch_ymd/' + klass)
    if len(ctx.samples) < 6 and (y * 13 + m * 7 + d) % 97 == 0:
        ctx.sample({'call': 'Epoch(%d, %d, %d)' % (y, m, d), 'jde': j, 'independent_day_count': exp,
                    'get_date': list(back), 'model_line': 'F epoch_ymd %d %d %d' % (y, m, d)})
    e2 = Epoch(); e2._jde = j
    ctx.case('get_date', [j], run_impl(e2.get_date), q='exact', klass='get_date/' + klass)
    if names:
        for nm_ in (SHORT[m - 1], LONG[m - 1], SHORT[m - 1].upper(), ' ' + LONG[m - 1].lower() + ' '):
            out = run_impl(lambda: Epoch(y, nm_, d).jde())
            ctx.predicate('month_name_same_jde', out == enc(j), inp + [nm_], out, klass)
            ctx.case('epoch_ymd_name', [y, nm_, d], out, q='exact', klass='epoch_ymd_name')


def check_invalid(ctx, Epoch, y, m, d, klass):
    out = run_impl(lambda: Epoch(y, m, d).jde())
    ctx.predicate('invalid_day_refused', out == 'E:ValueError', [y, m, d], out, klass)
    ctx.case('epoch_ymd', [y, m, d], out, q='exact', klass='epoch_ymd/' + klass)


def check_month(ctx, Epoch, y, m, full):
    """All days of a month (full) or its ends; plus day 0 and the first day past the end."""
    L = civil_mlen(y, m)
    days = range(1, L + 1) if full else sorted({1, 2, L - 1, L})
    for d in days:
        if civil_valid(y, m, d):
            check_date(ctx, Epoch, y, m, d, 'month_end' if d in (1, L) else 'day')
    check_invalid(ctx, Epoch, y, m, L + 1, 'past_end')
    check_invalid(ctx, Epoch, y, m, 0, 'day0')


def generate(ctx, shard=0, nshards=1):
    from pymeeus.Epoch import Epoch
    rng = ctx.rng
    hot_years = [v for v in ctx.hot['ints'] if YMIN <= v <= YMAX]
    if shard == 0:
        # anchors
        for (args, val, name) in (((-4712, 1, 1.5), 0.0, 'jd0'), ((2000, 1, 1.5), 2451545.0, 'j2000')):
            out = run_impl(lambda: Epoch(*args).jde())
            ctx.predicate('anchor_' + name, out == enc(val), list(args), out)
            ctx.case('epoch_ymd', list(args), out, q='exact', klass='anchor')
        out = run_impl(lambda: Epoch(1858, 11, 17).mjd())
        ctx.predicate('anchor_mjd0', out == enc(0.0), [1858, 11, 17], out)
        ctx.case('mjd', [Epoch(1858, 11, 17).jde()], out, q='exact', klass='anchor')
        # every month name form
        for i in range(12):
            for nm_ in (SHORT[i], LONG[i], SHORT[i].lower(), LONG[i].upper(), '  ' + SHORT[i] + ' ',
                        LONG[i][:4], SHORT[i] + 'x', ''):
                out = run_impl(lambda: Epoch.get_month(nm_))
                ctx.case('get_month_str', [nm_], out, q='exact', klass='get_month_str')
                if nm_.strip().capitalize() in (SHORT[i], LONG[i]):
                    ctx.predicate('month_name_number', out == enc(i + 1), [nm_], out)
        for mi in range(-2, 16):
            ctx.case('get_month_int', [mi], run_impl(lambda: Epoch.get_month(mi)), q='exact')
        # reform window, in full, with names
        for (y, m) in ((1582, 9), (1582, 10), (1582, 11), (1582, 2), (1583, 2), (1600, 2), (1700, 2),
                       (1500, 2), (-4712, 1), (-4712, 2), (0, 2), (-1, 2), (-4, 2), (4, 2), (2000, 2),
                       (1900, 2), (6000, 12), (6000, 2)):
            L = civil_mlen(y, m)
            for d in range(1, L + 1):
                if civil_valid(y, m, d):
                    check_date(ctx, Epoch, y, m, d, 'window', names=(d in (1, L)))
            check_invalid(ctx, Epoch, y, m, L + 1, 'past_end')
            check_invalid(ctx, Epoch, y, m, 0, 'day0')
        for d in range(5, 15):
            # 5..14 Oct 1582 do not exist; the property does not say what happens: tie only
            out = run_impl(lambda: Epoch(1582, 10, d).jde())
            ctx.case('epoch_ymd', [1582, 10, d], out, q='exact', klass='reform_gap')
        check_invalid(ctx, Epoch, -4713, 12, 31, 'year_below_range')
        for v in hot_years:
            for yy in (v - 1, v, v + 1):
                if YMIN <= yy <= YMAX:
                    for m in range(1, 13):
                        check_month(ctx, Epoch, yy, m, True)

    if ctx.tier == 'thorough' or ctx.scale > 1.0:
        # exhaustive: every civil date YMIN..YMAX (sharded by year).  Also taken by the quick tier when the
        # source of a modelled function changed (ctx.scale > 1): 40 s buys certainty over the whole domain.
        ctx.exhaustive = True
        for y in range(YMIN + shard, YMAX + 1, nshards):
            for m in range(1, 13):
                check_month(ctx, Epoch, y, m, True)
        return

    n_dates = ctx.n(60000, 600000) // nshards
    for _ in range(n_dates):
        r = rng.random()
        if r < 0.15 and hot_years:
            y = rng.choice(hot_years) + rng.randint(-2, 2)
            y = min(max(y, YMIN), YMAX)
        elif r < 0.35:
            y = rng.choice([1582, 1583, 1581, 1600, 1700, 1800, 1900, 2000, 2100, 2400, 0, -1, -100, -400,
                            100, 400, 1000, 1500, -4712, -4711, 6000, 5999, 4000, 3000]) + rng.randint(-1, 1)
            y = min(max(y, YMIN), YMAX)
        else:
            y = rng.randint(YMIN, YMAX)
        m = rng.randint(1, 12)
        if rng.random() < 0.3:
            check_month(ctx, Epoch, y, m, False)
        else:
            d = rng.randint(1, civil_mlen(y, m))
            if civil_valid(y, m, d):
                check_date(ctx, Epoch, y, m, d, 'random', names=(rng.random() < 0.02))


def replay(case):
    """Re-run one recorded failing case on the implementation; returns (still_fails, text)."""
    from pymeeus.Epoch import Epoch
    import core
    ctx = core.Ctx(PROPERTY, 'quick', 0)
    inp = case.get('input') or []
    y, m, d = inp[0], inp[1], inp[2]
    if civil_valid(y, m, d) if isinstance(m, int) else False:
        check_date(ctx, Epoch, y, m, d, 'replay')
    else:
        check_invalid(ctx, Epoch, y, m, d, 'replay')
    return (len(ctx.pred_fail) > 0, ctx.pred_fail)
