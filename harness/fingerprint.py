"""Source fingerprints of the modelled functions.

The model is written by hand, so the check has to notice when the Python it was written
from changes.  For every modelled function (and table) we keep, in golden/fingerprints.json,
the hash of its docstring-free AST and the multiset of its numeric literals.  A difference does
not by itself say anything about the property: it (a) raises the sampling budget of the
correspondence run and (b) hands the literals that are new in the changed source to the input
generators as "hot" values, because a change that only manifests on a special input almost
always names that input.
"""
import ast
import hashlib
import json
import os
import sys

ROOT = os.path.dirname(os.path.dirname(os.path.abspath(__file__)))
REPO = os.environ.get('VERIF_REPO', '/repo')
GOLDEN = os.path.join(ROOT, 'golden', 'fingerprints.json')

_cache = {}


class _Strip(ast.NodeTransformer):
    def _strip(self, n):
        self.generic_visit(n)
        b = n.body
        if b and isinstance(b[0], ast.Expr) and isinstance(getattr(b[0], 'value', None), ast.Constant) \
                and isinstance(b[0].value.value, str):
            n.body = b[1:] or [ast.Pass()]
        return n
    visit_FunctionDef = _strip
    visit_ClassDef = _strip
    visit_Module = _strip


def _module(path):
    if path not in _cache:
        full = os.path.join(REPO, path)
        try:
            tree = _Strip().visit(ast.parse(open(full).read()))
        except (OSError, SyntaxError):
            tree = None
        _cache[path] = tree
    return _cache[path]


def _find(tree, qual):
    parts = qual.split('.')
    body = tree.body
    node = None
    for p in parts:
        node = None
        for n in body:
            if isinstance(n, (ast.FunctionDef, ast.ClassDef)) and n.name == p:
                node = n
                break
            if isinstance(n, ast.Assign) and any(isinstance(t, ast.Name) and t.id == p for t in n.targets):
                node = n
                break
        if node is None:
            return None
        body = getattr(node, 'body', [])
    return node


def _consts(node):
    ints, floats = [], []
    for n in ast.walk(node):
        if isinstance(n, ast.Constant) and not isinstance(n.value, bool):
            if isinstance(n.value, int):
                ints.append(n.value)
            elif isinstance(n.value, float):
                floats.append(n.value)
    return ints, floats


def current(specs):
    out = {}
    for spec in specs:
        path, qual = spec.split(':')
        tree = _module(path)
        node = _find(tree, qual) if tree is not None else None
        if node is None:
            out[spec] = {'hash': None, 'ints': [], 'floats': []}
            continue
        text = ast.dump(node, include_attributes=False)
        ints, floats = _consts(node)
        big = len(ints) + len(floats) > 400      # tables: keep the hash only
        out[spec] = {'hash': hashlib.sha256(text.encode()).hexdigest()[:24],
                     'ints': [] if big else sorted(ints), 'floats': [] if big else sorted(floats)}
        if isinstance(node, ast.FunctionDef):
            out[spec]['stmts'] = sorted(h for (h, _a, _b, _k) in _statements(node))
    return out


_COMPOUND = (ast.If, ast.For, ast.While, ast.With, ast.Try, ast.FunctionDef, ast.ClassDef)


def _statements(fn):
    """(hash, first line, last line, kind) of every statement of a function: simple statements whole, compound
    statements by their header only (their bodies are statements of their own)."""
    out = []

    def header(n):
        if isinstance(n, ast.If):
            return 'if ' + ast.dump(n.test)
        if isinstance(n, ast.While):
            return 'while ' + ast.dump(n.test)
        if isinstance(n, ast.For):
            return 'for ' + ast.dump(n.target) + ' in ' + ast.dump(n.iter)
        if isinstance(n, ast.With):
            return 'with ' + ' '.join(ast.dump(i) for i in n.items)
        if isinstance(n, ast.Try):
            return 'try'
        return type(n).__name__ + ' ' + getattr(n, 'name', '')

    def walk(body):
        for n in body:
            if not hasattr(n, 'lineno'):      # the Pass that replaces a stripped docstring
                continue
            if isinstance(n, _COMPOUND):
                first = n.lineno
                inner = getattr(n, 'body', None) or []
                last = (inner[0].lineno - 1) if inner and inner[0].lineno > first else first
                kind = 'header'
                if isinstance(n, ast.If) and all(isinstance(b, ast.Raise) for b in n.body) and not n.orelse:
                    kind = 'guard'         # `if c: raise ...`: evaluated whenever control reaches it
                if isinstance(n, (ast.FunctionDef, ast.ClassDef)):
                    kind = 'def'
                out.append((hashlib.sha256(header(n).encode()).hexdigest()[:16], first, max(first, last), kind))
                for field in ('body', 'orelse', 'finalbody'):
                    walk(getattr(n, field, None) or [])
                for h in getattr(n, 'handlers', None) or []:
                    walk(h.body)
            else:
                kind = 'raise' if isinstance(n, ast.Raise) else ('inert' if isinstance(n, (ast.Pass, ast.Global, ast.Nonlocal, ast.Import, ast.ImportFrom)) else 'simple')
                out.append((hashlib.sha256(ast.dump(n).encode()).hexdigest()[:16], n.lineno, getattr(n, 'end_lineno', n.lineno), kind))
    walk(fn.body)
    return out


def changed_statements(changed_specs):
    """Statements of the CURRENT source of the given (changed or new) functions that the golden source of the same
    file does not contain anywhere (a statement moved verbatim into a helper is not new).  Only statements whose
    execution means something are returned: no `raise`, no `pass`/imports, no nested `def` lines.
    -> [{'file': 'pymeeus/X.py', 'fn': qual, 'first': l0, 'last': l1, 'kind': ...}]"""
    gold = json.load(open(GOLDEN)) if os.path.exists(GOLDEN) else {}
    pool = {}
    for spec, g in gold.items():
        f = spec.split(':')[0]
        d = pool.setdefault(f, {})
        for h in g.get('stmts', []):
            d[h] = d.get(h, 0) + 1
    out = []
    for spec in changed_specs:
        path, qual = spec.split(':')
        tree = _module(path)
        node = _find(tree, qual) if tree is not None else None
        if not isinstance(node, ast.FunctionDef):
            continue
        avail = dict(pool.get(path, {}))
        for (h, a, b, kind) in _statements(node):
            if avail.get(h, 0) > 0:
                avail[h] -= 1
                continue
            if kind in ('raise', 'inert', 'def'):
                continue
            out.append({'file': path, 'fn': qual, 'first': a, 'last': b, 'kind': kind})
    return out


def _all_specs(path):
    """Every function, method and module-level assignment of a file as specs."""
    tree = _module(path)
    out = []
    if tree is None:
        return out
    for n in tree.body:
        if isinstance(n, ast.FunctionDef):
            out.append('%s:%s' % (path, n.name))
        elif isinstance(n, ast.ClassDef):
            for f in n.body:
                if isinstance(f, ast.FunctionDef):
                    out.append('%s:%s.%s' % (path, n.name, f.name))
        elif isinstance(n, ast.Assign):
            for t in n.targets:
                if isinstance(t, ast.Name):
                    out.append('%s:%s' % (path, t.id))
    return out


def with_neighbours(specs):
    """The listed specs plus everything else defined in the same files (changes next to a modelled
    function - a helper, a module constant - also raise the sampling budget)."""
    # every module of the package: a modelled function may call into any of them (Coordinates -> Angle, ...)
    pk = os.path.join(REPO, 'pymeeus')
    files = set(s.split(':')[0] for s in specs)
    if os.path.isdir(pk):
        files |= set('pymeeus/' + fn for fn in os.listdir(pk) if fn.endswith('.py'))
    extra = []
    for f in sorted(files):
        extra += _all_specs(f)
    return sorted(set(specs) | set(extra))


def compare(specs):
    gold = json.load(open(GOLDEN)) if os.path.exists(GOLDEN) else {}
    listed = set(specs)
    specs = [s for s in with_neighbours(specs) if s in listed or s in gold]
    # a definition that is new in the file has no golden entry: treat as changed neighbour
    allfiles = set(s.split(':')[0] for s in listed)
    pk = os.path.join(REPO, 'pymeeus')
    if os.path.isdir(pk):
        allfiles |= set('pymeeus/' + fn for fn in os.listdir(pk) if fn.endswith('.py'))
    for f in sorted(allfiles):
        for s2 in _all_specs(f):
            if s2 not in gold and s2 not in specs:
                specs.append(s2)
    cur = current(specs)
    changed, hot_i, hot_f = [], [], []
    for s in specs:
        g = gold.get(s)
        c = cur[s]
        if g is None or g['hash'] != c['hash']:
            changed.append(s)
            if g is not None:
                gi, gf = list(g['ints']), list(g['floats'])
                for v in c['ints']:
                    if v in gi:
                        gi.remove(v)
                    elif abs(v) < 10**7:
                        hot_i.append(v)
                for v in c['floats']:
                    if v in gf:
                        gf.remove(v)
                    else:
                        hot_f.append(v)
    return {'changed': changed, 'hot': {'ints': sorted(set(hot_i)), 'floats': sorted(set(hot_f))}}


def update():
    sys.path.insert(0, os.path.dirname(os.path.abspath(__file__)))
    import importlib
    specs = []
    for i in range(1, 21):
        try:
            mod = importlib.import_module('c%02d' % i)
        except ModuleNotFoundError:
            continue
        specs += getattr(mod, 'FUNCTIONS', [])
    listed = sorted(set(specs))
    specs = with_neighbours(listed)
    cur = current(specs)
    missing = [s for s in listed if cur[s]['hash'] is None]
    if missing:
        print('fingerprint: NOT FOUND in source:', missing)
    os.makedirs(os.path.dirname(GOLDEN), exist_ok=True)
    with open(GOLDEN, 'w') as f:
        json.dump(cur, f, indent=0, sort_keys=True)
        f.write('\n')
    print('fingerprint: %d functions recorded' % len(specs))


if __name__ == '__main__':
    update()
