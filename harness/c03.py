"""C03 — Angle: canonical range, congruence mod 360 and closed arithmetic.

Every unit of work is a JSON-able *spec* (['ctor', ...], ['op', ...], ['un', ...], ['cmp', ...],
['view', ...]); `run_spec` calls the real pymeeus.Angle, evaluates the clauses of the property on
what it returns (I) with an oracle in exact rational arithmetic that shares nothing with the
model, and registers the same call as a correspondence case for the Lean model (S).
"""
import decimal
import math
import operator
from fractions import Fraction

import core
from core import enc, run_impl

PROPERTY = 'C03'
FUNCTIONS = ['pymeeus/Angle.py:Angle.__init__', 'pymeeus/Angle.py:Angle.reduce_deg',
             'pymeeus/Angle.py:Angle.reduce_dms', 'pymeeus/Angle.py:Angle.dms2deg',
             'pymeeus/Angle.py:Angle.set', 'pymeeus/Angle.py:Angle.set_radians', 'pymeeus/Angle.py:Angle.set_ra',
             'pymeeus/Angle.py:Angle.get_ra', 'pymeeus/Angle.py:Angle.rad', 'pymeeus/Angle.py:Angle.to_positive',
             'pymeeus/Angle.py:Angle.__call__', 'pymeeus/Angle.py:Angle.__float__', 'pymeeus/Angle.py:Angle.__int__',
             'pymeeus/Angle.py:Angle.__eq__', 'pymeeus/Angle.py:Angle.__ne__', 'pymeeus/Angle.py:Angle.__lt__',
             'pymeeus/Angle.py:Angle.__ge__', 'pymeeus/Angle.py:Angle.__gt__', 'pymeeus/Angle.py:Angle.__le__',
             'pymeeus/Angle.py:Angle.__neg__', 'pymeeus/Angle.py:Angle.__abs__', 'pymeeus/Angle.py:Angle.__round__',
             'pymeeus/Angle.py:Angle.__mod__', 'pymeeus/Angle.py:Angle.__add__', 'pymeeus/Angle.py:Angle.__sub__',
             'pymeeus/Angle.py:Angle.__mul__', 'pymeeus/Angle.py:Angle.__div__', 'pymeeus/Angle.py:Angle.__truediv__',
             'pymeeus/Angle.py:Angle.__pow__', 'pymeeus/Angle.py:Angle.__imod__', 'pymeeus/Angle.py:Angle.__iadd__',
             'pymeeus/Angle.py:Angle.__isub__', 'pymeeus/Angle.py:Angle.__imul__', 'pymeeus/Angle.py:Angle.__idiv__',
             'pymeeus/Angle.py:Angle.__itruediv__', 'pymeeus/Angle.py:Angle.__ipow__',
             'pymeeus/Angle.py:Angle.__rmod__', 'pymeeus/Angle.py:Angle.__radd__', 'pymeeus/Angle.py:Angle.__rsub__',
             'pymeeus/Angle.py:Angle.__rmul__', 'pymeeus/Angle.py:Angle.__rdiv__',
             'pymeeus/Angle.py:Angle.__rtruediv__', 'pymeeus/Angle.py:Angle.__rpow__', 'pymeeus/base.py:TOL']

MANIFEST = dict(
    text=("Lean 4 theorems (Props/C03.lean) about the exact-arithmetic (Rat) model of Angle.py, for all rationals "
          "without bound: reduce_deg gives |r| < 360, x = r + 360k, keeps the sign and is the identity on (-360, 360); "
          "dms2deg of any three rational pieces is in (-360, 360) and congruent to sigma(|d|+|m|/60+|s|/3600) with "
          "sigma = -1 iff a piece is negative; every constructor shape (number, 1/2/3/>=4 pieces as tuple, list or "
          "separate arguments, copy) reduces to reduce_deg/dms2deg of the intended value and ra= to reduce_deg(15 * that value); each of + - * / % "
          "** (int exponent), unary -, abs, round, in plain, reflected and in-place form and for Angle/int/float operands, "
          "returns reduce_deg of the exact result (hence in range and congruent), division/modulo by zero gives "
          "ZeroDivisionError; to_positive maps (-360, 360) into [0, 360) congruently; get_ra = deg/15; over the reals "
          "(AngleR) radians input is reduce_deg(x*180/pi), rad() = deg*pi/180 and ** with a float/Angle exponent on a "
          "positive base is Angle(real power), a negative base with a fractional exponent raises TypeError, and rad() "
          "after to_positive() is the radian value of the new value. Also proved: every whole number of turns is "
          "stored as 0; every constructor shape that succeeds is in range; reduce_dms returns canonical pieces for any "
          "three rationals; + and * commute, -(-a) = a, a - a = 0, to_positive is idempotent; the order comparisons are "
          "a trichotomy. The model is tied to /repo by "
          "running its binary64 instantiation against CPython bit for bit and its exact instantiation within the "
          "property's tolerance modulo 360; the clauses are evaluated on the implementation with an exact-rational "
          "oracle over boundary-heavy inputs (multiples of 360, +-ulp at 0 and +-360, denormals, -0.0, up to 1e15). "
          "`%` is the sign-symmetric modulo documented in Angle.__mod__: sgn(a)*(|a| mod b). `**` with a float "
          "exponent and a negative base has no real value and is outside the property (correspondence only). "
          "Not carried by any theorem: the size of the binary64 rounding error (checked by (I) only)."),
    note=("Trusted: Lean kernel, Mathlib, axioms propext/Classical.choice/Quot.sound; the hand-written model "
          "(lean/templates/Angle.lean, AngleR.lean) and its correspondence run; the mapping from a Python call to its "
          "argument shape (harness); int arguments below 2**53 enter the model as the equal float; idealisation "
          "binary64 -> Rat/Real modelled, not verified. Three defects found by this check were repaired in /repo "
          "(0a81589 ra= input reduced after *15; 05d4048 dms2deg never returns +-360.0; a256a98 number % Angle uses "
          "the number itself); the model follows the repaired code."),
    technique="Lean 4 proof (floor/mod algebra over Rat, Real for pi) + model/implementation correspondence check",
    ref='6 C03')

TRUSTED = [
    'harness/c03.py maps each Python call Angle(...)/set(...) to its argument shape (none | num | copy | seq | args) and each '
    'operator call to (method, operand kind); tuple and list are the same shape `seq`',
    'Python ints |n| < 2**53 are passed to the model as ofInt n (all int->float conversions in Angle.py are exact there)',
    'oracle of the predicates: exact Fractions of the binary64 operand values; pi to 60 digits; decimal (prec 60) for real powers',
]
ASSUMPTIONS = [
    'Results beyond the double range (int(inf) -> OverflowError inside reduce_deg) are outside model and property.',
    'An Angle divisor with 0 < |value| < tolerance is treated as zero by Angle.__eq__; the predicates accept either outcome there.',
    '`%` is read as the documented sign-symmetric modulo sgn(a)*(|a| mod b) (Python modulo on |a|).',
]
RULE = 'distinct (model function, argument tuple) pairs sent to the model and to the implementation'

PI = Fraction(314159265358979323846264338327950288419716939937510582097494, 10 ** 59)
TOLDEG = Fraction(1, 10 ** 9)
BIG = 10 ** 15


def F(x):
    return Fraction(x)


def tol_for(v):
    return TOLDEG * max(1, abs(v) / 360)


def cdev(r, v):
    """distance of the float r from the exact value v modulo 360"""
    d = (Fraction(r) - v) % 360
    return min(d, 360 - d)


def sgn(v):
    return 1 if v >= 0 else -1


def pymod(x, y):
    return x - y * math.floor(x / y)


def round_half_even(x, n):
    """exact round-half-even of the Fraction x at decimal n (n may be negative)"""
    p = Fraction(10) ** n
    y = x * p
    f = math.floor(y)
    r = y - f
    k = f if r < Fraction(1, 2) else f + 1 if r > Fraction(1, 2) else (f if f % 2 == 0 else f + 1)
    return Fraction(k) / p


# ------------------------------------------------------------------ input generators
def step(x, k):
    for _ in range(abs(k)):
        x = math.nextafter(x, math.inf if k > 0 else -math.inf)
    return x


def gen_float(rng):
    r = rng.random()
    if r < 0.18:
        return rng.uniform(-400.0, 400.0)
    if r < 0.32:
        k = rng.choice([rng.randint(-5, 5), rng.randint(-1000, 1000), rng.randint(-10 ** 12, 10 ** 12)])
        return step(float(360 * k), rng.choice([0, 0, 1, -1, 2, -2, 7]))
    if r < 0.44:
        return rng.choice([0.0, -0.0, 5e-324, -5e-324, 1e-320, -1e-320, 2.2250738585072014e-308,
                           -2.2250738585072014e-308, 1e-20, -1e-20, 1e-300, -1e-300, 2.8e-14, -2.8e-14,
                           -1e-10, 1e-10, 1e-11, -1e-11, rng.uniform(-1, 1) * 5e-310])
    if r < 0.56:
        return step(rng.choice([360.0, -360.0, 720.0, -720.0, 180.0, 1.0, 60.0, 15.0, 24.0]),
                    rng.choice([0, 1, -1, 2, -2, 3, -3]))
    if r < 0.70:
        return rng.choice([-1, 1]) * 10.0 ** rng.uniform(2.5, 15.0)
    if r < 0.80:
        return rng.randint(-2 ** 20, 2 ** 20) / 1024.0
    if r < 0.90:
        return float(rng.choice([rng.randint(-1000, 1000), rng.randint(-BIG, BIG)]))
    return rng.uniform(-1, 1) * 10.0 ** rng.randint(-12, 2)


def gen_int(rng):
    r = rng.random()
    if r < 0.3:
        return rng.randint(-1000, 1000)
    if r < 0.55:
        return 360 * rng.choice([rng.randint(-5, 5), rng.randint(-10 ** 12, 10 ** 12)]) + rng.choice([0, 0, 1, -1])
    if r < 0.7:
        return rng.choice([0, 1, -1, 359, -359, 360, -360, 361, -361, 719, 720, 721, BIG, -BIG, BIG - 1])
    return rng.randint(-BIG, BIG)


def gen_number(rng, hot=None):
    if hot and rng.random() < 0.1:
        v = rng.choice(hot)
        return rng.choice([v, -v, step(float(v), 1), step(float(v), -1)])
    return gen_int(rng) if rng.random() < 0.3 else gen_float(rng)


def gen_angle_value(rng):
    """a value an Angle can hold: a float strictly inside (-360, 360)"""
    r = rng.random()
    if r < 0.35:
        return rng.uniform(-360.0, 360.0)
    if r < 0.5:
        return rng.choice([0.0, -0.0, 5e-324, -5e-324, 1e-20, -1e-20, 2.8e-14, -2.8e-14, 1e-11, -1e-11, 1e-10,
                           -1e-10, 9.9e-11, 359.99999999999994, -359.99999999999994, 359.9999999999999,
                           180.0, -180.0, 90.0, 1.0, -1.0, 15.0, 0.5, 2.0, -2.0, 3.0])
    if r < 0.65:
        return float(rng.randint(-359, 359))
    if r < 0.8:
        return rng.randint(-360 * 1024 + 1, 360 * 1024 - 1) / 1024.0
    if r < 0.9:
        return rng.uniform(-1, 1) * 10.0 ** rng.randint(-15, 0)
    return step(rng.choice([360.0, -360.0]), 0) * (1 - 2.0 ** -rng.randint(20, 53))


def gen_piece(rng, scale):
    """one sexagesimal piece: int or float, mostly non-negative, sometimes overflowing / fractional"""
    r = rng.random()
    if r < 0.35:
        v = rng.randint(0, scale)
    elif r < 0.55:
        v = rng.uniform(0, scale)
    elif r < 0.65:
        v = rng.randint(0, 4 * scale) / 4.0
    elif r < 0.75:
        v = rng.choice([0, 0.0, -0.0, 59, 60, 61, 59.99999999999999, 60.0, 3599, 3600, 3601.5, 359, 360, 361,
                        719.75, 1e-12, 0.5, 1, 86400])
    elif r < 0.9:
        v = rng.choice([rng.randint(0, 100000), rng.uniform(0, 100000.0)])
    else:
        v = rng.choice([rng.randint(0, BIG), 10.0 ** rng.uniform(3, 15)])
    return v


def gen_pieces(rng):
    n = rng.choice([2, 3, 3, 3, 4, 5])
    p = [gen_piece(rng, 400), gen_piece(rng, 70), gen_piece(rng, 70), rng.choice([1, -1, 1.0, -1.0, 0, -0.0, 7, -3.5]), 9][:n]
    r = rng.random()
    if rng.random() < 0.05:
        # just below a whole turn: the binary64 sum rounds up to 360.0 (repaired by 05d4048)
        p[:3] = [360 * rng.randint(0, 3) + 359, 59, 60 - 10.0 ** -rng.uniform(8, 15)][:max(2, min(3, n))]
        if n == 2:
            p[1] = 60 - 10.0 ** -rng.uniform(10, 15)
    if r < 0.2:
        p[0] = 0 if rng.random() < 0.5 else 0.0          # (0, -m, s)
        p[1] = -abs(p[1])
    elif r < 0.5:
        i = rng.randrange(min(n, 3))
        p[i] = -p[i]
    elif r < 0.6:
        for i in range(min(n, 3)):
            if rng.random() < 0.5:
                p[i] = -p[i]
    return p


# ------------------------------------------------------------------ helpers on the implementation
def A():
    from pymeeus.Angle import Angle
    return Angle


def raw_angle(deg, tol=None):
    a = A()()
    a._deg = deg
    if tol is not None:
        a._tol = tol
    return a


def snap(a):
    return (core.fbits(a._deg), repr(a._deg), repr(a._tol), type(a._deg).__name__)


def enc_angle(a):
    return enc((float(a._deg), float(a._tol)))


def ang_arg(a):
    return [float(a._deg), float(a._tol)]


def out_angle(thunk):
    """run; canonical output of an Angle-valued call"""
    try:
        r = thunk()
    except Exception as e:  # noqa
        return None, core.enc_exc(e)
    if not isinstance(r, A()):
        return r, 'E:NotAnAngle'
    if not isinstance(r._deg, float):
        return r, 'E:DegNotFloat'
    return r, enc_angle(r)


# ------------------------------------------------------------------ constructor specs
def intended(kind, payload, kw):
    """exact value the call denotes (Fraction) or ('error', class) ; sign carrier rule of the property"""
    if kind == 'none':
        v = Fraction(0)
    elif kind == 'copy':
        v = F(payload[0])
    elif kind == 'num':
        v = F(payload)
        if kw == 'rad':
            v = v * 180 / PI
    else:
        p = payload
        if len(p) == 0:
            return ('error', 'TypeError')
        if len(p) == 1:
            v = F(p[0])
            if kw == 'rad':
                v = v * 180 / PI
        else:
            neg = any(x < 0 for x in p[:4]) if len(p) >= 4 else any(x < 0 for x in p)
            d = abs(F(p[0])); m = abs(F(p[1])); s = abs(F(p[2])) if len(p) >= 3 else 0
            v = (d + m / 60 + s / 3600) * (-1 if neg else 1)
    if kw == 'ra':
        v = v * 15
    return v


KW = {'': {}, 'ra': {'ra': True}, 'rad': {'radians': True},
      # the flags spelled out as False: the same call as without them
      'rad0': {'radians': False}, 'ra0': {'ra': False}, 'both0': {'radians': False, 'ra': False}}
OFF = ('rad0', 'ra0', 'both0')


def build(kind, payload, kw, via):
    Angle = A()
    kwargs = dict(KW[kw])
    if kind == 'none':
        args = ()
    elif kind == 'num':
        args = (payload,)
    elif kind == 'seq_t':
        args = (tuple(payload),)
    elif kind == 'seq_l':
        args = (list(payload),)
    elif kind == 'args':
        args = tuple(payload)
    elif kind == 'copy':
        args = (raw_angle(payload[0], payload[1]),)
    if via == 'new':
        return Angle(*args, **kwargs), args
    a = Angle(77.25)
    if via == 'set':
        a.set(*args, **kwargs)
    elif via == 'set_ra':
        a.set_ra(*args)
    elif via == 'set_radians':
        a.set_radians(*args)
    return a, args


def run_ctor(ctx, spec):
    _, kind, payload, kw, via = spec
    klass = 'ctor/%s/%s%s' % (kind, kw or 'deg', '' if via == 'new' else '/' + via)
    v = intended(kind, payload, kw)
    before = repr(payload)
    res = {}

    def thunk():
        a, args = build(kind, payload, kw, via)
        res['args'] = args
        return a
    a, out = out_angle(thunk)
    # (S) correspondence
    tag = {'seq_t': 'seq', 'seq_l': 'seq'}.get(kind, kind)
    pl = 0 if kind == 'none' else payload
    overflow = (out == 'E:Other')
    if not overflow:
        qrule = None if isinstance(v, tuple) else ('absmod', tol_for(v) * 2, 360)
        if isinstance(v, tuple):
            qrule = 'exact'
        if via == 'new':
            if kw == 'rad':
                ctx.case('angle_new_kw', [True, False, tag, pl], out, q=None, klass='S/' + klass)
            elif kw in OFF:
                ctx.case('angle_new_kw', [False, False, tag, pl], out, q=None, klass='S/' + klass)
            else:
                ctx.case('angle_new', [kw == 'ra', tag, pl], out, q=qrule, klass='S/' + klass)
        elif via in ('set', 'set_ra') and kw != 'rad' and kw not in OFF:
            ctx.case('angle_set', [[77.25, 1e-10], kw == 'ra' or via == 'set_ra', tag, pl], out, q=qrule, klass='S/' + klass)
        elif via == 'set_radians':
            ctx.case('set_radians', [[77.25, 1e-10], payload], out, q=None, klass='S/' + klass)
    # (I) predicates
    if isinstance(v, tuple):
        ctx.predicate('ctor_rejects_empty_sequence', out == 'E:' + v[1], spec, out, klass)
        return
    if overflow:
        return
    if a is None or out.startswith('E:'):
        ctx.predicate('ctor_accepts_finite_number', False, spec, out, klass)
        return
    r = a._deg
    ctx.predicate('ctor_in_range', -360.0 < r < 360.0, spec, {'value': r}, klass)
    ctx.predicate('ctor_sign_of_input', (r >= 0 if v > 0 else r <= 0 if v < 0 else r == 0), spec, {'value': r}, klass)
    dev = cdev(r, v)
    ctx.deviation('ctor_congruence_deg', float(dev / max(1, abs(v) / 360)))
    ctx.predicate('ctor_congruent_mod_360', dev <= tol_for(v), spec, {'value': r, 'dev': float(dev)}, klass)
    if abs(v) < 360 and kind in ('num',) and kw == '':
        ctx.predicate('ctor_identity_inside_range', r == payload and type(r) is float, spec, {'value': r}, klass)
    ctx.predicate('ctor_argument_unchanged', repr(payload) == before, spec, None, klass)
    if kind == 'copy':
        ctx.predicate('copy_same_value_and_tolerance',
                      (core.fbits(r) == core.fbits(payload[0]) and a._tol == payload[1]) if kw == '' else True,
                      spec, {'value': r, 'tol': a._tol}, klass)


def run_forms(ctx, spec):
    """tuple = list = separate arguments (= set after construction), bit for bit"""
    _, payload, kw = spec
    Angle = A()
    kwargs = dict(KW[kw])
    vals = {}
    lst = list(payload)
    for name, th in (('args', lambda: Angle(*payload, **kwargs)), ('tuple', lambda: Angle(tuple(payload), **kwargs)),
                     ('list', lambda: Angle(lst, **kwargs))):
        vals[name] = run_impl(lambda: th()())
    b = Angle(1.5)
    vals['set'] = run_impl(lambda: (b.set(*payload, **kwargs), b())[1])
    ok = len(set(vals.values())) == 1
    ctx.predicate('ctor_forms_agree', ok, spec, vals, 'forms/%d%s' % (len(payload), kw))
    ctx.predicate('ctor_argument_unchanged', lst == list(payload) and all(type(x) is type(y) for x, y in zip(lst, payload)),
                  spec, None, 'forms/list')


# ------------------------------------------------------------------ operator specs
PLAIN = {'add': operator.add, 'sub': operator.sub, 'mul': operator.mul, 'div': operator.truediv,
         'mod': operator.mod, 'pow': operator.pow}
INPL = {'iadd': operator.iadd, 'isub': operator.isub, 'imul': operator.imul, 'idiv': operator.itruediv,
        'imod': operator.imod, 'ipow': operator.ipow}
REFL = {'radd': '__radd__', 'rsub': '__rsub__', 'rmul': '__rmul__', 'rdiv': '__rtruediv__', 'rmod': '__rmod__',
        'rpow': '__rpow__'}
BASEOP = {'add': 'add', 'sub': 'sub', 'mul': 'mul', 'div': 'div', 'mod': 'mod', 'pow': 'pow'}


def real_pow(x, y):
    """x ** y for Fractions, x > 0 or y an integer; None if outside / too large"""
    if y.denominator == 1:
        n = int(y)
        if x == 0 and n < 0:
            return ('error', 'ZeroDivisionError')
        if abs(n) > 64:
            return None
        if x != 0 and abs(n) * abs(math.log10(abs(float(x))) if x != 0 else 0) > 290:
            return None
        return x ** n
    if x < 0:
        return None      # complex: outside the property
    if x == 0:
        return ('error', 'ZeroDivisionError') if y < 0 else Fraction(0)
    if abs(float(y) * math.log10(float(x))) > 290:
        return None
    with decimal.localcontext() as c:
        c.prec = 70
        dx = decimal.Decimal(x.numerator) / decimal.Decimal(x.denominator)
        dy = decimal.Decimal(y.numerator) / decimal.Decimal(y.denominator)
        return Fraction(dx ** dy)


def exact_op(base, X, Y):
    """X <op> Y on exact values; ('error', cls) | Fraction | None (outside the property)"""
    if base == 'add':
        return X + Y
    if base == 'sub':
        return X - Y
    if base == 'mul':
        return X * Y
    if base == 'div':
        return ('error', 'ZeroDivisionError') if Y == 0 else X / Y
    if base == 'mod':
        return ('error', 'ZeroDivisionError') if Y == 0 else sgn(X) * pymod(abs(X), Y)
    if base == 'pow':
        return real_pow(X, Y)


def run_op(ctx, spec):
    _, name, adeg, bkind, bval = spec
    Angle = A()
    a = Angle(adeg)
    if core.fbits(a._deg) != core.fbits(adeg):
        ctx.predicate('ctor_identity_inside_range', False, spec, {'value': a._deg})
        return
    b = Angle(bval) if bkind == 'ang' else bval
    if bkind == 'ang' and core.fbits(b._deg) != core.fbits(float(bval)):
        return
    sa = snap(a)
    sb = snap(b) if bkind == 'ang' else repr(b)
    natural = True
    if name in PLAIN:
        base, th = name, (lambda: PLAIN[name](a, b))
    elif name in INPL:
        base = name[1:]

        def th():
            x = a
            x = INPL[name](x, b)
            return x
    else:
        base = name[1:]
        if bkind == 'ang':
            natural = False
            th = (lambda: getattr(a, REFL[name])(b))
        else:
            th = (lambda: PLAIN[base](b, a))
    r, out = out_angle(th)
    klass = 'op/%s/%s' % (name, bkind)
    Av = F(a._deg)
    Bv = F(b._deg) if bkind == 'ang' else F(bval)
    X, Y = (Bv, Av) if name in REFL else (Av, Bv)
    v = exact_op(base, X, Y)
    # (S)  (the exact model has no overflow; an Angle divisor is tested against the tolerance on the same
    #       binary64 values in both instantiations, so error outcomes agree exactly)
    overflow = (out == 'E:Other')
    barg = ang_arg(b) if bkind == 'ang' else bval
    if out.startswith('E:'):
        qrule = None if overflow else 'exact'
    elif v is None or isinstance(v, tuple):
        qrule = None
    else:
        qrule = ('absmod', tol_for(v) * 2, 360)
    if base == 'pow' and overflow and v is None:
        pass    # negative base, fractional exponent, complex overflow: outside model and property
    elif base == 'pow':
        if bkind == 'int' and name != 'rpow':
            ctx.case('pow_int', [ang_arg(a), bval], out, q=qrule, klass='S/' + klass)
        else:
            ctx.case('rpow' if name == 'rpow' else 'pow', [ang_arg(a), barg], out, q=None, klass='S/' + klass)
    elif not overflow:
        ctx.case('binop', [name, ang_arg(a), barg], out, q=qrule, klass='S/' + klass)
    # (I)
    ctx.predicate('op_operands_unchanged', snap(a) == sa and (snap(b) if bkind == 'ang' else repr(b)) == sb,
                  spec, {'a': snap(a), 'b': repr(b)}, klass)
    if v is None or overflow and not isinstance(v, tuple) and abs(v) > Fraction(10) ** 290:
        return
    if isinstance(v, tuple):
        ctx.predicate('op_zero_division_raises', out == 'E:' + v[1], spec, out, klass + '/zero')
        return
    if base == 'div':
        zero_like = (name in REFL or bkind == 'ang') and abs(Y) < Fraction(1, 10 ** 10) * (1 + Fraction(1, 10 ** 6))
        if zero_like:
            ctx.predicate('op_tiny_angle_divisor', out == 'E:ZeroDivisionError' or not out.startswith('E:'), spec, out, klass + '/tiny')
            if out.startswith('E:'):
                return
    if out.startswith('E:'):
        ctx.predicate('op_returns_angle', False, spec, out, klass)
        return
    ctx.predicate('op_returns_angle', r is not a and r is not b, spec, out, klass)
    rv = r._deg
    ctx.predicate('op_in_range', -360.0 < rv < 360.0, spec, {'value': rv}, klass)
    dev = cdev(rv, v)
    ctx.deviation('op_congruence_deg', float(dev / max(1, abs(v) / 360)))
    ctx.predicate('op_congruent_mod_360', dev <= tol_for(v), spec, {'value': rv, 'exact': float(v), 'dev': float(dev)}, klass)


# ------------------------------------------------------------------ unary, comparisons, views
def run_un(ctx, spec):
    _, name, adeg, n = spec
    Angle = A()
    a = Angle(adeg)
    sa = snap(a)
    Av = F(a._deg)
    klass = 'un/' + name
    if name == 'to_positive':
        r, out = out_angle(lambda: a.to_positive())
        ctx.case('to_positive', [[adeg, 1e-10]], out, q=('absmod', TOLDEG, 360), klass='S/' + klass)
        if out.startswith('E:'):
            ctx.predicate('to_positive_in_0_360', False, spec, out, klass)
            return
        ctx.predicate('to_positive_returns_self', r is a, spec, None, klass)
        ctx.predicate('to_positive_in_0_360', 0.0 <= a._deg < 360.0, spec, {'value': a._deg}, klass)
        ctx.predicate('to_positive_congruent', cdev(a._deg, Av) <= TOLDEG, spec, {'value': a._deg}, klass)
        if Av >= 0:
            ctx.predicate('to_positive_identity_when_nonnegative', core.fbits(a._deg) == core.fbits(adeg), spec, None, klass)
        return
    if name == 'neg':
        th, v, fn, args = (lambda: -a), -Av, 'neg', [[adeg, 1e-10]]
    elif name == 'abs':
        th, v, fn, args = (lambda: abs(a)), abs(Av), 'abs', [[adeg, 1e-10]]
    elif name == 'round':
        th = (lambda: round(a)) if n is None else (lambda: round(a, n))
        v, fn, args = round_half_even(Av, n or 0), 'round', [[adeg, 1e-10], n or 0]
    r, out = out_angle(th)
    ctx.case(fn, args, out, q=('absmod', TOLDEG, 360), klass='S/' + klass)
    ctx.predicate('op_operands_unchanged', snap(a) == sa, spec, None, klass)
    if out.startswith('E:'):
        ctx.predicate('op_returns_angle', False, spec, out, klass)
        return
    ctx.predicate('op_returns_angle', r is not a, spec, out, klass)
    ctx.predicate('op_in_range', -360.0 < r._deg < 360.0, spec, {'value': r._deg}, klass)
    ctx.predicate('op_congruent_mod_360', cdev(r._deg, v) <= TOLDEG, spec, {'value': r._deg, 'exact': float(v)}, klass)


CMP = {'eq': operator.eq, 'ne': operator.ne, 'lt': operator.lt, 'le': operator.le, 'gt': operator.gt, 'ge': operator.ge}


def run_cmp(ctx, spec):
    _, adeg, bkind, bval = spec
    Angle = A()
    a = Angle(adeg)
    b = Angle(bval) if bkind == 'ang' else bval
    Av = F(a._deg)
    Bv = F(b._deg) if bkind == 'ang' else F(bval)
    sa = snap(a)
    near_tol = abs(abs(Av - Bv) - Fraction(1, 10 ** 10)) < Fraction(1, 10 ** 20)
    for nm, f in CMP.items():
        out = run_impl(lambda: f(a, b))
        ctx.case('cmp', [nm, ang_arg(a), ang_arg(b) if bkind == 'ang' else bval], out,
                 q=(None if near_tol and nm in ('eq', 'ne') else 'exact'), klass='S/cmp/' + nm)
        exp = {'lt': Av < Bv, 'le': Av <= Bv, 'gt': Av > Bv, 'ge': Av >= Bv}.get(nm)
        if exp is not None:
            ctx.predicate('comparison_orders_values', out == enc(exp), spec + [nm], out, 'cmp/' + nm)
        elif not near_tol:
            e = abs(Av - Bv) < Fraction(1, 10 ** 10)
            ctx.predicate('equality_within_tolerance', out == enc(e if nm == 'eq' else not e), spec + [nm], out, 'cmp/' + nm)
    ctx.predicate('op_operands_unchanged', snap(a) == sa, spec, None, 'cmp')


def run_view(ctx, spec):
    _, adeg = spec
    a = A()(adeg)
    Av = F(a._deg)
    ctx.case('rad', [ang_arg(a)], run_impl(a.rad), q=None, klass='S/view/rad')
    ctx.case('get_ra', [ang_arg(a)], run_impl(a.get_ra), q=('abs', 1e-12), klass='S/view/get_ra')
    ctx.case('angle_int', [ang_arg(a)], run_impl(lambda: int(a)), q='exact', klass='S/view/int')
    rad = a.rad()
    ra = a.get_ra()
    ctx.predicate('rad_is_value_times_pi_over_180', abs(F(rad) - Av * PI / 180) <= abs(Av) * Fraction(1, 10 ** 14) + Fraction(1, 10 ** 320),
                  spec, {'rad': rad}, 'view/rad')
    ctx.predicate('get_ra_is_value_over_15', abs(F(ra) - Av / 15) <= abs(Av) * Fraction(1, 10 ** 15) + Fraction(1, 10 ** 320), spec, {'ra': ra}, 'view/ra')
    ctx.predicate('call_and_float_return_value', a() == adeg and float(a) == adeg and core.fbits(a()) == core.fbits(a._deg),
                  spec, None, 'view/call')
    # positive form via a copy
    b = A()(a)
    b.to_positive()
    ctx.predicate('to_positive_in_0_360', 0.0 <= b._deg < 360.0, spec, {'value': b._deg}, 'view/to_positive')
    ctx.predicate('to_positive_congruent', cdev(b._deg, Av) <= TOLDEG, spec, {'value': b._deg}, 'view/to_positive')
    ctx.predicate('op_operands_unchanged', core.fbits(a._deg) == core.fbits(adeg), spec, None, 'view/copy_independent')


def run_reduce(ctx, spec):
    """the static helpers on raw numbers"""
    _, fn, args = spec
    Angle = A()
    if fn == 'reduce_deg':
        x = args[0]
        out = run_impl(lambda: Angle.reduce_deg(x))
        ctx.case('reduce_deg', [x], out, q='exact', klass='S/reduce_deg/' + type(x).__name__)
        if out.startswith('E:'):
            ctx.predicate('ctor_accepts_finite_number', False, spec, out, 'reduce_deg')
            return
        r = Angle.reduce_deg(x)
        X = F(x)
        ctx.predicate('reduce_deg_exact', type(r) is float and F(r) == sgn(X) * pymod(abs(X), 360) and -360.0 < r < 360.0,
                      spec, {'value': r}, 'reduce_deg')
    elif fn == 'dms2deg':
        out = run_impl(lambda: Angle.dms2deg(*args))
        v = intended('args', list(args), '')
        full = list(args) + [0.0] * (3 - len(args))
        ctx.case('dms2deg', full, out, q=('absmod', tol_for(v) * 2, 360), klass='S/dms2deg')
        # an int `seconds` comes back as the equal int; the model's Num is the equal float (see TRUSTED)
        out2 = run_impl(lambda: (lambda d, m, s, sg: (d, m, float(s), sg))(*Angle.reduce_dms(*args)))
        ctx.case('reduce_dms', full, out2, q=None, klass='S/reduce_dms')
        if out.startswith('E:'):
            if out != 'E:Other':
                ctx.predicate('ctor_accepts_finite_number', False, spec, out, 'dms2deg')
            return
        r = Angle.dms2deg(*args)
        ctx.predicate('ctor_in_range', -360.0 < r < 360.0, spec, {'value': r}, 'dms2deg')
        ctx.predicate('ctor_congruent_mod_360', cdev(r, v) <= tol_for(v), spec, {'value': r}, 'dms2deg')
        if not out2.startswith('E:'):
            d, m, s, sg = Angle.reduce_dms(*args)
            ctx.predicate('reduce_dms_canonical', type(d) is int and type(m) is int and 0 <= d < 360 and 0 <= m < 60
                          and 0 <= s < 60 and sg in (1.0, -1.0), spec, [d, m, s, sg], 'reduce_dms')


RUNNERS = {'ctor': run_ctor, 'forms': run_forms, 'op': run_op, 'un': run_un, 'cmp': run_cmp, 'view': run_view,
           'static': run_reduce}


def run_spec(ctx, spec):
    RUNNERS[spec[0]](ctx, spec)


# ------------------------------------------------------------------ generation
def fixed_specs():
    s = []
    for x in (0, 0.0, -0.0, 360, -360, 360.0, -360.0, 720, 1e15, -1e15, BIG, -BIG, 359.99999999999994, -359.99999999999994,
              360.00000000000006, 5e-324, -5e-324, -1e-20, 1e-20, 725.5, -725.5):
        s.append(['static', 'reduce_deg', [x]])
        for via in ('new', 'set'):
            s.append(['ctor', 'num', x, '', via])
            s.append(['ctor', 'seq_t', [x], '', via])
            s.append(['ctor', 'seq_l', [x], '', via])
        s.append(['ctor', 'num', x, 'rad', 'new'])
        for off in OFF:
            s.append(['ctor', 'num', x, off, 'new'])
            s.append(['ctor', 'seq_l', [x], off, 'new'])
            s.append(['ctor', 'seq_t', [x], off, 'new'])
            s.append(['ctor', 'seq_l', [x], off, 'set'])
        s.append(['ctor', 'seq_l', [x], 'rad', 'new'])
        s.append(['ctor', 'seq_t', [x], 'rad', 'new'])
        s.append(['ctor', 'num', x, 'rad', 'set_radians'])
        if abs(x) < 24:
            s.append(['ctor', 'num', x, 'ra', 'new'])
            s.append(['ctor', 'num', x, 'ra', 'set_ra'])
    s.append(['ctor', 'none', 0, '', 'new'])
    s.append(['ctor', 'none', 0, '', 'set'])
    s.append(['ctor', 'seq_t', [], '', 'new'])
    s.append(['ctor', 'seq_l', [], '', 'new'])
    s.append(['ctor', 'seq_l', [], '', 'set'])
    for p in ([0, -5, 30.0], [0, 0, -30.0], [-0.0, 5, 3], [12, 59, 60], [12, 59.5, 59.99999999999999], [359, 59, 60.0],
              [-359, 59, 60.0], [10, 120, 7200], [10.5, 30.5, 30.5], [23, 26, 44.82, -1], [23, 26, 44.82, 1, 5],
              [-23, -26, -44.82], [23.44694444, 0], [1e15, 1e15, 1e15], [0, 0, 1296000],
              [359, 59, 59.99999999999999], [-359, 59, 59.99999999999999], [359, 59.99999999999999], [719, 59, 59.9999999999]):
        for kind in ('args', 'seq_t', 'seq_l'):
            s.append(['ctor', kind, p, '', 'new'])
        s.append(['forms', p, ''])
        s.append(['static', 'dms2deg', p[:3]])
    for h in (24, 25.5, -30):
        s.append(['ctor', 'num', h, 'ra', 'new'])
    for p in ([23, 59, 59.999], [9, 14, 55.8], [-1, 0, 0], [12, 0], [0, -5, 30.0]):
        s.append(['ctor', 'args', p, 'ra', 'new'])
        s.append(['forms', p, 'ra'])
    # the to_positive corner repaired by 92ff91c, and its neighbours
    for x in (-1e-20, -5e-324, -2.8e-14, -2.9e-14, -5.7e-14, -0.0, 0.0, -359.99999999999994, 359.99999999999994, -1e-300, -180.0):
        s.append(['un', 'to_positive', x, None])
        s.append(['view', x])
    # division by zero in every spelling
    for a in (30.0, 0.0, -12.5):
        for nm in ('div', 'idiv', 'mod', 'imod'):
            for bk, bv in (('int', 0), ('flt', 0.0), ('flt', -0.0), ('ang', 0.0), ('ang', -0.0)):
                s.append(['op', nm, a, bk, bv])
        s.append(['op', 'pow', 0.0, 'int', -1])
        s.append(['op', 'ipow', 0.0, 'int', -2])
        s.append(['op', 'pow', 0.0, 'flt', -1.5])
    for bk, bv in (('int', 5), ('flt', 2.5), ('int', 0), ('ang', 10.0)):
        for z in (0.0, -0.0):
            s.append(['op', 'rdiv', z, bk, bv])
            s.append(['op', 'rmod', z, bk, bv])
    # tiny Angle divisors around the tolerance
    for z in (1e-11, -1e-11, 9.9e-11, 1.1e-10, 1e-10, 5e-324):
        s.append(['op', 'div', 30.0, 'ang', z])
        s.append(['op', 'rdiv', z, 'flt', 2.0])
        s.append(['op', 'div', 30.0, 'flt', z])
    # number % Angle with the number beyond one turn
    for b in (725, 725.0, -725, 365, 359, 1000000.25):
        s.append(['op', 'rmod', 50.0, 'int' if isinstance(b, int) else 'flt', b])
    return s


OPS_ALL = list(PLAIN) + list(INPL) + list(REFL)


def gen_op_spec(rng, hot):
    name = rng.choice(OPS_ALL)
    base = name if name in PLAIN else name[1:]
    a = gen_angle_value(rng)
    bk = rng.choice(['ang', 'int', 'flt'])
    if base == 'pow':
        if name == 'rpow':
            a = rng.choice([a, float(rng.randint(-6, 6)), rng.uniform(-8, 8), rng.uniform(0, 3)])
            bk = rng.choice(['int', 'flt', 'ang'])
            b = rng.randint(-12, 12) if bk == 'int' else rng.choice([rng.uniform(0, 20), rng.uniform(-20, 20), 0.0, 1.0, 2.0, 10.0, 0.5])
        elif bk == 'int':
            b = rng.choice([rng.randint(-6, 8), rng.randint(-3, 3), 0, 1, 2, -1, rng.randint(-200, 200)])
        else:
            b = rng.choice([rng.uniform(-4, 6), float(rng.randint(-4, 6)), 0.5, -0.5, 0.0, 1.0, 2.0, 1e-3])
            if rng.random() < 0.7:
                a = abs(a)
        return ['op', name, a, bk, b]
    if bk == 'ang':
        b = gen_angle_value(rng)
    elif bk == 'int':
        b = gen_int(rng)
    else:
        b = gen_float(rng)
    if base in ('div', 'mod') and rng.random() < 0.06:
        b = 0 if bk == 'int' else rng.choice([0.0, -0.0])
    if name in ('rdiv', 'rmod') and rng.random() < 0.06:
        a = rng.choice([0.0, -0.0])
    if base == 'mod' and rng.random() < 0.3:
        b = rng.choice([1, 60, 360, 90, -50, 7]) if bk == 'int' else rng.choice([1.0, 60.0, 360.0, 0.1, -50.0, 7.5, 1e-3]) if bk == 'flt' else rng.choice([1.0, 60.0, 90.0, -50.0, 0.1])
    if hot and rng.random() < 0.05 and bk != 'ang':
        b = rng.choice(hot)
        bk = 'int' if isinstance(b, int) else 'flt'
    return ['op', name, a, bk, b]


def gen_specs(ctx, count):
    rng = ctx.rng
    hot = [v for v in (ctx.hot['ints'] + ctx.hot['floats']) if isinstance(v, (int, float)) and abs(v) <= BIG]
    for _ in range(count):
        r = rng.random()
        if r < 0.22:
            x = gen_number(rng, hot)
            k = rng.random()
            if k < 0.3:
                yield ['static', 'reduce_deg', [x]]
            elif k < 0.6:
                kind = rng.choice(['num', 'num', 'seq_t', 'seq_l'])
                yield ['ctor', kind, x if kind == 'num' else [x], '', rng.choice(['new', 'new', 'set'])]
            elif k < 0.8:
                kind = rng.choice(['num', 'num', 'seq_t', 'seq_l'])
                yield ['ctor', kind, x if kind == 'num' else [x], 'rad', rng.choice(['new', 'set', 'set_radians']) if kind == 'num' else 'new']
            else:
                h = x if rng.random() < 0.4 else rng.choice([rng.uniform(-24, 24), step(24.0, -1), step(-24.0, 1), rng.randint(-23, 23),
                                                            gen_angle_value(rng) / 15.0, 24, 24.0, -24, 48.0, step(24.0, 1)])
                yield ['ctor', 'num', h, 'ra', rng.choice(['new', 'set', 'set_ra'])]
        elif r < 0.40:
            p = gen_pieces(rng)
            k = rng.random()
            if k < 0.45:
                yield ['ctor', rng.choice(['args', 'seq_t', 'seq_l']), p, rng.choice(['', '', '', 'rad', 'rad0', 'ra0', 'both0']), rng.choice(['new', 'new', 'set'])]
            elif k < 0.6:
                if rng.random() < 0.5:
                    p = [rng.choice([rng.randint(0, 23), rng.uniform(0, 23), 23, 24]), rng.choice([rng.randint(0, 59), rng.uniform(0, 59), 59, 60]),
                         rng.choice([rng.randint(0, 59), rng.uniform(0, 59.9), 59.99999999999999, 60])][:max(2, min(3, len(p)))]
                    if rng.random() < 0.4:
                        i = rng.randrange(len(p)); p[i] = -p[i]
                yield ['ctor', rng.choice(['args', 'seq_t', 'seq_l']), p, 'ra', rng.choice(['new', 'set_ra'])]
            elif k < 0.8:
                yield ['forms', p, rng.choice(['', '', 'ra', 'rad'])]
            else:
                yield ['static', 'dms2deg', p[:3]]
        elif r < 0.44:
            yield ['ctor', 'copy', [gen_angle_value(rng), rng.choice([1e-10, 1e-10, 1e-6, 0.5])], '', rng.choice(['new', 'set'])]
        elif r < 0.80:
            yield gen_op_spec(rng, hot)
        elif r < 0.90:
            nm = rng.choice(['neg', 'abs', 'round', 'round', 'to_positive', 'to_positive'])
            a = gen_angle_value(rng)
            if nm == 'round' and rng.random() < 0.4:
                n0 = rng.randint(0, 6)
                a = (rng.randint(-359 * 10 ** n0, 359 * 10 ** n0) + 0.5) / 10 ** n0
            yield ['un', nm, a, (rng.choice([None, 0, 1, 2, 3, 6, 9, 12, -1, -2, -3]) if nm == 'round' else None)]
        elif r < 0.96:
            a = gen_angle_value(rng)
            bk = rng.choice(['ang', 'int', 'flt'])
            k = rng.random()
            if bk == 'int':
                b = rng.choice([gen_int(rng), int(a), int(a) + 1])
            elif k < 0.5:
                b = rng.choice([a, a + 1e-10, a - 1e-10, a + 0.99e-10, a + 1.01e-10, step(a, 1), step(a, -1), a + 5e-11])
                if bk == 'ang' and not (-360.0 < b < 360.0):
                    b = a
            else:
                b = gen_angle_value(rng) if bk == 'ang' else gen_float(rng)
            yield ['cmp', a, bk, b]
        else:
            yield ['view', gen_angle_value(rng)]


VA = [-359.99999999999994, -359.5, -180.0, -90.0, -50.0, -1.0, -1e-10, -1e-11, -2.8e-14, -1e-20, -5e-324, -0.0, 0.0,
      5e-324, 1e-20, 2.8e-14, 1e-11, 1e-10, 0.5, 1.0, 2.0, 3.0, 15.0, 50.0, 90.0, 180.0, 359.5, 359.99999999999994]
GI = [-BIG, -1000, -725, -721, -720, -361, -360, -359, -60, -2, -1, 0, 1, 2, 3, 24, 59, 60, 359, 360, 361, 720, 725, 1000, BIG]
GF = VA + [360.0, -360.0, 360.00000000000006, -360.00000000000006, 725.5, -725.5, 1e15, -1e15, 1e-3, 7.5, 24.0,
           23.999999999999996, 1080.0, 719.9999999999999]


def grid_specs(ctx):
    """Systematic cross products of boundary values: every operator x operand kind x value pair, every
    constructor form on every integer of three turns and on +-ulp around the multiples of 360, every
    sexagesimal combination of boundary pieces.  Used in the thorough tier and whenever the source of a
    modelled function differs from the golden fingerprint (ctx.scale > 1)."""
    hot = [v for v in (ctx.hot['ints'] + ctx.hot['floats']) if isinstance(v, (int, float)) and abs(v) <= BIG]
    hotn = []
    for v in hot:
        hotn += [v, -v, float(v), step(float(v), 1), step(float(v), -1)]
    for name in OPS_ALL:
        base = name if name in PLAIN else name[1:]
        for a in VA:
            if base == 'pow':
                for n in range(-4, 7):
                    yield ['op', name, a, 'int', n]
                for y in (0.5, -0.5, 2.0, 0.0, 1.5):
                    yield ['op', name, a, 'flt', y]
                    yield ['op', name, a, 'ang', y]
                continue
            for b in VA:
                yield ['op', name, a, 'ang', b]
            for b in GI + [x for x in hotn if isinstance(x, int)]:
                yield ['op', name, a, 'int', b]
            for b in GF + [x for x in hotn if isinstance(x, float)]:
                yield ['op', name, a, 'flt', b]
    nums = list(range(-1100, 1101)) + [float(i) / 4 for i in range(-4400, 4401, 3)] + hotn
    for k in range(-4, 5):
        for u in (-2, -1, 0, 1, 2):
            nums.append(step(360.0 * k, u))
    for k in (10 ** 6, 10 ** 9, 10 ** 12, 2777777777777):
        nums += [360 * k, -360 * k, 360.0 * k, step(360.0 * k, 1), step(360.0 * k, -1), 360 * k + 1, 360 * k - 1]
    for x in nums:
        yield ['static', 'reduce_deg', [x]]
        yield ['ctor', 'num', x, '', 'new']
        yield ['ctor', 'num', x, 'ra', 'new']
        yield ['ctor', 'num', x, 'rad', 'new']
        yield ['ctor', 'seq_l', [x], '', 'set']
        yield ['ctor', 'seq_t', [x], 'rad', 'new']
        yield ['ctor', 'num', x, 'ra', 'set_ra']
    D = [0, 1, 23, 24, 359, 360, 361, -1, -359, 0.5, 719, 0.0, -0.0]
    M = [0, 1, 59, 60, 61, -1, 59.5, 59.99999999999999, 0.0, 3600]
    S = [0, 1, 59, 60, 61, -1, 59.5, 59.99999999999999, 59.999999999999, 3600, 0.0, 1e-12]
    for d in D:
        for m in M:
            yield ['ctor', 'args', [d, m], '', 'new']
            yield ['forms', [d, m], '']
            for s in S:
                p = [d, m, s]
                yield ['ctor', 'args', p, '', 'new']
                yield ['ctor', 'seq_t', p, '', 'set']
                yield ['ctor', 'seq_l', p, 'ra', 'new']
                yield ['static', 'dms2deg', p]
                yield ['forms', p, '']
                for x in (1, -1, 0, -0.0):
                    yield ['ctor', 'args', p + [x], '', 'new']
    for a in VA:
        for nm in ('neg', 'abs', 'to_positive'):
            yield ['un', nm, a, None]
        for n in [None] + list(range(-3, 13)):
            yield ['un', 'round', a, n]
        yield ['view', a]
        for b in VA:
            yield ['cmp', a, 'ang', b]
            yield ['cmp', a, 'flt', b]
        for b in GI:
            yield ['cmp', a, 'int', b]
        yield ['ctor', 'copy', [a, 1e-10], '', 'new']
        yield ['ctor', 'copy', [a, 1e-6], '', 'set']


def generate(ctx, shard=0, nshards=1):
    if shard == 0:
        for s in fixed_specs():
            run_spec(ctx, s)
        ctx.sample({'call': 'Angle(-1e-20).to_positive()()', 'expected': '0.0 (in [0, 360))'})
        ctx.sample({'call': 'Angle(725.5)()', 'expected': 5.5})
        ctx.sample({'call': 'Angle(0, -5, 30.0)()', 'expected': -0.09166666666666667})
        ctx.sample({'call': '(Angle(350) + 20)()', 'expected': 10.0})
        ctx.sample({'call': 'Angle(359, 59, 59.99999999999999)()', 'expected': '0.0 (360.0 before 05d4048)'})
        ctx.sample({'call': 'Angle(25.5, ra=True)()', 'expected': '22.5 (382.5 before 0a81589)'})
        ctx.sample({'call': '(725 % Angle(50))()', 'expected': '25.0 (5.0 before a256a98)'})
    changed = ctx.scale > 1
    if changed or ctx.tier == 'thorough':
        # systematic enumeration (about 130 000 specs): the whole boundary grid, not a sample of it
        for i, s in enumerate(grid_specs(ctx)):
            if i % nshards == shard:
                run_spec(ctx, s)
        ctx.notes.append('boundary grid enumerated in full')
    base = 600000 if ctx.tier != 'thorough' else 5000000
    # the random stream is not multiplied when the source changed (the grid above is the extra effort);
    # the failing-input search (scale >= 10) gets a larger stream, capped
    n = base if ctx.scale <= 4 else min(int(base * ctx.scale / 4), 10000000)
    for s in gen_specs(ctx, n // nshards):
        run_spec(ctx, s)


def replay(case):
    ctx = core.Ctx(PROPERTY, 'quick', 0)
    spec = case.get('input')
    if spec and spec[0] == 'cmp' and len(spec) == 5:
        spec = spec[:4]
    run_spec(ctx, spec)
    return (len(ctx.pred_fail) > 0, ctx.pred_fail)


def known_match(finding, failure):
    """finding['predicate'] + finding['match'] {index: value} + finding['abs_ge'] {index: bound} on the spec"""
    if finding.get('predicate') != failure.get('predicate'):
        return False
    inp = failure.get('input') or []
    for idx, val in (finding.get('match') or {}).items():
        i = int(idx)
        if i >= len(inp) or inp[i] != val:
            return False
    for idx, val in (finding.get('not_match') or {}).items():
        i = int(idx)
        if i < len(inp) and inp[i] == val:
            return False
    if 'detail_values' in finding:
        det = failure.get('detail')
        if not isinstance(det, dict) or det.get('value') not in finding['detail_values']:
            return False
    for idx, bound in (finding.get('abs_ge') or {}).items():
        i = int(idx)
        if i >= len(inp):
            return False
        x = inp[i]
        if isinstance(x, list):
            # sexagesimal pieces: the hours piece (first) decides, with minutes / seconds overflow folded in
            try:
                x = abs(x[0]) + (abs(x[1]) / 60.0 if len(x) > 1 else 0) + (abs(x[2]) / 3600.0 if len(x) > 2 else 0)
            except Exception:  # noqa
                return False
        if not isinstance(x, (int, float)) or abs(x) < bound:
            return False
    return True
