"""C15 — Moon position is physical; lunar event finders agree with it.

(T) lean/Pymeeus/Props/C15.lean: theorems about the real-number model lean/templates/Moon.lean
    whose tables and term lists are regenerated from /repo by tools/gen_moon.py on every run.
(S) the binary64 instantiation of the same model against CPython, bit for bit: position,
    nodes/perigee/fraction/bright limb, the four finders for every target string (and malformed
    ones), the Angle helpers the module uses.
(I) every numerical clause of the property statement evaluated on the implementation
    (see `check_position`, `check_event`, `check_pair`, `check_query`).

At most 4 of the runner's shard processes do work (machine budget); each keeps its
correspondence lines below the runner's threshold for parallel driver processes.
"""
import math

from core import run_impl, enc

PROPERTY = 'C15'
FUNCTIONS = ['pymeeus/Moon.py:PERIODIC_TERMS_LR_TABLE', 'pymeeus/Moon.py:PERIODIC_TERMS_B_TABLE',
             'pymeeus/Moon.py:Moon.geocentric_ecliptical_pos', 'pymeeus/Moon.py:Moon.apparent_ecliptical_pos',
             'pymeeus/Moon.py:Moon.apparent_equatorial_pos', 'pymeeus/Moon.py:Moon.longitude_mean_ascending_node',
             'pymeeus/Moon.py:Moon.longitude_true_ascending_node', 'pymeeus/Moon.py:Moon.longitude_mean_perigee',
             'pymeeus/Moon.py:Moon.illuminated_fraction_disk', 'pymeeus/Moon.py:Moon.position_bright_limb',
             'pymeeus/Moon.py:Moon.moon_phase', 'pymeeus/Moon.py:Moon.moon_perigee_apogee',
             'pymeeus/Moon.py:Moon.moon_passage_nodes', 'pymeeus/Moon.py:Moon.moon_maximum_declination',
             'pymeeus/Angle.py:Angle.reduce_deg', 'pymeeus/Angle.py:Angle.to_positive',
             'pymeeus/Angle.py:Angle.dms2deg', 'pymeeus/Angle.py:Angle.reduce_dms', 'pymeeus/Angle.py:Angle.__add__',
             'pymeeus/Angle.py:Angle.__sub__', 'pymeeus/Angle.py:Angle.__rsub__', 'pymeeus/Angle.py:Angle.__neg__',
             'pymeeus/Coordinates.py:ecliptical2equatorial', 'pymeeus/Epoch.py:Epoch.get_full_date',
             'pymeeus/Epoch.py:Epoch.get_date', 'pymeeus/Epoch.py:Epoch.jde',
             'pymeeus/Coordinates.py:nutation_longitude', 'pymeeus/Coordinates.py:nutation_obliquity',
             'pymeeus/Coordinates.py:mean_obliquity', 'pymeeus/Coordinates.py:true_obliquity',
             'pymeeus/Sun.py:Sun.apparent_rightascension_declination_coarse']

MANIFEST = dict(
    text=("PARTIAL. Lean 4 theorems (Props/C15.lean) about the real-number model of pymeeus/Moon.py whose tables "
          "47.A/47.B and all 450 periodic terms of the finders are regenerated from the source by tools/gen_moon.py "
          "on every run: parallax = asin(6378.14/distance) with the argument in (0,1) because the amplitude sum of "
          "table 47.A keeps the distance above 355 000 km; illuminated fraction in [0,1]; mean node / perigee "
          "polynomials advance at -1934.136 / +4069.014 deg per century within 0.29 / 1.42; for the four finders "
          "(functions of the query JDE: k = round((jde - J0)/P) plus quarter/half offsets) and every target string, "
          "for all queries of the years -2000..4000: the count is monotone in the query and skips no integer, "
          "|periodic correction| <= the sum of the generated amplitudes, results NEVER move backwards as the query "
          "advances, consecutive results are one mean period apart within twice that sum and strictly increasing, "
          "the result is within P/2 + amplitude sum of the query (+ P x offset) and hence WITHIN 1.6 MONTHS of it "
          "(at most 38.1 / 31.7 / 28.5 / 15.8 days), any other target string raises ValueError; the count is the integer "
          "nearest to (jde - J0)/P with ties to even; the four phase targets of one query are the four phases of one "
          "lunation in order, a quarter month apart within 2.29 d, apogee / descending node follow perigee / ascending "
          "node by half a period; the reported extreme declination is 17.4..30 deg north, -30..-17.4 deg south. "
          "Internal consistency of the position theory: F - (L' - node) is exactly a polynomial below 0.0095 deg, "
          "M' - (L' - perigee) agrees to the cubic term but departs by 2T^4/14712000 (0.35 deg at year -2000: a "
          "suspected sign slip of the quartic term of M' in the source, reported); the true node is within 1.9682 deg "
          "of the mean node; apparent positions keep latitude, distance and parallax, RA in [0,360), declination in "
          "[-90,90], bright-limb angle in [0,360); tables 47.A/B have 60 rows with |M| <= 2, new/full and "
          "north/south term lists have identical arguments and E-powers (kernel-decided on the regenerated data). NOT proved (no "
          "certified interval arithmetic for long trigonometric sums; triangle-inequality bounds are 355 000-415 000 "
          "km and 6.1 deg): distance 356 000-407 000 km, |latitude| <= 5.35 deg, longitude rate, fraction vs "
          "geometry, the secular rates after the Angle reduction and of the true node, agreement of the finders with "
          "the position theory. These clauses are evaluated on the implementation only (predicates (I)), sweeping "
          "every calendar day of sample years of both calendars incl. 29 February of Julian century years and the "
          "minutes around every year end. The model is tied to /repo by the bit-exact binary64 run from the JDE."),
    note=("Trusted: Lean kernel, Mathlib, axioms propext/Classical.choice/Quot.sound; the hand-written evaluators and "
          "control flow of lean/templates/Moon.lean and the translator tools/gen_moon.py, and the models they compose "
          "(EpochCore get_date/compute_jde for Epoch(jde), Vsop/SunEarth nutation, obliquity and coarse Sun), all "
          "validated bit for bit against CPython on every run from the query JDE alone; Epoch(jde) is the identity in "
          "the real model (C02). Idealisation binary64 -> real not verified. The two former findings (results up to "
          "57 d after the query in late years; the node finder moving 27 d backwards across 1727-12-31/1728-01-01) "
          "were repaired by taking k from the epoch's JDE (fix: commit); both clauses are now theorems."),
    technique="Lean 4 proof over a generated table/term model + bit-exact model/implementation correspondence + predicates on the implementation",
    ref='6 C15')

TRUSTED = [
    'tools/gen_moon.py (ast translator of the tables and the 450 periodic terms) and the hand-written evaluators of '
    'lean/templates/Moon.lean, MoonYear.lean: validated by the bit-exact correspondence run below',
    'no value computed by the implementation enters the models: the finders are tied from the query JDE '
    '(count, series, Epoch(jde)), the apparent positions and the bright '
    'limb from the JDE (nutation_longitude, true_obliquity, coarse Sun are the models of templates Vsop / SunEarth)',
    'the predicates use the library\'s own Sun position (Sun.apparent_geocentric_position, '
    'Sun.geometric_geocentric_position) as the property prescribes',
]
ASSUMPTIONS = [
    '"1.6 months" is read as 1.6 synodic months (47.25 days), the most lenient of the four months named',
    '"natural variation" windows for consecutive results (days): phases 29.1-30.0, perigee 24.5-28.7, apogee 26.9-28.0, '
    'node passages 26.9-27.6, extreme declinations 27.0-27.7 (literature values with a small margin)',
    'secular rates: node -360/6798.38 deg/day, perigee +360/3231.50 deg/day, relative tolerance 1e-3; true node within '
    '2 deg of the mean node',
]
RULE = 'distinct (model function, argument tuple) pairs sent to the model and to the implementation'

J_MIN = 990557.5       # Epoch(-2000, 1, 1)
J_MAX = 3182395.5      # Epoch(4001, 1, 1)
SYNODIC = 29.530588861
AU_KM = 149597870.7
MAX_WORKERS = 4
CASE_CAP = 19000       # per shard: below core.run_driver_parallel's threshold (one driver process)

PHASE_ANGLE = {'new': 0.0, 'first': 90.0, 'full': 180.0, 'last': 270.0}
FINDERS = {
    'phase': ('new', 'first', 'full', 'last'),
    'apsis': ('perigee', 'apogee'),
    'nodes': ('ascending', 'descending'),
    'decl': ('northern', 'southern'),
}
SPACING = {'new': (29.1, 30.0), 'first': (29.1, 30.0), 'full': (29.1, 30.0), 'last': (29.1, 30.0),
           'perigee': (24.5, 28.7), 'apogee': (26.9, 28.0), 'ascending': (26.9, 27.6), 'descending': (26.9, 27.6),
           'northern': (27.0, 27.7), 'southern': (27.0, 27.7)}
DRIVER_FN = {'phase': 'moon_phase_j', 'apsis': 'moon_apsis_j', 'nodes': 'moon_nodes_j', 'decl': 'moon_decl_j'}
BAD_TARGETS = ['', ' ', 'New', 'NEW', 'new ', ' new', 'newmoon', 'n', 'full moon', 'third', 'First', 'Full', 'LAST',
               'Perigee', 'apogee ', 'peri', 'Ascending', 'descend', 'north', 'Northern', 'south', 'southern ',
               'nеw']    # the last one has a Cyrillic 'е'

_lib = {}


def lib():
    if not _lib:
        from pymeeus.Epoch import Epoch
        from pymeeus.Moon import Moon
        from pymeeus.Sun import Sun
        from pymeeus.Coordinates import nutation_longitude, true_obliquity
        _lib.update(Epoch=Epoch, Moon=Moon, Sun=Sun, nutation_longitude=nutation_longitude,
                    true_obliquity=true_obliquity)
    return _lib


def ep(j):
    e = lib()['Epoch']()
    e._jde = float(j)
    return e


def wrap180(x):
    return (x + 180.0) % 360.0 - 180.0


def golden(f, a, b, n=26):
    """argmin of f on [a, b] (unimodal there)."""
    g = (math.sqrt(5.0) - 1.0) / 2.0
    c = b - g * (b - a)
    d = a + g * (b - a)
    fc, fd = f(c), f(d)
    for _ in range(n):
        if fc < fd:
            b, d, fd = d, c, fc
            c = b - g * (b - a)
            fc = f(c)
        else:
            a, c, fc = c, d, fd
            d = a + g * (b - a)
            fd = f(d)
    return (a + b) / 2.0


# ------------------------------------------------------------------ implementation adapters
def call_finder(finder, target, e):
    """-> (jde, extra) as the implementation returns them (extra: parallax / declination in degrees or None)."""
    Moon = lib()['Moon']
    if finder == 'phase':
        return (Moon.moon_phase(e, target)._jde, None)
    if finder == 'apsis':
        r, p = Moon.moon_perigee_apogee(e, target)
        return (r._jde, p._deg)
    if finder == 'nodes':
        return (Moon.moon_passage_nodes(e, target)._jde, None)
    r, d = Moon.moon_maximum_declination(e, target)
    return (r._jde, d._deg)


def finder_out(finder, target, e):
    def f():
        j, x = call_finder(finder, target, e)
        return (j,) if x is None else (j, x)
    return run_impl(f)


def moon_dist(j):
    return lib()['Moon'].geocentric_ecliptical_pos(ep(j))[2]


def moon_lat(j):
    return lib()['Moon'].geocentric_ecliptical_pos(ep(j))[1]._deg


def moon_decl(j):
    return lib()['Moon'].apparent_equatorial_pos(ep(j))[1]._deg


# ------------------------------------------------------------------ (I) position clauses
def check_position(ctx, j, klass, names=None):
    """Position clauses of the statement at one epoch (JDE j); an exception anywhere is a failure."""
    try:
        _check_position(ctx, j, klass, names)
    except Exception as ex:  # noqa
        ctx.predicate('position_total', False, [j], repr(ex), klass)


def _check_position(ctx, j, klass, names=None):
    L = lib()
    Moon, Sun = L['Moon'], L['Sun']
    e = ep(j)
    inp = [j]

    def want(n):
        return names is None or n in names
    try:
        lam, beta, delta, ppi = Moon.geocentric_ecliptical_pos(e)
    except Exception as ex:  # noqa
        ctx.predicate('position_total', False, inp, repr(ex), klass)
        return
    if want('distance_window'):
        ctx.predicate('distance_window', 356000.0 <= delta <= 407000.0, inp, {'distance_km': delta}, klass)
    if want('latitude_window'):
        ctx.predicate('latitude_window', abs(beta._deg) <= 5.35, inp, {'latitude_deg': beta._deg}, klass)
    if want('parallax_identity'):
        exp = math.degrees(math.asin(6378.14 / delta))
        ctx.predicate('parallax_identity', abs(ppi._deg - exp) <= 1e-12, inp, {'parallax': ppi._deg, 'asin': exp}, klass)
        ctx.deviation('parallax_identity', abs(ppi._deg - exp))
    if want('longitude_daily_advance'):
        lam2 = Moon.geocentric_ecliptical_pos(ep(j + 1.0))[0]
        adv = (lam2._deg - lam._deg) % 360.0
        ctx.predicate('longitude_daily_advance', 11.5 <= adv <= 15.6, inp, {'advance_deg': adv}, klass)
    if want('fraction_range') or want('fraction_geometry'):
        k = Moon.illuminated_fraction_disk(e)
        if want('fraction_range'):
            ctx.predicate('fraction_range', 0.0 <= k <= 1.0, inp, {'k': k}, klass)
        if want('fraction_geometry'):
            ls, bs, rs = Sun.geometric_geocentric_position(e)
            R = rs * AU_KM
            b, b0 = math.radians(beta._deg), math.radians(bs._deg)
            cpsi = math.sin(b0) * math.sin(b) + math.cos(b0) * math.cos(b) * math.cos(math.radians(lam._deg - ls._deg))
            cpsi = max(-1.0, min(1.0, cpsi))
            psi = math.acos(cpsi)
            i = math.atan2(R * math.sin(psi), delta - R * cpsi)
            kg = (1.0 + math.cos(i)) / 2.0
            ctx.predicate('fraction_geometry', abs(k - kg) <= 0.01, inp, {'k': k, 'geometry': kg}, klass)
            ctx.deviation('fraction_vs_geometry', abs(k - kg))
    if want('node_secular_rate'):
        h = 10.0
        o1 = Moon.longitude_mean_ascending_node(e)._deg
        o2 = Moon.longitude_mean_ascending_node(ep(j + h))._deg
        rate = wrap180(o2 - o1) / h
        ref = -360.0 / 6798.38
        ctx.predicate('node_secular_rate', abs(rate - ref) <= 1e-3 * abs(ref), inp, {'deg_per_day': rate, 'ref': ref}, klass)
        ot = Moon.longitude_true_ascending_node(e)._deg
        ctx.predicate('true_node_near_mean', abs(wrap180(ot - o1)) <= 2.0, inp, {'true': ot, 'mean': o1}, klass)
    if want('perigee_secular_rate'):
        h = 10.0
        p1 = Moon.longitude_mean_perigee(e)._deg
        p2 = Moon.longitude_mean_perigee(ep(j + h))._deg
        rate = wrap180(p2 - p1) / h
        ref = 360.0 / 3231.50
        ctx.predicate('perigee_secular_rate', abs(rate - ref) <= 1e-3 * abs(ref), inp, {'deg_per_day': rate, 'ref': ref}, klass)


def tie_position(ctx, j, klass, full=True):
    """(S) correspondence lines for the epoch-valued functions at JDE j."""
    L = lib()
    Moon, Sun = L['Moon'], L['Sun']
    e = ep(j)

    def pos():
        a, b, c, d = Moon.geocentric_ecliptical_pos(e)
        return (a._deg, b._deg, c, d._deg)
    ctx.case('moon_pos', [j], run_impl(pos), q=None, klass='moon_pos/' + klass)
    ctx.case('moon_mean_node', [j], run_impl(lambda: Moon.longitude_mean_ascending_node(e)._deg), q=None)
    ctx.case('moon_true_node', [j], run_impl(lambda: Moon.longitude_true_ascending_node(e)._deg), q=None)
    ctx.case('moon_mean_perigee', [j], run_impl(lambda: Moon.longitude_mean_perigee(e)._deg), q=None)
    ctx.case('moon_illum', [j], run_impl(lambda: Moon.illuminated_fraction_disk(e)), q=None)
    if not full:
        return

    def ae():
        a, b, c, d = Moon.apparent_ecliptical_pos(e)
        return (a._deg, b._deg, c, d._deg)

    def aq():
        a, b, c, d = Moon.apparent_equatorial_pos(e)
        return (a._deg, b._deg, c, d._deg)
    # nutation in longitude, true obliquity and the coarse Sun are inside the model (templates Vsop / SunEarth)
    ctx.case('moon_app_ecl_j', [j], run_impl(ae), q=None)
    ctx.case('moon_app_equ_j', [j], run_impl(aq), q=None)
    ctx.case('moon_bright_limb_j', [j], run_impl(lambda: Moon.position_bright_limb(e)._deg), q=None)


# ------------------------------------------------------------------ (I) finder clauses
def check_event(ctx, finder, target, q, klass):
    """The returned instant is an event of the position theory (tolerances of the statement)."""
    try:
        return _check_event(ctx, finder, target, q, klass)
    except Exception as ex:  # noqa
        ctx.predicate('finder_total', False, [q, finder, target], 'while checking the event: ' + repr(ex), klass)
        return None


def _check_event(ctx, finder, target, q, klass):
    L = lib()
    Moon, Sun = L['Moon'], L['Sun']
    inp = [q, finder, target]
    try:
        r, extra = call_finder(finder, target, ep(q))
    except Exception as ex:  # noqa
        ctx.predicate('finder_total', False, inp, repr(ex), klass)
        return None
    re_ = ep(r)
    if finder == 'phase':
        lm = Moon.apparent_ecliptical_pos(re_)[0]._deg
        ls = Sun.apparent_geocentric_position(re_)[0]._deg
        dev = wrap180(lm - ls - PHASE_ANGLE[target])
        ctx.predicate('phase_longitude_difference', abs(dev) <= 0.06, inp, {'result_jde': r, 'deviation_deg': dev}, klass)
        ctx.deviation('phase_longitude_difference_deg', abs(dev))
    elif finder == 'apsis':
        s = 1.0 if target == 'perigee' else -1.0
        x = golden(lambda t: s * moon_dist(t), r - 1.5, r + 1.5)
        ctx.predicate('apsis_distance_extremal', abs(x - r) <= 0.25, inp, {'result_jde': r, 'extremum_jde': x}, klass)
        ctx.deviation('apsis_time_days', abs(x - r))
        check_position(ctx, x, 'at_' + target, names=('distance_window', 'parallax_identity'))
    elif finder == 'nodes':
        b = moon_lat(r)
        ctx.predicate('node_latitude_zero', abs(b) <= 0.02, inp, {'result_jde': r, 'latitude_deg': b}, klass)
        ctx.deviation('node_latitude_deg', abs(b))
        slope = moon_lat(r + 0.02) - moon_lat(r - 0.02)
        ctx.predicate('node_direction', (slope > 0) == (target == 'ascending'), inp, {'result_jde': r, 'slope': slope}, klass)
        for dt in (6.8, -6.8):
            check_position(ctx, r + dt, 'near_max_latitude', names=('latitude_window',))
    else:
        s = -1.0 if target == 'northern' else 1.0
        x = golden(lambda t: s * moon_decl(t), r - 1.2, r + 1.2, 18)
        dx = moon_decl(x)
        ctx.predicate('declination_extremal', abs(x - r) <= 0.25, inp, {'result_jde': r, 'extremum_jde': x}, klass)
        ctx.predicate('declination_value', abs(dx - extra) <= 0.15, inp, {'reported': extra, 'theory': dx}, klass)
        ctx.deviation('declination_time_days', abs(x - r))
        ctx.deviation('declination_value_deg', abs(dx - extra))
    return r


def check_query(ctx, finder, target, q, klass):
    """Totality and distance to the query; returns the result JDE (or None)."""
    inp = [q, finder, target]
    try:
        r, _ = call_finder(finder, target, ep(q))
    except Exception as ex:  # noqa
        ctx.predicate('finder_total', False, inp, repr(ex), klass)
        return None
    ctx.predicate('finder_total', isinstance(r, float) and math.isfinite(r), inp, {'result_jde': r}, klass)
    ctx.predicate('within_1p6_months', abs(r - q) <= 1.6 * SYNODIC, inp, {'result_jde': r, 'days_from_query': r - q},
                  klass + '/' + target)
    ctx.deviation('days_from_query', abs(r - q))
    return r


def check_pair(ctx, finder, target, q1, r1, q2, r2, klass):
    """Order and spacing for two queries q1 < q2 (at most one period apart) with results r1, r2."""
    inp = [q1, q2, finder, target]
    ctx.predicate('never_backwards', r2 >= r1, inp, {'r1': r1, 'r2': r2}, klass)
    if r2 > r1:
        lo, hi = SPACING[target]
        ctx.predicate('consecutive_one_period', lo <= r2 - r1 <= hi, inp, {'r1': r1, 'r2': r2, 'spacing': r2 - r1},
                      klass + '/' + target)


def tie_finder(ctx, finder, target, q, klass):
    """(S) the whole function from the query JDE: count, series, Epoch(jde) renormalisation."""
    e = ep(q)
    ctx.case(DRIVER_FN[finder], [float(q), target], finder_out(finder, target, e), q=None,
             klass=DRIVER_FN[finder] + '/' + klass)


def check_bad_targets(ctx, q):
    L = lib()
    Moon = L['Moon']
    e = ep(q)
    fns = {'phase': lambda t: Moon.moon_phase(e, t), 'apsis': lambda t: Moon.moon_perigee_apogee(e, t),
           'nodes': lambda t: Moon.moon_passage_nodes(e, t), 'decl': lambda t: Moon.moon_maximum_declination(e, t)}
    for finder, fn in fns.items():
        others = [t for f2, ts in FINDERS.items() if f2 != finder for t in ts]
        for t in BAD_TARGETS + others:
            if t in FINDERS[finder]:
                continue
            out = run_impl(lambda: fn(t) and 0)
            ctx.predicate('bad_target_refused', out == 'E:ValueError', [q, finder, t], out, 'bad_target')
            if '_' not in t:
                ctx.case(DRIVER_FN[finder], [float(q), t], out, q=None, klass=DRIVER_FN[finder] + '/bad_target')
        for t in (None, 0, 1.5, b'new', ['new']):
            out = run_impl(lambda: fn(t) and 0)
            ctx.predicate('non_string_target_refused', out == 'E:TypeError', [q, finder, repr(t)], out, 'bad_target')


# ------------------------------------------------------------------ sweeps
def year_days(y):
    """JDE (0h) of every calendar day of year y in the calendar in force (Julian before the reform)."""
    Epoch = lib()['Epoch']
    j0 = Epoch(y, 1, 1.0)._jde
    j1 = Epoch(y + 1, 1, 1.0)._jde
    return [j0 + i for i in range(int(round(j1 - j0)))]


def sweep_year(ctx, y, klass, pending, frac=0.0, tie_every=1):
    """Daily queries over one calendar year, every finder and target."""
    days = year_days(y)
    Epoch = lib()['Epoch']
    if klass == 'julian_century_leap':
        # 29 February of a Julian century year must exist and be queried
        jl = Epoch(y, 2, 29.0)._jde
        assert jl in days, (y, jl)
    for finder, targets in FINDERS.items():
        for target in targets:
            prev = None
            for n, j in enumerate(days):
                q = j + frac
                r = check_query(ctx, finder, target, q, klass)
                if r is None:
                    prev = None
                    continue
                if prev is not None:
                    check_pair(ctx, finder, target, prev[0], prev[1], q, r, klass)
                    if r != prev[1]:
                        check_event(ctx, finder, target, q, klass)
                else:
                    check_event(ctx, finder, target, q, klass)
                prev = (q, r)
                if n % tie_every == 0:
                    pending.append((finder, target, q, klass))


YEAR_END_OFFSETS_S = (-236.0, -180.0, -137.0, -90.0, -30.0, -0.001, 0.0, 40.0, 99.0, 150.0, 236.0)


def sweep_year_ends(ctx, ys, pending, rng):
    """Queries a few minutes around 31 December 24h: where a count derived from calendar fields (as the finders did
    before they took it from the JDE) is discontinuous, so this is where the order clause is at risk."""
    Epoch = lib()['Epoch']
    for y in ys:
        j2 = Epoch(y + 1, 1, 1.0)._jde
        qs = [j2 + s_ / 86400.0 for s_ in YEAR_END_OFFSETS_S]
        for finder, targets in FINDERS.items():
            for target in targets:
                prev = None
                for q in qs:
                    try:
                        r, _ = call_finder(finder, target, ep(q))
                    except Exception as ex:  # noqa
                        ctx.predicate('finder_total', False, [q, finder, target], repr(ex), 'year_end')
                        prev = None
                        continue
                    if prev is not None:
                        check_pair(ctx, finder, target, prev[0], prev[1], q, r, 'year_end')
                    prev = (q, r)
        q = rng.choice(qs)
        finder = rng.choice(list(FINDERS))
        pending.append((finder, rng.choice(FINDERS[finder]), q, 'year_end'))


JULIAN_CENTURY = [100, 200, 300, 500, 600, 700, 900, 1000, 1100, 1300, 1400, 1500]
SPECIAL_YEARS = [(-2000, 'range_end'), (4000, 'range_end'), (1582, 'reform_year'), (-1, 'negative'), (0, 'year_zero'),
                 (-4, 'negative'), (-1000, 'negative'), (-1999, 'negative'), (1583, 'gregorian'), (1600, 'gregorian'),
                 (1700, 'gregorian'), (1900, 'gregorian'), (2000, 'gregorian'), (2024, 'gregorian'), (2100, 'gregorian'),
                 (3000, 'gregorian'), (3999, 'gregorian'), (1, 'julian'), (4, 'julian'), (400, 'julian'), (1581, 'julian'),
                 (-500, 'negative'), (-1500, 'negative'), (-101, 'negative'), (-100, 'negative')] + \
                [(y, 'julian_century_leap') for y in JULIAN_CENTURY]


def generate(ctx, shard=0, nshards=1):
    L = lib()
    Epoch = L['Epoch']
    rng = ctx.rng
    nw = min(nshards, MAX_WORKERS)
    if shard >= nw:
        return
    pending = []          # finder tie candidates (finder, target, q, klass)
    pos_tie = []
    hot_years = sorted(set(int(v) for v in ctx.hot['ints'] if -2000 <= v <= 4000) |
                       set(int(math.floor(v)) for v in ctx.hot['floats'] if -2000 <= v <= 4000.99))
    hot_jdes = [float(v) for v in list(ctx.hot['floats']) + list(ctx.hot['ints']) if J_MIN <= v <= J_MAX]

    # ---- helpers of the model (boundary-heavy), bad targets: shard 0
    if shard == 0:
        from pymeeus.Angle import Angle
        vals = [0.0, -0.0, 1e-20, -1e-20, 359.99999999999994, -359.99999999999994, 360.0, -360.0, 360.00000000000006,
                719.9999999999999, 720.0, -720.0, 1e9 + 0.5, -1e9 - 0.25, 123456789.987, -17298045.25, 1e15 + 0.5,
                4503599627370497.0, 1e17, 5e-324, -5e-324, 180.0, -180.0, 90.0]
        vals += [rng.uniform(-1e7, 1e7) for _ in range(200)] + [rng.uniform(-800, 800) for _ in range(200)]
        vals += [float(n * 360) + d for n in (1, -1, 2, 1000, -48213) for d in (0.0, 1e-9, -1e-9, 0.9999999999)]
        for v in vals:
            ctx.case('moon_reduce_deg', [v], run_impl(lambda: Angle.reduce_deg(v)), q=None)
            a = Angle()
            a._deg = v
            ctx.case('moon_to_positive', [v], run_impl(lambda: a.to_positive()._deg), q=None)
        for v in [0.0, 59.999999999, 60.0, 3599.99, 3600.0, 3245.251, 3629.215, 3700.123, -3400.5, 1e-9, 216000.0,
                  1296000.0, 1296000.5, 86399.99999, 1295999.9999999998, 1295999.99999999, -1295999.9999999998,
                  2591999.9999999995] + [rng.uniform(3000, 4000) for _ in range(100)]:
            ctx.case('moon_angle_dms00', [v], run_impl(lambda: Angle(0, 0, v)._deg), q=None)
        for _ in range(ctx.n(300, 1500)):
            j = rng.uniform(J_MIN, J_MAX)
            ctx.case('moon_epoch_of_jde', [j], run_impl(lambda: Epoch(j)._jde), q=None)
        for q in (2451545.0, J_MIN + 0.25, J_MAX - 0.25, Epoch(1500, 2, 29.5)._jde):
            check_bad_targets(ctx, q)

    # ---- position clauses on random + boundary epochs
    n_pos = ctx.n(8000, 100000) // nw
    for i in range(n_pos):
        r = rng.random()
        if hot_jdes and r < 0.1:
            j = rng.choice(hot_jdes) + rng.choice([0.0, 0.5, -0.5, rng.uniform(-30, 30)])
        elif r < 0.2:
            j = rng.choice([J_MIN, J_MAX - 1.0, 2451545.0, 2299160.5, 1721057.5]) + rng.uniform(0, 40) * rng.choice([1, -1])
        else:
            j = rng.uniform(J_MIN, J_MAX - 1.0)
        j = min(max(j, J_MIN), J_MAX - 1.0)
        check_position(ctx, j, 'random' if r >= 0.2 else 'boundary')
        if i % 8 == 0:
            pos_tie.append((j, 'random'))

    # ---- finder sweeps over calendar years
    base_seed = ctx.seed - 7919 * shard
    full = ctx.tier == 'thorough' or ctx.scale > 1.0
    fixed = [(y, 'hot') for h in hot_years for y in (h - 1, h, h + 1) if -2000 <= y <= 4000]
    if full:
        fixed += SPECIAL_YEARS
    else:
        # quick: the range ends and the reform year always, a third of the other special years in rotation
        fixed += [yk for i, yk in enumerate(SPECIAL_YEARS)
                  if (i + base_seed) % 3 == 0 or yk[1] in ('range_end', 'reform_year')]
    mine = fixed[shard::nw] + [(rng.randint(-2000, 4000), 'random_year') for _ in range(max(1, ctx.n(24, 1000) // nw))]
    for (y, klass) in mine:
        sweep_year(ctx, y, klass, pending, frac=rng.choice([0.0, 0.0, 0.5, rng.random()]),
                   tie_every=1 if klass != 'random_year' else 3)
    if True:
        # the leap days themselves (and their neighbours) for every Julian century year, every finder/target
        for y in JULIAN_CENTURY[shard::nw]:
            for dd in (28.0, 29.0, 29.5, 29.999):
                q = Epoch(y, 2, dd)._jde
                for finder, targets in FINDERS.items():
                    for target in targets:
                        r = check_query(ctx, finder, target, q, 'julian_century_leap_day')
                        if r is not None:
                            check_event(ctx, finder, target, q, 'julian_century_leap_day')
                            pending.append((finder, target, q, 'julian_century_leap_day'))
    # ---- the last / first minutes of every calendar year
    Ep = Epoch
    allys = list(range(-2000, 4000))
    risky = [y for y in allys if (not Ep.is_leap(y)) and Ep.is_leap(y + 1)]   # common year followed by a leap year
    base = set(risky) | {h + d for h in hot_years for d in (-1, 0)} | {1581, 1582, -2000, 3999}
    if full:
        base |= set(allys)
    else:
        base |= set(y for y in allys if (y + base_seed) % 7 == 0)
    sweep_year_ends(ctx, sorted(base)[shard::nw], pending, rng)
    # ---- random single queries over the whole range (events checked), dense near the ends
    for _ in range(ctx.n(1200, 30000) // nw):
        r = rng.random()
        if hot_jdes and r < 0.15:
            q = rng.choice(hot_jdes) + rng.uniform(-40, 40)
        elif r < 0.3:
            q = rng.choice([J_MIN + rng.uniform(0, 60), J_MAX - rng.uniform(0, 60)])
        else:
            q = rng.uniform(J_MIN, J_MAX)
        q = min(max(q, J_MIN), J_MAX - 1e-6)
        finder = rng.choice(list(FINDERS))
        target = rng.choice(FINDERS[finder])
        r1 = check_query(ctx, finder, target, q, 'random_query')
        if r1 is not None:
            check_event(ctx, finder, target, q, 'random_query')
            step = rng.uniform(0.0, 20.0)
            r2 = check_query(ctx, finder, target, q + step, 'random_query') if q + step < J_MAX else None
            if r2 is not None:
                check_pair(ctx, finder, target, q, r1, q + step, r2, 'random_query')
            pending.append((finder, target, q, 'random_query'))

    # ---- (S): correspondence lines, capped per shard
    budget = CASE_CAP - len(ctx.cases)
    n_pt = min(len(pos_tie), max(200, budget // 12))
    for (j, k) in pos_tie[:n_pt]:
        tie_position(ctx, j, k)
    budget = CASE_CAP - len(ctx.cases)
    if len(pending) > budget:
        special = [p for p in pending if p[3] not in ('random_year', 'random_query')]
        rest = [p for p in pending if p[3] in ('random_year', 'random_query')]
        if len(special) > budget * 2 // 3:
            special = rng.sample(special, budget * 2 // 3)
        room = budget - len(special)
        rest = rng.sample(rest, min(len(rest), room))
        pending = special + rest
    for (finder, target, q, klass) in pending:
        tie_finder(ctx, finder, target, q, klass)
    if shard == 0:
        ctx.sample({'call': 'Moon.geocentric_ecliptical_pos(Epoch(1992, 4, 12.0))', 'expected': 'Meeus ex. 47.a: 133.162655, -3.229126, 368409.7 km, 0.99199'})
        ctx.sample({'call': "Moon.moon_phase(Epoch(1977, 2, 15.0), 'new')", 'expected': 'Meeus ex. 49.a: JDE 2443192.65118'})
        ctx.sample({'call': "Moon.moon_phase(Epoch(4000, 6, 1.0), 'last')", 'expected': 'within 38.1 days after the query (was 55 d before the fix)'})


# ------------------------------------------------------------------ known findings / replay
def known_match(finding, failure):
    """known_findings.json (property C15) entries: predicate + targets + JDE range of the query."""
    if finding.get('predicate') != failure.get('predicate'):
        return False
    inp = failure.get('input') or []
    if len(inp) < 3 or not isinstance(inp[0], (int, float)):
        return False
    lo, hi = finding.get('query_jde_range', [-1e99, 1e99])
    if not (lo <= inp[0] <= hi):
        return False
    if 'targets' in finding and inp[-1] not in finding['targets']:
        return False
    d = (failure.get('detail') or {}).get('days_from_query')
    if 'days_from_query_range' in finding:
        a, b = finding['days_from_query_range']
        if d is None or not (a <= d <= b):
            return False
    return True


POSITION_PREDICATES = ('position_total', 'distance_window', 'latitude_window', 'parallax_identity',
                       'longitude_daily_advance', 'fraction_range', 'fraction_geometry', 'node_secular_rate',
                       'true_node_near_mean', 'perigee_secular_rate')


def replay(case):
    """Re-run one recorded failing input on the implementation; returns (still_fails, detail)."""
    import core
    ctx = core.Ctx(PROPERTY, 'quick', 0)
    name = case.get('predicate')
    inp = case.get('input') or []
    if name in POSITION_PREDICATES:
        check_position(ctx, inp[0], 'replay')
    elif name in ('never_backwards', 'consecutive_one_period'):
        q1, q2, finder, target = inp
        r1 = check_query(ctx, finder, target, q1, 'replay')
        r2 = check_query(ctx, finder, target, q2, 'replay')
        if r1 is not None and r2 is not None:
            check_pair(ctx, finder, target, q1, r1, q2, r2, 'replay')
    elif name in ('bad_target_refused', 'non_string_target_refused'):
        check_bad_targets(ctx, inp[0])
    else:
        q, finder, target = inp[0], inp[1], inp[2]
        check_query(ctx, finder, target, q, 'replay')
        check_event(ctx, finder, target, q, 'replay')
    fails = [f for f in ctx.pred_fail if f['predicate'] == name and (name in ('bad_target_refused', 'non_string_target_refused')
                                                                     and f['input'][1:] == inp[1:] or
                                                                     name not in ('bad_target_refused', 'non_string_target_refused'))]
    return (len(fails) > 0, fails[:5])
