"""C14 — seasons, equation of time and sunrise/sunset agree with the solar position.

(S) structural tie: the binary64 instantiation of lean/templates/SunEvents.lean against the real
    pymeeus, bit for bit: Sun.get_equinox_solstice (fed the solar longitudes the implementation
    saw along its iteration), Sun.equation_of_time, Epoch.rise_set, times_rise_transit_set and the
    mirrored Angle / Epoch(jde) helpers.
(I) every numerical clause of the property evaluated on the implementation, the "solar position"
    being the library's own Sun.apparent_geocentric_position + apparent_sidereal_time +
    equatorial2horizontal.
"""
import math
from core import run_impl, enc

PROPERTY = 'C14'
FUNCTIONS = ['pymeeus/Sun.py:Sun.get_equinox_solstice', 'pymeeus/Sun.py:Sun.equation_of_time',
             'pymeeus/Epoch.py:Epoch.rise_set', 'pymeeus/Coordinates.py:times_rise_transit_set',
             'pymeeus/Coordinates.py:equatorial2horizontal',
             'pymeeus/Angle.py:Angle.reduce_deg', 'pymeeus/Angle.py:Angle.to_positive',
             'pymeeus/Angle.py:Angle.set', 'pymeeus/Angle.py:Angle.__add__', 'pymeeus/Angle.py:Angle.__sub__',
             'pymeeus/Angle.py:Angle.__rsub__', 'pymeeus/Angle.py:Angle.__neg__', 'pymeeus/Angle.py:Angle.__mul__',
             'pymeeus/Angle.py:Angle.__rmul__', 'pymeeus/Angle.py:Angle.__imul__', 'pymeeus/Angle.py:Angle.__div__',
             'pymeeus/Angle.py:Angle.__truediv__', 'pymeeus/Angle.py:Angle.__round__', 'pymeeus/Angle.py:Angle.rad',
             'pymeeus/Angle.py:Angle.dms2deg',
             'pymeeus/Epoch.py:Epoch.set', 'pymeeus/Epoch.py:Epoch.get_full_date', 'pymeeus/Epoch.py:Epoch.get_date',
             'pymeeus/Epoch.py:Epoch._compute_jde', 'pymeeus/Epoch.py:Epoch.__add__', 'pymeeus/Epoch.py:Epoch.__sub__',
             'pymeeus/Epoch.py:Epoch.__iadd__', 'pymeeus/Epoch.py:Epoch.__isub__']

MANIFEST = dict(
    text=("Lean 4 theorems (Props/C14.lean, 40) about the real-arithmetic model of Sun.get_equinox_solstice, "
          "Sun.equation_of_time, Epoch.rise_set and times_rise_transit_set: ValueError exactly outside years "
          "-1000..3000 and for a bad target, Meeus' tables 27.A/27.B selected as documented; for ANY solar "
          "longitude function, if the season loop exits the returned instant is the last one the longitude was "
          "evaluated at and that longitude is within 2.5e-6 degree of k*90 degrees or of its antipode (partial "
          "correctness only) - also with the model's own Epoch(jde) constructor, proved to be the identity over the "
          "reals on jde >= 0, for up to 20000 passes; the equation-of-time (minutes, seconds) recombine to |E| with the sign on the minutes "
          "(lost below one minute; known finding), and its +-180 degree reduction lands in [-180, 180] for every value; "
          "rise <= transit <= set whenever the acos argument is in "
          "[-1,1]; for every accepted latitude, height and date rise_set raises ValueError exactly when |lat + delta| > 90 "
          "- 0.83 - dip, delta the sunrise equation's own declination for that day (the listed midnight-sun finding, "
          "characterised), hence never under |lat| + 23.44 + 0.83 + dip <= 90; times_rise_transit_set returns no times iff the body at its middle position never reaches h0. "
          "Also proved: Meeus' APPROXIMATE instants of every year are in order, 88-95 days apart, and 365.2-365.3 days "
          "from those of the next year incl. the table switch 999/1000 (the clause for the returned instants stays "
          "measured); the direction of the season correction; the mean longitude L0 of equation_of_time is Meeus 28.2 "
          "coefficient by coefficient and the returned (m, s) are those of 4(L0 - 0.0057183 - alpha + dpsi cos eps) reduced "
          "to +-720 min; the interpolation uses differences wrapped to +-180 degrees for all tabular values; the "
          "refinement is the second iterate, its transit correction is -H/360 with H in +-180 degrees; the latitude and "
          "negative-height guards of rise_set; rise_set depends on the civil day of the epoch only; at the returned hour "
          "angle the sunrise equation's own Sun is exactly at the standard altitude (equatorial2horizontal's formula), and "
          "so is a body at the start estimates of times_rise_transit_set; ZeroDivisionError at a pole. "
          "The model's binary64 instantiation agrees with CPython bit for bit on every sampled call (the season loop "
          "both fed the solar longitudes the implementation saw and run from the year alone on the C08 model of the "
          "Sun's apparent position). All numerical clauses (1e-5 degree, 88-95 d, "
          "365.2-365.3 d, 25/17.5 min, 45 s/day, 1 degree, 0.005 degree) are measured on the implementation, not "
          "proved: all years -1000..3000 x 4 seasons, 1200 whole years of daily equation-of-time values, 80000 "
          "sunrise/sunset cases and 480000 synthetic bodies in thorough; one pass of the times_rise_transit_set "
          "iteration moves the transit by at most half a day, the returned transit lies within one day of the start "
          "estimate, and rise < transit < set holds without day wrap when the corrections differ by less than H0/360. Three defects of the implementation remain listed as "
          "known findings (known_findings.json (property C14)); three others were fixed in /repo."),
    note=("Partial. Not carried by any theorem: convergence of the season loop and which of the two solutions it "
          "converges to; every numerical bound of the statement (agreement of Meeus' series with each other is "
          "empirical); convergence of the times_rise_transit_set passes (the rise/set corrections are unbounded near "
          "grazing). Trusted: Lean kernel, Mathlib, "
          "axioms propext/Classical.choice/Quot.sound; the hand-written model and its bit-exact correspondence run; "
          "Sun.apparent_geocentric_position, leap_seconds, alpha/nutation/obliquity are parameters of the model; "
          "binary64 -> R idealisation."),
    technique="Lean 4 proof (Mathlib real analysis) + model/implementation correspondence check + measured predicates",
    ref='6 C14')

TRUSTED = [
    'Sun.apparent_geocentric_position is a PARAMETER sunLon of the season model: the theorems hold for an arbitrary '
    'function; in the F tie the driver receives the list of (JDE, longitude) pairs the implementation saw (one per '
    'loop pass), answers NaN at any other JDE, and must return the same instant bit for bit, so the tie checks that '
    'the model makes the same steps when fed the same longitudes',
    'Epoch(jde) (store, read the date back, recompute) is the model function mkEpoch (EpochCore get_date/compute_jde) '
    'in both instantiations; over the reals it is proved to be the identity on jde >= 0 (Refine/EpochCoreR.lean)',
    'Epoch.leap_seconds(year, month) and alpha / nutation / obliquity of equation_of_time enter the model as input '
    'values computed by the implementation',
    'loop fuel of the season model in the F tie = number of longitude evaluations the implementation made + 1',
    'second season tie (get_equinox_solstice_year): the same loop run from (year, target) alone, the solar longitude '
    'being the C08 model of Sun.apparent_geocentric_position (templates/SunEarth.lean), fuel 64; it must return the '
    'implementation\'s instant bit for bit',
]
ASSUMPTIONS = [
    'an Epoch returned by rise_set is read as a TT instant (the documented convention of Epoch): the Sun is computed at '
    'that Epoch, the sidereal time at UT = TT - DeltaT with the library\'s own leap second table (Epoch.tt2ut before '
    '1972). Read naively (sidereal time of the same Epoch, i.e. UT = TT) every hour angle is 0.29 degree larger and '
    'the 1 degree clause fails for |latitude| >= 40 in 2075-2100 (up to 1.08 degree)',
    'the (I) predicates take the library\'s own solar position, sidereal time and horizontal coordinates as the '
    'reference, as the property says; they do not validate those against an external ephemeris',
    'grazing rise/set (excluded from the 0.005 degree clause) = the body\'s upper or lower culmination at its middle '
    'position is within 3 degrees of h0',
]
RULE = 'distinct (model function, argument tuple) pairs sent to the model and to the implementation'

SEASONS = ['spring', 'summer', 'autumn', 'winter']
YMIN, YMAX = -1000, 3000


# ------------------------------------------------------------------ small helpers
def _imports():
    from pymeeus.Sun import Sun
    from pymeeus.Epoch import Epoch
    from pymeeus.Angle import Angle
    import pymeeus.Coordinates as C
    return Sun, Epoch, Angle, C


def wrap180(x):
    return x - 360.0 * round(x / 360.0)


class LonRecorder:
    """Records (epoch JDE, lon._deg) of every Sun.apparent_geocentric_position call."""

    def __init__(self, Sun):
        self.Sun = Sun
        self.jdes, self.lons = [], []

    def __enter__(self):
        self.orig = self.Sun.__dict__['apparent_geocentric_position']
        f = self.orig.__func__

        def rec(epoch, *a, **k):
            j = epoch._jde
            r = f(epoch, *a, **k)
            self.jdes.append(j)
            self.lons.append(r[0]._deg)
            return r
        self.Sun.apparent_geocentric_position = staticmethod(rec)
        return self

    def __exit__(self, *a):
        self.Sun.apparent_geocentric_position = self.orig


# ------------------------------------------------------------------ seasons
def season_call(ctx, Sun, year, target, klass):
    """Run the implementation (recording the longitudes), register the tie case; returns JDE or None."""
    with LonRecorder(Sun) as rec:
        try:
            e = Sun.get_equinox_solstice(year, target)
            out = enc(e._jde)
            j = e._jde
        except Exception as ex:  # noqa
            from core import enc_exc
            out = enc_exc(ex)
            j = None
    if isinstance(year, int) and not isinstance(year, bool) and isinstance(target, str):
        ctx.case('get_equinox_solstice', [year, target, list(rec.jdes), list(rec.lons)], out, q=None,
                 klass='season/' + klass)
        # the same call from the year alone: the loop with the model's own Epoch constructor and the solar
        # longitude modelled by templates/SunEarth.lean (VSOP87 + FK5 + nutation + aberration)
        ctx.case('get_equinox_solstice_year', [year, target], out, q=None, klass='season_year/' + klass)
    return j, out, len(rec.jdes)


def check_year(ctx, Sun, Epoch, year, klass, cache=None):
    """All clauses about one year in range: longitude at the four instants, order, spacing,
    distance to next year's same-season instants (if year + 1 is in range)."""
    def get(y):
        if cache is not None and y in cache:
            return cache[y]
        js = []
        for k, t in enumerate(SEASONS):
            j, out, n = season_call(ctx, Sun, y, t, klass)
            ctx.predicate('season_returns_instant', j is not None, [y, t], out, klass)
            if j is not None:
                ep = Epoch(); ep._jde = j
                lon = Sun.apparent_geocentric_position(ep)[0]
                dev = abs(wrap180(lon._deg - 90.0 * k))
                ctx.deviation('season_longitude_deg', dev)
                ctx.predicate('season_longitude_1e-5', dev <= 1e-5, [y, t], {'jde': j, 'lon': lon._deg, 'dev': dev}, klass)
            js.append(j)
        if cache is not None:
            cache[y] = js
        return js
    js = get(year)
    if None in js:
        return
    gaps = [js[i + 1] - js[i] for i in range(3)]
    ctx.predicate('season_order_88_95', all(88.0 <= g <= 95.0 for g in gaps), [year], {'jdes': js, 'gaps': gaps}, klass)
    if year + 1 <= YMAX:
        js2 = get(year + 1)
        if None not in js2:
            d = [js2[i] - js[i] for i in range(4)]
            ctx.predicate('season_year_365.2_365.3', all(365.2 <= x <= 365.3 for x in d), [year], {'diffs': d}, klass)
            ctx.predicate('season_order_88_95', 88.0 <= js2[0] - js[3] <= 95.0, [year, 'winter->spring'],
                          {'gap': js2[0] - js[3]}, klass)


def check_season_errors(ctx, Sun, rng, n):
    bad_years = [-1001, 3001, -1002, 3002, -2000, 4000, 10 ** 6, -10 ** 6] + \
        [rng.choice([-1, 1]) * rng.randint(3001, 20000) - (1000 if rng.random() < .5 else 0) for _ in range(n)]
    for y in bad_years:
        if YMIN <= y <= YMAX:
            continue
        for t in SEASONS:
            j, out, _ = season_call(ctx, Sun, y, t, 'year_out_of_range')
            ctx.predicate('season_year_out_of_range_valueerror', out == 'E:ValueError', [y, t], out)
    for t in ['Spring', 'spring ', '', 'fall', 'SUMMER', 'winterr', 'equinox']:
        for y in (2000, -1000, 3000, 5000):
            j, out, _ = season_call(ctx, Sun, y, t, 'bad_target')
            ctx.predicate('season_bad_target_valueerror', out == 'E:ValueError', [y, t], out)
        ctx.case('season_index', [t], 'E:ValueError', q=None, klass='season_index')
    for k, t in enumerate(SEASONS):
        ctx.case('season_index', [t], enc(k), q=None, klass='season_index')
    for (y, t) in ((2000.0, 'spring'), ('2000', 'spring'), (2000, 1), (None, 'summer'), (2000, None)):
        out = run_impl(lambda: Sun.get_equinox_solstice(y, t))
        ctx.predicate('season_bad_type_typeerror', out == 'E:TypeError', [repr(y), repr(t)], out)


# ------------------------------------------------------------------ equation of time
def eot_call(ctx, Sun, Epoch, C, jde, klass):
    """-> (m, s, info) of the implementation (None on exception) and the tie case."""
    ep = Epoch(); ep._jde = jde
    try:
        m, s = Sun.equation_of_time(ep)
        out = enc((m, s))
    except Exception as ex:  # noqa
        from core import enc_exc
        out = enc_exc(ex)
        m = s = None
    # the inputs the model takes, computed with the same library calls the function makes
    lon, lat, r = Sun.apparent_geocentric_position(ep)
    eps = C.true_obliquity(ep)
    alpha, dec = C.ecliptical2equatorial(lon, lat, eps)
    dpsi = C.nutation_longitude(ep)
    ctx.case('equation_of_time', [jde, alpha._deg, dpsi._deg, eps._deg], out, q=None, klass='eot/' + klass)
    t = (jde - 2451545.0) / 365250
    l0 = (280.4664567 + t * (360007.6982779 + t * (0.03032028 + t * (1.0 / 49931.0 + t * (-1.0 / 15300.0 - t * 1.0 / 2000000.0))))) % 360.0
    return m, s, {'l0': l0, 'alpha': alpha._deg}


def eot_seconds(m, s):
    """(m, s) read the natural way: minutes carry the sign, seconds are a magnitude."""
    return m * 60.0 + (s if m >= 0 else -s)


def check_eot_day(ctx, Sun, Epoch, C, jde, year, klass, prev=None):
    m, s, info = eot_call(ctx, Sun, Epoch, C, jde, klass)
    inp = [jde, year]
    if m is None:
        ctx.predicate('eot_returns', False, inp, None, klass)
        return None
    ctx.predicate('eot_seconds_in_0_60', type(m) is int and 0.0 <= s < 60.0, inp, {'m': m, 's': s}, klass)
    E = eot_seconds(m, s)
    ctx.deviation('eot_abs_minutes', abs(E) / 60.0)
    detail = dict(info, m=m, s=s)
    ctx.predicate('eot_within_25min', abs(E) <= 25.0 * 60.0, inp, detail, klass)
    if 1800 <= year <= 2200:
        ctx.predicate('eot_within_17.5min_1800_2200', abs(E) <= 17.5 * 60.0, inp, detail, klass)
    if prev is not None:
        pm, ps, pinfo, pj = prev
        d = abs(E - eot_seconds(pm, ps))
        ctx.predicate('eot_daily_change_lt_45s', d < 45.0, [pj, year, jde],
                      {'prev': {'m': pm, 's': ps, 'l0': pinfo['l0'], 'alpha': pinfo['alpha']}, 'cur': detail, 'change_s': d}, klass)
    return (m, s, info, jde)


def check_eot_year(ctx, Sun, Epoch, C, year, klass, frac=0.0):
    """Every day of one year (plus the first day of the next for the daily-change clause)."""
    j0 = Epoch(year, 1, 1)._jde + frac
    n = int(round(Epoch(year + 1, 1, 1)._jde - Epoch(year, 1, 1)._jde))
    prev = None
    for i in range(n + 1):
        prev = check_eot_day(ctx, Sun, Epoch, C, j0 + i, year, klass, prev)


# ------------------------------------------------------------------ sunrise / sunset
def sun_altitude(Sun, Epoch, Angle, C, jde, lat, lon_east):
    """Altitude (deg) and hour angle (deg, in (-180, 180]) of the Sun's centre at the instant of an Epoch
    (a TT instant, the library's convention for Epoch), from Sun.apparent_geocentric_position +
    apparent_sidereal_time (evaluated at UT = TT - DeltaT, DeltaT from the library's leap second table from
    1972 and from Epoch.tt2ut before) + equatorial2horizontal."""
    tt = Epoch(); tt._jde = jde
    y, mo, d = tt.get_date()
    dt = (10.0 + 32.184 + Epoch.leap_seconds(y, mo)) if y >= 1972 else Epoch.tt2ut(y, mo)
    ut = Epoch(); ut._jde = jde - dt / 86400.0
    lon, la, r = Sun.apparent_geocentric_position(tt)
    eps = C.true_obliquity(tt)
    dpsi = C.nutation_longitude(tt)
    ra, dec = C.ecliptical2equatorial(lon, la, eps)
    theta0 = Angle(ut.apparent_sidereal_time(eps, dpsi) * 360.0)
    ha = theta0 + Angle(lon_east) - ra
    azi, ele = C.equatorial2horizontal(ha, dec, Angle(lat))
    return ele._deg, wrap180(ha._deg)


def decl_approx(doy):
    return 23.44 * math.sin(2.0 * math.pi * (doy - 80.5) / 365.25)


def check_rise_set(ctx, Sun, Epoch, Angle, C, y, mo, d, lat, lon, alt, klass):
    inp = [y, mo, d, lat, lon, alt]
    e = Epoch(y, mo, d)
    jde = e._jde
    try:
        jr, js = e.rise_set(Angle(lat), Angle(lon), alt)
        res = (jr._jde, js._jde)
        out = enc(res)
    except Exception as ex:  # noqa
        from core import enc_exc
        out = enc_exc(ex)
        res = None
    yy, mm, dd = e.get_date()
    leap = Epoch.leap_seconds(yy, mm)
    ctx.case('rise_set', [jde, leap, float(Angle(lat)._deg), float(Angle(lon)._deg), float(alt)], out, q=None,
             klass='rise_set/' + klass)
    if abs(lat) > 66.55 + 1e-9:
        ctx.predicate('rise_polar_latitude_valueerror', out == 'E:ValueError', inp, out, klass)
        return
    if abs(lat) > 66.5 or alt < 0:
        return   # between 66.5 and 66d33' (or a negative height): outside the property; tie only
    dip = 2.076 * math.sqrt(alt) / 60.0
    h0 = -0.83 - dip
    doy = Epoch.get_doy(y, mo, d)
    ctx.predicate('rise_returns_times', res is not None, inp,
                  {'out': out, 'doy': doy, 'needs_decl': 90.0 - 0.83 - dip - abs(lat)}, klass)
    if res is None:
        return
    r, s = res
    ar, hr = sun_altitude(Sun, Epoch, Angle, C, r, lat, lon)
    as_, hs = sun_altitude(Sun, Epoch, Angle, C, s, lat, lon)
    ctx.deviation('rise_altitude_deg', max(abs(ar - h0), abs(as_ - h0)))
    ctx.predicate('rise_altitude_within_1deg', abs(ar - h0) <= 1.0, inp, {'rise': r, 'alt': ar, 'h0': h0}, klass)
    ctx.predicate('set_altitude_within_1deg', abs(as_ - h0) <= 1.0, inp, {'set': s, 'alt': as_, 'h0': h0}, klass)
    # local transit: the instant between them at which the hour angle of the Sun vanishes
    mid = 0.5 * (r + s)
    am, hm = sun_altitude(Sun, Epoch, Angle, C, mid, lat, lon)
    tr = mid - hm / 360.985647
    at, ht = sun_altitude(Sun, Epoch, Angle, C, tr, lat, lon)
    # tr is an upper transit (hour angle 0 to 0.01 degree); hour angles at rise/set are reported, not tested:
    # near a midnight sun they sit at -180/+180 degrees and wrap
    ok = (r < tr < s) and abs(ht) < 0.01 and (s - r) <= 1.0 + 1e-6
    ctx.predicate('rise_before_transit_before_set', ok, inp,
                  {'rise': r, 'transit': tr, 'set': s, 'ha_rise': hr, 'ha_transit': ht, 'ha_set': hs}, klass)


def gen_rise_inputs(rng, hot):
    r = rng.random()
    y = rng.randint(1900, 2100)
    if r < 0.35:       # around the solstices
        mo, d = rng.choice([(6, 21), (12, 21), (6, 20), (12, 22), (6, 1), (7, 10), (12, 1), (1, 10), (5, 15), (11, 15)])
        d = min(28, max(1, d + rng.randint(-3, 3))) if rng.random() < .5 else d
    elif r < 0.45:     # equinoxes
        mo, d = rng.choice([(3, 20), (9, 22), (3, 21), (9, 23)])
    else:
        mo = rng.randint(1, 12); d = rng.randint(1, 28)
    if rng.random() < 0.15:
        d = d + rng.choice([0.25, 0.5, 0.75, rng.random()])
    r = rng.random()
    if r < 0.30:       # dense near the limit
        lat = rng.choice([-1, 1]) * (66.5 - abs(rng.gauss(0, 0.6)))
        lat = max(-66.5, min(66.5, lat))
    elif r < 0.40:
        lat = rng.choice([66.5, -66.5, 66.0, -66.0, 65.73, -65.73, 65.0, -65.0, 0.0, 23.44, -23.44, 63.3, -63.3])
    else:
        lat = rng.uniform(-66.5, 66.5)
    r = rng.random()
    lon = rng.choice([0.0, 180.0, -180.0, 179.999, -179.999, 90.0, -90.0]) if r < 0.15 else rng.uniform(-180.0, 180.0)
    r = rng.random()
    alt = rng.choice([0.0, 5000.0, 0, 5000, 1.0, 100.0, 2500.0]) if r < 0.4 else rng.uniform(0.0, 5000.0)
    return y, mo, d, lat, lon, alt


# ------------------------------------------------------------------ times_rise_transit_set
def body_at(a2, ra_rate, ra_curv, d2, de_rate, de_curv, n):
    return a2 + n * ra_rate + n * n * ra_curv, d2 + n * de_rate + n * n * de_curv


def alt_of(lat, dec, ha):
    la, de, h = math.radians(lat), math.radians(dec), math.radians(ha)
    return math.degrees(math.asin(max(-1.0, min(1.0, math.sin(la) * math.sin(de) + math.cos(la) * math.cos(de) * math.cos(h)))))


def check_rts(ctx, Angle, C, p, klass):
    """p = dict(lon, lat, a2, ra_rate, ra_curv, d2, de_rate, de_curv, h0, dt, theta0)."""
    inp = [p[k] for k in ('lon', 'lat', 'a2', 'ra_rate', 'ra_curv', 'd2', 'de_rate', 'de_curv', 'h0', 'dt', 'theta0')]
    pos = [body_at(p['a2'], p['ra_rate'], p['ra_curv'], p['d2'], p['de_rate'], p['de_curv'], n) for n in (-1.0, 0.0, 1.0)]
    A = [Angle(x) for x in (p['lon'], p['lat'], pos[0][0], pos[0][1], pos[1][0], pos[1][1], pos[2][0], pos[2][1],
                            p['h0'])]
    th = Angle(p['theta0'])
    args = [a._deg for a in A] + [p['dt'], th._deg]
    try:
        res = C.times_rise_transit_set(*A, p['dt'], th)
        out = 'None' if res == (None, None, None) else enc(tuple(res))
    except Exception as ex:  # noqa
        from core import enc_exc
        out = enc_exc(ex)
        res = 'exc'
    ctx.case('times_rise_transit_set', args, out, q=None, klass='rts/' + klass)
    lat, d2, h0 = A[1]._deg, A[5]._deg, A[8]._deg
    if abs(lat) >= 89.9 or abs(d2) >= 89.9:
        return
    upper = 90.0 - abs(lat - d2)          # altitude at upper culmination, middle position
    lower = -90.0 + abs(lat + d2)         # altitude at lower culmination
    never = (h0 > upper) or (h0 < lower)
    margin = min(abs(upper - h0), abs(h0 - lower))
    if margin > 1e-6:
        ctx.predicate('rts_none_iff_never_crosses', (out == 'None') == never, inp,
                      {'out': out, 'upper': upper, 'lower': lower, 'h0': h0}, klass)
    if res == 'exc':
        ctx.predicate('rts_no_exception', False, inp, out, klass)
        return
    if out == 'None':
        return
    grazing = margin < 3.0
    rise_h, tran_h, set_h = res

    def at(hours):
        m = hours / 24.0
        n = m + p['dt'] / 86400.0
        a, d = body_at(p['a2'], p['ra_rate'], p['ra_curv'], p['d2'], p['de_rate'], p['de_curv'], n)
        ha = p['theta0'] + 360.985647 * m - p['lon'] - a
        return alt_of(lat, d, ha), wrap180(ha)
    ar, hr = at(rise_h)
    as_, hs = at(set_h)
    at_, ht = at(tran_h)
    if not grazing:
        ctx.deviation('rts_altitude_deg', max(abs(ar - h0), abs(as_ - h0)))
        ctx.deviation('rts_meridian_deg', abs(ht))
        ctx.predicate('rts_rise_at_h0_0.005', abs(ar - h0) <= 0.005 and hr < 0, inp, {'rise_h': rise_h, 'alt': ar, 'ha': hr}, klass)
        ctx.predicate('rts_set_at_h0_0.005', abs(as_ - h0) <= 0.005 and hs > 0, inp, {'set_h': set_h, 'alt': as_, 'ha': hs}, klass)
    ctx.predicate('rts_transit_on_meridian_0.005', abs(ht) <= 0.005, inp, {'transit_h': tran_h, 'ha': ht}, klass)


def gen_rts(rng, kind):
    lat = rng.uniform(-89.0, 89.0) if rng.random() < 0.2 else rng.uniform(-66.5, 66.5)
    p = dict(lon=rng.uniform(-180.0, 180.0), lat=lat, a2=rng.uniform(0.0, 360.0),
             ra_rate=rng.uniform(-1.5, 1.5), ra_curv=rng.uniform(-0.02, 0.02),
             de_rate=rng.uniform(-0.5, 0.5), de_curv=rng.uniform(-0.01, 0.01),
             h0=rng.choice([-0.5667, -0.8333, 0.125, rng.uniform(-2.0, 2.0)]),
             dt=rng.choice([0.0, 56.0, 69.2, rng.uniform(-10.0, 120.0)]), theta0=rng.uniform(0.0, 360.0))
    if rng.random() < 0.25:
        p['a2'] = rng.choice([0.0, 359.9, 0.3, 359.2, 180.0, 1.0])      # right ascension wraps between the days
    if rng.random() < 0.1:
        p['lon'] = rng.choice([0.0, 180.0, -180.0])
    if kind == 'free':
        p['d2'] = rng.uniform(-89.0, 89.0) if rng.random() < 0.3 else rng.uniform(-30.0, 30.0)
    else:
        # grazing / never-rising / circumpolar: put a culmination within `w` of h0
        w = {'graze': 3.0, 'edge': 0.05, 'never': 30.0}[kind]
        s = rng.choice([-1.0, 1.0])
        off = rng.uniform(-w, w) if kind != 'never' else rng.uniform(0.01, w)
        if rng.random() < 0.5:   # upper culmination 90 - |lat - d2| = h0 + off
            x = 90.0 - p['h0'] - (off if kind != 'never' else -off)
            p['d2'] = lat + s * x
        else:                    # lower culmination -90 + |lat + d2| = h0 + off
            x = 90.0 + p['h0'] + (off if kind != 'never' else off)
            p['d2'] = -lat + s * x
        if abs(p['d2']) > 89.5:
            p['d2'] = rng.uniform(-30.0, 30.0)
    return p


# ------------------------------------------------------------------ helper ties
def check_helpers(ctx, Epoch, Angle, rng, n):
    vals = [0.0, -0.0, 360.0, -360.0, 359.99999999999994, 720.0, 720.5, -720.5, 1e-20, -1e-20, 1e15 + 0.5, -1e15,
            180.0, -180.0, 539.25, -1439.2, 1432.8, 1e-300, 361.0, -361.0, 4e9 + 0.25]
    vals += [rng.uniform(-2000.0, 2000.0) for _ in range(n)] + [rng.uniform(-1.0, 1.0) * 10 ** rng.randint(-5, 12) for _ in range(n)]
    for v in vals:
        ctx.case('se_reduce', [v], enc(Angle(v)._deg), q=None, klass='angle_helpers')
        ctx.case('se_to_positive', [Angle(v)._deg], enc(Angle(v).to_positive()._deg), q=None, klass='angle_helpers')
        ctx.case('se_round0', [v / 360.0], enc(float(round(v / 360.0, 0))), q=None, klass='angle_helpers')
    for v in [0.0, math.pi, -math.pi, 2 * math.pi, 7.0, -7.0, 1e-9] + [rng.uniform(-10.0, 10.0) for _ in range(n)]:
        ctx.case('se_of_radians', [v], enc(Angle(v, radians=True)._deg), q=None, klass='angle_helpers')
    ctx.case('rise_limit', [], enc(Angle(66, 33, 0)._deg), q=None, klass='angle_helpers')
    for _ in range(n):
        j = rng.choice([rng.uniform(1355000.0, 2817000.0), rng.uniform(2415020.0, 2488070.0),
                        float(rng.randint(1355000, 2817000)) + rng.choice([0.0, 0.5, 0.25, 0.4999999999, 0.5000000001])])
        ctx.case('se_mk_epoch', [j], run_impl(lambda: Epoch(j)._jde), q=None, klass='epoch_of_jde')


# ------------------------------------------------------------------ generate
QUICK_YEARS = [-1000, -999, -998, -500, -1, 0, 1, 500, 998, 999, 1000, 1001, 1002, 1500, 1582, 1800, 1962, 1999, 2000,
               2024, 2200, 2500, 2998, 2999, 3000]
EOT_QUICK_YEARS = [-2000, -1999, -1000, -1, 0, 1000, 1582, 1800, 1900, 1992, 2000, 2020, 2023, 2100, 2200, 3000, 3999, 4000]
EOT_CENTURIES = [-2000, -1000, -100, 0, 1000, 1500, 1800, 1900, 2000, 2100, 3000, 3901]


KNOWN_KEEP = 150


def _install_budget(ctx):
    """The listed findings fail thousands of times in a thorough run, and the runner keeps only the first 500
    failures of a shard.  Keep every failure that matches NO listed finding (moved to the front), and at most
    KNOWN_KEEP stored examples per listed finding; the others are still counted as failures."""
    import core
    known = [k for k in core.load_known() if k.get('property') == PROPERTY]
    counts = {}
    orig = ctx.predicate

    def predicate(name, ok, inp, detail=None, klass=None):
        if ok:
            return orig(name, ok, inp, detail, klass)
        f = {'predicate': name, 'input': inp, 'detail': detail}
        kid = None
        for k in known:
            if known_match(k, f):
                kid = k['id']
                break
        if kid is not None:
            counts[kid] = counts.get(kid, 0) + 1
            if counts[kid] > KNOWN_KEEP:
                ctx.pred_count += 1
                kk = klass or name
                ctx.pred_classes[kk] = ctx.pred_classes.get(kk, 0) + 1
                ctx.pred_fail_overflow = getattr(ctx, 'pred_fail_overflow', 0) + 1
                return
        n = len(ctx.pred_fail)
        orig(name, ok, inp, detail, klass)
        if kid is None and len(ctx.pred_fail) > n:
            ctx.pred_fail.insert(0, ctx.pred_fail.pop())
    ctx.predicate = predicate
    return counts


def generate(ctx, shard=0, nshards=1):
    Sun, Epoch, Angle, C = _imports()
    known_counts = _install_budget(ctx)
    rng = ctx.rng
    thorough = ctx.tier == 'thorough'
    hot_years = sorted(set(v for v in ctx.hot['ints'] if YMIN - 2 <= v <= YMAX + 2))

    if shard == 0:
        check_season_errors(ctx, Sun, rng, ctx.n(20, 200))
        check_helpers(ctx, Epoch, Angle, rng, ctx.n(150, 1500))
        ctx.sample({'call': "Sun.get_equinox_solstice(1962, 'summer').get_full_date()", 'expected': '1962/6/21 21:24:42'})
        ctx.sample({'call': 'Sun.equation_of_time(Epoch(2020, 3, 21))', 'expected': '(-7, 11.09)',
                    'note': 'returned (352, 48.9) before the fix of the +-180 degree reduction'})
        ctx.sample({'call': 'Epoch(2020, 6, 21).rise_set(Angle(66.5), Angle(0.0))', 'observed': 'ValueError: math domain error',
                    'note': 'known finding C14-rise-midnight-sun'})

    # ---- seasons
    cache = {}
    if thorough and ctx.scale <= 1.0:
        ctx.exhaustive = True
        ns = min(4, nshards)                       # at most 4 processes iterate VSOP for the seasons
        if shard < ns:
            years = list(range(YMIN, YMAX + 1))
            size = (len(years) + ns - 1) // ns
            for y in years[shard * size:(shard + 1) * size]:
                check_year(ctx, Sun, Epoch, y, 'exhaustive', cache)
    else:
        years = [y for i, y in enumerate(QUICK_YEARS) if i % nshards == shard]
        years += [y for i, y in enumerate(hot_years) if i % nshards == shard and YMIN <= y <= YMAX]
        years += [rng.randint(YMIN, YMAX) for _ in range(ctx.n(8, 60))]
        for y in years:
            check_year(ctx, Sun, Epoch, y, 'sample', cache)
    cache.clear()

    # ---- equation of time: every day of the sampled years
    if thorough:
        eyears = [c + i for c in EOT_CENTURIES for i in range(100)]
        eyears = [y for i, y in enumerate(eyears) if i % nshards == shard]
    else:
        eyears = [y for i, y in enumerate(EOT_QUICK_YEARS) if i % nshards == shard]
        eyears += [rng.randint(-2000, 4000) for _ in range(ctx.n(1, 4))]
    for y in eyears:
        check_eot_year(ctx, Sun, Epoch, C, y, 'daily', frac=rng.choice([0.0, 0.0, 0.5, rng.random()]))

    # ---- sunrise / sunset
    for _ in range(ctx.n(260, 5000) if nshards > 1 else ctx.n(2000, 40000)):
        y, mo, d, lat, lon, alt = gen_rise_inputs(rng, ctx.hot)
        check_rise_set(ctx, Sun, Epoch, Angle, C, y, mo, d, lat, lon, alt, 'random')
    if shard == 0:
        for (y, mo, d) in ((2020, 6, 21), (2020, 12, 21), (1900, 1, 1), (2100, 12, 31), (2000, 3, 20), (2019, 4, 2)):
            for lat in (66.5, -66.5, 66.55, -66.55, 66.5500001, -66.5500001, 66.6, -67.0, 89.0, 65.73, 65.74, 0.0, 48.1333):
                for alt in (0.0, 520.0, 5000.0):
                    check_rise_set(ctx, Sun, Epoch, Angle, C, y, mo, d, lat, 11.5667, alt, 'boundary')
        for lat in (10.0, 66.5):
            check_rise_set(ctx, Sun, Epoch, Angle, C, 2000, 6, 1, lat, 0.0, -1.0, 'negative_height')
        # the concrete inputs of the listed findings
        check_rise_set(ctx, Sun, Epoch, Angle, C, 2070, 8, 15.25, 20.5, -148.8, 3621.8, 'listed_finding')
        check_rise_set(ctx, Sun, Epoch, Angle, C, 2100, 9, 16, 66.34586515717513, 125.72421682275035, 3904.56771053863,
                       'listed_finding')
        check_rts(ctx, Angle, C, dict(lon=-104.4955999756344, lat=-32.689655685512705, a2=0.0, ra_rate=-0.880656514095074,
                                      ra_curv=-0.016876415337525166, d2=-19.519171425880018, de_rate=0.47186570309689857,
                                      de_curv=0.009061498022653833, h0=-0.5667, dt=34.07165516233574,
                                      theta0=0.7665856259937609), 'listed_finding')
        check_eot_day(ctx, Sun, Epoch, C, Epoch(2020, 3, 21)._jde, 2020, 'listed_finding')
        check_eot_day(ctx, Sun, Epoch, C, 990664.5, -2000, 'listed_finding',
                      check_eot_day(ctx, Sun, Epoch, C, 990663.5, -2000, 'listed_finding'))
        Sun_, Ep = Sun, Epoch
        for a in ((66.0, Angle(0.0), 0.0), (Angle(10.0), 0.0, 0.0), (Angle(10.0), Angle(0.0), '0')):
            out = run_impl(lambda: Ep(2000, 1, 1).rise_set(*a))
            ctx.predicate('rise_bad_type_typeerror', out == 'E:TypeError', [repr(x) for x in a], out)

    # ---- times_rise_transit_set on synthetic bodies
    for _ in range(ctx.n(1500, 30000) if nshards > 1 else ctx.n(12000, 200000)):
        r = rng.random()
        kind = 'free' if r < 0.55 else 'graze' if r < 0.75 else 'edge' if r < 0.85 else 'never'
        check_rts(ctx, Angle, C, gen_rts(rng, kind), kind)
    if shard == 0:
        out = run_impl(lambda: C.times_rise_transit_set(Angle(0), Angle(0), Angle(0), Angle(0), Angle(0), Angle(0), Angle(0),
                                                        Angle(0), 0.0, 0.0, Angle(0)))
        ctx.predicate('rts_bad_type_typeerror', out == 'E:TypeError', ['h0 as float'], out)
        ctx.notes.append('failures matching a listed finding in shard 0 of %d (at most %d stored each): %s'
                         % (nshards, KNOWN_KEEP, dict(known_counts)))


# ------------------------------------------------------------------ known findings
def known_match(finding, failure):
    fid = finding.get('id')
    pred = failure.get('predicate')
    det = failure.get('detail') or {}
    inp = failure.get('input') or []
    if fid == 'C14-eot-sign-below-one-minute':
        if pred != 'eot_daily_change_lt_45s' or not isinstance(det, dict):
            return False
        p, c = det.get('prev') or {}, det.get('cur') or {}
        if p.get('m') != 0 and c.get('m') != 0:
            return False
        # one of the two values is below one minute (m == 0, sign lost); with the other sign the clause holds
        cand_p = [eot_seconds(p['m'], p['s'])] + ([-p['s']] if p['m'] == 0 else [])
        cand_c = [eot_seconds(c['m'], c['s'])] + ([-c['s']] if c['m'] == 0 else [])
        return any(abs(a - b) < 45.0 for a in cand_p for b in cand_c)
    if fid == 'C14-rise-midnight-sun':
        if pred != 'rise_returns_times' or len(inp) < 6 or not isinstance(det, dict):
            return False
        if det.get('out') != 'E:ValueError':
            return False
        lat = inp[3]
        # (latitude, day-of-year) window: the declination the Sun needs for a midnight sun of its centre at that
        # latitude and dip is reached (to 1 degree) on that day of the year
        need = det['needs_decl']
        return abs(lat) >= 63.0 and abs(decl_approx(det['doy'])) >= need - 1.0
    if fid == 'C14-rise-accuracy-2100':
        if pred not in ('rise_altitude_within_1deg', 'set_altitude_within_1deg') or len(inp) < 6 or not isinstance(det, dict):
            return False
        return inp[0] >= 2075 and abs(inp[3]) >= 55.0 and abs(det.get('alt', 99.0) - det.get('h0', 0.0)) <= 1.15
    return False


# ------------------------------------------------------------------ replay
def replay(case):
    import core
    Sun, Epoch, Angle, C = _imports()
    ctx = core.Ctx(PROPERTY, 'quick', 0)
    pred = case.get('predicate', '')
    inp = case.get('input') or []
    if pred.startswith('season_year_out') or pred.startswith('season_bad_target') or pred == 'season_returns_instant':
        j, out, _ = season_call(ctx, Sun, inp[0], inp[1], 'replay')
        if pred == 'season_returns_instant':
            ctx.predicate(pred, j is not None, inp, out)
        else:
            ctx.predicate(pred, out == 'E:ValueError', inp, out)
    elif pred.startswith('season_bad_type'):
        ctx.predicate(pred, True, inp, 'replay by hand: ' + str(inp))
    elif pred.startswith('season'):
        check_year(ctx, Sun, Epoch, inp[0], 'replay', {})
    elif pred == 'eot_daily_change_lt_45s':
        prev = check_eot_day(ctx, Sun, Epoch, C, inp[0], inp[1], 'replay')
        check_eot_day(ctx, Sun, Epoch, C, inp[2], inp[1], 'replay', prev)
    elif pred.startswith('eot'):
        check_eot_day(ctx, Sun, Epoch, C, inp[0], inp[1], 'replay')
    elif pred.startswith('rise') or pred.startswith('set_'):
        if len(inp) == 6:
            check_rise_set(ctx, Sun, Epoch, Angle, C, *inp, klass='replay')
    elif pred.startswith('rts'):
        keys = ('lon', 'lat', 'a2', 'ra_rate', 'ra_curv', 'd2', 'de_rate', 'de_curv', 'h0', 'dt', 'theta0')
        if len(inp) == len(keys):
            check_rts(ctx, Angle, C, dict(zip(keys, inp)), 'replay')
    fails = [f for f in ctx.pred_fail if f['predicate'] == pred] or ctx.pred_fail
    return (len(fails) > 0, fails)
