"""C16 — weekday, day of year, fractional year and sidereal time follow the JDE.

(S) structural tie: GenF (bit for bit) / GenQ (exact ints, 1e-9 on floats) `dow`, `dow_str`, `get_doy`, `doy`,
    `doy2date`, `leap`, `year`, `mean_sidereal_time`, `apparent_sidereal_time` (F only), `dt_toordinal`,
    `dt_fromordinal` (the datetime stubs) against pymeeus.Epoch / CPython datetime.
(I) every clause of the property evaluated on the implementation, against oracles that share nothing with
    the code: the civil day count of harness/c01.py (Julian years counted directly, Gregorian dates through
    CPython's ordinal), CPython's `date.weekday()`, Meeus' eq. 12.4 (IAU 1982 GMST, evaluated in exact
    rational arithmetic), the library's own nutation series for the equation of the equinoxes.
"""
import datetime
import math
from fractions import Fraction

from core import run_impl, enc
from c01 import civil_jd, civil_next, civil_valid, civil_mlen, civil_leap

PROPERTY = 'C16'
FUNCTIONS = ['pymeeus/Epoch.py:Epoch.dow', 'pymeeus/Epoch.py:Epoch.get_doy', 'pymeeus/Epoch.py:Epoch.doy',
             'pymeeus/Epoch.py:Epoch.doy2date', 'pymeeus/Epoch.py:Epoch.year', 'pymeeus/Epoch.py:Epoch.leap',
             'pymeeus/Epoch.py:Epoch.is_leap', 'pymeeus/Epoch.py:Epoch.mean_sidereal_time',
             'pymeeus/Epoch.py:Epoch.apparent_sidereal_time', 'pymeeus/Epoch.py:Epoch.mjd',
             'pymeeus/Epoch.py:Epoch.get_date', 'pymeeus/Epoch.py:Epoch.__call__', 'pymeeus/base.py:iint',
             'pymeeus/base.py:TOL', 'pymeeus/Epoch.py:DAY2SEC', 'pymeeus/Epoch.py:DAY2MIN',
             'pymeeus/Epoch.py:DAY2HOURS', 'pymeeus/Coordinates.py:true_obliquity', 'pymeeus/Coordinates.py:mean_obliquity',
             'pymeeus/Coordinates.py:nutation_longitude', 'pymeeus/Coordinates.py:nutation_obliquity',
             'pymeeus/Coordinates.py:NUTATION_ARG_TABLE', 'pymeeus/Coordinates.py:NUTATION_SINE_COEF_TABLE']

MANIFEST = dict(
    text=("Lean 4 theorems (Props/C16.lean) about the exact-arithmetic model (templates/EpochCal.lean) of Epoch.dow, "
          "get_doy, doy2date, year, mean_sidereal_time, for every rational JDE / every integer year >= -4712 without "
          "upper bound (datetime's 9999 limit where the code goes through datetime): dow j = floor(j+3/2) mod 7, constant "
          "on a civil day, +1 per day, Zeller-style Gregorian weekday after 1582-10-15; get_doy = day-number difference to "
          "1 January + 1 in both calendars, 365/366 (355 in 1582) on 31 December, doy2date inverts get_doy, year() = "
          "calendar year + elapsed fraction (floor = year, strictly increasing); mean sidereal time in [0,1) and its rate "
          "inside a UT day (the 0h branch reduced too, the 0h shortcut is an absolute 1e-10 day); get_doy raises ValueError for day < 1, >= 32, month outside 1..12 and past the month end in both branches; the year divisor follows the calendar in force (1500: 366); get_date total on JDE >= -0.5 (a valid civil date + fraction that rebuilds the JDE, any time of day); year() strictly increasing with floor = get_date year for ANY two rational JDEs in [-0.5, 5373484.5); the rate clause for any two instants in the same or consecutive UT days to 1e-8 day; the 1.2 s bound now for years -2000..2500; |mean_sidereal_time - IAU 1982 (Meeus 12.4)| <= 4.3e-8 day modulo whole turns for EVERY rational JDE in "
          "[0, 5.4e6] (difference polynomial + monomial bounds). On the real-number instantiation of the same template text, with "
          "C08's nutation/obliquity model: apparent - mean = dpsi*3600*cos(eps)/15/86400 exactly; |apparent - mean| <= 1.345 s for "
          "|T| <= 40 centuries whatever obliquity is passed; < 1.2 s with the library's own true obliquity for years -2000..2500 "
          "(-40 <= T <= 5). NOT carried by a theorem: the 1.2 s bound between year 2500 and 5970 (holds on every sampled instant; "
          "an amplitude-sum bound cannot reach it) — beyond JDE 3.9e6 it fails on the real code (listed finding). The model is tied to /repo by "
          "running its binary64 and exact instantiations against the real code: sampled in quick, every civil date "
          "-4712..6000 (weekday, day of year both ways, year) in thorough."),
    note=("Trusted: Lean kernel, Mathlib, axioms propext/Classical.choice/Quot.sound; the hand-written model incl. the "
          "stubs for datetime.date (toordinal/fromordinal/tm_yday), validated by the correspondence run; idealisation "
          "binary64 -> Rat checked by (I) at +-ulp of midnight/noon (boundary rule: an instant within 2 ulp of a year's "
          "end may return the next integer; year() of instants closer than 1e-9 day only non-decreasing). Python's float % "
          "cannot return 1.0 here: the operand of the final % 1 is >= 0.27 for every JDE >= 0. Known finding: the 1.2 s "
          "bound on the equation of the equinoxes fails for JDE > 3.9e6 (known_findings.json (property C16)). Integer years only; "
          "Epoch.utc2local / local=True not modelled."),
    technique="Lean 4 proof (floor/mod lemmas, staged omega) + model/implementation correspondence check + predicates",
    ref='6 C16')

TRUSTED = ['stubs dt_toordinal / dt_fromordinal / dt_days_before_month for CPython datetime.date (validated against '
           'datetime on every run)',
           'oracles of (I): civil day count of harness/c01.py, datetime.date.weekday(), Meeus eq. 12.4 in Fractions']
ASSUMPTIONS = ['year and month arguments are Python ints (float years/months are not modelled)',
               'Epoch.utc2local() / local=True read the wall clock and are not modelled',
               'theorems are about exact rational arithmetic; binary64 effects are checked by testing only']

YMIN, YMAX = -4712, 6000
JMAX = 5.4e6
DAY_NAMES = ['Sunday', 'Monday', 'Tuesday', 'Wednesday', 'Thursday', 'Friday', 'Saturday']
RATE = Fraction('1.00273790935')


def mk(Epoch, j):
    e = Epoch()
    e._jde = j
    return e


def weekday_oracle(y, m, d):
    """0 = Sunday.  Gregorian dates: CPython; Julian dates: counted from the reform step
    (Thursday 4 Oct 1582 was followed by Friday 15 Oct 1582)."""
    if (y, m, d) >= (1582, 10, 15):
        return (datetime.date(y, m, d).weekday() + 1) % 7
    # 1582-10-04 (JD 2299159.5) was a Thursday (4)
    n = int(civil_jd(y, m, d) - 2299159.5)
    return (4 + n) % 7


def doy_oracle(y, m, d):
    return int(civil_jd(y, m, d) - civil_jd(y, 1, 1)) + 1


def yearlen_oracle(y):
    return int(civil_jd(y + 1, 1, 1) - civil_jd(y, 1, 1))


def gmst_iau1982(j):
    """Meeus (12.4) = IAU 1982 GMST, as a fraction of a turn, exact rational arithmetic."""
    j = Fraction(j)
    T = (j - 2451545) / 36525
    th = (Fraction('280.46061837') + Fraction('360.98564736629') * (j - 2451545)
          + Fraction('0.000387933') * T * T - T ** 3 / 38710000)
    return (th / 360) % 1


def circ(x):
    """distance of a Fraction to the nearest integer"""
    x = x % 1
    return min(x, 1 - x)


# ------------------------------------------------------------------ one civil date
def check_date(ctx, Epoch, y, m, d, klass, fracs=False):
    inp = ['date', y, m, d]
    j0 = civil_jd(y, m, d)
    wd = weekday_oracle(y, m, d)
    e = mk(Epoch, j0)
    # --- weekday
    out = run_impl(e.dow)
    ctx.predicate('dow_formula', out == enc(int((Fraction(j0) + Fraction(3, 2)) // 1 % 7)), inp, out, klass)
    ctx.predicate('dow_civil_weekday', out == enc(wd), inp, {'dow': out, 'expected': wd}, klass)
    ctx.case('dow', [j0], out, q='exact', klass='dow/' + klass)
    ny, nm, nd = civil_next(y, m, d)
    out2 = run_impl(mk(Epoch, civil_jd(ny, nm, nd)).dow) if ny <= 9999 else None
    if out2 is not None:
        ctx.predicate('dow_next_day', out2 == enc((wd + 1) % 7), inp, {'next': [ny, nm, nd], 'dow': out2}, klass)
    # --- day of year
    exp = doy_oracle(y, m, d)
    g = run_impl(lambda: Epoch.get_doy(y, m, d))
    ctx.predicate('doy_jde_difference', g == enc(float(exp)), inp, {'get_doy': g, 'expected': exp}, klass)
    ctx.case('get_doy', [y, m, d], g, q='exact', klass='get_doy/' + klass)
    g2 = run_impl(lambda: Epoch.get_doy(y, m, float(d)))
    ctx.predicate('doy_jde_difference', g2 == enc(float(exp)), inp + ['float day'], g2, klass)
    if m == 12 and d == 31:
        L = 366 if civil_leap(y) else 365
        if y == 1582:
            L = 355          # the reform year lost ten days; the JDE-difference clause decides
        ctx.predicate('doy_dec31', g == enc(float(L)) and yearlen_oracle(y) == L, inp, g, klass)
    back = run_impl(lambda: Epoch.doy2date(y, exp))
    ctx.predicate('doy_inverse', back == enc((y, m, float(d))) or back == enc((y, m, d)), inp, back, klass)
    ctx.case('doy2date', [y, float(exp)], run_impl(lambda: Epoch.doy2date(y, float(exp))), q='exact', klass='doy2date/' + klass)
    dm = run_impl(e.doy)
    ctx.predicate('doy_method', dm == enc(float(exp)), inp, dm, klass)
    # --- fractional year, leap
    yr = run_impl(e.year)
    N = 366.0 if civil_leap(y) else 365.0
    ok = yr.startswith('f') and math.floor(core_float(yr)) == y and abs(core_float(yr) - (y + (exp - 1) / N)) <= 1e-9
    ctx.predicate('year_floor', ok, inp, yr, klass)
    ctx.case('year', [j0], yr, q=('abs', 1e-9), klass='year/' + klass)
    lp = run_impl(e.leap)
    ctx.predicate('leap_rule', lp == enc(bool(civil_leap(y))), inp, lp, klass)
    ctx.predicate('mjd', run_impl(e.mjd) == enc(j0 - 2400000.5), inp, None, klass)
    if fracs:
        check_day_fractions(ctx, Epoch, y, m, d, klass)


def year_floor_ok(yr, y, frac):
    """Integer part of the fractional year = calendar year.  binary64 boundary rule: an instant whose exact
    fractional year is within two units in the last place of the next integer may be returned as that integer."""
    if math.floor(yr) == y:
        return True
    return yr == y + 1 and (1.0 - frac) <= 2.0 * math.ulp(float(abs(y) + 1))


def increasing_ok(ja, jb, ya, yb):
    """year() strictly increasing in JDE; instants closer than 1e-9 day (binary64 resolution of a year number
    of magnitude 5000 is 3.3e-10 day) only have to be non-decreasing."""
    if jb - ja >= 1e-9:
        return ya < yb
    return ya <= yb


def core_float(tok):
    import core
    return core.from_bits(int(tok[1:]))


def check_day_fractions(ctx, Epoch, y, m, d, klass):
    """Instants inside one civil day, incl. +-ulp of midnight and noon: weekday constant, day of year and
    fractional year follow the JDE."""
    j0 = civil_jd(y, m, d)
    wd = weekday_oracle(y, m, d)
    exp = doy_oracle(y, m, d)
    N = 366.0 if civil_leap(y) else 365.0
    js = [(j0, 'midnight'), (math.nextafter(j0, math.inf), 'ulp'), (j0 + 0.25, 'frac'),
          (math.nextafter(j0 + 0.5, -math.inf), 'ulp'), (j0 + 0.5, 'noon'), (math.nextafter(j0 + 0.5, math.inf), 'ulp'),
          (j0 + ctx.rng.random(), 'frac'), (math.nextafter(j0 + 1.0, -math.inf), 'ulp')]
    js.sort()
    prev = None
    for (j, kind) in js:
        if not (j0 <= j < j0 + 1.0):
            continue
        inp = ['jde_of_date', y, m, d, j]
        e = mk(Epoch, j)
        out = run_impl(e.dow)
        ctx.predicate('dow_constant_on_day', out == enc(wd), inp, out, klass + '/' + kind)
        # boundary instants: binary64 tie only (the exact model may sit on the other side of a rounding)
        q = 'exact' if kind != 'ulp' else None
        ctx.case('dow', [j], out, q=q, klass='dow/' + kind)
        ctx.case('dow_str', [j], run_impl(lambda: e.dow(as_string=True)), q=q, klass='dow_str')
        dm = run_impl(e.doy)
        okd = dm.startswith('f') and abs(core_float(dm) - (exp + (j - j0))) <= 1e-9
        ctx.predicate('doy_method', okd, inp, dm, klass + '/' + kind)
        ctx.case('doy', [j], dm, q=('abs', 1e-9) if q else None, klass='doy/' + kind)
        yr = run_impl(e.year)
        oky = yr.startswith('f') and year_floor_ok(core_float(yr), y, (exp - 1 + (j - j0)) / N) and \
            abs(core_float(yr) - (y + (exp - 1 + (j - j0)) / N)) <= 1e-9
        ctx.predicate('year_floor', oky, inp, yr, klass + '/' + kind)
        ctx.case('year', [j], yr, q=('abs', 1e-9) if q else None, klass='year/' + kind)
        ctx.case('leap', [j], run_impl(e.leap), q=q, klass='leap')
        if prev is not None and yr.startswith('f') and prev[1].startswith('f'):
            ctx.predicate('year_increasing', increasing_ok(prev[0], j, core_float(prev[1]), core_float(yr)),
                          ['jde_pair', prev[0], j], {'year(a)': prev[1], 'year(b)': yr}, klass + '/' + kind)
        prev = (j, yr)
        # day-of-year round trip with a fractional day
        dd = d + (j - j0)
        g = run_impl(lambda: Epoch.get_doy(y, m, dd))
        ctx.case('get_doy', [y, m, dd], g, q=('abs', 1e-9) if q else None, klass='get_doy/' + kind)
        if g.startswith('f'):
            gd = core_float(g)
            try:
                by, bm, bd = Epoch.doy2date(y, gd)
                okb = (by == y and bm == m and abs(bd - dd) <= 1e-9) or \
                      ((by, bm, int(bd)) == civil_next(y, m, d) and abs(bd - int(bd)) <= 1e-9 and dd - d > 1 - 1e-9)
                ctx.predicate('doy_inverse', okb, inp, [by, bm, bd], klass + '/' + kind)
            except Exception as ex:  # noqa
                ctx.predicate('doy_inverse', False, inp, repr(ex), klass + '/' + kind)
            ctx.case('doy2date', [y, gd], run_impl(lambda: Epoch.doy2date(y, gd)), q=('abs', 1e-9) if q else None,
                     klass='doy2date/' + kind)
    # across midnight into the next civil day: year() keeps increasing
    ny, nm, nd = civil_next(y, m, d)
    if ny <= YMAX + 1:
        a = run_impl(mk(Epoch, math.nextafter(j0 + 1.0, -math.inf)).year)
        b = run_impl(mk(Epoch, civil_jd(ny, nm, nd)).year)
        if a.startswith('f') and b.startswith('f'):
            ja, jb = math.nextafter(j0 + 1.0, -math.inf), civil_jd(ny, nm, nd)
            ctx.predicate('year_increasing', increasing_ok(ja, jb, core_float(a), core_float(b)),
                          ['jde_pair', ja, jb], [a, b], klass + '/day_step')


# ------------------------------------------------------------------ sidereal time
def check_gmst(ctx, Epoch, j, klass, h=None):
    inp = ['jde', j]
    e = mk(Epoch, j)
    out = run_impl(e.mean_sidereal_time)
    if not out.startswith('f'):
        ctx.predicate('gmst_range', False, inp, out, klass)
        return
    g = core_float(out)
    ctx.predicate('gmst_range', 0.0 <= g < 1.0, inp, g, klass)
    dev = circ(Fraction(g) - gmst_iau1982(j))
    ctx.deviation('gmst_vs_iau1982_day', float(dev))
    ctx.predicate('gmst_iau1982', dev <= Fraction(1, 10 ** 7), inp, float(dev), klass)
    ctx.case('mean_sidereal_time', [j], out, q=('abs', 1e-9) if klass != 'ulp' else None, klass='gmst/' + klass)
    if h is not None and 0.0 <= j + h <= JMAX:
        j2 = j + h
        g2 = mk(Epoch, j2).mean_sidereal_time()
        # advances by 1.00273790935 turns per day (exact inside a UT day; the 0h polynomial adds < 6e-11*T per day)
        same_day = math.floor(j - 0.5) == math.floor(j2 - 0.5)
        tol = Fraction(2, 10 ** 10) if same_day else Fraction(1, 10 ** 8)
        dev = circ(Fraction(g2) - Fraction(g) - RATE * (Fraction(j2) - Fraction(j)))
        ctx.predicate('gmst_rate', dev <= tol, ['jde_pair', j, j2], float(dev), klass + ('/same_day' if same_day else '/across'))


def check_gast(ctx, Epoch, j, klass):
    from pymeeus.Coordinates import nutation_longitude, true_obliquity
    from pymeeus.Angle import Angle
    inp = ['jde_gast', j]
    e = mk(Epoch, j)
    eps = true_obliquity(e)
    dpsi = nutation_longitude(e)
    fe, fp = float(eps), float(dpsi)
    out = run_impl(lambda: e.apparent_sidereal_time(fe, fp))
    ctx.case('apparent_sidereal_time', [j, fe, fp], out, q=None, klass='gast')
    out2 = run_impl(lambda: e.apparent_sidereal_time(eps, dpsi))
    ctx.predicate('gast_angle_args', out2 == out, inp, [out, out2], klass)
    if not out.startswith('f'):
        ctx.predicate('gast_equation_of_equinoxes', False, inp, out, klass)
        return
    a = core_float(out)
    g = e.mean_sidereal_time()
    eqeq = fp * 3600.0 * math.cos(math.radians(fe)) / 15.0 / 86400.0
    ctx.predicate('gast_equation_of_equinoxes', abs((a - g) - eqeq) <= 1e-14, inp, {'apparent-mean': a - g, 'eqeq': eqeq}, klass)
    ctx.deviation('equation_of_equinoxes_s', abs(a - g) * 86400.0)
    ctx.predicate('gast_bound_1.2s', abs(a - g) * 86400.0 < 1.2, inp, (a - g) * 86400.0, klass)


def check_stubs(ctx, rng, n):
    """CPython datetime vs the model's stubs."""
    for _ in range(n):
        r = rng.random()
        if r < 0.3:
            o = rng.choice([1, 2, 365, 366, 367, 730, 1461, 1462, 36524, 36525, 146097, 146098, 3652059, 3652060, 0, -1,
                            577736, 577737]) + rng.randint(-2, 2)
        else:
            o = rng.randint(-10, 3652070)
        def f():
            d = datetime.date.fromordinal(o)
            return (d.year, d.month, d.day)
        ctx.case('dt_fromordinal', [o], run_impl(f), q='exact', klass='dt_fromordinal')
        if 1 <= o <= 3652059:
            d = datetime.date.fromordinal(o)
            ctx.case('dt_toordinal', [d.year, d.month, d.day], enc(o), q='exact', klass='dt_toordinal')


def check_malformed(ctx, Epoch, rng, n):
    """Arguments outside the domain of get_doy / doy2date: the model must raise what the code raises."""
    for _ in range(n):
        y = rng.choice([1582, 1583, 1500, 1900, 2000, 2001, 9999, 10000, 0, -4712, -5000, 1, 4])
        m = rng.choice([0, 1, 2, 2, 2, 4, 10, 12, 13, -1])
        d = rng.choice([0, 0.5, 1, 28, 28.5, 29, 29.999, 30, 31, 31.5, 32, 33, 5, 10, 14, 15])
        ctx.case('get_doy', [y, m, d], run_impl(lambda: Epoch.get_doy(y, m, d)), q=('abs', 1e-9), klass='get_doy/malformed')
        dy = rng.choice([-400.5, -1, 0, 0.5, 1, 31, 32, 59, 60, 61, 277, 278, 287, 288, 355, 356, 365, 365.75, 366, 366.5, 367,
                         400, 1000, 5000.25, 1e7, 3e9, -3e9])
        ctx.case('doy2date', [y, dy], run_impl(lambda: Epoch.doy2date(y, dy)), q=('abs', 1e-9), klass='doy2date/malformed')


WINDOW_YEARS = [1582, 1583, 1581, 1600, 1700, 1800, 1900, 2000, 2100, 2400, 0, -1, -100, -400, 100, 400, 1000, 1500,
                -4712, -4711, 6000, 5999, 4000, 3000, 1, 4, -4, 1972, 2016, 2017]


def generate(ctx, shard=0, nshards=1):
    from pymeeus.Epoch import Epoch
    rng = ctx.rng
    hot_years = [v for v in ctx.hot['ints'] if YMIN <= v <= YMAX]
    hot_floats = [v for v in ctx.hot['floats'] if 0 <= v <= JMAX]
    if shard == 0:
        # anchors
        e = Epoch(2000, 1, 1)
        ctx.predicate('dow_anchor_2000', e.dow() == 6 and e.dow(as_string=True) == 'Saturday', ['date', 2000, 1, 1], e.dow())
        for i in range(7):
            j = 2451544.5 + i
            ctx.predicate('dow_str', mk(Epoch, j).dow(as_string=True) == DAY_NAMES[(6 + i) % 7], ['jde', j], None)
        # the reform window and the leap days that distinguish the calendars, every day, with fractions
        for (y, m) in ((1582, 10), (1582, 9), (1582, 11), (1582, 12), (1582, 1), (1582, 2), (1582, 3), (1583, 1), (1583, 2),
                       (1583, 3), (1500, 2), (1500, 3), (1500, 12), (1600, 2), (1700, 2), (1700, 3), (1900, 2), (1900, 12),
                       (2000, 2), (2000, 12), (0, 2), (0, 3), (0, 12), (-1, 2), (-4, 2), (-100, 2), (-100, 3), (-4712, 1),
                       (-4712, 2), (-4712, 12), (100, 2), (100, 3), (6000, 12), (6000, 2), (1, 1), (1, 12), (4, 2)):
            for d in range(1, civil_mlen(y, m) + 1):
                if civil_valid(y, m, d):
                    check_date(ctx, Epoch, y, m, d, 'window', fracs=True)
        for d in range(5, 15):
            # 5..14 Oct 1582 do not exist: tie only
            ctx.case('get_doy', [1582, 10, d], run_impl(lambda: Epoch.get_doy(1582, 10, d)), q='exact', klass='reform_gap')
        for dy in range(270, 300):
            ctx.case('doy2date', [1582, dy], run_impl(lambda: Epoch.doy2date(1582, dy)), q='exact', klass='reform_gap')
        for v in hot_years:
            for yy in (v - 1, v, v + 1):
                if YMIN <= yy <= YMAX:
                    for m in range(1, 13):
                        for d in range(1, civil_mlen(yy, m) + 1):
                            if civil_valid(yy, m, d):
                                check_date(ctx, Epoch, yy, m, d, 'hot', fracs=(d in (1, civil_mlen(yy, m))))
        for v in hot_floats:
            for j in (v, math.nextafter(v, 0), math.nextafter(v, 1e9), v + 0.5, v - 0.5):
                if 0 <= j <= JMAX:
                    check_gmst(ctx, Epoch, j, 'hot', h=0.3)
        # sidereal anchors (Meeus ex. 12.a / 12.b) and the ends of the range
        for j in (2446895.5, 2446896.30625, 2451545.0, 0.0, 0.25, 0.5, 0.75, JMAX, JMAX - 0.5, 2451544.5, 1.0):
            check_gmst(ctx, Epoch, j, 'anchor', h=0.125)
        g = mk(Epoch, 2446895.5).mean_sidereal_time() * 24.0
        ctx.predicate('gmst_meeus_12a', abs(g - (13 + 10 / 60.0 + 46.3668 / 3600.0)) < 1e-7, ['jde', 2446895.5], g)
        check_malformed(ctx, Epoch, rng, ctx.n(1500, 6000))
        check_stubs(ctx, rng, ctx.n(4000, 40000))

    # ---------------- sidereal time: random and boundary instants (all tiers)
    n_g = ctx.n(24000, 240000) // nshards
    for i in range(n_g):
        r = rng.random()
        if r < 0.25:
            n = rng.randint(0, int(JMAX) - 1)
            base = n + rng.choice([0.0, 0.5])
            j = rng.choice([base, math.nextafter(base, -1.0), math.nextafter(base, 1e9), base + 1e-10, base + 0.99e-10,
                            base + 1.01e-10, base - 1e-10, base + 5e-11])
            klass = 'ulp'
        elif r < 0.35:
            j = rng.uniform(2.2e6, 2.6e6)
            klass = 'modern'
        else:
            j = rng.uniform(0.0, JMAX)
            klass = 'random'
        if not (0.0 <= j <= JMAX):
            continue
        h = rng.choice([rng.uniform(0, 1), rng.uniform(0, 0.01), 1.0, 0.5, 1e-3])
        check_gmst(ctx, Epoch, j, klass, h=h)
    for i in range(ctx.n(1600, 16000) // nshards):
        j = rng.uniform(0.0, JMAX) if rng.random() < 0.6 else rng.uniform(2.3e6, 2.6e6)
        check_gast(ctx, Epoch, j, 'random')

    if ctx.tier == 'thorough' and ctx.scale <= 1.0:
        # exhaustive: every civil date YMIN..YMAX (sharded by year); day fractions at the month ends
        ctx.exhaustive = True
        for y in range(YMIN + shard, YMAX + 1, nshards):
            for m in range(1, 13):
                L = civil_mlen(y, m)
                for d in range(1, L + 1):
                    if civil_valid(y, m, d):
                        check_date(ctx, Epoch, y, m, d, 'all', fracs=(d == L and m in (2, 12)))
        return

    n_dates = ctx.n(24000, 240000) // nshards
    for _ in range(n_dates):
        r = rng.random()
        if r < 0.15 and hot_years:
            y = min(max(rng.choice(hot_years) + rng.randint(-2, 2), YMIN), YMAX)
        elif r < 0.4:
            y = min(max(rng.choice(WINDOW_YEARS) + rng.randint(-1, 1), YMIN), YMAX)
        else:
            y = rng.randint(YMIN, YMAX)
        m = rng.choice([1, 2, 2, 3, 12, rng.randint(1, 12), rng.randint(1, 12)])
        L = civil_mlen(y, m)
        d = rng.choice([1, L, L, rng.randint(1, L), rng.randint(1, L)])
        if civil_valid(y, m, d):
            check_date(ctx, Epoch, y, m, d, 'random', fracs=(rng.random() < 0.25))
    ctx.sample({'call': 'Epoch(2000, 1, 1).dow()', 'expected': 6})
    ctx.sample({'call': 'Epoch.get_doy(1500, 3, 1)', 'expected': 61.0})
    ctx.sample({'call': 'Epoch.doy2date(1582, 278)', 'expected': [1582, 10, 15.0]})


def replay(case):
    """Re-run one recorded failing case on the implementation; returns (still_fails, text)."""
    from pymeeus.Epoch import Epoch
    import core
    ctx = core.Ctx(PROPERTY, 'quick', 0)
    inp = case.get('input') or []
    kind = inp[0] if inp else None
    if kind == 'date':
        check_date(ctx, Epoch, inp[1], inp[2], inp[3], 'replay', fracs=True)
    elif kind == 'jde_of_date':
        check_date(ctx, Epoch, inp[1], inp[2], inp[3], 'replay', fracs=True)
    elif kind == 'jde':
        check_gmst(ctx, Epoch, inp[1], 'replay', h=0.25)
    elif kind == 'jde_gast':
        check_gast(ctx, Epoch, inp[1], 'replay')
    elif kind == 'jde_pair':
        a, b = inp[1], inp[2]
        if case.get('predicate') == 'gmst_rate':
            check_gmst(ctx, Epoch, a, 'replay', h=b - a)
        else:
            ya, yb = mk(Epoch, a).year(), mk(Epoch, b).year()
            ctx.predicate('year_increasing', increasing_ok(a, b, ya, yb), inp, [ya, yb])
    only = case.get('predicate')
    fails = [f for f in ctx.pred_fail if f['predicate'] == only] or ctx.pred_fail
    return (len(fails) > 0, fails)
