"""C07 — VSOP87 heliocentric positions.

(S) structural tie: the binary64 instantiation of lean/templates/Vsop.lean (+ the generated tables and
    wrappers) against pymeeus, bit for bit: vsop_pos / geometric_vsop_pos / apparent_vsop_pos for the eight
    planets and for random tables given on the line (incl. empty tables -> IndexError, r == 0 ->
    ZeroDivisionError), the per-planet wrapper methods, orbital_elements, nutation, the Angle helpers, and
    a digest of the bits of EVERY coefficient of every table (generated integers -> doubles vs the module
    attributes of the running pymeeus).
(I) the numerical clauses of the property evaluated on the implementation (see PRED below).
"""
import functools
import importlib
import math

from core import run_impl, enc, enc_exc, fbits

PROPERTY = 'C07'
PLANETS = ['Mercury', 'Venus', 'Earth', 'Mars', 'Jupiter', 'Saturn', 'Uranus', 'Neptune']
FUNCTIONS = (['pymeeus/Coordinates.py:vsop_pos', 'pymeeus/Coordinates.py:geometric_vsop_pos',
              'pymeeus/Coordinates.py:apparent_vsop_pos', 'pymeeus/Coordinates.py:orbital_elements',
              'pymeeus/Coordinates.py:nutation_longitude', 'pymeeus/Coordinates.py:nutation_obliquity',
              'pymeeus/Coordinates.py:NUTATION_ARG_TABLE', 'pymeeus/Coordinates.py:NUTATION_SINE_COEF_TABLE',
              'pymeeus/Coordinates.py:NUTATION_COSINE_COEF_TABLE',
              'pymeeus/Angle.py:Angle.reduce_deg', 'pymeeus/Angle.py:Angle.reduce_dms', 'pymeeus/Angle.py:Angle.dms2deg',
              'pymeeus/Angle.py:Angle.set', 'pymeeus/Angle.py:Angle.to_positive', 'pymeeus/Angle.py:Angle.__add__',
              'pymeeus/Angle.py:Angle.__sub__', 'pymeeus/Angle.py:Angle.__mul__', 'pymeeus/Angle.py:Angle.__neg__',
              'pymeeus/Angle.py:Angle.rad', 'pymeeus/Earth.py:VSOP87_L_J2000', 'pymeeus/Earth.py:VSOP87_B_J2000',
              'pymeeus/Earth.py:Earth.geometric_heliocentric_position_j2000']
             + ['pymeeus/%s.py:%s' % (p, v) for p in PLANETS
                for v in ('VSOP87_L', 'VSOP87_B', 'VSOP87_R', 'ORBITAL_ELEM', 'ORBITAL_ELEM_J2000',
                          p + '.geometric_heliocentric_position', p + '.apparent_heliocentric_position',
                          p + '.orbital_elements_mean_equinox', p + '.orbital_elements_j2000')])

MANIFEST = dict(
    text=("Lean 4 theorems (Props/C07.lean) about the real-number model of Coordinates.vsop_pos / geometric_vsop_pos / "
          "apparent_vsop_pos / orbital_elements and the per-planet wrappers, with the coefficient tables regenerated "
          "from the source on every run (tools/gen_tables.py): for EVERY table and every t the evaluator as coded "
          "(Horner over series sums) equals the direct sum of t^i A cos(B + C t); longitude in [0, 360) and latitude in (-360, 360) for vsop_pos and after the "
          "FK5 / aberration / nutation corrections; size of the FK5 correction and of the aberration term; per planet, from the "
          "generated tables: Kepler's third law (0.1 % / 1 %), the series' mean-longitude rate equals the "
          "orbital-element rate to 1e-6, the t^2 constant of series L2 equals the T^2 coefficient of the elements to "
          "5e-7 deg/cy^2 (Mercury, Venus, Earth, Uranus, Neptune), the constant of series R0 equals a (1 + e^2/2) of the "
          "mean elements to 1e-5 .. 2e-3 a (partial form of the radius clause), orbital_elements reads the documented "
          "rows of the two tables, the derivative of the longitude series stays within "
          "a proved fraction of the mean motion on |t| <= 4 (2.2 % Venus ... 64 % Mercury: partial form of the "
          "daily-rate clause), and the un-reduced longitude series is strictly increasing on t in [-4, 2] "
          "millennia (triangle-inequality bound on the derivative, sums of |A| and |A C| re-computed by the kernel). "
          "PARTIAL: the latitude / radius / daily-rate windows and the agreement with Kepler motion from the mean "
          "elements are numerical facts about ~32 000 coefficients that no theorem here carries; they are covered "
          "by the bit-exact correspondence run of the binary64 model and by the property's predicates evaluated on "
          "the implementation (dense epochs -2000..4000, daily steps over whole orbits, 1-second steps)."),
    note=("Trusted: Lean kernel, Mathlib, axioms propext/Classical.choice/Quot.sound; the hand-written model "
          "lean/templates/Vsop.lean and the table/wrapper translator tools/gen_tables.py (both validated on every run "
          "by the bit-for-bit correspondence run incl. a digest of every table coefficient); idealisation binary64 -> "
          "real numbers (the evaluator theorem is exact in R; the implementation is compared with a plain direct "
          "summation to 1e-11 rad + 4 ulp of the un-reduced angle, because binary64 cannot resolve 1e-11 rad in an "
          "angle of 1e5 rad). 'Rate equals that of the orbital-element table' is read as the mean-equinox-of-date "
          "table ORBITAL_ELEM (the series are of date; the J2000 table differs by the precession rate, 2e-5..6e-3 "
          "relative)."),
    technique="Lean 4 proof (list induction, derivative bounds, norm_num on generated constants) + model/implementation correspondence check + property predicates on the implementation",
    ref='6 C07')

TRUSTED = ['tools/gen_tables.py (Python ast translator of the coefficient tables and of the one-line planet wrappers); '
           'its output is validated on every run: every generated coefficient, converted to binary64, is compared '
           'with the module attribute of the running pymeeus (table_digest), and the per-series sums of |A| and |A C| '
           'it computes are re-checked by the Lean kernel against the emitted tables']
ASSUMPTIONS = ['an Epoch enters the model as its JDE (Epoch.jde()); Epoch construction itself is property C01/C02',
               'Kepler-agreement tolerances for the outer planets chosen inside the stated 1-2.5 degree range: '
               'Jupiter 1.0, Saturn 2.5, Uranus 2.0, Neptune 1.5',
               'evaluator-vs-direct-sum tolerance: 1e-11 rad + 4 ulp of the un-reduced longitude (binary64 resolution)']
RULE = 'distinct (model function, argument tuple) pairs sent to the model and to the implementation'

GAUSS_K = 0.01720209895
KEPLER_TOL = {'Mercury': 0.1, 'Venus': 0.1, 'Earth': 0.1, 'Mars': 0.1,
              'Jupiter': 1.0, 'Saturn': 2.5, 'Uranus': 2.0, 'Neptune': 1.5}
KEPLER3_TOL = {'Mercury': 1e-3, 'Venus': 1e-3, 'Earth': 1e-3, 'Mars': 1e-3, 'Jupiter': 1e-3,
               'Saturn': 1e-2, 'Uranus': 1e-2, 'Neptune': 1e-2}
PERIOD_DAYS = {'Mercury': 88, 'Venus': 225, 'Earth': 366, 'Mars': 687, 'Jupiter': 4333, 'Saturn': 10760,
               'Uranus': 30690, 'Neptune': 60190}


# ------------------------------------------------------------------ access to the implementation
@functools.lru_cache(maxsize=None)
def lib(planet):
    mod = importlib.import_module('pymeeus.' + planet)
    return mod, getattr(mod, planet)


def mk_epoch(jde):
    from pymeeus.Epoch import Epoch
    return Epoch(jde)


@functools.lru_cache(maxsize=1)
def jd_range():
    from pymeeus.Epoch import Epoch
    return Epoch(-2000, 1, 1.0).jde(), Epoch(4000, 12, 31.0).jde()


@functools.lru_cache(maxsize=40000)
def pos(planet, jde, fn, flag):
    """(lon_deg, lat_deg, r) of one of the evaluators; jde must be the value Epoch.jde() returns."""
    import pymeeus.Coordinates as C
    mod, cls = lib(planet)
    e = mk_epoch(jde)
    if fn == 'vsop':
        l, b, r = C.vsop_pos(e, mod.VSOP87_L, mod.VSOP87_B, mod.VSOP87_R)
    elif fn == 'geo':
        l, b, r = cls.geometric_heliocentric_position(e, tofk5=flag)
    elif fn == 'app':
        l, b, r = C.apparent_vsop_pos(e, mod.VSOP87_L, mod.VSOP87_B, mod.VSOP87_R, nutation=flag)
    else:
        raise ValueError(fn)
    return (l(), b(), r)


@functools.lru_cache(maxsize=40000)
def elements(planet, jde):
    mod, cls = lib(planet)
    ll, a, e, i, om, arg = cls.orbital_elements_mean_equinox(mk_epoch(jde))
    return (ll(), a, e, i(), om(), arg())


def norm_jde(j):
    """the JDE an Epoch built from the float j reports (Epoch(j) goes through the calendar)"""
    return mk_epoch(j).jde()


def wrap180(d):
    d = math.fmod(d, 360.0)
    if d > 180.0:
        d -= 360.0
    if d <= -180.0:
        d += 360.0
    return d


def kepler_rates(planet, jde):
    """(min, max) of the Keplerian angular rate in deg/day from the library's mean elements of date"""
    mod, _ = lib(planet)
    ll, a, e, i, om, arg = elements(planet, jde)
    t = (jde - 2451545.0) / 36525.0
    p = mod.ORBITAL_ELEM[0]
    n = (p[1] + t * (2 * p[2] + t * 3 * p[3])) / 36525.0       # dL/dt, deg/day
    s = math.sqrt(1 - e * e)
    return n * s / (1 + e) ** 2, n * s / (1 - e) ** 2


def kepler_xyz(ll, a, e, i, om, arg):
    """position from mean elements through Kepler's equation (own Newton solver)"""
    m = math.radians((ll - om - arg) % 360.0)
    ee = m if e < 0.8 else math.pi
    for _ in range(80):
        d = (ee - e * math.sin(ee) - m) / (1 - e * math.cos(ee))
        ee -= d
        if abs(d) < 1e-15:
            break
    v = 2 * math.atan2(math.sqrt(1 + e) * math.sin(ee / 2), math.sqrt(1 - e) * math.cos(ee / 2))
    r = a * (1 - e * math.cos(ee))
    u = math.radians(arg) + v
    omr, ir = math.radians(om), math.radians(i)
    x = r * (math.cos(omr) * math.cos(u) - math.sin(omr) * math.sin(u) * math.cos(ir))
    y = r * (math.sin(omr) * math.cos(u) + math.cos(omr) * math.sin(u) * math.cos(ir))
    z = r * math.sin(u) * math.sin(ir)
    return x, y, z, r


def direct_series(tbl, t):
    """plain term-by-term summation: sum_i t^i sum_j A cos(B + C t), /1e8"""
    tot = 0.0
    for i, s in enumerate(tbl):
        ss = 0.0
        for a, b, c in s:
            ss += a * math.cos(b + c * t)
        tot += ss * t ** i
    return tot / 1e8


# ------------------------------------------------------------------ the predicates (clauses of the property)
def p_lon_range(planet, jde, fn, flag, *_):
    l, b, r = pos(planet, jde, fn, flag)
    return (0.0 <= l < 360.0), {'lon': l}


def p_lat_inclination(planet, jde):
    l, b, r = pos(planet, jde, 'geo', True)
    inc = elements(planet, jde)[3]
    return abs(b) <= inc + 0.05, {'lat': b, 'inclination': inc}


def p_radius_window(planet, jde):
    l, b, r = pos(planet, jde, 'geo', True)
    ll, a, e, i, om, arg = elements(planet, jde)
    lo, hi = a * (1 - e) * 0.99, a * (1 + e) * 1.01
    return lo <= r <= hi, {'r': r, 'perihelion': a * (1 - e), 'aphelion': a * (1 + e)}


def p_daily_rate(planet, jde):
    j2 = norm_jde(jde + 1.0)
    l1 = pos(planet, jde, 'geo', True)[0]
    l2 = pos(planet, j2, 'geo', True)[0]
    rate = wrap180(l2 - l1) / (j2 - jde)
    lo, hi = kepler_rates(planet, jde)
    return (rate > 0 and 0.97 * lo <= rate <= 1.03 * hi), {'rate_deg_per_day': rate, 'kepler_min': lo, 'kepler_max': hi}


def p_one_second(planet, jde):
    j2 = norm_jde(jde + 1.0 / 86400.0)
    if j2 <= jde:
        return True, {'skipped': 'no representable step'}
    dt = j2 - jde
    a1 = pos(planet, jde, 'geo', True)
    a2 = pos(planet, j2, 'geo', True)
    lo, hi = kepler_rates(planet, jde)
    dl = wrap180(a2[0] - a1[0])
    sma = elements(planet, jde)[1]
    ok = (dl > 0 and 0.97 * lo * dt <= dl <= 1.03 * hi * dt and abs(a2[1] - a1[1]) <= 1.03 * hi * dt
          and abs(a2[2] - a1[2]) <= sma * math.radians(1.03 * hi * dt))
    return ok, {'dt_days': dt, 'dlon': dl, 'dlat': a2[1] - a1[1], 'dr': a2[2] - a1[2], 'kepler_min': lo, 'kepler_max': hi}


def p_kepler_agreement(planet, jde):
    l, b, r = pos(planet, jde, 'geo', False)
    x, y, z, rk = kepler_xyz(*elements(planet, jde))
    lr, br = math.radians(l), math.radians(b)
    xv, yv, zv = r * math.cos(br) * math.cos(lr), r * math.cos(br) * math.sin(lr), r * math.sin(br)
    cx, cy, cz = y * zv - z * yv, z * xv - x * zv, x * yv - y * xv
    sep = math.degrees(math.atan2(math.sqrt(cx * cx + cy * cy + cz * cz), x * xv + y * yv + z * zv))
    ok = sep <= KEPLER_TOL[planet] and abs(r - rk) <= 0.01 * rk
    return ok, {'separation_deg': sep, 'r': r, 'r_kepler': rk, 'tolerance_deg': KEPLER_TOL[planet]}


def p_direct_sum(planet, jde):
    from pymeeus.Angle import Angle
    mod, _ = lib(planet)
    l, b, r = pos(planet, jde, 'vsop', True)
    t = (jde - 2451545.0) / 365250.0
    raw = direct_series(mod.VSOP87_L, t)
    dl = Angle(raw, radians=True).to_positive()()
    db = Angle(direct_series(mod.VSOP87_B, t), radians=True)()
    dr = direct_series(mod.VSOP87_R, t)
    ulp = math.ulp(abs(raw) * 1e8) * 1e-8            # one unit in the last place of the un-reduced sum, in rad
    tol = 1e-11 + 4 * ulp
    e1 = math.radians(abs(wrap180(l - dl)))
    e2 = math.radians(abs(b - db))
    e3 = abs(r - dr)
    return (e1 <= tol and e2 <= 1e-11 and e3 <= 1e-11), {'dlon_rad': e1, 'dlat_rad': e2, 'dr_au': e3, 'tol_lon': tol}


def p_fk5_size(planet, jde):
    l0, b0, r0 = pos(planet, jde, 'geo', False)
    l1, b1, r1 = pos(planet, jde, 'geo', True)
    dl = wrap180(l1 - l0) * 3600.0
    db = (b1 - b0) * 3600.0
    lim_l = 0.09033 + 0.03916 * math.sqrt(2.0) * abs(math.tan(math.radians(b0)))
    lim_b = 0.03916 * math.sqrt(2.0)
    slack = 1e-6       # arcsec; rounding of a difference of two angles of up to 360 degrees
    return (abs(dl) <= lim_l + slack and abs(db) <= lim_b + slack and r1 == r0), {'dlon_arcsec': dl, 'dlat_arcsec': db, 'limit_lon': lim_l, 'limit_lat': lim_b}


def p_aberration_size(planet, jde):
    import pymeeus.Coordinates as C
    l1, b1, r1 = pos(planet, jde, 'geo', True)
    l2, b2, r2 = pos(planet, jde, 'app', False)
    l3, b3, r3 = pos(planet, jde, 'app', True)
    d = wrap180(l2 - l1) * 3600.0
    dpsi = C.nutation_longitude(mk_epoch(jde))() * 3600.0
    dn = wrap180(l3 - l2) * 3600.0
    ok = (abs(d - (-20.4898 / r1)) <= 1e-6 and abs(dn - dpsi) <= 1e-6 and b2 == b1 and r2 == r1 and b3 == b1 and r3 == r1)
    return ok, {'aberration_arcsec': d, 'expected': -20.4898 / r1, 'nutation_arcsec': dn, 'dpsi': dpsi}


def p_rate_matches_elements(planet):
    mod, _ = lib(planet)
    a, b, c = mod.VSOP87_L[1][0]
    series_rate = a * 1e-8 * (180.0 / math.pi) / 10.0        # degrees per Julian century
    elem_rate = mod.ORBITAL_ELEM[0][1]
    ok = (b == 0.0 and c == 0.0 and abs(series_rate / elem_rate - 1.0) <= 1e-6)
    d = {'series_rate_deg_per_century': series_rate, 'ORBITAL_ELEM_rate': elem_rate}
    if planet == 'Earth':
        aj = mod.VSOP87_L_J2000[1][0]
        rj = aj[0] * 1e-8 * (180.0 / math.pi) / 10.0
        ok = ok and aj[1] == 0.0 and aj[2] == 0.0 and abs(rj / mod.ORBITAL_ELEM_J2000[0][1] - 1.0) <= 1e-6
        d['series_rate_j2000'] = rj
        d['ORBITAL_ELEM_J2000_rate'] = mod.ORBITAL_ELEM_J2000[0][1]
    return ok, d


def p_kepler3(planet):
    mod, _ = lib(planet)
    n = math.radians(mod.ORBITAL_ELEM_J2000[0][1]) / 36525.0       # sidereal mean motion, rad/day
    a = mod.ORBITAL_ELEM[1][0]
    rel = n * n * a ** 3 / GAUSS_K ** 2 - 1.0
    return abs(rel) <= KEPLER3_TOL[planet], {'n2a3_over_k2_minus_1': rel, 'tolerance': KEPLER3_TOL[planet]}


PRED = {'lon_range_vsop': p_lon_range, 'lon_range_geometric': p_lon_range, 'lon_range_apparent': p_lon_range,
        'lat_within_inclination': p_lat_inclination, 'radius_window': p_radius_window, 'daily_rate': p_daily_rate,
        'one_second_step': p_one_second, 'kepler_agreement': p_kepler_agreement, 'direct_sum': p_direct_sum,
        'fk5_size': p_fk5_size, 'aberration_size': p_aberration_size,
        'rate_matches_elements': p_rate_matches_elements, 'kepler3': p_kepler3}


def check(ctx, name, inp, klass=None):
    try:
        ok, detail = PRED[name](*inp)
    except Exception as ex:  # noqa: an exception inside the stated domain is a failure of the clause
        ok, detail = False, {'exception': repr(ex)}
    ctx.predicate(name, bool(ok), list(inp), detail, klass or name)
    return ok


# ------------------------------------------------------------------ correspondence cases
def digest_vsop(t):
    p = 2 ** 61 - 1
    h = 0
    for s in t:
        h = (h * 31 + 7) % p
        for term in s:
            for x in term:
                h = (h * 1000003 + fbits(x) + 1) % p
    return h


def digest_small(t, ints=False):
    p = 2 ** 61 - 1
    h = 0
    for s in t:
        h = (h * 31 + 7) % p
        for x in s:
            h = (h * 1000003 + ((x + 1000000) if ints else fbits(x)) + 1) % p
    return h


def angles_out(t):
    return enc(tuple(float(x) if not hasattr(x, 'rad') else x() for x in t))


def impl(call):
    """canonical output of an implementation call returning a tuple of Angles / floats"""
    try:
        return angles_out(call())
    except Exception as e:  # noqa
        return enc_exc(e)


def tie_tables(ctx):
    import pymeeus.Coordinates as C
    import pymeeus.Pluto as P
    for p in PLANETS:
        mod, _ = lib(p)
        for v in ('VSOP87_L', 'VSOP87_B', 'VSOP87_R'):
            ctx.case('table_digest', ['%s.%s' % (p, v)], enc(digest_vsop(getattr(mod, v))), q=None, klass='table_digest')
        for v in ('ORBITAL_ELEM', 'ORBITAL_ELEM_J2000'):
            ctx.case('table_digest', ['%s.%s' % (p, v)], enc(digest_small(getattr(mod, v))), q=None, klass='table_digest')
    mod, _ = lib('Earth')
    for v in ('VSOP87_L_J2000', 'VSOP87_B_J2000'):
        ctx.case('table_digest', ['Earth.' + v], enc(digest_vsop(getattr(mod, v))), q=None, klass='table_digest')
    for v in ('NUTATION_SINE_COEF_TABLE', 'NUTATION_COSINE_COEF_TABLE'):
        ctx.case('table_digest', ['Coordinates.' + v], enc(digest_small(getattr(C, v))), q=None, klass='table_digest')
    ctx.case('table_digest', ['Coordinates.NUTATION_ARG_TABLE'], enc(digest_small(C.NUTATION_ARG_TABLE, True)), q=None,
             klass='table_digest')
    for v in ('PLUTO_ARGUMENT', 'PLUTO_LONGITUDE', 'PLUTO_LATITUDE', 'PLUTO_RADIUS_VECTOR'):
        ctx.case('table_digest', ['Pluto.' + v], enc(digest_small([[float(x) for x in r] for r in getattr(P, v)])), q=None,
                 klass='table_digest')


def tie_epoch(ctx, planet, jde, klass, full=True):
    """all evaluators of one planet at one epoch, implementation vs binary64 model"""
    import pymeeus.Coordinates as C
    mod, cls = lib(planet)
    e = mk_epoch(jde)
    L, B, R = mod.VSOP87_L, mod.VSOP87_B, mod.VSOP87_R
    ctx.case('vsop_pos', [planet, jde], impl(lambda: C.vsop_pos(e, L, B, R)), q=None,
             klass='vsop_pos/' + klass)
    flags = (True, False) if full else (True,)
    for f in flags:
        ctx.case('geometric_heliocentric_position', [planet, jde, f],
                 impl(lambda: cls.geometric_heliocentric_position(e, tofk5=f)), q=None,
                 klass='geometric/' + klass)
        ctx.case('apparent_vsop_pos', [planet, jde, f],
                 impl(lambda: C.apparent_vsop_pos(e, L, B, R, nutation=f)), q=None,
                 klass='apparent/' + klass)
    if full:
        ctx.case('apparent_heliocentric_position', [planet, jde],
                 impl(lambda: cls.apparent_heliocentric_position(e)), q=None,
                 klass='apparent_wrapper/' + klass)
        ctx.case('orbital_elements_mean_equinox', [planet, jde],
                 impl(lambda: cls.orbital_elements_mean_equinox(e)), q=None, klass='elements')
        ctx.case('orbital_elements_j2000', [planet, jde],
                 impl(lambda: cls.orbital_elements_j2000(e)), q=None, klass='elements')
        if planet == 'Earth':
            for f in (True, False):
                ctx.case('geometric_heliocentric_position_j2000', [planet, jde, f],
                         impl(lambda: cls.geometric_heliocentric_position_j2000(e, tofk5=f)),
                         q=None, klass='earth_j2000')
                ctx.case('earth_apparent_heliocentric_position', [jde, f],
                         impl(lambda: cls.apparent_heliocentric_position(e, nutation=f)),
                         q=None, klass='earth_apparent')


def tie_generic(ctx, rng, n):
    """the evaluator on random tables given on the line (any table, not just the planets')"""
    import pymeeus.Coordinates as C

    def rnd_table(allow_empty):
        ns = rng.choice([0, 1, 1, 2, 3, 4, 6]) if allow_empty else rng.randint(1, 6)
        t = []
        for i in range(ns):
            nt = rng.choice([0, 1, 2, 3, 5, 9])
            t.append([[rng.choice([0.0, 1.0, rng.uniform(-1e9, 1e9), rng.uniform(-100, 100)]),
                       rng.uniform(0, 6.3), rng.choice([0.0, rng.uniform(0, 1e5), rng.uniform(-10, 10)])]
                      for _ in range(nt)])
        return t

    def flat(t):
        return [len(s) for s in t], [x for s in t for term in s for x in term]
    lo, hi = jd_range()
    for k in range(n):
        allow_empty = (k % 7 == 0)
        L, B, R = rnd_table(allow_empty), rnd_table(allow_empty), rnd_table(allow_empty)
        if k % 11 == 0:
            R = [[[0.0, 1.0, 2.0]]]            # r == 0 -> ZeroDivisionError in apparent_vsop_pos
        jde = norm_jde(rng.uniform(lo, hi))
        e = mk_epoch(jde)
        a = []
        for t in (L, B, R):
            ln, fl = flat(t)
            a += [ln, fl]
        for fn, call in (('vsop_pos_tables', lambda: C.vsop_pos(e, L, B, R)),
                         ('geometric_vsop_pos_tables', lambda: C.geometric_vsop_pos(e, L, B, R, True)),
                         ('apparent_vsop_pos_tables', lambda: C.apparent_vsop_pos(e, L, B, R, True))):
            out = impl(call)
            ctx.case(fn, a + [jde], out, q=None, klass=fn + ('/error' if out.startswith('E:') else ''))


def tie_angles(ctx, rng, n):
    from pymeeus.Angle import Angle
    special = [0.0, -0.0, 360.0, -360.0, 359.99999999999994, 360.00000000000006, 720.0, -720.5, 1e-20, -1e-20, 1e-300,
               -1e-300, 5e-324, 179.99999999999997, 180.0, 1e15, -1e15, 123456789.987654321, 59.99999999999999, 60.0,
               3599.9999999999995, 3600.0, 1296000.0, -1296000.0, 1295999.9999999998, 215999.99999999997, 216000.0]
    vals = special + [rng.uniform(-1e6, 1e6) for _ in range(n)] + [rng.uniform(-400, 400) for _ in range(n)] + \
        [rng.choice(special) + rng.choice([-1, 1]) * rng.random() * 1e-9 for _ in range(n)]
    for x in vals:
        ctx.case('ang_of_deg', [x], run_impl(lambda: Angle(x)()), q=None, klass='angle')
        ctx.case('ang_of_rad', [x / 57.0], run_impl(lambda: Angle(x / 57.0, radians=True)()), q=None, klass='angle')
        ctx.case('ang_dms', [0, 0, x], run_impl(lambda: Angle(0, 0, x)()), q=None, klass='angle')
        ctx.case('ang_neg', [x], run_impl(lambda: (-Angle(x))()), q=None, klass='angle')
        a = Angle(x)
        ctx.case('ang_to_positive', [a()], run_impl(lambda: Angle(a).to_positive()()), q=None, klass='angle')
        y = rng.choice(vals[:len(special)] + [rng.uniform(-400, 400)])
        b = Angle(y)
        ctx.case('ang_add', [a(), b()], run_impl(lambda: (a + b)()), q=None, klass='angle')
        ctx.case('ang_subf', [a(), y], run_impl(lambda: (a - y)()), q=None, klass='angle')
        k = rng.randint(-3, 3)
        ctx.case('ang_muli', [a(), k], run_impl(lambda: (k * a)()), q=None, klass='angle')
    for (d, m, s) in ((23, 26, 21.448), (0, 59, 60.0), (359, 59, 59.99999999999999), (0, 0, 3600.0), (1, 2, 3.5)):
        ctx.case('ang_dms', [d, m, s], run_impl(lambda: Angle(d, m, s)()), q=None, klass='angle')


def tie_nutation(ctx, jde):
    import pymeeus.Coordinates as C
    e = mk_epoch(jde)
    ctx.case('nutation_longitude', [jde], run_impl(lambda: C.nutation_longitude(e)()), q=None, klass='nutation')
    ctx.case('nutation_obliquity', [jde], run_impl(lambda: C.nutation_obliquity(e)()), q=None, klass='nutation')


def size(ctx, quick, thorough, dense=None):
    """sample count: when the source fingerprint of a modelled function changed (ctx.scale > 1) the quick tier
    switches to the densest enumeration that still fits in 2-3 minutes (`dense`, default: the thorough count),
    whatever the scale; otherwise the tier's own count"""
    if ctx.tier == 'quick' and ctx.scale > 1:
        return max(1, dense if dense is not None else thorough)
    return ctx.n(quick, thorough)


# ------------------------------------------------------------------ generators
def wrap_epochs(planet, rng, count):
    """epochs at which the (uncorrected) longitude has just passed 0: the inputs on which the FK5 /
    aberration corrections can push the longitude below zero"""
    lo, hi = jd_range()
    per = PERIOD_DAYS[planet]
    out = []
    for _ in range(count):
        j = rng.uniform(lo, hi - 1.2 * per)
        step = per / 64.0
        a = norm_jde(j)
        la = pos(planet, a, 'vsop', True)[0]
        found = None
        for _k in range(80):
            b = norm_jde(a + step)
            lb = pos(planet, b, 'vsop', True)[0]
            if lb < la:         # wrapped between a and b
                found = (a, b)
                break
            a, la = b, lb
        if not found:
            continue
        a, b = found
        for _k in range(70):
            m = norm_jde(0.5 * (a + b))
            if m <= a or m >= b:
                break
            lm = pos(planet, m, 'vsop', True)[0]
            if lm > 180.0:
                a = m
            else:
                b = m
        out.append(b)
    return out


def generate(ctx, shard=0, nshards=1):
    rng = ctx.rng
    lo, hi = jd_range()
    if shard == 0:
        tie_tables(ctx)
        for p in PLANETS:
            check(ctx, 'rate_matches_elements', [p])
            check(ctx, 'kepler3', [p])
        tie_angles(ctx, rng, size(ctx, 150, 1500))
        tie_generic(ctx, rng, size(ctx, 150, 1500))
        # anchors: J2000, the ends of the range
        for p in PLANETS:
            for j in (2451545.0, lo, hi, norm_jde(lo + 0.5), norm_jde(hi - 0.5)):
                tie_epoch(ctx, p, j, 'anchor')
                for name in ('lat_within_inclination', 'radius_window', 'kepler_agreement', 'direct_sum', 'fk5_size',
                             'aberration_size'):
                    check(ctx, name, [p, j])
        # around the origin of the series' time variable (J2000.0): seconds, milliseconds and ulps on both sides;
        # t -> 0 is where a power of t underflows any absolute threshold
        for p in PLANETS:
            for off in [k_ / 86400.0 for k_ in (1, 2, 3, 4, 5, 8, 30, 600)] + [1e-9, 1e-7, 1e-6, 1e-5, 1e-4, 1e-3, 0.1]:
                for sgn in (-1.0, 1.0):
                    j = norm_jde(2451545.0 + sgn * off)
                    tie_epoch(ctx, p, j, 'near_j2000')
                    check(ctx, 'direct_sum', [p, j], 'direct_sum/near_j2000')
                    check(ctx, 'one_second_step', [p, j], 'one_second_step/near_j2000')
    hot = [norm_jde(v) for v in ctx.hot['floats'] if lo <= v <= hi]
    for pi, planet in enumerate(PLANETS):
        # --- dense random epochs over -2000..4000 (more weight at the ends, where t is large)
        n = max(1, size(ctx, 320, 4000) // nshards)
        for k in range(n):
            u = rng.random()
            if u < 0.15:
                j = lo + rng.random() * 36525.0
            elif u < 0.30:
                j = hi - rng.random() * 36525.0
            elif u < 0.40 and hot:
                j = rng.choice(hot) + rng.uniform(-2, 2)
            else:
                j = rng.uniform(lo, hi)
            j = norm_jde(min(max(j, lo), hi - 2.0))
            full = (k % 4 == 0)
            tie_epoch(ctx, planet, j, 'random', full=full)
            if k % 8 == 0:
                tie_nutation(ctx, j)
            check(ctx, 'lon_range_vsop', [planet, j, 'vsop', True])
            check(ctx, 'lon_range_geometric', [planet, j, 'geo', True, pos(planet, j, 'vsop', True)[0]])
            check(ctx, 'lon_range_apparent', [planet, j, 'app', True, pos(planet, j, 'vsop', True)[0]])
            check(ctx, 'lat_within_inclination', [planet, j])
            check(ctx, 'radius_window', [planet, j])
            check(ctx, 'kepler_agreement', [planet, j])
            check(ctx, 'fk5_size', [planet, j])
            check(ctx, 'aberration_size', [planet, j])
            if k % 2 == 0:
                check(ctx, 'direct_sum', [planet, j])
            if k % 2 == 1:
                check(ctx, 'daily_rate', [planet, j], 'daily_rate/random')
            if k % 4 == 1:
                check(ctx, 'one_second_step', [planet, j], 'one_second_step/random')
        # --- a whole orbit: daily rate along it (every day in thorough; a stride of days in quick),
        #     shards take interleaved days
        per = PERIOD_DAYS[planet]
        start = norm_jde(rng.uniform(lo, hi - per - 3.0)) if shard else norm_jde(lo + 10.0 * (pi + 1))
        dense = ctx.tier == 'quick' and ctx.scale > 1
        if ctx.tier == 'thorough':
            days = range(shard, per + 1, nshards)
        elif dense:
            # every day of the orbit up to 16000 days per planet, a stride of days beyond (Uranus, Neptune)
            stride = max(1, -(-per // 16000))
            days = range(shard * stride, per + 1, stride * nshards)
        else:
            stride = max(1, per // 240)
            days = range(shard * stride, per + 1, stride * nshards)
        for d in days:
            j = norm_jde(start + d)
            check(ctx, 'daily_rate', [planet, j], 'daily_rate/orbit')
            check(ctx, 'lat_within_inclination', [planet, j], 'lat_within_inclination/orbit')
            check(ctx, 'radius_window', [planet, j], 'radius_window/orbit')
        # --- 1-second steps: a run of consecutive seconds, and across the 360 -> 0 wrap
        j = norm_jde(rng.uniform(lo, hi - 1.0))
        for s in range(size(ctx, 12, 120) // (1 if nshards == 1 else 2)):
            check(ctx, 'one_second_step', [planet, norm_jde(j + s / 86400.0)], 'one_second_step/run')
        for w in wrap_epochs(planet, rng, 1 if (ctx.tier == 'quick' and not dense) else 3):
            l0 = pos(planet, w, 'vsop', True)[0]
            tie_epoch(ctx, planet, w, 'wrap', full=False)
            check(ctx, 'lon_range_vsop', [planet, w, 'vsop', True], 'lon_range_vsop/wrap')
            check(ctx, 'lon_range_geometric', [planet, w, 'geo', True, l0], 'lon_range_geometric/wrap')
            check(ctx, 'lon_range_apparent', [planet, w, 'app', True, l0], 'lon_range_apparent/wrap')
            check(ctx, 'lon_range_apparent', [planet, w, 'app', False, l0], 'lon_range_apparent/wrap')
            for s in (-2, -1, 0):
                check(ctx, 'one_second_step', [planet, norm_jde(w + s / 86400.0)], 'one_second_step/wrap')
            check(ctx, 'daily_rate', [planet, norm_jde(w - 0.5)], 'daily_rate/wrap')
    ctx.sample({'call': 'Venus.geometric_heliocentric_position(Epoch(1992, 12, 20.0))', 'expected': 'Meeus ex. 33.a: L = 26.11412, B = -2.62060, R = 0.724602'})
    ctx.sample({'call': 'vsop_pos on a random table vs the direct sum', 'tolerance': '1e-11 rad + 4 ulp of the un-reduced angle'})


def replay(case):
    import core
    ctx = core.Ctx(PROPERTY, 'quick', 0)
    name = case.get('predicate')
    inp = case.get('input') or []
    if name not in PRED:
        return (False, {'error': 'unknown predicate ' + str(name)})
    check(ctx, name, inp)
    return (len(ctx.pred_fail) > 0, ctx.pred_fail or {'ok': True, 'predicate': name, 'input': inp})
