"""C09 — geocentric positions match the library's own heliocentric vectors.

(S) structural tie: the binary64 instantiation of lean/templates/Geocentric.lean against pymeeus, bit for bit:
    the seven <Planet>.geocentric_position, Pluto.geometric_heliocentric_position / geocentric_position (incl. the
    ValueError outside 1885-2099), Minor.set / _near_parabolic / geocentric_position /
    heliocentric_ecliptical_position in the three orbit regimes, kepler_equation, ecliptical2equatorial, and the
    two Epoch operations the reductions rely on (Epoch(jde) round trip, Epoch.year()).
(I) the numerical clauses of the property on the implementation (PRED below): direction vs the library's own
    heliocentric vectors (0.02 deg planets; 1e-4 deg Pluto and minor bodies), elongation vs the Sun's apparent
    direction at the same epoch (0.02 deg), elongation in [0, 180], Mercury <= 28.5, Venus <= 48, the caller's
    Epoch is not shifted, Pluto's domain.
"""
import functools
import importlib
import math

from core import run_impl, enc, enc_exc

PROPERTY = 'C09'
PLANETS = ['Mercury', 'Venus', 'Mars', 'Jupiter', 'Saturn', 'Uranus', 'Neptune']
FUNCTIONS = (['pymeeus/%s.py:%s.geocentric_position' % (p, p) for p in PLANETS]
             + ['pymeeus/%s.py:%s.geometric_heliocentric_position' % (p, p) for p in PLANETS + ['Earth']]
             + ['pymeeus/Pluto.py:Pluto.geometric_heliocentric_position', 'pymeeus/Pluto.py:Pluto.geocentric_position',
                'pymeeus/Pluto.py:PLUTO_ARGUMENT', 'pymeeus/Pluto.py:PLUTO_LONGITUDE', 'pymeeus/Pluto.py:PLUTO_LATITUDE',
                'pymeeus/Pluto.py:PLUTO_RADIUS_VECTOR',
                'pymeeus/Minor.py:Minor.set', 'pymeeus/Minor.py:Minor._near_parabolic', 'pymeeus/Minor.py:Minor.geocentric_position',
                'pymeeus/Minor.py:Minor.heliocentric_ecliptical_position', 'pymeeus/Minor.py:Minor.__init__',
                'pymeeus/Coordinates.py:kepler_equation', 'pymeeus/Coordinates.py:ecliptical2equatorial',
                'pymeeus/Coordinates.py:true_obliquity', 'pymeeus/Coordinates.py:mean_obliquity',
                'pymeeus/Coordinates.py:nutation_longitude', 'pymeeus/Coordinates.py:nutation_obliquity',
                'pymeeus/Coordinates.py:geometric_vsop_pos', 'pymeeus/Coordinates.py:vsop_pos',
                'pymeeus/Sun.py:Sun.rectangular_coordinates_j2000', 'pymeeus/Sun.py:Sun.apparent_geocentric_position',
                'pymeeus/Earth.py:Earth.apparent_heliocentric_position', 'pymeeus/Earth.py:Earth.geometric_heliocentric_position_j2000',
                'pymeeus/Epoch.py:Epoch.set', 'pymeeus/Epoch.py:Epoch.get_full_date', 'pymeeus/Epoch.py:Epoch.get_date',
                'pymeeus/Epoch.py:Epoch._compute_jde', 'pymeeus/Epoch.py:Epoch.year', 'pymeeus/Epoch.py:Epoch.get_doy',
                'pymeeus/Epoch.py:Epoch.leap', 'pymeeus/Epoch.py:Epoch.is_leap', 'pymeeus/Epoch.py:Epoch.__sub__',
                'pymeeus/Epoch.py:Epoch.__isub__', 'pymeeus/base.py:TOL'])

MANIFEST = dict(
    text=("PARTIAL. Lean 4 theorems (Props/C09.lean) about the real-number model of the geocentric reductions "
          "(templates/Geocentric.lean): the elongation is acos of an argument in [-1, 1] and lies in [0, 180] degrees "
          "(planets and minor bodies); right ascension in [0, 360) and declination in [-90, 90] for the planets and "
          "for ecliptical2equatorial; the FK5 correction inside geocentric_position is the same formula as in "
          "geometric_vsop_pos (latitude in radians); the parabolic branch returns v = 2 atan(s) in degrees within "
          "(-180, 180) and r = q (1 + s^2); the bisection of kepler_equation ends within the fuel of the model for every "
          "input, kepler_equation is total for 0 <= e < 1 and raises ValueError for e >= 1, so the elliptic regime of "
          "Minor is always defined; Pluto's right ascension / declination ranges and table shapes; Pluto raises ValueError exactly when the year is outside [1885, 2099], in either "
          "pass; the three orbit regimes of Minor partition e in [0, 1] as documented (e < 0.98, |e - 1| < 1e-10, "
          "otherwise) and both light-time passes use the same regime; light-time structure: the second position is "
          "evaluated at Epoch(epoch - 0.0057755183 Delta) with Delta the first-pass distance, the Earth at the "
          "epoch itself. the minor bodies' elongation argument is in [-1, 1] (Cauchy-Schwarz); what the code does with the Sun "
          "for the planets' elongation (the light-time SHIFTED epoch) is stated as coded. Every numerical agreement "
          "(direction to 0.02 / 1e-4 deg, elongation to 0.02 deg, maximum elongations) is covered only by the "
          "bit-exact correspondence run of the binary64 model and by the predicates evaluated on the implementation; "
          "'the caller's Epoch is not shifted' is checked dynamically (snapshot before / after)."),
    note=("Trusted: Lean kernel, Mathlib, axioms propext/Classical.choice/Quot.sound; the hand-written model "
          "lean/templates/Geocentric.lean (+ SunEarth.lean, Vsop.lean, generated tables), validated by the bit-for-bit "
          "correspondence run; Epoch(jde) and Epoch.year() are parameters of the model (theorems hold for any), their "
          "binary64 versions are tied bit for bit; loops are fuel-bounded in the model (exhaustion would show as a "
          "correspondence mismatch); idealisation binary64 -> reals."),
    technique="Lean 4 proof (structure) + model/implementation correspondence check + property predicates on the implementation",
    ref='6 C09')

TRUSTED = ['one model text serves the seven <Planet>.geocentric_position methods (identical up to the class name today); each planet is tied to its own method separately by the correspondence run']
ASSUMPTIONS = ["'heliocentric position one light-time earlier, both taken from the library itself': planets = "
               "<Planet>/Earth.geometric_heliocentric_position(tofk5=False) (ecliptic of date), rotated with "
               "mean_obliquity; Pluto = Pluto.geometric_heliocentric_position (J2000) and the Earth = minus "
               "Sun.rectangular_coordinates_j2000; minor bodies = an independent two-body propagation (universal "
               "variables) of the given elements, the library having no heliocentric vector for e >= 0.98",
               'light time iterated to convergence in the reference (the code does one iteration: < 1e-6 deg)']
RULE = 'distinct (model function, argument tuple) pairs sent to the model and to the implementation'

K_GAUSS = 0.01720209895
EPS_J2000 = math.radians(23.0 + 26.0 / 60.0 + 21.448 / 3600.0)
MAX_ELONG = {'Mercury': 28.5, 'Venus': 48.0}


# ------------------------------------------------------------------ helpers
@functools.lru_cache(maxsize=None)
def lib(planet):
    mod = importlib.import_module('pymeeus.' + planet)
    return getattr(mod, planet)


def mk_epoch(jde):
    from pymeeus.Epoch import Epoch
    return Epoch(jde)


def norm_jde(j):
    return mk_epoch(j).jde()


@functools.lru_cache(maxsize=1)
def ranges():
    from pymeeus.Epoch import Epoch
    return {'wide': (Epoch(-2000, 1, 1.0).jde(), Epoch(4000, 12, 31.0).jde()),
            'pluto': (Epoch(1885, 1, 1.0).jde(), Epoch(2099, 1, 1.0).jde())}


def T(x):
    return tuple(float(v) if not hasattr(v, 'rad') else v() for v in x)


def impl(call):
    try:
        r = call()
        if isinstance(r, tuple):
            return enc(T(r))
        return enc(T((r,))[0])
    except Exception as e:  # noqa
        return enc_exc(e)


def sph(lon, lat, r=1.0):
    return (r * math.cos(lat) * math.cos(lon), r * math.cos(lat) * math.sin(lon), r * math.sin(lat))


def rot_x(v, eps):
    """ecliptic -> equatorial"""
    x, y, z = v
    return (x, y * math.cos(eps) - z * math.sin(eps), y * math.sin(eps) + z * math.cos(eps))


def angle_deg(u, v):
    c = (u[1] * v[2] - u[2] * v[1], u[2] * v[0] - u[0] * v[2], u[0] * v[1] - u[1] * v[0])
    return math.degrees(math.atan2(math.sqrt(sum(t * t for t in c)), sum(a * b for a, b in zip(u, v))))


def laskar_obliquity_deg(jde):
    """mean obliquity of the ecliptic, Laskar (Meeus 22.3), degrees; independent of pymeeus"""
    u = (jde - 2451545.0) / 3652500.0
    c = [-4680.93, -1.55, 1999.25, -51.38, -249.67, -39.05, 7.12, 27.87, 5.79, 2.45]
    acc, p = 0.0, u
    for k in c:
        acc += k * p
        p *= u
    return 23.0 + 26.0 / 60.0 + (21.448 + acc) / 3600.0


def helio(planet, jde):
    l, b, r = lib(planet).geometric_heliocentric_position(mk_epoch(jde), tofk5=False)
    return sph(l.rad(), b.rad(), r)


# ------------------------------------------------------------------ predicates: planets
@functools.lru_cache(maxsize=20000)
def planet_call(planet, jde):
    e = mk_epoch(jde)
    ra, dec, elon = lib(planet).geocentric_position(e)
    return ra(), dec(), elon(), e.jde()


def p_direction_planet(planet, jde):
    # the obliquity is the oracle's own (Laskar's polynomial, Meeus (22.3), written out here): with the library's
    # mean_obliquity a defect of that function would sit on both sides of the comparison
    ra, dec, elon, _ = planet_call(planet, jde)
    earth = helio('Earth', jde)
    tau = 0.0
    for _ in range(4):
        p = helio(planet, jde - tau)
        d = [p[i] - earth[i] for i in range(3)]
        tau = 0.0057755183 * math.sqrt(sum(t * t for t in d))
    eq = rot_x(d, math.radians(laskar_obliquity_deg(mk_epoch(jde).jde())))
    dev = angle_deg(eq, sph(math.radians(ra), math.radians(dec)))
    return dev <= 0.02, {'deviation_deg': dev, 'light_time_days': tau}


def p_elongation_planet(planet, jde):
    from pymeeus.Sun import Sun
    from pymeeus.Coordinates import true_obliquity
    ra, dec, elon, _ = planet_call(planet, jde)
    e = mk_epoch(jde)
    ls, bs, rs = Sun.apparent_geocentric_position(e)
    sun = rot_x(sph(ls.rad(), bs.rad()), true_obliquity(e).rad())
    ang = angle_deg(sun, sph(math.radians(ra), math.radians(dec)))
    ok = abs(ang - elon) <= 0.02 and 0.0 <= elon <= 180.0
    if planet in MAX_ELONG:
        ok = ok and elon <= MAX_ELONG[planet]
    det = {'elongation': elon, 'angle_to_apparent_sun_at_epoch': ang, 'diff_deg': abs(ang - elon)}
    if not ok:
        # what the listed finding says the library does: the Sun one light-time earlier.  A failure that is not
        # explained by exactly that is not covered by the finding.
        try:
            earth = helio('Earth', jde)
            tau = 0.0
            for _ in range(4):
                p = helio(planet, jde - tau)
                tau = 0.0057755183 * math.sqrt(sum((p[i] - earth[i]) ** 2 for i in range(3)))
            e2 = mk_epoch(jde - tau)
            ls2, bs2, _r = Sun.apparent_geocentric_position(e2)
            sun2 = rot_x(sph(ls2.rad(), bs2.rad()), true_obliquity(e2).rad())
            det['diff_to_sun_one_light_time_earlier_deg'] = abs(angle_deg(sun2, sph(math.radians(ra), math.radians(dec))) - elon)
        except Exception as ex:  # noqa
            det['diff_to_sun_one_light_time_earlier_deg'] = 999.0
    return ok, det


def p_epoch_not_shifted(kind, jde, *rest):
    from pymeeus.Epoch import Epoch
    e = Epoch(jde)
    before = e.jde()
    try:
        if kind == 'Pluto':
            from pymeeus.Pluto import Pluto
            Pluto.geocentric_position(e)
        elif kind == 'Minor':
            body = make_minor(*rest)
            tp_before = body._t.jde()
            body.geocentric_position(e)
            if body._t.jde() != tp_before:
                return False, {'perihelion_epoch_before': tp_before, 'after': body._t.jde()}
        else:
            lib(kind).geocentric_position(e)
    except Exception as ex:  # noqa
        return e.jde() == before, {'exception': repr(ex)[:80], 'before': before, 'after': e.jde()}
    return e.jde() == before, {'before': before, 'after': e.jde()}


# ------------------------------------------------------------------ predicates: Pluto
def pluto_vec(jde):
    from pymeeus.Pluto import Pluto
    l, b, r = Pluto.geometric_heliocentric_position(mk_epoch(jde))
    return rot_x(sph(l.rad(), b.rad(), r), EPS_J2000)


def p_direction_pluto(jde):
    from pymeeus.Pluto import Pluto
    from pymeeus.Sun import Sun
    e = mk_epoch(jde)
    ra, dec = Pluto.geocentric_position(e)
    sun = Sun.rectangular_coordinates_j2000(e)        # = minus the Earth's heliocentric J2000 equatorial vector
    tau = 0.0
    for _ in range(4):
        p = pluto_vec(jde - tau)
        d = [p[i] + sun[i] for i in range(3)]
        tau = 0.0057755183 * math.sqrt(sum(t * t for t in d))
    dev = angle_deg(d, sph(ra.rad(), dec.rad()))
    return dev <= 1e-4, {'deviation_deg': dev, 'light_time_days': tau}


def p_pluto_domain(jde):
    from pymeeus.Pluto import Pluto
    e = mk_epoch(jde)
    y = e.year()
    out1 = impl(lambda: Pluto.geometric_heliocentric_position(e))
    inside = 1885.0 <= y <= 2099.0
    ok = (out1 == 'E:ValueError') == (not inside)
    return ok, {'year': y, 'heliocentric': out1[:40]}


# ------------------------------------------------------------------ predicates: minor bodies
def make_minor(q, e, i, om, w, tp):
    from pymeeus.Minor import Minor
    from pymeeus.Angle import Angle
    from pymeeus.Epoch import Epoch
    return Minor(q, e, Angle(i), Angle(om), Angle(w), Epoch(tp))


def stumpff(z):
    if z > 1e-6:
        s = math.sqrt(z)
        return (1 - math.cos(s)) / z, (s - math.sin(s)) / (s * s * s)
    if z < -1e-6:
        s = math.sqrt(-z)
        return (math.cosh(s) - 1) / (-z), (math.sinh(s) - s) / (s * s * s)
    return 0.5 - z / 24.0 + z * z / 720.0, 1.0 / 6.0 - z / 120.0 + z * z / 5040.0


def two_body(q, e, i, om, w, dt):
    """heliocentric equatorial J2000 vector dt days after perihelion: universal variables, any 0 <= e <= 1"""
    mu = K_GAUSS * K_GAUSS
    alpha = (1.0 - e) / q
    sm = math.sqrt(mu)
    def kep(chi):
        c_, s_ = stumpff(alpha * chi * chi)
        return e * chi ** 3 * s_ + q * chi - sm * dt          # increasing in chi (its derivative is r > 0)
    b = 1.0
    while kep(b) < 0.0 or kep(-b) > 0.0:
        b *= 2.0
    lo_, hi_ = -b, b
    for _ in range(200):
        mid = 0.5 * (lo_ + hi_)
        if mid == lo_ or mid == hi_:
            break
        if kep(mid) < 0.0:
            lo_ = mid
        else:
            hi_ = mid
    chi = 0.5 * (lo_ + hi_)
    z = alpha * chi * chi
    c, s = stumpff(z)
    fx = 1.0 - chi * chi / q * c
    g = dt - chi ** 3 / sm * s
    v0 = math.sqrt(mu * (1.0 + e) / q)
    xo, yo = fx * q, g * v0
    wr, ir, omr = math.radians(w), math.radians(i), math.radians(om)
    cw, sw = math.cos(wr), math.sin(wr)
    x1, y1 = xo * cw - yo * sw, xo * sw + yo * cw
    y2, z2 = y1 * math.cos(ir), y1 * math.sin(ir)
    x3, y3 = x1 * math.cos(omr) - y2 * math.sin(omr), x1 * math.sin(omr) + y2 * math.cos(omr)
    return rot_x((x3, y3, z2), EPS_J2000)


def regime_of(e):
    return 'elliptic' if e < 0.98 else ('parabolic' if abs(e - 1.0) < 1e-10 else 'near_parabolic')


@functools.lru_cache(maxsize=4096)
def minor_eval(q, e, i, om, w, tp, jde):
    """(ra_rad, dec_rad, psi_deg) of the implementation or ('exception', text); and the reference direction"""
    from pymeeus.Sun import Sun
    body = make_minor(q, e, i, om, w, tp)
    ep = mk_epoch(jde)
    sun = Sun.rectangular_coordinates_j2000(ep)
    t0 = ep.jde() - body._t.jde()
    tau = 0.0
    for _ in range(5):
        p = two_body(q, e, i, om, w, t0 - tau)
        d = [p[k] + sun[k] for k in range(3)]
        tau = 0.0057755183 * math.sqrt(sum(t * t for t in d))
    try:
        ra, dec, psi = body.geocentric_position(ep)
        got = (ra.rad(), dec.rad(), psi())
    except Exception as ex:  # noqa
        got = ('exception', repr(ex)[:60])
    return got, tuple(d), tuple(sun), tau


def p_direction_minor(q, e, i, om, w, tp, jde):
    got, d, sun, tau = minor_eval(q, e, i, om, w, tp, jde)
    base = {'regime': regime_of(e), 'light_time_days': tau, 'distance_au': tau / 0.0057755183,
            'reference_elongation': angle_deg(list(sun), list(d))}
    if got[0] == 'exception':
        return False, dict(base, exception=got[1])
    dev = angle_deg(list(d), sph(got[0], got[1]))
    return dev <= 1e-4, dict(base, deviation_deg=dev)


def p_elongation_minor(q, e, i, om, w, tp, jde):
    got, d, sun, tau = minor_eval(q, e, i, om, w, tp, jde)
    base = {'regime': regime_of(e), 'reference_elongation': angle_deg(list(sun), list(d))}
    if got[0] == 'exception':
        return False, dict(base, exception=got[1])
    ang_sun = angle_deg(list(sun), sph(got[0], got[1]))
    ok = abs(ang_sun - got[2]) <= 0.02 and 0.0 <= got[2] <= 180.0
    return ok, dict(base, elongation=got[2], angle_to_sun=ang_sun, diff_deg=abs(ang_sun - got[2]))


PRED = {'direction_planet': p_direction_planet, 'elongation_planet': p_elongation_planet,
        'epoch_not_shifted': p_epoch_not_shifted, 'direction_pluto': p_direction_pluto, 'pluto_domain': p_pluto_domain,
        'direction_minor': p_direction_minor, 'elongation_minor': p_elongation_minor}


def check(ctx, name, inp, klass=None):
    try:
        ok, detail = PRED[name](*inp)
    except Exception as ex:  # noqa
        ok, detail = False, {'exception': repr(ex)}
    ctx.predicate(name, bool(ok), list(inp), detail, klass or name)
    return ok, detail


def known_match(k, f):
    preds = k.get('predicates') or [k.get('predicate')]
    if f.get('predicate') not in preds:
        return False
    d = f.get('detail') or {}
    if 'exception' in d:
        if not k.get('exception_contains') or k['exception_contains'] not in d['exception']:
            return False
    elif k.get('exception_only'):
        return False
    for key, lim in (k.get('detail_max') or {}).items():
        if key in d and not (isinstance(d[key], (int, float)) and d[key] <= lim):
            return False
    for key, val in (k.get('detail_equals') or {}).items():
        if d.get(key) != val:
            return False
    inp = f.get('input') or []
    for idx, val in (k.get('input_in') or {}).items():
        i = int(idx)
        if i >= len(inp) or inp[i] not in val:
            return False
    for idx, rng in (k.get('ranges') or {}).items():
        i = int(idx)
        if i >= len(inp) or not isinstance(inp[i], (int, float)) or not (rng[0] <= inp[i] <= rng[1]):
            return False
    return True


# ------------------------------------------------------------------ correspondence
def tie_planet(ctx, planet, jde, klass):
    ctx.case('planet_geocentric_position', [planet, jde], impl(lambda: lib(planet).geocentric_position(mk_epoch(jde))),
             q=None, klass='planet/' + klass)


def tie_epoch_ops(ctx, x, klass):
    from pymeeus.Epoch import Epoch
    ctx.case('geo_epoch_of_jde', [x], impl(lambda: Epoch(x).jde()), q=None, klass='epoch_of_jde/' + klass)
    ctx.case('geo_epoch_year', [x], impl(lambda: mk_raw(x).year()), q=None, klass='epoch_year/' + klass)


def mk_raw(x):
    """an Epoch whose _jde is exactly x (the model function takes the JDE the object holds)"""
    from pymeeus.Epoch import Epoch
    e = Epoch()
    e._jde = x
    return e


def tie_pluto(ctx, jde, klass):
    from pymeeus.Pluto import Pluto
    e = mk_epoch(jde)
    o = impl(lambda: Pluto.geometric_heliocentric_position(e))
    ctx.case('pluto_geometric_heliocentric_position', [jde], o, q=None,
             klass='pluto_heliocentric/' + klass + ('/error' if o.startswith('E:') else ''))
    o = impl(lambda: Pluto.geocentric_position(e))
    ctx.case('pluto_geocentric_position', [jde], o, q=None,
             klass='pluto_geocentric/' + klass + ('/error' if o.startswith('E:') else ''))


def tie_minor(ctx, elems, jde, klass):
    q, e, i, om, w, tp = elems
    args = [q, e, float(make_angle(i)), float(make_angle(om)), float(make_angle(w)), norm_jde(tp)]

    def build():
        return make_minor(q, e, i, om, w, tp)
    o = impl(lambda: build().geocentric_position(mk_epoch(jde)))
    ctx.case('minor_geocentric_position', args + [jde], o, q=None, klass='minor_geocentric/' + klass + ('/error' if o.startswith('E:') else ''))
    o = impl(lambda: build().heliocentric_ecliptical_position(mk_epoch(jde)))
    ctx.case('minor_heliocentric_ecliptical_position', args + [jde], o, q=None,
             klass='minor_heliocentric/' + klass + ('/error' if o.startswith('E:') else ''))
    dt = jde - norm_jde(tp)
    o = impl(lambda: build()._near_parabolic(float(dt)))
    ctx.case('minor_near_parabolic', args + [float(dt)], o, q=None, klass='near_parabolic/' + klass + ('/error' if o.startswith('E:') else ''))

    def elems_out():
        b = build()
        return [b._aa, b._bb, b._cc, b._am, b._bm, b._cm, b._a, b._n]
    o = run_impl(elems_out)
    ctx.case('minor_elements', args, o, q=None, klass='minor_set/' + klass)


def make_angle(x):
    from pymeeus.Angle import Angle
    return Angle(x)()


def rnd_minor(rng, regime):
    q = rng.choice([0.1, 30.0, rng.uniform(0.1, 30.0), rng.uniform(0.1, 3.0), 10 ** rng.uniform(-1, 1.477)])
    if regime == 'elliptic':
        e = rng.choice([0.0, rng.random() * 0.98, 0.5, 0.9, 0.97, 0.9799999999999999])
    elif regime == 'near_parabolic':
        e = rng.choice([0.98, 0.99, 0.999, 0.9999, rng.uniform(0.98, 1.0), 1.0 - 1e-9, 1.0 - 2e-10, 0.9800000000000001])
    else:
        e = rng.choice([1.0, 1.0, 1.0 - 5e-11, 1.0 - 9.9e-11])
    i = rng.choice([0.0, 180.0, 90.0, rng.uniform(0, 180)])
    om = rng.uniform(0, 360)
    w = rng.uniform(0, 360)
    tp = 2451545.0 + rng.uniform(-200, 200) * 365.25
    dt = rng.choice([0.0, rng.uniform(-50, 50) * 365.25, rng.uniform(-400, 400), rng.uniform(-30, 30), 1e-11, -1e-11])
    return (q, e, i, om, w, norm_jde(tp)), norm_jde(norm_jde(tp) + dt)


def size(ctx, quick, thorough, dense=None):
    """sample count: when the source fingerprint of a modelled function changed (ctx.scale > 1) the quick tier
    switches to the densest enumeration that still fits in 2-3 minutes (`dense`, default: the thorough count),
    whatever the scale; otherwise the tier's own count"""
    if ctx.tier == 'quick' and ctx.scale > 1:
        return max(1, dense if dense is not None else thorough)
    return ctx.n(quick, thorough)


# ------------------------------------------------------------------ generator
def generate(ctx, shard=0, nshards=1):
    from pymeeus.Coordinates import kepler_equation, ecliptical2equatorial
    from pymeeus.Angle import Angle
    rng = ctx.rng
    R = ranges()
    lo, hi = R['wide']
    hot = [v for v in ctx.hot['floats'] if 990000 < v < 3190000]
    if shard == 0:
        for j in (2451545.0, 2448976.5, lo, hi):
            for p in PLANETS:
                tie_planet(ctx, p, norm_jde(j), 'anchor')
        for x in (2451545.0, 0.0, 1e-9, 2299160.5, 2299159.5, 2299160.4999999995, 1721057.5, 1721423.5, 2409543.0, 2487704.5,
                  2409542.9999999995, 2487704.5000000005, 5373484.5, 5373485.0, 990557.5, 1356.75):
            tie_epoch_ops(ctx, x, 'boundary')
        # Pluto at and around the ends of its range (the year test, and the second pass falling out of range)
        for j0 in R['pluto']:
            for d in (-400.0, -1.0, -0.3, -0.2, -0.1, -1e-3, 0.0, 1e-3, 0.1, 0.2, 0.3, 1.0, 400.0):
                j = norm_jde(j0 + d)
                tie_pluto(ctx, j, 'range_end')
                check(ctx, 'pluto_domain', [j], 'pluto_domain/range_end')
        j2099 = mk_epoch(R['pluto'][1]).jde()
        for d in (364.0, 364.9, 365.0, 365.1, 366.0):
            check(ctx, 'pluto_domain', [norm_jde(j2099 + d)], 'pluto_domain/range_end')
    # --- planets
    n = max(1, size(ctx, 560, 8000) // nshards)
    for k in range(n):
        planet = PLANETS[k % len(PLANETS)]
        u = rng.random()
        j = rng.choice(hot) + rng.uniform(-30, 30) if (u < 0.1 and hot) else rng.uniform(lo, hi)
        j = norm_jde(min(max(j, lo), hi))
        tie_planet(ctx, planet, j, 'random')
        check(ctx, 'direction_planet', [planet, j], 'direction_planet/' + planet)
        check(ctx, 'elongation_planet', [planet, j], 'elongation_planet/' + planet)
        if k % 4 == 0:
            check(ctx, 'epoch_not_shifted', [planet, j], 'epoch_not_shifted/planet')
    # --- greatest elongations of the inferior planets: daily steps over a run of days (interleaved by shard)
    for planet, per in (('Mercury', 116), ('Venus', 584)):
        start = norm_jde(rng.uniform(lo, hi - 3 * per))
        span = size(ctx, 2 * per, 12 * per)
        stride = 1 if planet == 'Mercury' else 3
        for d in range(shard * stride, span, stride * nshards):
            check(ctx, 'elongation_planet', [planet, norm_jde(start + d)], 'elongation_planet/' + planet + '/daily')
    # --- planets at their conjunctions and oppositions (instants from the library's own finders): the elongation
    # comes within the ecliptic latitude of 0 or 180 degrees there, where its arc cosine is ill-conditioned and where
    # any special handling of small / nearly straight angles would sit.  When the source of a modelled function
    # changed, every planet is followed through a long run of consecutive years at 40-minute steps.
    from pymeeus.Epoch import Epoch as _Epoch
    syz = {'Mercury': ('inferior_conjunction', 'superior_conjunction'), 'Venus': ('inferior_conjunction', 'superior_conjunction')}
    for p_ in PLANETS:
        syz.setdefault(p_, ('opposition', 'conjunction'))
    dense = ctx.scale > 1
    offs = [k_ * (40.0 / 1440.0) for k_ in range(-12, 13)] if dense else [-0.3, -0.1, -0.02, 0.0, 0.02, 0.1, 0.3]
    nyears = size(ctx, 2, 12, 160)
    for planet in PLANETS:
        y0 = rng.randint(-1900, 3900 - nyears) if not dense else rng.choice([1800, 1850, 1900, 1950, 2000])
        for yk in range(shard, nyears, nshards):
            for target in syz[planet]:
                try:
                    t0 = getattr(lib(planet), target)(_Epoch(y0 + yk, rng.randint(1, 12), 1.0)).jde()
                except Exception:   # noqa  (finders are C13's business)
                    continue
                for off in offs:
                    jj = norm_jde(t0 + off)
                    tie_planet(ctx, planet, jj, 'syzygy')
                    check(ctx, 'elongation_planet', [planet, jj], 'elongation_planet/' + planet + '/syzygy')
                    if off == 0.0:
                        check(ctx, 'direction_planet', [planet, jj], 'direction_planet/' + planet + '/syzygy')
    # --- Pluto
    plo, phi = R['pluto']
    for k in range(max(1, size(ctx, 240, 4000) // nshards)):
        u = rng.random()
        if u < 0.15:
            j = rng.choice([plo, phi]) + rng.uniform(-2, 2) * 365.25      # around the ends: inside and outside
        elif u < 0.25:
            j = rng.uniform(lo, hi)                                        # far outside
        else:
            j = rng.uniform(plo, phi)
        j = norm_jde(j)
        tie_pluto(ctx, j, 'random')
        check(ctx, 'pluto_domain', [j])
        if plo + 1.0 < j < phi - 1.0:
            check(ctx, 'direction_pluto', [j])
            if k % 4 == 0:
                check(ctx, 'epoch_not_shifted', ['Pluto', j], 'epoch_not_shifted/pluto')
    # --- minor bodies in the three regimes
    for k in range(max(1, size(ctx, 480, 8000) // nshards)):
        regime = ('elliptic', 'near_parabolic', 'parabolic')[k % 3]
        elems, j = rnd_minor(rng, regime)
        tie_minor(ctx, elems, j, regime)
        check(ctx, 'direction_minor', list(elems) + [j], 'direction_minor/' + regime)
        check(ctx, 'elongation_minor', list(elems) + [j], 'elongation_minor/' + regime)
        if k % 4 == 0:
            check(ctx, 'epoch_not_shifted', ['Minor', j] + list(elems), 'epoch_not_shifted/minor')
    # --- minor bodies near conjunction / opposition (low inclination: the elongation reaches 0 and 180)
    for k in range(max(1, size(ctx, 16, 160) // nshards)):
        q = rng.choice([0.3, 0.8, 1.8, 2.5, 5.0])
        e = rng.choice([0.05, 0.3, 0.6, 0.9, 0.99, 1.0])
        inc = rng.choice([0.0, 0.0, 180.0, 0.3])
        elems = (q, e, inc, rng.uniform(0, 360), rng.uniform(0, 360), norm_jde(2451545.0 + rng.uniform(-50, 50) * 365.25))
        t0 = elems[5] + rng.uniform(-300, 300)
        scan = []
        for st in range(0, 800, 4):
            jj = t0 + st
            got, d, sun, tau = minor_eval(*(elems + (norm_jde(jj),)))
            scan.append((angle_deg(list(sun), list(d)), norm_jde(jj)))
        for target in (min(scan), max(scan)):
            for off in (-2.0, -0.7, -0.2, 0.0, 0.2, 0.7, 2.0):
                jj = norm_jde(target[1] + off)
                check(ctx, 'direction_minor', list(elems) + [jj], 'direction_minor/syzygy')
                check(ctx, 'elongation_minor', list(elems) + [jj], 'elongation_minor/syzygy')
                tie_minor(ctx, elems, jj, 'syzygy')
    # --- kepler_equation, ecliptical2equatorial, Epoch operations
    for k in range(max(1, size(ctx, 320, 4000) // nshards)):
        ecc = rng.choice([0.0, rng.random(), rng.random() * 0.98, 0.97, 0.9799, 0.999, 0.1])
        m = rng.choice([0.0, 180.0, 360.0, rng.uniform(-720, 720), rng.uniform(0, 360), 179.99999999999997, -1e-12])
        ma = Angle(m)
        ctx.case('kepler_equation', [ecc, ma()], impl(lambda: kepler_equation(ecc, ma)), q=None, klass='kepler_equation')
        lon, lat, eps = rng.uniform(-10, 370), rng.choice([rng.uniform(-90, 90), 90.0, -90.0, 0.0, 89.99999999]), rng.uniform(22, 25)
        ctx.case('ecliptical2equatorial', [Angle(lon)(), Angle(lat)(), Angle(eps)()],
                 impl(lambda: ecliptical2equatorial(Angle(lon), Angle(lat), Angle(eps))), q=None, klass='ecliptical2equatorial')
        x = rng.choice([rng.uniform(lo, hi), rng.uniform(0, 5373484.5), rng.uniform(2299150, 2299170),
                        float(int(rng.uniform(lo, hi))) + 0.5, float(int(rng.uniform(lo, hi))) + 0.5 - 1e-9])
        tie_epoch_ops(ctx, x, 'random')
    ctx.sample({'call': 'Venus.geocentric_position(Epoch(1992, 12, 20.0))', 'expected': 'Meeus ex. 33.a: ra 21h 4m 41.5s, dec -18d 53m 16.8s'})
    ctx.sample({'call': 'Pluto.geometric_heliocentric_position(Epoch(1884, 12, 31.0))', 'expected': 'ValueError'})


def replay(case):
    import core
    ctx = core.Ctx(PROPERTY, 'quick', 0)
    name = case.get('predicate')
    inp = case.get('input') or []
    if name not in PRED:
        return (False, {'error': 'unknown predicate ' + str(name)})
    check(ctx, name, inp)
    return (len(ctx.pred_fail) > 0, ctx.pred_fail or {'ok': True, 'predicate': name, 'input': inp})
