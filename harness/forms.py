"""Argument forms: one call, written in every way the documentation declares equivalent, must give one result.

The per-property harnesses mostly call a function in ONE form (Angles for angles, an Epoch for the date,
positional arguments, optional arguments left out).  The glue that converts the other documented forms
(a plain number where an Angle is documented too, a date given as (y, m, d) / tuple / list / date /
datetime, a tuple for a list, an optional argument passed explicitly or by keyword, a copy of an Epoch)
is code like any other; this module exercises it for every function of a property's FUNCTIONS list:

    check(ctx, functions, n, rng)     draws n in-domain calls per function with the typed generators of
                                      harness/c20.py, evaluates the call as generated and every variant, each
                                      on FRESH argument objects, and records `argument_forms_agree`
                                      (class 'forms/<kind>'): results equal bit for bit (floats, Angles,
                                      Epochs, tuples; receiver state for methods) or the same exception class.
    replay(inp)                       re-runs one recorded comparison in a fresh process.

Variant kinds
  angle      a parameter documented as Angle AND as a number (or as Angle with a numeric default):
             x <-> Angle(x), only for |x| < 360 (no range reduction involved)
  intfloat   int <-> float for an integral value where both are documented
  default    trailing optional parameters: left out <-> passed explicitly at their default
  keyword    every argument positional <-> by keyword (not for *args functions)
  tuplelist  tuple <-> list where both are documented
  copy       an Epoch / Angle argument <-> a copy made by the copy constructor; two equal Epoch arguments as
             two objects <-> the same object twice
  monthname  month number <-> short / long English name where `str` is documented for the month
  dateforms  the *args date functions: Epoch / (y, m, d) / ((y, m, d),) / ([y, m, d],) / date / datetime ...
             (groups below)
  sexagesimal the forms of the Angle constructor / Angle.set / Angle.set_ra
  operand    comparison / arithmetic operators of Angle and Epoch whose other operand may be an object or a plain
             number: a <op> Angle(x) <-> a <op> x,  e <cmp> Epoch(j) <-> e <cmp> j
  keywordforms  get_date / get_full_date / the Epoch builders: leap_seconds=x alone <-> with utc=True / utc=False
"""
import datetime
import inspect
import json
import re
import time

KIND_NAMES = ('angle', 'intfloat', 'default', 'keyword', 'tuplelist', 'copy', 'monthname', 'dateforms', 'sexagesimal',
              'operand', 'keywordforms')

# Variants that legitimately differ on the unchanged tree: (function, parameter or '*', kind) -> why.
# Nothing is loosened globally: exactly this variant kind is dropped for exactly this parameter.
NOT_EQUIVALENT = {
    ('Interpolation.__call__', 'x', 'angle'): 'the result has the type of x: an Angle in gives an Angle out, a float a float',
    ('Interpolation.derivative', 'x', 'angle'): 'the result has the type of x: an Angle in gives an Angle out, a float a float',
    ('Angle.reduce_dms', 'seconds', 'intfloat'): 'the seconds come back as given when no carry is needed: an int in, an int out',
    # documented ":type: int, float" but the Gregorian branch hands the value to datetime.date(), which refuses
    # floats (TypeError) -- a defect of the library reported to the coordinator, not a loosening of the check:
    ('Epoch.get_doy', 'yyyy', 'intfloat'): 'get_doy(2000.0, 1, 1) raises TypeError for years >= 1583 (datetime.date needs ints); reported',
    ('Epoch.get_doy', 'mm', 'intfloat'): 'get_doy(2000, 1.0, 1) raises TypeError for years >= 1583 (datetime.date needs ints); reported',
    ('Epoch.doy2date', 'year', 'intfloat'): 'doy2date(2000.0, 60) raises TypeError (datetime.date needs ints); reported',
}

# ----------------------------------------------------------------------------- date forms
# Functions that parse their *args through Epoch.check_input_date(): that parser keeps (year, month, day) of
# what it is given -- day WITH its decimals -- and ignores anything else.  Established on /repo e0a3648 by
# running every form; the documentation ("date ... Epoch, date, datetime, tuple, list" / "year, month, day")
# is silent about a time of day in the other slots, so the grouping below is what the CURRENT code maps to
# the same instant:
#   group D (the civil date at 0h): Epoch(y, m, d) | (y, m, d) | ((y, m, d),) | ([y, m, d],) | date(y, m, d)
#           | datetime(y, m, d) | and also the forms whose time of day the parser drops: (y, m, d, h, mi, s)
#           | ((y, m, d, h, mi, s),) | ([y, m, d, h, mi, s],) | datetime(y, m, d, h, mi, s)
#   group T (date + fraction of day): Epoch(y, m, d + f) | Epoch(y, m, d, h, mi, s) | (y, m, d + f)
#           | ((y, m, d + f),) | ([y, m, d + f],)        with d + f = d + (h/24 + mi/1440 + s/86400) as Epoch.set adds it
DATE_PARSERS = ('Coordinates.mean_obliquity', 'Coordinates.true_obliquity', 'Coordinates.nutation_longitude',
                'Coordinates.nutation_obliquity', 'Epoch.check_input_date')
# The Epoch constructor and Epoch.set honour the time of day of every form that has one:
#   group D: (y, m, d) | ((y, m, d),) | ([y, m, d],) | date | datetime(y, m, d) | Epoch(Epoch(y, m, d)) | (jde,)
#            | (y, 'Mon', d) | (y, 'Month', d)
#   group T: (y, m, d + f) | (y, m, d, h, mi, s) | ((y, m, d, h, mi, s),) | ([y, m, d, h, mi, s],)
#            | datetime(y, m, d, h, mi, s) | Epoch(copy) | (jde,)        (s integral: datetime has no decimals here)
EPOCH_BUILDERS = ('Epoch.__init__', 'Epoch.set')
# Keywords: the documentation presents `utc=True` and `leap_seconds=x` as alternatives ("use utc=True ..., or provide a
# non zero value to leap_seconds"); the current code lets a given leap_seconds win whatever utc says.  Established on
# /repo e0a3648:  f(leap_seconds=x) == f(utc=True, leap_seconds=x) == f(utc=False, leap_seconds=x)
KEYWORD_FORMS = ('Epoch.get_date', 'Epoch.get_full_date', 'Epoch.__init__', 'Epoch.set')
# Operators whose right operand is documented / handled as "Angle or number" (Angle) and "Epoch or number" (Epoch
# comparisons): the object and the bare number must behave alike.
ANGLE_OPS = ('__eq__', '__ne__', '__lt__', '__le__', '__gt__', '__ge__', '__add__', '__sub__', '__mul__', '__truediv__',
             '__div__', '__mod__', '__iadd__', '__isub__', '__imul__', '__itruediv__', '__idiv__', '__imod__')
EPOCH_OPS = ('__eq__', '__ne__', '__lt__', '__le__', '__gt__', '__ge__')
ANGLE_BUILDERS = ('Angle.__init__', 'Angle.set')
SHORT = ['Jan', 'Feb', 'Mar', 'Apr', 'May', 'Jun', 'Jul', 'Aug', 'Sep', 'Oct', 'Nov', 'Dec']
LONG = ['January', 'February', 'March', 'April', 'May', 'June', 'July', 'August', 'September', 'October',
        'November', 'December']


def qual_of(spec):
    """'pymeeus/Epoch.py:Epoch.get_date' -> 'Epoch.get_date';  'pymeeus/Coordinates.py:kepler_equation' ->
    'Coordinates.kepler_equation'"""
    path, rest = spec.split(':', 1)
    mod = path.split('/')[-1][:-3]
    return rest if ('.' in rest and not rest.startswith(mod + '.<')) and rest.split('.')[0][:1].isupper() else mod + '.' + rest


class Forms(object):
    def __init__(self, noise=None):
        import c20
        self.c20 = c20
        if noise is not None:
            self.L, self.sk, self.sig = noise.L, noise.sk, noise.sig
        else:
            self.L = c20.lib()
            self.sk = c20.skeleton()
            self.sig = c20.signature_info(self.L)
        self.byq = {f['qual']: f for f in self.sk['functions'] if f['kind'] != 'helper'}

    # ---- decoding (extra spec forms on top of c20.decode)
    def decode1(self, s, fq=None):
        L = self.L
        if isinstance(s, dict) and len(s) == 1:
            (k, v), = s.items()
            if k == 'EpochCopy':
                return L['Epoch'].Epoch(L['Epoch'].Epoch(v))
            if k == 'AngleCopy':
                return L['Angle'].Angle(L['Angle'].Angle(v))
            if k == 'EpochYMD':
                return L['Epoch'].Epoch(*v)
            if k == 'default_of':
                return self.default_value(v[0], v[1])
            if k == 'kw':
                return self.c20.KW({a: self.decode1(b) for a, b in v.items()})
            if k == 'tuple':
                return tuple(self.decode1(x) for x in v)
        if isinstance(s, list):
            return [self.decode1(x) for x in s]
        return self.c20.decode(s, L)

    def decode(self, specs):
        """top-level argument list; {'same': i} = the very object decoded for position i"""
        out = []
        for s in specs:
            if isinstance(s, dict) and 'same' in s:
                out.append(out[s['same']])
            else:
                out.append(self.decode1(s))
        return out

    def default_value(self, fq, pname):
        fn = self.callable_of(self.byq[fq])[0]
        target = fn.__init__ if inspect.isclass(fn) else fn
        return inspect.signature(target).parameters[pname].default

    def callable_of(self, f):
        return self.c20.resolve(f, self.L)

    def pyparams(self, f):
        """[(name, kind, default)] of the non-receiver parameters, from the live signature"""
        r = self.callable_of(f)
        if r is None:
            return None
        fn, is_method, cls = r
        target = fn.__init__ if inspect.isclass(fn) else fn
        try:
            ps = list(inspect.signature(target).parameters.values())
        except (TypeError, ValueError):
            return None
        if inspect.isclass(fn) or is_method:
            ps = ps[1:]
        return [(p.name, p.kind, p.default) for p in ps]

    # ---- evaluation
    def outcome(self, f, specs):
        r = self.callable_of(f)
        try:
            args = self.decode(specs)
        except Exception as e:     # noqa: a form that cannot even be built is an outcome too
            return ['build-exc', type(e).__name__]
        pos, kw = self.c20.split_kw(args)
        try:
            res = r[0](*pos, **kw)
        except Exception as e:     # noqa
            return ['exc', type(e).__name__]
        out = ['ok', self.c20.canon(res)]
        if r[1] and pos:
            out.append(self.c20.canon(pos[0]))      # the receiver's state after the call
        return out

    # ---- variants of one generated call
    def variants(self, f, specs, rng):
        """-> [(kind, description, variant specs)]"""
        fq = f['qual']
        si = self.sig.get(fq)
        pp = self.pyparams(f)
        if si is None or pp is None:
            return []
        params, ptypes, defaults, is_method, cls, doc = si
        first = 1 if (is_method and f['name'] != '__init__') else 0
        has_var = any(k in (inspect.Parameter.VAR_POSITIONAL, inspect.Parameter.VAR_KEYWORD) for (_n, k, _d) in pp)
        kwspec = [s for s in specs if isinstance(s, dict) and 'kw' in s]
        posspecs = [s for s in specs[first:] if not (isinstance(s, dict) and 'kw' in s)]
        names = [n for (n, k, _d) in pp if k in (inspect.Parameter.POSITIONAL_ONLY, inspect.Parameter.POSITIONAL_OR_KEYWORD)]
        out = []

        def put(i, new):
            v = list(specs)
            v[first + i] = new
            return v

        def skip(pname, kind):
            return (fq, pname, kind) in NOT_EQUIVALENT or (fq, '*', kind) in NOT_EQUIVALENT

        if not has_var and not kwspec and len(posspecs) <= len(names):
            for i, s in enumerate(posspecs):
                p = names[i]
                d = (ptypes.get(p) or '')
                dl = d.lower()
                dflt = pp[i][2]
                lists_angle = 'Angle' in d
                lists_num = bool(re.search(r'\b(int|float)\b', dl))
                num_default = isinstance(dflt, (int, float)) and not isinstance(dflt, bool)
                isnum = isinstance(s, (int, float)) and not isinstance(s, bool)
                if lists_angle and (lists_num or num_default) and not skip(p, 'angle'):
                    if isnum and abs(s) < 360.0:
                        out.append(('angle', '%s: number -> Angle' % p, put(i, {'Angle': s})))
                    elif isinstance(s, dict) and 'Angle' in s and abs(s['Angle']) < 360.0:
                        out.append(('angle', '%s: Angle -> number' % p, put(i, s['Angle'])))
                if isnum and re.search(r'\bint\b', dl) and re.search(r'\bfloat\b', dl) and not skip(p, 'intfloat'):
                    if isinstance(s, int):
                        out.append(('intfloat', '%s: int -> float' % p, put(i, float(s))))
                    elif float(s).is_integer() and abs(s) < 2 ** 52:
                        out.append(('intfloat', '%s: float -> int' % p, put(i, int(s))))
                if re.search(r'\btuple\b', dl) and re.search(r'\blist\b', dl) and not skip(p, 'tuplelist'):
                    if isinstance(s, list):
                        out.append(('tuplelist', '%s: list -> tuple' % p, put(i, {'tuple': s})))
                    elif isinstance(s, dict) and 'tuple' in s:
                        out.append(('tuplelist', '%s: tuple -> list' % p, put(i, list(s['tuple']))))
                if isinstance(s, dict) and 'Epoch' in s and not skip(p, 'copy'):
                    out.append(('copy', '%s: Epoch -> Epoch(Epoch)' % p, put(i, {'EpochCopy': s['Epoch']})))
                if isinstance(s, dict) and 'Angle' in s and not skip(p, 'copy'):
                    out.append(('copy', '%s: Angle -> Angle(Angle)' % p, put(i, {'AngleCopy': s['Angle']})))
                if p in ('month', 'mm') and re.search(r'\bstr', dl) and isinstance(s, int) and 1 <= s <= 12 \
                        and not skip(p, 'monthname'):
                    out.append(('monthname', '%s: number -> short name' % p, put(i, SHORT[s - 1])))
                    out.append(('monthname', '%s: number -> long name' % p, put(i, LONG[s - 1])))
            # trailing optional parameters
            if not skip('*', 'default'):
                omitted = names[len(posspecs):]
                if omitted and all(pp[names.index(p)][2] is not inspect.Parameter.empty for p in omitted):
                    v = list(specs) + [self.default_spec(fq, p, pp[names.index(p)][2]) for p in omitted]
                    out.append(('default', 'explicit defaults for %s' % ','.join(omitted), v))
                    v2 = list(specs) + [{'kw': {p: self.default_spec(fq, p, pp[names.index(p)][2]) for p in omitted}}]
                    out.append(('default', 'defaults by keyword for %s' % ','.join(omitted), v2))
                # arguments that equal their defaults may be left out
                k = len(posspecs)
                while k > 0 and pp[k - 1][2] is not inspect.Parameter.empty and self.equals_default(posspecs[k - 1], pp[k - 1][2]):
                    k -= 1
                if k < len(posspecs):
                    out.append(('default', 'left out: %s' % ','.join(names[k:len(posspecs)]), specs[:first + k]))
            if posspecs and not skip('*', 'keyword'):
                kwd = {names[i]: s for i, s in enumerate(posspecs)}
                out.append(('keyword', 'all arguments by keyword', specs[:first] + [{'kw': kwd}]))
                if len(posspecs) > 1:
                    out.append(('keyword', 'last argument by keyword',
                                specs[:first] + posspecs[:-1] + [{'kw': {names[len(posspecs) - 1]: posspecs[-1]}}]))
        # receiver copies
        if first == 1 and isinstance(specs[0], dict) and not skip('self', 'copy'):
            if 'Epoch' in specs[0]:
                out.append(('copy', 'receiver: Epoch -> Epoch(Epoch)', [{'EpochCopy': specs[0]['Epoch']}] + specs[1:]))
            if 'Angle' in specs[0]:
                out.append(('copy', 'receiver: Angle -> Angle(Angle)', [{'AngleCopy': specs[0]['Angle']}] + specs[1:]))
        return out

    def default_spec(self, fq, pname, value):
        if value is None or isinstance(value, (bool, int, float, str)):
            return value
        return {'default_of': [fq, pname]}

    @staticmethod
    def equals_default(spec, dflt):
        return (spec is None or isinstance(spec, (bool, int, float, str))) and type(spec) is type(dflt) and spec == dflt

    # ---- groups of forms that must agree among themselves
    def groups(self, f, rng):
        """-> [(kind, [(description, specs)])]: every member of a group against the first"""
        fq = f['qual']
        out = []
        if fq in DATE_PARSERS or fq in EPOCH_BUILDERS:
            y = rng.choice([rng.randint(1, 9999), rng.randint(1600, 2400), 1582, 2000, 1900, 1972, 2017])
            m = rng.randint(1, 12)
            d = rng.randint(1, 28)
            if rng.random() < 0.3:       # the last day of the month, the 29th of February included
                leap = (y % 4 == 0) if y < 1583 else (y % 4 == 0 and (y % 100 != 0 or y % 400 == 0))
                d = [31, 29 if leap else 28, 31, 30, 31, 30, 31, 31, 30, 31, 30, 31][m - 1]
                if (y, m) == (1582, 10):
                    d = 31
            if rng.random() < 0.15:      # the leap day: the month's length depends on the year
                y, m, d = rng.choice([2000, 2024, 1996, 1600, 2400, 1500, 4]), 2, 29
            h, mi, s = rng.randint(0, 23), rng.randint(0, 59), rng.randint(0, 59)
            if rng.random() < 0.2:
                h, mi, s = rng.choice([(0, 0, 1), (23, 59, 59), (12, 0, 0), (0, 0, 0)])
            frac = d + (h / 24.0 + mi / 1440.0 + s / 86400.0)
            recv = [{'EpochYMD': [2000, 1, 1.5]}] if fq == 'Epoch.set' else []
            if fq in DATE_PARSERS:
                D = [('Epoch(y, m, d)', [{'EpochYMD': [y, m, d]}]), ('(y, m, d)', [y, m, d]),
                     ('((y, m, d),)', [{'tuple': [y, m, d]}]), ('([y, m, d],)', [[y, m, d]]),
                     ('date', [{'date': [y, m, d]}]), ('datetime at 0h', [{'datetime': [y, m, d]}]),
                     ('(y, m, d, h, mi, s): time of day dropped by check_input_date', [y, m, d, h, mi, s]),
                     ('((y, m, d, h, mi, s),)', [{'tuple': [y, m, d, h, mi, s]}]),
                     ('([y, m, d, h, mi, s],)', [[y, m, d, h, mi, s]]),
                     ('datetime with a time of day', [{'datetime': [y, m, d, h, mi, s]}])]
                T = [('Epoch(y, m, d + f)', [{'EpochYMD': [y, m, frac]}]),
                     ('Epoch(y, m, d, h, mi, s)', [{'EpochYMD': [y, m, d, h, mi, s]}]),
                     ('(y, m, d + f)', [y, m, frac]), ('((y, m, d + f),)', [{'tuple': [y, m, frac]}]),
                     ('([y, m, d + f],)', [[y, m, frac]])]
            else:
                D = [('(y, m, d)', [y, m, d]), ('((y, m, d),)', [{'tuple': [y, m, d]}]), ('([y, m, d],)', [[y, m, d]]),
                     ('date', [{'date': [y, m, d]}]), ('datetime at 0h', [{'datetime': [y, m, d]}]),
                     ('Epoch(Epoch(y, m, d))', [{'EpochYMD': [y, m, d]}]),
                     ('(y, short month name, d)', [y, SHORT[m - 1], d]), ('(y, long month name, d)', [y, LONG[m - 1], d])]
                T = [('(y, m, d + f)', [y, m, frac]), ('(y, m, d, h, mi, s)', [y, m, d, h, mi, s]),
                     ('((y, m, d, h, mi, s),)', [{'tuple': [y, m, d, h, mi, s]}]),
                     ('([y, m, d, h, mi, s],)', [[y, m, d, h, mi, s]]),
                     ('datetime with a time of day', [{'datetime': [y, m, d, h, mi, s]}]),
                     ('Epoch(Epoch(y, m, d + f))', [{'EpochYMD': [y, m, frac]}]),
                     ('((y, m, d + f),)', [{'tuple': [y, m, frac]}])]
            try:
                datetime.date(y, m, d)      # (a Julian-calendar leap day such as 1500-02-29 is no datetime date)
            except ValueError:
                D = [x for x in D if 'date' not in x[0]]
                T = [x for x in T if 'datetime' not in x[0]]
            out.append(('dateforms', [(n, recv + sp) for (n, sp) in D]))
            out.append(('dateforms', [(n, recv + sp) for (n, sp) in T]))
        if fq in KEYWORD_FORMS:
            x = rng.choice([10.0, 32.0, 37.0, 0.5])
            if fq in ('Epoch.get_date', 'Epoch.get_full_date'):
                recv = [self.c20.g_epoch(rng, 1950, 2050)]
                pre = []
            else:
                recv = [{'EpochYMD': [2000, 1, 1.5]}] if fq == 'Epoch.set' else []
                y_, m_ = rng.randint(1960, 2030), rng.randint(1, 12)
                pre = [y_, m_, self.c20.day_of(rng, y_, m_, frac=False) + 0.25]
            out.append(('keywordforms', [
                ('leap_seconds=x', recv + pre + [{'kw': {'leap_seconds': x}}]),
                ('utc=True, leap_seconds=x', recv + pre + [{'kw': {'utc': True, 'leap_seconds': x}}]),
                ('utc=False, leap_seconds=x', recv + pre + [{'kw': {'utc': False, 'leap_seconds': x}}])]))
        if f['cls'] == 'Angle' and f['name'] in ANGLE_OPS:
            a = rng.choice([rng.uniform(-359.0, 359.0), float(rng.randint(-359, 359))])
            dx = rng.choice([0.0, 1e-11, 1e-9, 1e-6, 1.0, rng.uniform(0.5, 100.0)]) * rng.choice([1, -1])
            x = a + dx if abs(a + dx) < 360.0 and f['name'] in ANGLE_OPS[:6] else rng.choice([rng.uniform(0.5, 300.0), 2.0, 15.0])
            out.append(('operand', [('other = Angle(x)', [{'Angle': a}, {'Angle': x}]), ('other = x', [{'Angle': a}, x])]))
        if f['cls'] == 'Epoch' and f['name'] in EPOCH_OPS:
            j = rng.choice([2451545.0, 2459000.5, rng.uniform(2300000.0, 2500000.0)])
            dj = rng.choice([0.0, 1e-11, 5e-11, 1e-9, 1e-6, 1e-3, 1.0]) * rng.choice([1, -1])
            out.append(('operand', [('other = Epoch(j)', [{'Epoch': j}, {'Epoch': j + dj}]), ('other = j', [{'Epoch': j}, j + dj])]))
        if fq in ANGLE_BUILDERS or fq == 'Angle.set_ra':
            d, m = rng.choice([0, 0, rng.randint(0, 359), rng.randint(1, 89)]), rng.randint(0, 59)
            s = rng.choice([0.0, round(rng.uniform(0, 59.9), 3), 30.0])
            if fq == 'Angle.set_ra':
                d = d % 24
            recv = [{'Angle': 12.5}] if fq != 'Angle.__init__' else []
            pos = [('(d, m, s)', [d, m, s]), ('((d, m, s),)', [{'tuple': [d, m, s]}]), ('([d, m, s],)', [[d, m, s]])]
            if fq != 'Angle.set_ra':
                pos += [('(d, m, s, +1.0)', [d, m, s, 1.0]), ('((d, m, s, +1.0),)', [{'tuple': [d, m, s, 1.0]}]),
                        ('([d, m, s, 1],)', [[d, m, s, 1]])]
                neg = [('(-d, m, s) / (0, -m, s) / (0, 0, -s)',
                        [-d, m, s] if d else ([0, -m, s] if m else [0, 0, -s])),
                       ('(d, m, s, -1.0)', [d, m, s, -1.0]), ('((d, m, s, -1.0),)', [{'tuple': [d, m, s, -1.0]}]),
                       ('([d, m, s, -1],)', [[d, m, s, -1]]), ('(-d, -m, -s)', [-d, -m, -s])]
                if d or m or s:
                    out.append(('sexagesimal', [(n, recv + sp) for (n, sp) in neg]))
                x = rng.choice([rng.uniform(-359.0, 359.0), float(rng.randint(-359, 359)), 0.0])
                dec = [('(x)', [x]), ('((x,),)', [{'tuple': [x]}]), ('([x],)', [[x]]), ('(Angle(x))', [{'Angle': x}])]
                out.append(('sexagesimal', [(n, recv + sp) for (n, sp) in dec]))
                two = [('(d, m)', [d, m]), ('((d, m),)', [{'tuple': [d, m]}]), ('([d, m],)', [[d, m]]), ('(d, m, 0.0)', [d, m, 0.0])]
                out.append(('sexagesimal', [(n, recv + sp) for (n, sp) in two]))
            out.append(('sexagesimal', [(n, recv + sp) for (n, sp) in pos]))
        return out

    def shared(self, f, specs):
        """two equal Epoch (Angle) arguments: two objects vs the same object twice -> (specs2, variant) or None"""
        first = 1 if (self.sig[f['qual']][3] and f['name'] != '__init__') else 0
        for key in ('Epoch', 'Angle'):
            idx = [i for i, s in enumerate(specs) if i >= first and isinstance(s, dict) and key in s]
            if len(idx) >= 2:
                base = list(specs)
                base[idx[1]] = dict(base[idx[0]])
                var = list(base)
                var[idx[1]] = {'same': idx[0]}
                return base, var, 'arguments %d and %d: two equal %ss -> one object' % (idx[0] - first, idx[1] - first, key)
        return None

    def compare(self, ctx, f, kind, desc, base_specs, var_specs, base=None):
        if base is None:
            base = self.outcome(f, base_specs)
        var = self.outcome(f, var_specs)
        ok = (base == var) if base[0] == 'ok' else (var[0] != 'ok' and base[1] == var[1])
        inp = {'kind': 'forms', 'fn': f['qual'], 'args': base_specs, 'variant': var_specs, 'what': desc, 'form_kind': kind}
        ctx.predicate('argument_forms_agree', ok, inp,
                      None if ok else {'as_generated': str(base)[:300], 'variant': str(var)[:300]}, 'forms/' + kind)
        return ok


def check(ctx, functions, n, rng, shard=0, nshards=1, budget_s=3.0, boost=()):
    """For each public function named in `functions` (harness FUNCTIONS specs, or qualified names): n drawn calls,
    each compared with its documented variants.  `boost`: specs of functions that get 10 times as many."""
    t0 = time.time()
    fm = Forms(getattr(ctx, 'noise', None))
    c20 = fm.c20
    quals = []
    for s in functions:
        q = qual_of(s) if ':' in s else s
        if q in fm.byq and q not in quals and fm.byq[q]['name'] not in ('main', 'utc2local'):
            quals.append(q)
    boostq = set(qual_of(s) if ':' in s else s for s in boost)
    counts, kinds = {}, {}
    mine = [q for i, q in enumerate(quals) if i % nshards == shard]
    # round-robin so that a slow function does not starve the others when the budget runs out
    rounds = max(n, 1) * (10 if boostq else 1)
    for rnd in range(rounds):
        for q in mine:
            if time.time() - t0 > budget_s:
                break
            if rnd >= n * (10 if q in boostq else 1):
                continue
            f = fm.byq[q]
            si = fm.sig.get(q)
            if si is None or fm.callable_of(f) is None:
                continue
            try:
                specs, _tag = c20.gen_args(rng, f, si[:5])
            except Exception:      # noqa: no generator for this function
                continue
            base = fm.outcome(f, specs)
            for (kind, desc, vs) in fm.variants(f, specs, rng):
                fm.compare(ctx, f, kind, desc, specs, vs, base)
                counts[q] = counts.get(q, 0) + 1
                kinds[kind] = kinds.get(kind, 0) + 1
            sh = fm.shared(f, specs)
            if sh is not None:
                fm.compare(ctx, f, 'copy', sh[2], sh[0], sh[1])
                counts[q] = counts.get(q, 0) + 1
                kinds['copy'] = kinds.get('copy', 0) + 1
            for (kind, members) in fm.groups(f, rng):
                b = fm.outcome(f, members[0][1])
                for (name, sp) in members[1:]:
                    fm.compare(ctx, f, kind, '%s <-> %s' % (members[0][0], name), members[0][1], sp, b)
                    counts[q] = counts.get(q, 0) + 1
                    kinds[kind] = kinds.get(kind, 0) + 1
    if counts:
        ctx.notes.append('argument forms (shard %d): %d comparisons in %.1f s; per kind %s; per function %s' % (
            shard, sum(counts.values()), time.time() - t0, json.dumps(kinds, sort_keys=True),
            json.dumps(counts, sort_keys=True)))
    return counts


def replay(inp):
    """-> (still_fails, detail)"""
    fm = Forms(None)
    f = fm.byq.get(inp['fn'])
    if f is None:
        return True, {'error': 'function %r no longer exists' % inp['fn']}
    base = fm.outcome(f, inp['args'])
    var = fm.outcome(f, inp['variant'])
    ok = (base == var) if base[0] == 'ok' else (var[0] != 'ok' and base[1] == var[1])
    return (not ok), {'function': inp['fn'], 'what': inp.get('what'), 'as_generated': inp['args'], 'variant': inp['variant'],
                      'result_as_generated': str(base)[:500], 'result_variant': str(var)[:500]}
