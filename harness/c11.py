"""C11 — Kepler's equation is solved; two-body relations hold.

(S) structural tie: the binary64 instantiation of lean/templates/Kepler.lean (`kepler_equation`,
    `kepler_of_float`, `velocity*`, `length_orbit`, `passage_nodes_*`, `phase_angle`,
    `illuminated_fraction` and the few Angle helpers they use) against pymeeus, bit for bit,
    including the exception class on e = 1, e > 1, r = 0, a <= 0, infeasible distance triples.
(I) the clauses of the property evaluated on the implementation with the tolerances of the
    statement (functions `p_*` below; every predicate can be replayed from its recorded input).
"""
import math
from fractions import Fraction
from core import run_impl, enc

PROPERTY = 'C11'
FUNCTIONS = ['pymeeus/Coordinates.py:kepler_equation', 'pymeeus/Coordinates.py:velocity',
             'pymeeus/Coordinates.py:velocity_perihelion', 'pymeeus/Coordinates.py:velocity_aphelion',
             'pymeeus/Coordinates.py:length_orbit', 'pymeeus/Coordinates.py:passage_nodes_elliptic',
             'pymeeus/Coordinates.py:passage_nodes_parabolic', 'pymeeus/Coordinates.py:phase_angle',
             'pymeeus/Coordinates.py:illuminated_fraction', 'pymeeus/base.py:TOL', 'pymeeus/base.py:iint',
             'pymeeus/Angle.py:Angle.reduce_deg', 'pymeeus/Angle.py:Angle.rad', 'pymeeus/Angle.py:Angle.__add__',
             'pymeeus/Angle.py:Angle.__sub__', 'pymeeus/Angle.py:Angle.__rsub__', 'pymeeus/Angle.py:Angle.__neg__',
             'pymeeus/Angle.py:Angle.to_positive', 'pymeeus/Epoch.py:Epoch.__add__']

MANIFEST = dict(
    text=("Lean 4 theorems over the reals (Props/C11.lean) about a hand-written model of kepler_equation, velocity*, "
          "length_orbit, passage_nodes_*, phase_angle and illuminated_fraction: the bisection loop leaves after exactly "
          "34 passes for every input; for every 0 <= e < 1 and every mean anomaly (any sign, any number of turns) the "
          "returned E satisfies E - e sin E = M mod 360 within (1+e)*(pi/2)/2^34 rad < 5e-8 degree (existence and "
          "uniqueness of the root, bracket invariant), lies in the half revolution of M, and tan(v/2) = "
          "sqrt((1+e)/(1-e)) tan(E/2); vis-viva: velocity(a(1-e),a)/velocity_perihelion(e,a) = 42.1218/(sqrt2*29.7847) "
          "(within 1e-5 of 1), perihelion*aphelion speed = 29.7847^2/a; 2 pi b <= length_orbit <= 2 pi a for both "
          "formulas, and the relative jump between them at the switch e = 0.95 lies between 1.4e-4 and 1.5e-4; "
          "k = (1+cos i)/2 for triangle-feasible distances; node passages use the E with "
          "tan(v/2) = sqrt((1+e)/(1-e)) tan(E/2), v = -omega or 180-omega (mod 360), t - T = M/n, the orbit equation "
          "r(1+e cos v) = a(1-e^2) holds, and kepler_equation at n(t-T) returns that E to (pi/2)/2^34 rad. "
          "Also: ValueError for every e >= 1 (kepler_equation) and every r <= 0 or a <= 0 (velocity); the exact value of "
          "length_orbit at e = 0.6 (pins the three coefficients); 0.9856076686 = Gaussian constant in degrees to 1e-10; the values "
          "(incl. negative ones) of the node anomaly for omega in [0, 360). "
          "The model is tied to /repo by running its binary64 instantiation against the real code bit for bit; "
          "every clause is also evaluated on the real code with the tolerances of the statement. Numerical only (no theorem): 'continuous across the switch' is read as a jump below 2e-4 "
          "(the proved jump is 1.44e-4, the accuracy of the two approximations); the conditioning of the node-passage "
          "round trip in binary64 (tolerance scaled by dv/dM)."),
    note=("Trusted: Lean kernel, Mathlib, axioms propext/Classical.choice/Quot.sound; the hand-written model "
          "(lean/templates/Kepler.lean) and its bit-exact correspondence run; the idealisation binary64 -> real "
          "numbers (theorems are about real arithmetic; rounding is only measured, by the predicates). "
          "phase_angle: the clamp of a27247f is part of the model; flat feasible triples are evaluated by the predicates."),
    technique="Lean 4 proof over the reals (bisection invariant, IVT, monotonicity) + model/implementation correspondence check",
    ref='6 C11')

TRUSTED = ['harness/c11.py predicates: float evaluation of the defining residuals (math.* of CPython)']
ASSUMPTIONS = ['theorems are about the real-number reading of the code; binary64 rounding is measured by the predicates, not proved',
               'Angle / Epoch arguments are modelled by their _deg / _jde values']
RULE = 'distinct (model function, argument tuple) pairs sent to the binary64 model and to the implementation'

K_GAUSS = 0.01720209895
E_SPECIAL = [0.0, 1e-12, 1e-6, 0.01, 0.1, 0.5, 0.9, 0.94, 0.9499999999999999, 0.95, 0.9500000000000001,
             0.96, 0.97, 0.9799999999, 0.98, 0.9800000001, 0.99, 0.999, 0.9999, 0.99999, 0.999999]


def ulp(x):
    return math.ulp(x)


def wrap180(x):
    """x reduced to [-180, 180) (float, x moderate)."""
    return x - 360.0 * math.floor((x + 180.0) / 360.0)


def mod360_exact(m):
    """M mod 360 in [0, 360), exactly (Fraction) then rounded."""
    return float(Fraction(m) % 360)


# ------------------------------------------------------------------ predicates (on the implementation)
def _kepler(e, m):
    from pymeeus.Coordinates import kepler_equation
    from pymeeus.Angle import Angle
    ea, va = kepler_equation(e, Angle(m))
    return ea._deg, va._deg


def p_kepler_residual(inp):
    """E - e sin E = M (mod 360 degrees) to 5e-8 degree."""
    e, m = inp
    try:
        E, v = _kepler(e, m)
    except Exception as ex:  # noqa
        return False, repr(ex)
    res = wrap180(E - math.degrees(e * math.sin(math.radians(E))) - mod360_exact(m))
    return abs(res) <= 5e-8, {'E': E, 'residual_deg': res}


def p_kepler_half(inp):
    """E lies in the same half revolution as M (either side within 1e-7 degree of 0 / 180)."""
    e, m = inp
    try:
        E, v = _kepler(e, m)
    except Exception as ex:  # noqa
        return False, repr(ex)
    mr = mod360_exact(m)
    d = 1e-7
    if d < mr < 180.0 - d:
        ok = 0.0 <= E <= 180.0
    elif 180.0 + d < mr < 360.0 - d:
        ok = -180.0 <= E <= 0.0
    else:
        ok = -180.0 <= E <= 180.0
    return ok, {'E': E, 'M_mod_360': mr}


def p_true_anomaly(inp):
    """tan(v/2) = sqrt((1+e)/(1-e)) tan(E/2), compared as angles (1e-9 degree)."""
    e, m = inp
    try:
        E, v = _kepler(e, m)
    except Exception as ex:  # noqa
        return False, repr(ex)
    h = math.radians(E) / 2.0
    vexp = math.degrees(2.0 * math.atan2(math.sqrt(1.0 + e) * math.sin(h), math.sqrt(1.0 - e) * math.cos(h)))
    dev = abs(wrap180(v - vexp))
    return dev <= 1e-9, {'E': E, 'v': v, 'expected_v': vexp, 'dev': dev}


def p_vis_viva(inp):
    """speed at r = a(1-e) / a(1+e) equals the perihelion / aphelion speed; product = circular speed squared (1e-5)."""
    from pymeeus.Coordinates import velocity, velocity_perihelion, velocity_aphelion
    e, a = inp
    try:
        vp = velocity_perihelion(e, a)
        va = velocity_aphelion(e, a)
        v1 = velocity(a * (1.0 - e), a)
        v2 = velocity(a * (1.0 + e), a)
        vc = velocity(a, a)
    except Exception as ex:  # noqa
        return False, repr(ex)
    d = {'peri': v1 / vp - 1.0, 'aph': v2 / va - 1.0, 'prod': vp * va / (vc * vc) - 1.0}
    return all(abs(x) <= 1e-5 for x in d.values()), d


def p_length_bounds(inp):
    """2 pi b <= length_orbit(e, a) <= 2 pi a."""
    from pymeeus.Coordinates import length_orbit
    e, a = inp
    try:
        L = length_orbit(e, a)
    except Exception as ex:  # noqa
        return False, repr(ex)
    b = a * math.sqrt((1.0 - e) * (1.0 + e))
    lo, hi = 2.0 * math.pi * b, 2.0 * math.pi * a
    return lo * (1 - 1e-12) <= L <= hi * (1 + 1e-12), {'L': L, 'lo': lo, 'hi': hi}


def p_length_switch(inp):
    """length_orbit is continuous across the formula switch at e = 0.95 (formulas accurate to ~1e-4: 2e-4 relative)."""
    from pymeeus.Coordinates import length_orbit
    a, es = inp
    try:
        L0 = length_orbit(math.nextafter(es, 0.0), a)
        L1 = length_orbit(es, a)
    except Exception as ex:  # noqa
        return False, repr(ex)
    jump = abs(L1 - L0) / L1
    return jump <= 2e-4, {'below': L0, 'at': L1, 'relative_jump': jump}


def degeneracy(sd, ed, sed):
    """relative distance of the triple from a flat triangle (exact rational arithmetic)."""
    a, b, c = Fraction(sd), Fraction(ed), Fraction(sed)
    return float(min(abs(c - (a + b)), abs(c - abs(a - b))) / max(a, b, c))


def feasible(sd, ed, sed):
    a, b, c = Fraction(sd), Fraction(ed), Fraction(sed)
    return a > 0 and b > 0 and abs(a - b) <= c <= a + b


def p_phase_illum(inp):
    """k = (1 + cos i)/2 for a triangle-feasible triple (1e-10)."""
    from pymeeus.Coordinates import phase_angle, illuminated_fraction
    sd, ed, sed = inp[0], inp[1], inp[2]
    try:
        i = phase_angle(sd, ed, sed)._deg
        k = illuminated_fraction(sd, ed, sed)
    except Exception as ex:  # noqa
        return False, repr(ex)
    dev = abs(k - (1.0 + math.cos(math.radians(i))) / 2.0)
    return dev <= 1e-10 and 0.0 <= i <= 180.0, {'i': i, 'k': k, 'dev': dev}


def p_node_elliptic(inp):
    """node passage + kepler_equation at that time gives true anomaly -omega / 180-omega."""
    from pymeeus.Coordinates import passage_nodes_elliptic, kepler_equation
    from pymeeus.Angle import Angle
    from pymeeus.Epoch import Epoch
    omega, e, a, t, asc = inp
    try:
        tt, r = passage_nodes_elliptic(Angle(omega), e, a, Epoch(t), asc)
        n = math.degrees(K_GAUSS) / (a * math.sqrt(a))        # mean motion, degrees/day
        M = n * (tt.jde() - t)
        E, v = kepler_equation(e, Angle(M))
        E, v = E._deg, v._deg
    except Exception as ex:  # noqa
        return False, repr(ex)
    target = wrap180((0.0 if asc else 180.0) - omega)
    dev = abs(wrap180(v - target))
    # conditioning dv/dM = sqrt(1-e^2)/(1-e cos E)^2 ; error of M: ulp of the JDE, of the constant, of kepler (5e-8)
    c = math.sqrt((1.0 - e) * (1.0 + e)) / (1.0 - e * math.cos(math.radians(E))) ** 2
    dM = n * 4.0 * ulp(max(abs(t), abs(tt.jde()))) + 1e-11 * abs(M) + 5e-8
    tol = 1e-7 + 2.0 * max(c, 1.0) * dM
    # radius vector: r (1 + e cos v) = a (1 - e^2)
    rdev = abs(r * (1.0 + e * math.cos(math.radians(target))) - a * (1.0 - e) * (1.0 + e)) / a
    return dev <= tol and rdev <= 1e-9, {'v': v, 'target': target, 'dev': dev, 'tol': tol, 'rdev': rdev}


def p_node_parabolic(inp):
    """parabolic node passage satisfies Barker's equation s^3 + 3 s = 3k/sqrt2 (t-T)/q^1.5 with s = tan(v/2)."""
    from pymeeus.Coordinates import passage_nodes_parabolic
    from pymeeus.Angle import Angle
    from pymeeus.Epoch import Epoch
    omega, q, t, asc = inp
    try:
        tt, r = passage_nodes_parabolic(Angle(omega), q, Epoch(t), asc)
    except Exception as ex:  # noqa
        return False, repr(ex)
    target = wrap180((0.0 if asc else 180.0) - omega)
    s = math.tan(math.radians(target) / 2.0)
    w = 3.0 * K_GAUSS / math.sqrt(2.0) * (tt.jde() - t) / (q * math.sqrt(q))
    rhs = s * s * s + 3.0 * s
    tol = 1e-7 * max(1.0, abs(rhs)) + 3.0 * K_GAUSS / (q * math.sqrt(q)) * 4.0 * ulp(max(abs(t), abs(tt.jde())))
    # r (1 + cos v) = 2 q
    rdev = abs(r * (1.0 + math.cos(math.radians(target))) - 2.0 * q) / q
    ok = abs(w - rhs) <= tol and (rdev <= 1e-9 * max(1.0, r / q))
    return ok, {'W': w, 's3+3s': rhs, 'tol': tol, 'rdev': rdev}


PRED = {'kepler_residual': p_kepler_residual, 'kepler_half_revolution': p_kepler_half,
        'true_anomaly_relation': p_true_anomaly, 'vis_viva': p_vis_viva, 'length_bounds': p_length_bounds,
        'length_switch_continuity': p_length_switch, 'phase_illuminated': p_phase_illum,
        'node_elliptic': p_node_elliptic, 'node_parabolic': p_node_parabolic}


def pred(ctx, name, inp, klass=None):
    ok, detail = PRED[name](inp)
    ctx.predicate(name, ok, inp, detail, klass or name)
    if isinstance(detail, dict):
        for k in ('residual_deg', 'dev', 'relative_jump'):
            if k in detail:
                ctx.deviation(name + '.' + k, abs(detail[k]))
    return ok


# ------------------------------------------------------------------ generators
def size(ctx, quick, thorough):
    """Number of samples: the tier's size; when the source of a modelled function changed (ctx.scale > 1) at least
    the thorough size (the most exhaustive enumeration this module has; it fits in about two minutes)."""
    n = ctx.n(quick, thorough)
    return max(n, thorough) if ctx.scale > 1 else n


def gen_e(rng, hot):
    r = rng.random()
    if r < 0.25:
        return rng.choice(E_SPECIAL)
    if r < 0.33 and hot:
        h = rng.choice(hot)
        return min(max(h + rng.choice([0.0, 1e-12, -1e-12, 1e-3, -1e-3]), 0.0), 0.999999)
    if r < 0.45:
        return min(rng.random() ** 3 * 0.05, 0.999999)                  # near 0
    if r < 0.6:
        return rng.choice([0.95, 0.98]) + (rng.random() - 0.5) * 10 ** rng.uniform(-15, -2)
    if r < 0.75:
        return min(1.0 - 10 ** rng.uniform(-6, -1), 0.999999)            # towards 1
    return rng.uniform(0.0, 0.999999)


def gen_m(rng):
    r = rng.random()
    if r < 0.3:
        k = rng.randint(-55, 55)
        return 180.0 * k + rng.choice([0.0, 1e-9, -1e-9, 5e-10, -5e-10, 1e-12, -1e-12, 1e-6, -1e-6])
    if r < 0.4:
        return rng.choice([1, -1]) * 10 ** rng.uniform(-12, 0)
    if r < 0.5:
        return rng.choice([-1e4, 1e4, 9999.999999999, -9999.999999999, 359.99999999999994, 360.0, -360.0, 720.0,
                           179.99999999999997, 180.00000000000003, 5.0, 2.0, 1.0, 7.0])
    return rng.uniform(-1e4, 1e4)


def gen_a(rng):
    r = rng.random()
    if r < 0.2:
        return rng.choice([0.3, 100.0, 1.0, 0.387098, 5.2026, 17.9400782, 39.48])
    return 10 ** rng.uniform(math.log10(0.3), 2.0)


def gen_triple(rng):
    """triangle-feasible (exactly) distance triple, boundary-heavy."""
    sd = 10 ** rng.uniform(-1, 1.7)
    ed = 10 ** rng.uniform(-1, 1.7)
    r = rng.random()
    if r < 0.15:
        sed = sd + ed
        if Fraction(sed) > Fraction(sd) + Fraction(ed):
            sed = math.nextafter(sed, 0.0)
    elif r < 0.3:
        sed = abs(sd - ed)
        if Fraction(sed) < abs(Fraction(sd) - Fraction(ed)):
            sed = math.nextafter(sed, math.inf)
    elif r < 0.45:
        lo, hi = abs(sd - ed), sd + ed
        sed = rng.choice([lo, hi]) + rng.choice([1, -1]) * (hi - lo) * 10 ** rng.uniform(-14, -3)
    else:
        sed = rng.uniform(abs(sd - ed), sd + ed)
    return sd, ed, sed


def tie_kepler(ctx, e, m, klass):
    from pymeeus.Coordinates import kepler_equation
    from pymeeus.Angle import Angle

    def call():
        ea, va = kepler_equation(e, Angle(m))
        return (ea._deg, va._deg)
    ctx.case('kepler_of_float', [e, m], run_impl(call), q=None, klass='kepler/' + klass)


def generate(ctx, shard=0, nshards=1):
    from pymeeus.Coordinates import (kepler_equation, velocity, velocity_perihelion, velocity_aphelion,
                                     length_orbit, passage_nodes_elliptic, passage_nodes_parabolic,
                                     phase_angle, illuminated_fraction)
    from pymeeus.Angle import Angle
    from pymeeus.Epoch import Epoch
    rng = ctx.rng
    hot = [v for v in ctx.hot['floats'] if 0.0 <= v < 1.0]

    def tie(fn, args, call, klass):
        ctx.case(fn, args, run_impl(call), q=None, klass=klass)

    class RawEpoch(Epoch):
        """Epoch whose `+ float` returns the bare sum `self._jde + float(b)` (Epoch.__add__ wraps the same sum in
        Epoch(...), which re-derives the JDE through a calendar date: that round trip belongs to C02, not here)."""
        def __init__(self, jde):
            self._jde = jde

        def __add__(self, b):
            return self._jde + float(b)

    def nodes_e(omega, e, a, t, asc, klass):
        def call():
            tt, r = passage_nodes_elliptic(Angle(omega), e, a, RawEpoch(t), asc)
            return (tt, r)
        tie('passage_nodes_elliptic', [Angle(omega)._deg, e, a, t, asc], call, klass)

    def nodes_p(omega, q, t, asc, klass):
        def call():
            tt, r = passage_nodes_parabolic(Angle(omega), q, RawEpoch(t), asc)
            return (tt, r)
        tie('passage_nodes_parabolic', [Angle(omega)._deg, q, t, asc], call, klass)

    if shard == 0:
        # ---- fixed corpus: docstring examples, switch, error classes
        for (e, m) in ((0.1, 5.0), (0.99, 2.0), (0.99, 5.0), (0.99, 1.0), (0.999, 7.0), (0.0, 0.0), (0.0, 180.0),
                       (0.5, 180.0), (0.5, -180.0), (0.5, 360.0), (0.999999, 1e-9), (0.999999, -1e-9),
                       (0.999999, 180.0), (0.3, 1e4), (0.3, -1e4)):
            tie_kepler(ctx, e, m, 'corpus')
            for p in ('kepler_residual', 'kepler_half_revolution', 'true_anomaly_relation'):
                pred(ctx, p, [e, m], p + '/corpus')
        for e in (1.0, 1.0000001, 1.5, -0.2, -1.0, 2.0):       # outside the property's domain: tie only
            tie_kepler(ctx, e, 33.0, 'outside_domain')
            tie('velocity_perihelion', [e, 1.0], lambda: velocity_perihelion(e, 1.0), 'velocity/outside_domain')
            tie('velocity_aphelion', [e, 1.0], lambda: velocity_aphelion(e, 1.0), 'velocity/outside_domain')
            tie('length_orbit', [e, 1.0], lambda: length_orbit(e, 1.0), 'length/outside_domain')
            nodes_e(30.0, e, 1.0, 2451545.0, True, 'nodes/outside_domain')
        for (r, a) in ((0.0, 1.0), (1.0, 0.0), (1.0, -1.0), (-1.0, 1.0), (3.0, 1.0), (2.0, 1.0), (1.0, 1.0)):
            tie('velocity', [r, a], lambda: velocity(r, a), 'velocity/outside_domain')
            tie('velocity_perihelion', [0.5, a], lambda: velocity_perihelion(0.5, a), 'velocity/outside_domain')
            tie('length_orbit', [0.5, a], lambda: length_orbit(0.5, a), 'length/outside_domain')
            tie('length_orbit', [0.97, a], lambda: length_orbit(0.97, a), 'length/outside_domain')
            nodes_e(30.0, 0.5, a, 2451545.0, False, 'nodes/outside_domain')
            nodes_p(30.0, a, 2451545.0, False, 'nodes/outside_domain')
        for t3 in ((1.0, 1.0, 3.0), (1.0, 3.0, 1.0), (0.0, 1.0, 1.0), (1.0, 0.0, 1.0), (1.0, 2.0, 3.0), (3.0, 4.0, 5.0)):
            tie('phase_angle', list(t3), lambda: phase_angle(*t3)._deg, 'phase/outside_domain')
            tie('illuminated_fraction', list(t3), lambda: illuminated_fraction(*t3), 'phase/outside_domain')
        for a in (0.3, 1.0, 17.9400782, 100.0):
            pred(ctx, 'length_switch_continuity', [a, 0.95])
            for e in (0.9499999999999998, 0.9499999999999999, 0.95, 0.9500000000000001, 0.96727426):
                tie('length_orbit', [e, a], lambda: length_orbit(e, a), 'length/switch')
                pred(ctx, 'length_bounds', [e, a], 'length_bounds/switch')
        for x in (0.0, -0.0, 359.99999999999994, 360.0, -360.0, 360.00000000000006, 720.5, -1e4, 1e4, 123456.789,
                  -1e-20, 1e-300, -359.99999999999994):
            tie('k_reduce_deg', [x], lambda: Angle.reduce_deg(x), 'angle_helpers')
            tie('k_to_positive', [Angle(x)._deg], lambda: Angle(x).to_positive()._deg, 'angle_helpers')
            tie('k_angle_of_rad', [x], lambda: Angle(x, radians=True)._deg, 'angle_helpers')
            tie('k_angle_rsub', [Angle(x)._deg, 360.0], lambda: (360.0 - Angle(x))._deg, 'angle_helpers')
            tie('k_angle_rsub', [Angle(x)._deg, 180.0], lambda: (180.0 - Angle(x))._deg, 'angle_helpers')
        ctx.sample({'call': 'kepler_equation(0.99, Angle(2.0))', 'expected': 'E=32.361007, v=152.542134 (docstring)'})
        ctx.sample({'call': 'phase_angle(38.21235348693304, 12.827944384397142, 51.04029787133018)',
                    'expected': '180.0 (flat triangle; raised ValueError before a27247f)'})

    # ---- Kepler's equation
    for _ in range(size(ctx, 24000, 800000) // nshards + 1):
        e = gen_e(rng, hot)
        m = gen_m(rng)
        klass = ('e~1' if e > 0.99 else 'e~0' if e < 0.05 else 'e_mid') + ('/M~k180' if abs(wrap180(m * 2) / 2) < 1e-5 else '')
        tie_kepler(ctx, e, m, klass)
        for p in ('kepler_residual', 'kepler_half_revolution', 'true_anomaly_relation'):
            pred(ctx, p, [e, m], p + '/' + klass)
        if rng.random() < 0.3:
            md = Angle(m)._deg
            tie('kepler_equation', [e, md],
                lambda: tuple(x._deg for x in kepler_equation(e, Angle(md))), 'kepler_equation/deg')
    # ---- speeds, orbit length
    for _ in range(size(ctx, 12000, 300000) // nshards + 1):
        e = gen_e(rng, hot)
        a = gen_a(rng)
        tie('velocity_perihelion', [e, a], lambda: velocity_perihelion(e, a), 'velocity')
        tie('velocity_aphelion', [e, a], lambda: velocity_aphelion(e, a), 'velocity')
        r = rng.choice([a * (1.0 - e), a * (1.0 + e), a, rng.uniform(a * (1.0 - e), a * (1.0 + e))])
        tie('velocity', [r, a], lambda: velocity(r, a), 'velocity')
        pred(ctx, 'vis_viva', [e, a])
        tie('length_orbit', [e, a], lambda: length_orbit(e, a), 'length/' + ('high' if e >= 0.95 else 'low'))
        pred(ctx, 'length_bounds', [e, a], 'length_bounds/' + ('high' if e >= 0.95 else 'low'))
        if rng.random() < 0.1:
            pred(ctx, 'length_switch_continuity', [a, 0.95])
    for h in hot:   # a changed switch value: look at the continuity there as well
        for a in (0.3, 1.0, 100.0):
            pred(ctx, 'length_switch_continuity', [a, h], 'length_switch_continuity/hot')
    # ---- phase angle / illuminated fraction
    for _ in range(size(ctx, 12000, 300000) // nshards + 1):
        sd, ed, sed = gen_triple(rng)
        tie('phase_angle', [sd, ed, sed], lambda: phase_angle(sd, ed, sed)._deg, 'phase')
        tie('illuminated_fraction', [sd, ed, sed], lambda: illuminated_fraction(sd, ed, sed), 'phase')
        if feasible(sd, ed, sed):
            dg = degeneracy(sd, ed, sed)
            pred(ctx, 'phase_illuminated', [sd, ed, sed, dg], 'phase_illuminated/' + ('flat' if dg < 1e-12 else 'proper'))
    # ---- node passages
    for _ in range(size(ctx, 10000, 250000) // nshards + 1):
        r = rng.random()
        omega = rng.choice([0.0, 90.0, 180.0, 270.0, 360.0, 1e-9, 179.999999999, 180.000000001, 359.999999999]) \
            if r < 0.25 else rng.uniform(0.0, 360.0)
        e = gen_e(rng, hot)
        a = gen_a(rng)
        t = rng.choice([2451545.0, 0.0, 2451545.0 + rng.uniform(-4e5, 4e5)])
        asc = rng.random() < 0.5
        nodes_e(omega, e, a, t, asc, 'nodes_elliptic')
        # the round trip through kepler_equation needs v away from +-180 only by conditioning, which the tolerance carries
        pred(ctx, 'node_elliptic', [omega, e, a, t, asc])
        q = 10 ** rng.uniform(-2, 1.5)
        nodes_p(omega, q, t, asc, 'nodes_parabolic')
        v = wrap180((0.0 if asc else 180.0) - omega)
        if abs(v) <= 170.0:      # tan(v/2) -> infinity at v = 180: the passage time leaves the range of Epoch
            pred(ctx, 'node_parabolic', [omega, q, t, asc])


def replay(case):
    name = case.get('predicate')
    inp = case.get('input')
    if name not in PRED:
        return (False, 'unknown predicate %r' % (name,))
    ok, detail = PRED[name](inp)
    return (not ok, {'predicate': name, 'input': inp, 'detail': detail})
