"""History noise: between the cases of a property's own harness, call other public functions of the
library with well-typed random arguments (the typed generators of harness/c20.py).

Every per-call model in this framework assumes that library calls are pure (C20).  On a tree where
that holds the noise changes nothing; on a tree with hidden module- or class-level state (a cache,
a shared mutable table) it puts that state into the configurations a property's own inputs never
produce, so that the property's predicates and the bit-exact tie see the effect.  Exceptions of the
noise calls are ignored; their results are discarded.
"""
import time


class Noise(object):
    def __init__(self, rng, budget_s=4.0, max_calls=1500):
        import c20
        self.c20 = c20
        c20.WIDE = True        # (this process is not running the C20 check itself: see run.py)
        self.rng = rng
        self.L = c20.lib()
        self.sk = c20.skeleton()
        self.sig = c20.signature_info(self.L)
        self.fns = [f for f in self.sk['functions'] if f['kind'] != 'helper' and f['qual'] in self.sig
                    and f['name'] not in ('main', 'utc2local')]
        self.calls = 0
        self.spent = 0.0
        self.budget_s = budget_s
        self.max_calls = max_calls
        self.names = {}

    def call(self, n=1):
        if self.calls >= self.max_calls or self.spent >= self.budget_s or not self.fns:
            return
        t0 = time.time()
        for _ in range(n):
            f = self.rng.choice(self.fns)
            try:
                specs, _tag = self.c20.gen_args(self.rng, f, self.sig[f['qual']][:5])
                r = self.c20.resolve(f, self.L)
                if r is None:
                    continue
                self.c20.invoke(r[0], self.c20.decode(specs, self.L))
            except BaseException as e:   # noqa: noise must never disturb the check itself
                if isinstance(e, (KeyboardInterrupt, SystemExit)):
                    raise
            self.calls += 1
            self.names[f['qual']] = self.names.get(f['qual'], 0) + 1
        self.spent += time.time() - t0
