"""Which of the CHANGED statements of the implementation did this run execute?

When the source of a function in a property's call closure differs from the golden fingerprint, the
correspondence run and the predicates say something about the change only if they reach it.  A changed
statement that no call of the check executed (a new branch for an argument form or a region the generators
never produce) is an unverified change: the runner treats it as a broken obligation of its own
(`not_exercised`), runs the failing-input search with this recorder still on, and if the statement is still
not reached reports `no-failing-input-found` naming file and line.  Nothing here runs on the unchanged tree.

Uses sys.monitoring (CPython 3.12): LINE events only for code objects of the files that contain a wanted
line, every location disabled after its first hit, so the cost is negligible.
"""
import os
import sys

_TOOL = 4
_state = {'on': False, 'wanted': {}, 'hit': set()}


def start(repo, targets):
    """targets: [{'file': 'pymeeus/X.py', 'first': a, 'last': b, ...}]"""
    if _state['on'] or not targets or not hasattr(sys, 'monitoring'):
        return False
    wanted = {}
    for t in targets:
        f = os.path.realpath(os.path.join(repo, t['file']))
        s = wanted.setdefault(f, set())
        s.update(range(int(t['first']), int(t['last']) + 1))
    mon = sys.monitoring
    try:
        mon.use_tool_id(_TOOL, 'verif-changecov')
    except ValueError:
        return False
    hit = _state['hit']
    real = {}

    def fname(code):
        f = code.co_filename
        r = real.get(f)
        if r is None:
            r = real[f] = os.path.realpath(f)
        return r

    def on_line(code, line):
        f = fname(code)
        s = wanted.get(f)
        if s is not None and line in s:
            hit.add((f, line))
        return mon.DISABLE

    def on_start(code, offset):
        if fname(code) in wanted:
            mon.set_local_events(_TOOL, code, mon.events.LINE)
        return mon.DISABLE

    mon.register_callback(_TOOL, mon.events.LINE, on_line)
    mon.register_callback(_TOOL, mon.events.PY_START, on_start)
    mon.set_events(_TOOL, mon.events.PY_START)
    _state['on'] = True
    _state['wanted'] = wanted
    return True


def hits(repo):
    """[(relative file, line)] of wanted lines executed so far"""
    root = os.path.realpath(repo)
    out = []
    for (f, line) in sorted(_state['hit']):
        out.append((os.path.relpath(f, root), line))
    return out


def unexecuted(targets, hit_pairs):
    """the targets none of whose lines is in hit_pairs"""
    hs = set((f, int(l)) for (f, l) in hit_pairs)
    return [t for t in targets if not any((t['file'], l) in hs for l in range(int(t['first']), int(t['last']) + 1))]
