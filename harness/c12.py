"""C12 — interpolation reproduces polynomials; roots and extrema lie where asked.

(S) structural tie: the Lean model of pymeeus/Interpolation.py (lean/templates/Interpolation.lean)
    in its binary64 instantiation against CPython, bit for bit: construction (ordered abscissae,
    ordinates, divided-difference table) for every input form and arity, `__call__`, `derivative`,
    `root`, `minmax`, `planetary_conjunction`, `planet_star_conjunction`; the exact (Rat)
    instantiation on tables with small integer/dyadic entries (construction, value, derivative:
    relative 1e-9; `root`/`minmax` are tied in binary64 only: the exact iterates double in size at
    every Newton step and the exit test `abs(y) > tol` may fall on the other side).
(I) predicates on the implementation, with an independent oracle: the Lagrange interpolant of the
    same table evaluated in exact rational arithmetic (Python Fractions), and the exact polynomial
    the data were sampled from.
"""
import math
import itertools
from fractions import Fraction
from core import run_impl, enc, enc_exc

PROPERTY = 'C12'
FUNCTIONS = ['pymeeus/Interpolation.py:Interpolation.__init__', 'pymeeus/Interpolation.py:Interpolation.set',
             'pymeeus/Interpolation.py:Interpolation._order_points',
             'pymeeus/Interpolation.py:Interpolation._compute_table',
             'pymeeus/Interpolation.py:Interpolation._newton_diff',
             'pymeeus/Interpolation.py:Interpolation.__call__',
             'pymeeus/Interpolation.py:Interpolation.derivative',
             'pymeeus/Interpolation.py:Interpolation.root',
             'pymeeus/Interpolation.py:Interpolation.minmax',
             'pymeeus/Interpolation.py:Interpolation.set_tolerance',
             'pymeeus/Coordinates.py:planetary_conjunction',
             'pymeeus/Coordinates.py:planet_star_conjunction',
             'pymeeus/Coordinates.py:planet_stars_in_line',
             'pymeeus/Coordinates.py:minimum_angular_separation',
             'pymeeus/base.py:TOL']

MANIFEST = dict(
    text=("Lean 4 theorems (Props/C12.lean) about the exact-arithmetic model of Interpolation, for tables of any "
          "length: _order_points returns the points sorted by abscissa and is a permutation of the input, so the "
          "constructed object does not depend on the order or form of the input; the Newton divided-difference "
          "table evaluated by Horner's rule IS the Lagrange interpolating polynomial (hence passes through every "
          "point and reproduces every polynomial of degree < n exactly); derivative() is the derivative of that "
          "polynomial; abscissae outside the table, duplicated abscissae and wrong arities are refused with "
          "ValueError; partial correctness of root(): a returned abscissa lies inside the requested interval "
          "clamped to the table and the interpolant there is within the tolerance; minmax() is root() of the "
          "derivative polynomial; planetary_conjunction returns a time inside the table at which the interpolated "
          "right-ascension difference is within the tolerance of zero; root() returns a limit at which the interpolant "
          "is within the tolerance, refuses limits closer than the tolerance and intervals whose ends have the same sign "
          "with ValueError and never raises anything but ValueError when the interval meets the table; the time returned by "
          "planetary_conjunction lies in [-h, n-1-h]; the one-list form and lists of unequal length reduce to the two-list "
          "form. The model is tied to /repo by running its binary64 instantiation against the real code bit "
          "for bit (construction, value, derivative, root, minmax, conjunction helpers) and the predicates of every "
          "clause are evaluated on the implementation against an exact rational Lagrange oracle. Not carried by a "
          "theorem: convergence of the Newton/false-position/bisection iteration to the tolerance (proved: the loop ends "
          "within max_iter + 1 passes, and a fallback pass with an even count halves the bracket), the "
          "relative 1e-9 of the binary64 evaluation (checked on tables whose node spacing ratio is <= 20, see "
          "ASSUMPTIONS), planet_stars_in_line and minimum_angular_separation (trigonometric set-up; predicates only)."),
    note=("Trusted: Lean kernel, Mathlib, axioms propext/Classical.choice/Quot.sound; the hand-written model "
          "(lean/templates/Interpolation.lean) and its correspondence run; Angle arithmetic read as float arithmetic "
          "on degrees below 360; the idealisation binary64 -> Rat is modelled, not verified."),
    technique="Lean 4 proof (Mathlib Lagrange/Polynomial) + model/implementation correspondence check + exact-rational oracle",
    ref='6 C12')

TRUSTED = ['Interpolation objects are passed to the model as the two-list form; int arguments are sent as the equal '
           'float (|values| < 2^53)',
           'Angle ordinates (conjunction helpers) are sent as their degree value: Angle +,-,*,/ are the float '
           'operations on degrees while every intermediate stays below 360 degrees (the conjunction helpers are tied for '
           '3-6 entries and differences of a few degrees; with 7 entries the sums of products in derivative() wrap at 360 and only '
           'the predicates are evaluated)',
           'oracle: Lagrange interpolant of the float table in exact Fractions (harness/c12.py:Lag)']
ASSUMPTIONS = ['relative 1e-9 of value and derivative is measured against max(|exact value|, max|y_i|) resp. '
               'max(|exact derivative|, max nodal |derivative|) on tables with 2-9 points whose largest/smallest node '
               'gap ratio is <= 20 and |abscissae| <= 1e3; worse-conditioned tables take part in the bit-exact tie only',
               '"the interpolant changes sign on [xl, xh]" is read as: exact interpolant has opposite signs (beyond 1e-7 '
               'of the data scale) at the two limits after clamping them to the table; root()/minmax() are then required '
               'to return when the data scale is <= 1e4 and (largest slope in the bracket) x (spacing of doubles at the '
               'bracket) <= 1e-11 (the tolerance 1e-10 is absolute; binary64 cannot resolve it on larger values or steeper '
               'functions at large abscissae)']
RULE = 'distinct (model function, argument tuple) pairs sent to the binary64/exact model and to the implementation'

TOL = 1e-10
REL = 1e-9

_objs = {}


def _mods():
    from pymeeus.Interpolation import Interpolation
    return Interpolation


def obj(xs, ys):
    """Interpolation(xs, ys), cached."""
    key = (tuple(xs), tuple(ys))
    o = _objs.get(key)
    if o is None:
        if len(_objs) > 64:
            _objs.clear()
        o = _mods()(list(xs), list(ys))
        _objs[key] = o
    return o


class Lag:
    """Exact interpolating polynomial of a float table (Newton form in Fractions)."""
    _cache = {}

    def __init__(self, xs, ys):
        pts = sorted(zip(xs, ys))
        self.x = [Fraction(p[0]) for p in pts]
        self.y = [Fraction(p[1]) for p in pts]
        n = len(pts)
        c = list(self.y)
        for k in range(1, n):
            for i in range(n - 1, k - 1, -1):
                c[i] = (c[i] - c[i - 1]) / (self.x[i] - self.x[i - k])
        self.c = c
        self.scale = max([abs(v) for v in self.y] + [Fraction(0)])
        self.dscale = None

    @staticmethod
    def of(xs, ys):
        key = (tuple(xs), tuple(ys))
        o = Lag._cache.get(key)
        if o is None:
            if len(Lag._cache) > 64:
                Lag._cache.clear()
            o = Lag(xs, ys)
            Lag._cache[key] = o
        return o

    def val_der(self, x):
        x = Fraction(x)
        n = len(self.c)
        v = self.c[n - 1]
        d = Fraction(0)
        for i in range(n - 2, -1, -1):
            d = v + (x - self.x[i]) * d
            v = self.c[i] + (x - self.x[i]) * v
        return v, d

    def val(self, x):
        return self.val_der(x)[0]

    def der(self, x):
        return self.val_der(x)[1]

    def dsc(self):
        if self.dscale is None:
            self.dscale = max([abs(self.der(v)) for v in self.x] + [Fraction(0)])
        return self.dscale


def fnum(tok):
    """canonical output token -> float or None (exception)"""
    if isinstance(tok, str) and tok.startswith('f') and tok[1:].isdigit():
        import core
        return core.from_bits(int(tok[1:]))
    return None


def enc_obj(i):
    if len(i._x) == 0:
        return 'empty'
    return ' '.join(enc(float(v)) for v in list(i._x) + list(i._y) + list(i._table))


def impl_set(args):
    """canonical output of `Interpolation(*args)`: ordered x, ordered y, table | E:<class>"""
    try:
        return enc_obj(_mods()(*args))
    except Exception as e:  # noqa
        return enc_exc(e)


# ------------------------------------------------------------------ predicates (name -> function of the JSON input)
def p_sorted_perm(inp):
    xs, ys = inp
    i = obj(xs, ys)
    ok = all(i._x[k] < i._x[k + 1] for k in range(len(i._x) - 1)) and \
        sorted(zip(i._x, i._y)) == sorted(zip(xs, ys)) and len(i) == len(xs)
    return ok, {'x': list(i._x), 'y': list(i._y)}


def p_passes_through(inp):
    xs, ys = inp
    i = obj(xs, ys)
    bad = [(x, y, i(x)) for x, y in zip(xs, ys) if i(x) != y]
    return not bad, bad[:3]


def p_newton_form_at_nodes(inp):
    """the Newton form itself (not the node shortcut of __call__) passes through the points"""
    xs, ys = inp
    i = obj(xs, ys)
    L = Lag.of(xs, ys)
    sc = max(float(L.scale), 1e-300)
    bad = []
    for k in range(len(i._x)):
        val = i._table[-1]
        for j in range(len(i._table) - 1, 0, -1):
            val = i._table[j - 1] + (i._x[k] - i._x[j - 1]) * val
        if abs(val - i._y[k]) > REL * max(sc, abs(i._y[k])):
            bad.append((i._x[k], i._y[k], val))
    return not bad, bad[:3]


def _build(form, xs, ys):
    I = _mods()
    if form == 'lists':
        return I(list(xs), list(ys))
    if form == 'tuples':
        return I(tuple(xs), tuple(ys))
    if form == 'varargs':
        return I(*[v for p in zip(xs, ys) for v in p])
    if form == 'varargs_odd':
        return I(*([v for p in zip(xs, ys) for v in p] + [123.0]))
    if form == 'single':
        return I(list(ys))
    if form == 'ints':
        return I([int(v) for v in xs], list(ys))
    if form == 'longer_x':
        return I(list(xs) + [1e6], list(ys))
    if form == 'copy':
        return I(I(list(xs), list(ys)))
    raise ValueError(form)


def p_same_object(inp):
    """two constructions (another order / another input form) give the same object and the same values"""
    xs, ys, form, perm, probes = inp
    a = obj(xs, ys)
    b = _build(form, [xs[k] for k in perm], [ys[k] for k in perm])
    ok = list(a._x) == list(b._x) and list(a._y) == list(b._y) and list(a._table) == list(b._table)
    det = None
    if ok:
        for x in probes:
            ra, rb = run_impl(a, x), run_impl(b, x)
            da, db = run_impl(a.derivative, x), run_impl(b.derivative, x)
            if ra != rb or da != db:
                ok = False
                det = {'x': x, 'a': ra, 'b': rb, 'da': da, 'db': db}
                break
    else:
        det = {'a': enc_obj(a), 'b': enc_obj(b)}
    return ok, det


def p_value(inp):
    """I(x) equals the exact interpolating polynomial to relative 1e-9"""
    xs, ys, x = inp
    i = obj(xs, ys)
    L = Lag.of(xs, ys)
    out = run_impl(i, x)
    v = fnum(out)
    if v is None:
        return False, out
    e = L.val(x)
    lim = REL * max(float(L.scale), abs(float(e)))
    dev = abs(Fraction(v) - e)
    return dev <= lim, {'impl': v, 'exact': float(e), 'dev': float(dev), 'lim': lim}


def p_derivative(inp):
    xs, ys, x = inp
    i = obj(xs, ys)
    L = Lag.of(xs, ys)
    out = run_impl(i.derivative, x)
    v = fnum(out)
    if v is None:
        return False, out
    e = L.der(x)
    lim = REL * max(float(L.dsc()), abs(float(e)))
    dev = abs(Fraction(v) - e)
    return dev <= lim, {'impl': v, 'exact': float(e), 'dev': float(dev), 'lim': lim}


def _peval(coef, x):
    x = Fraction(x)
    v = Fraction(0)
    for c in reversed(coef):
        v = v * x + c
    return v


def _pder(coef, x):
    x = Fraction(x)
    v = Fraction(0)
    for k in range(len(coef) - 1, 0, -1):
        v = v * x + k * coef[k]
    return v


def p_reproduces_poly(inp):
    """data sampled from p (degree < n, exact rational coefficients [num, den]): I(x) = p(x), I'(x) = p'(x) to rel 1e-9"""
    xs, coef, x = inp
    coef = [Fraction(c[0], c[1]) for c in coef]
    ys = [float(_peval(coef, v)) for v in xs]
    i = obj(xs, ys)
    v = fnum(run_impl(i, x))
    d = fnum(run_impl(i.derivative, x))
    if v is None or d is None:
        return False, 'exception'
    sc = max(abs(y) for y in ys)
    e, ed = _peval(coef, x), _pder(coef, x)
    dsc = max(abs(float(_pder(coef, t))) for t in xs)
    ok1 = abs(Fraction(v) - e) <= REL * max(sc, abs(float(e)))
    ok2 = abs(Fraction(d) - ed) <= REL * max(dsc, abs(float(ed)))
    return ok1 and ok2, {'I': v, 'p': float(e), 'dI': d, 'dp': float(ed)}


def p_outside_refused(inp):
    xs, ys, x = inp
    i = obj(xs, ys)
    a, b = run_impl(i, x), run_impl(i.derivative, x)
    return a == 'E:ValueError' and b == 'E:ValueError', {'call': a, 'derivative': b}


def p_duplicate_refused(inp):
    xs, ys = inp
    out = run_impl(lambda: _mods()(list(xs), list(ys)))
    return out == 'E:ValueError', out[:60]


def _clamped(xs, a, b):
    lo, hi = (a, b) if a <= b else (b, a)
    return max(lo, min(xs)), min(hi, max(xs)), lo, hi


def p_root_post(inp):
    """whatever root() returns lies inside [xl, xh] (and the table) and the interpolant vanishes there"""
    xs, ys, a, b = inp
    i = obj(xs, ys)
    out = run_impl(i.root, a, b)
    r = fnum(out)
    if r is None:
        return True, out
    clo, chi, lo, hi = _clamped(xs, a, b)
    L = Lag.of(xs, ys)
    inside = (clo <= r <= chi)
    yv = fnum(run_impl(i, r))
    van = yv is not None and abs(yv) <= TOL and abs(L.val(r)) <= TOL + REL * float(L.scale)
    return inside and van, {'root': r, 'interval': [clo, chi], 'I(root)': yv, 'exact': float(L.val(r))}


def _call_msg(f, *args):
    try:
        return f(*args), None
    except Exception as e:  # noqa
        return None, type(e).__name__ + ': ' + ' '.join(str(e).split())


def _flat_in_bracket(xs, ys, a, b, deriv):
    """min over a 2000-point grid of |d/dx| of the function whose root is sought (exact oracle)"""
    L = Lag.of(xs, ys)
    if deriv:
        xx = sorted(xs)
        L = Lag(xx, [L.der(v) for v in xx])
    clo, chi, _, _ = _clamped(xs, a, b)
    return min(abs(float(L.der(clo + (chi - clo) * k / 2000))) for k in range(2001))


def resolvable(xs, ys, a, b, deriv):
    """can binary64 resolve the absolute tolerance 1e-10 in this bracket?  (largest slope of the function whose root
    is sought) x (spacing of doubles at the bracket) must stay below 1e-11"""
    L = Lag.of(xs, ys)
    if deriv:
        xx = sorted(xs)
        L = Lag(xx, [L.der(v) for v in xx])
    clo, chi, _, _ = _clamped(xs, a, b)
    smax = max(abs(float(L.der(clo + (chi - clo) * k / 40))) for k in range(41))
    return smax * math.ulp(max(abs(clo), abs(chi), 1e-300)) <= 1e-11


def p_root_found(inp):
    """the exact interpolant changes sign between the (clamped) limits => root() returns a number"""
    xs, ys, a, b = inp
    i = obj(xs, ys)
    r, msg = _call_msg(i.root, a, b)
    if msg is None:
        return True, r
    return False, {'raised': msg, 'min_abs_slope_in_bracket': _flat_in_bracket(xs, ys, a, b, False)}


def p_minmax_post(inp):
    xs, ys, a, b = inp
    i = obj(xs, ys)
    out = run_impl(i.minmax, a, b)
    r = fnum(out)
    if r is None:
        return True, out
    clo, chi, lo, hi = _clamped(xs, a, b)
    L = Lag.of(xs, ys)
    d = L.der(r)
    inside = (clo <= r <= chi)
    van = abs(d) <= TOL + REL * float(L.dsc())
    return inside and van, {'extremum': r, 'interval': [clo, chi], "exact I'": float(d)}


def p_minmax_found(inp):
    xs, ys, a, b = inp
    i = obj(xs, ys)
    r, msg = _call_msg(i.minmax, a, b)
    if msg is None:
        return True, r
    return False, {'raised': msg, 'min_abs_slope_in_bracket': _flat_in_bracket(xs, ys, a, b, True)}


def known_match(finding, failure):
    """matcher for findings of the form {predicates, slope_below}: root()/minmax() giving up ('Too many
    iterations') on a bracket with a sign change and a flat stretch.  (The finding of that form was repaired by the
    fix: commit that makes the fallback bisect every other time; known_findings.json (property C12) lists nothing now.)"""
    if failure.get('predicate') not in finding.get('predicates', []):
        return False
    det = failure.get('detail')
    if not isinstance(det, dict):
        return False
    return 'Too many iterations' in str(det.get('raised')) and \
        det.get('min_abs_slope_in_bracket', 1.0) < finding.get('slope_below', 1e-3)


def _angles(vals):
    from pymeeus.Angle import Angle
    return [Angle(v) for v in vals]


def p_angle_form(inp):
    """ordinates given as Angle objects: same interpolated value (in degrees)"""
    xs, ys, x = inp
    a = obj(xs, ys)
    b = _mods()(list(xs), _angles(ys))
    ra = fnum(run_impl(a, x))
    try:
        rb = float(b(x))
    except Exception as e:  # noqa
        return False, repr(e)
    return ra is not None and abs(ra - rb) <= REL * max(1.0, abs(ra)), {'float': ra, 'angle': rb}


def p_conjunction(inp):
    """planetary_conjunction: at the returned time the interpolated RA difference is zero, the time is inside
    the table, and dd is the interpolated declination difference"""
    a1, d1, a2, d2 = inp
    from pymeeus.Coordinates import planetary_conjunction
    try:
        n0, dd = planetary_conjunction(_angles(a1), _angles(d1), _angles(a2), _angles(d2))
    except ValueError as e:
        return True, repr(e)
    n0 = float(n0)
    dd = float(dd)
    n = len(a1) - (1 - len(a1) % 2)
    h = n // 2
    ns = [float(k - h) for k in range(n)]
    da = [a1[k] - a2[k] for k in range(n)]
    de = [d1[k] - d2[k] for k in range(n)]
    La, Ld = Lag(ns, da), Lag(ns, de)
    ok = (-h <= n0 <= h) and abs(La.val(n0)) <= TOL + REL * float(La.scale) and \
        abs(Ld.val(n0) - Fraction(dd)) <= REL * max(1.0, float(Ld.scale))
    return ok, {'n0': n0, 'dd': dd, 'dalpha(n0)': float(La.val(n0)), 'ddelta(n0)': float(Ld.val(n0))}


def p_star_conjunction(inp):
    a, d, astar, dstar = inp
    from pymeeus.Coordinates import planet_star_conjunction
    from pymeeus.Angle import Angle
    try:
        n0, dd = planet_star_conjunction(_angles(a), _angles(d), Angle(astar), Angle(dstar))
    except ValueError as e:
        return True, repr(e)
    n0, dd = float(n0), float(dd)
    n = len(a) - (1 - len(a) % 2)
    h = n // 2
    ns = [float(k - h) for k in range(n)]
    La = Lag(ns, [a[k] - astar for k in range(n)])
    Ld = Lag(ns, [d[k] - dstar for k in range(n)])
    ok = (-h <= n0 <= h) and abs(La.val(n0)) <= TOL + REL * float(La.scale) and \
        abs(Ld.val(n0) - Fraction(dd)) <= REL * max(1.0, float(Ld.scale))
    return ok, {'n0': n0, 'dd': dd, 'dalpha(n0)': float(La.val(n0))}


def _straight(a1, d1, a2, d2, a3, d3):
    r = math.radians
    return (math.tan(r(d1)) * math.sin(r(a2) - r(a3)) + math.tan(r(d2)) * math.sin(r(a3) - r(a1))
            + math.tan(r(d3)) * math.sin(r(a1) - r(a2)))


def p_in_line(inp):
    """planet_stars_in_line: at the returned time the interpolated alignment determinant is zero"""
    a, d, as1, ds1, as2, ds2 = inp
    from pymeeus.Coordinates import planet_stars_in_line
    from pymeeus.Angle import Angle
    try:
        n0 = planet_stars_in_line(_angles(a), _angles(d), Angle(as1), Angle(ds1), Angle(as2), Angle(ds2))
    except ValueError as e:
        return True, repr(e)
    n0 = float(n0)
    n = len(a) - (1 - len(a) % 2)
    h = n // 2
    ns = [float(k - h) for k in range(n)]
    dx = [_straight(a[k], d[k], as1, ds1, as2, ds2) for k in range(n)]
    L = Lag(ns, dx)
    ok = (-h <= n0 <= h) and abs(L.val(n0)) <= TOL + 1e-7 * float(L.scale)
    return ok, {'n0': n0, 'dx(n0)': float(L.val(n0)), 'scale': float(L.scale)}


def _sep(a1, d1, a2, d2):
    """angular separation in degrees (haversine-free, via the chord; accurate for small angles)"""
    r = math.radians
    x1 = (math.cos(r(d1)) * math.cos(r(a1)), math.cos(r(d1)) * math.sin(r(a1)), math.sin(r(d1)))
    x2 = (math.cos(r(d2)) * math.cos(r(a2)), math.cos(r(d2)) * math.sin(r(a2)), math.sin(r(d2)))
    c = math.sqrt(sum((u - v) ** 2 for u, v in zip(x1, x2)))
    return math.degrees(2.0 * math.asin(c / 2.0))


def _q3(n, y):
    a, b = y[1] - y[0], y[2] - y[1]
    return y[1] + n * (a + b + n * (b - a)) / 2.0


def p_min_separation(inp):
    """minimum_angular_separation: the returned time is a local minimum (to 1e-3 of the step) of the separation of
    the quadratically interpolated positions, and the returned distance is that separation (to 0.1%)"""
    a1, d1, a2, d2 = inp
    from pymeeus.Coordinates import minimum_angular_separation
    A = _angles
    n, d = minimum_angular_separation(A(a1)[0], A(d1)[0], A(a1)[1], A(d1)[1], A(a1)[2], A(d1)[2],
                                      A(a2)[0], A(d2)[0], A(a2)[1], A(d2)[1], A(a2)[2], A(d2)[2])
    n, d = float(n), float(d)

    def sep(t):
        return _sep(_q3(t, a1), _q3(t, d1), _q3(t, a2), _q3(t, d2))
    s0 = sep(n)
    h = 2e-2
    ok = s0 <= sep(n - h) and s0 <= sep(n + h) and abs(d - s0) <= 2e-3 * max(s0, 1e-4)
    return ok, {'n': n, 'd': d, 'sep(n)': s0, 'sep(n-h)': sep(n - h), 'sep(n+h)': sep(n + h)}


EVAL = {f.__name__[2:]: f for f in (p_sorted_perm, p_passes_through, p_newton_form_at_nodes, p_same_object, p_value,
                                    p_derivative, p_reproduces_poly, p_outside_refused, p_duplicate_refused,
                                    p_root_post, p_root_found, p_minmax_post, p_minmax_found, p_angle_form,
                                    p_conjunction, p_star_conjunction, p_in_line, p_min_separation)}


def P(ctx, name, inp, klass=None):
    try:
        ok, det = EVAL[name](inp)
    except Exception as e:  # noqa  (an unexpected exception of the implementation is a failure of the predicate)
        ok, det = False, 'exception: ' + repr(e)
    if isinstance(det, dict) and 'dev' in det and det.get('lim'):
        ctx.deviation(name + '_dev_over_limit', det['dev'] / det['lim'] if det['lim'] > 0 else 0.0)
    ctx.predicate(name, bool(ok), inp, det if not ok else None, klass or name)
    return ok


_known = None
_seen = [0, 0]


def enough_failures(ctx, limit=40):
    """fail fast: stop generating once `limit` predicate failures that are not listed findings were recorded
    (the run is a VIOLATION already; a broken implementation can make every further call very slow)"""
    global _known
    if _known is None:
        import core
        _known = [k for k in core.load_known() if k.get('property') == PROPERTY]
    for f in ctx.pred_fail[_seen[0]:]:
        if not any(known_match(k, f) for k in _known):
            _seen[1] += 1
    _seen[0] = len(ctx.pred_fail)
    return _seen[1] >= limit


# ------------------------------------------------------------------ generators
def gen_abscissae(rng, n, hot):
    """returns (xs sorted, klass, nice) — nice: small dyadic/integer values (exact model affordable)"""
    r = rng.random()
    if r < 0.30:
        step = rng.choice([1.0, 1.0, 0.5, 0.25, 2.0, 5.0, 0.1, 1.0 / 3.0, 1.0 / 24.0])
        x0 = rng.choice([0.0, 0.0, -float(n // 2), 1.0, -3.5, 27.0, 100.0, -1000.0 + n, 950.0]) if rng.random() < 0.8 \
            else round(rng.uniform(-900, 900), 2)
        xs = [x0 + k * step for k in range(n)]
        return xs, 'equal', step in (1.0, 0.5, 0.25, 2.0, 5.0) and abs(x0) <= 1000 and x0 == round(x0 * 4) / 4
    if r < 0.50:
        xs = sorted(float(v) for v in rng.sample(range(-12, 13), n))
        return xs, 'integer_unequal', True
    if r < 0.85:
        # random unequal spacing, gap ratio <= 20
        gaps = [rng.uniform(0.05, 1.0) for _ in range(n - 1)]
        sc = rng.choice([1.0, 1.0, 0.1, 10.0, 100.0])
        x0 = rng.choice([0.0, -1.0, rng.uniform(-10, 10), rng.uniform(-900, 800)])
        xs = [x0]
        for g in gaps:
            xs.append(xs[-1] + g * sc)
        xs = [v for v in xs]
        if max(abs(v) for v in xs) > 1000:
            xs = [v - xs[-1] + 999.0 for v in xs]
        return xs, 'random_unequal', False
    if r < 0.93 and hot.get('floats'):
        base = rng.choice(hot['floats'])
        xs = sorted(set([base + k * rng.choice([0.5, 1.0]) for k in range(-(n // 2), n - n // 2)]))
        if len(xs) == n:
            return xs, 'hot', False
    # Chebyshev-like nodes on [-1, 1] scaled (gap ratio may exceed 20 for n = 9: tie only when flagged below)
    xs = sorted(math.cos(math.pi * (2 * k + 1) / (2 * n)) * rng.choice([1.0, 3.0]) for k in range(n))
    return xs, 'chebyshev', False


def gap_ratio(xs):
    g = [b - a for a, b in zip(xs, xs[1:])]
    return max(g) / min(g) if len(g) > 0 and min(g) > 0 else float('inf')


def gen_poly(rng, n):
    """exact polynomial of degree < n with a few real roots in view; coefficients as [num, den]"""
    deg = rng.randint(0, n - 1) if rng.random() < 0.7 else n - 1
    coef = [[rng.randint(-8, 8), rng.choice([1, 1, 2, 3, 4, 10])] for _ in range(deg + 1)]
    if coef[-1][0] == 0:
        coef[-1][0] = 1
    return coef


def scale_poly(coef, xs):
    """keep the sampled values below ~100 (the root tolerance 1e-10 is absolute): divide by a power of ten"""
    cf = [Fraction(c[0], c[1]) for c in coef]
    m = max(abs(_peval(cf, v)) for v in xs)
    k = 0
    while m > 100 * 10 ** k:
        k += 1
    return [[c[0], c[1] * 10 ** k] for c in coef]


def gen_smooth(rng, xs):
    k = rng.choice([0.5, 1.0, 1.5, 2.0, 3.0])
    ph = rng.uniform(0, 3)
    span = max(xs) - min(xs)
    w = k * 2 * math.pi / span * rng.choice([0.5, 1.0, 1.5])   # several roots per table
    kind = rng.choice(['sin', 'cos', 'sinexp', 'gauss', 'cubicish'])
    m = min(xs)
    if kind == 'sin':
        return [math.sin(w * (x - m) + ph) for x in xs], kind
    if kind == 'cos':
        return [2.5 * math.cos(w * (x - m)) + 0.3 for x in xs], kind
    if kind == 'sinexp':
        return [math.exp(-(x - m) / span) * math.sin(w * (x - m) + ph) for x in xs], kind
    if kind == 'gauss':
        c = m + span * rng.uniform(0.3, 0.7)
        return [math.exp(-((x - c) / (0.4 * span)) ** 2) - 0.5 for x in xs], kind
    return [((x - m) / span - 0.2) * ((x - m) / span - 0.55) * ((x - m) / span - 0.9) * 40.0 + 0.01 * math.sin(x) for x in xs], kind


def q_rule(nice, n):
    return ('rel', 1e-9) if (nice and n <= 7) else None


def interval_points(rng, xs, few):
    lo, hi = xs[0], xs[-1]
    span = hi - lo
    pts = list(xs) + [0.5 * (a + b) for a, b in zip(xs, xs[1:])]
    pts += [rng.uniform(lo, hi) for _ in range(3)]
    pts += [lo - 0.37 * span, hi + 0.61 * span, lo - 1e-3, hi + 1e-3]
    if few:
        pts = rng.sample(pts, min(len(pts), 7))
    pairs = [(a, b) for a in pts for b in pts if abs(a - b) > 1e-9 and not (a == 0.0 and b == 0.0)]
    return pairs


def check_table(ctx, rng, xs, ys, klass, nice, coef=None, npairs=24, nprobe=6, wellcond=True):
    I = _mods()
    n = len(xs)
    perm = list(range(n))
    rng.shuffle(perm)
    xin = [xs[k] for k in perm]
    yin = [ys[k] for k in perm]
    q = q_rule(nice, n)
    try:
        i = obj(xin, yin)
    except Exception as e:  # noqa
        ctx.predicate('valid_table_accepted', False, [xin, yin], repr(e), klass)
        return
    ctx.predicate('valid_table_accepted', True, [xin, yin], None, klass)
    ctx.case('interp_set', [xin, yin], enc_obj(i), q=q, klass='interp_set/' + klass)
    P(ctx, 'sorted_perm', [xin, yin], klass)
    P(ctx, 'passes_through', [xin, yin], klass)
    if wellcond:
        P(ctx, 'newton_form_at_nodes', [xin, yin], klass)
    lo, hi = xs[0], xs[-1]
    span = hi - lo
    probes = [rng.uniform(lo, hi) for _ in range(nprobe)] + [lo, hi, 0.5 * (xs[0] + xs[1]), xs[-1] - 1e-7 * span,
                                                              xs[0] + 3e-10 * max(1.0, abs(xs[0]))]
    probes = [p for p in probes if lo <= p <= hi]
    # order / input form
    forms = ['lists', 'tuples', 'varargs', 'longer_x', 'copy']
    if n >= 2:
        forms.append('varargs_odd')
    if all(v == float(int(v)) for v in xs):
        forms.append('ints')
    for form in rng.sample(forms, 2):
        if form in ('varargs', 'varargs_odd') and n < 2:
            continue
        p2 = list(range(n))
        rng.shuffle(p2)
        P(ctx, 'same_object', [xin, yin, form, p2, probes[:3]], 'same_object/' + form)
    if xs == [float(k) for k in range(n)]:
        P(ctx, 'same_object', [xs, ys, 'single', list(range(n)), probes[:3]], 'same_object/single')
        ctx.case('interp_set', [ys], enc_obj(I(list(ys))), q=q, klass='interp_set/single')
    # the n-argument form goes to the model as well
    if n >= 2 and rng.random() < 0.3:
        flat = [v for p in zip(xin, yin) for v in p]
        if rng.random() < 0.5:
            flat.append(7.0)
        ctx.case('interp_set', flat, impl_set(flat), q=q, klass='interp_set/varargs')
    # values and derivatives
    for x in probes:
        if wellcond:
            P(ctx, 'value', [xin, yin, x], 'value/' + klass)
            P(ctx, 'derivative', [xin, yin, x], 'derivative/' + klass)
            if coef is not None:
                P(ctx, 'reproduces_poly', [xin, coef, x], 'reproduces_poly/' + klass)
        ctx.case('interp_call', [xin, yin, TOL, x], run_impl(i, x), q=q, klass='interp_call')
        ctx.case('interp_deriv', [xin, yin, TOL, x], run_impl(i.derivative, x), q=q, klass='interp_deriv')
    if rng.random() < 0.3 and max(abs(v) for v in ys) <= 10 and n <= 5 and min(b - a for a, b in zip(xs, xs[1:])) >= 1.0 \
            and span <= 12:
        P(ctx, 'angle_form', [xin, yin, probes[0]], 'angle_form')
    # outside the table
    for x in (lo - 1e-9 * max(1.0, abs(lo)), hi + 1e-9 * max(1.0, abs(hi)), lo - 1.0, hi + 0.5 * span, lo - 1e6, 1e9):
        P(ctx, 'outside_refused', [xin, yin, x], 'outside_refused')
        ctx.case('interp_call', [xin, yin, TOL, x], run_impl(i, x), q=q, klass='interp_call/outside')
        ctx.case('interp_deriv', [xin, yin, TOL, x], run_impl(i.derivative, x), q=q, klass='interp_deriv/outside')
    # a different tolerance (set_tolerance) for the node shortcut
    t2 = rng.choice([1e-6, 1e-3, 1e-12])
    j = I(list(xin), list(yin))
    j.set_tolerance(t2)
    xq = xs[rng.randrange(n)] + rng.choice([-1, 1]) * t2 * rng.choice([0.5, 2.0])
    ctx.case('interp_call', [xin, yin, t2, xq], run_impl(j, xq), q=None, klass='interp_call/tolerance')
    # roots and extrema on sub-intervals
    L = Lag.of(xin, yin)
    pairs = interval_points(rng, xs, few=False)
    rng.shuffle(pairs)
    pairs = pairs[:npairs] + [(lo, hi), (hi, lo), (lo - 5.0, hi + 5.0)]
    # limits beside the table ends by less than the object's tolerance, outside and inside, in either order (round 8:
    # C12-i clamped a limit only when it was outside by more than the tolerance while __call__ refused it first)
    eps = 0.5 * TOL
    pairs += [(lo - eps, hi), (lo, hi + eps), (hi + eps, lo - eps), (lo + eps, hi - eps), (lo - eps, hi + 2 * eps)]
    sc = float(L.scale)
    for (a, b) in pairs:
        out = run_impl(i.root, a, b)
        ctx.case('interp_root', [xin, yin, TOL, a, b, 1000], out, q=None,
                 klass='interp_root/' + ('value' if out.startswith('f') else out))
        P(ctx, 'root_post', [xin, yin, a, b], 'root_post/' + ('returned' if out.startswith('f') else 'raised'))
        clo, chi, _, _ = _clamped(xs, a, b)
        if chi - clo > 1e-9 and wellcond:
            va, vb = L.val(clo), L.val(chi)
            if va * vb < 0 and min(abs(va), abs(vb)) > 1e-7 * max(sc, 1e-300) and sc <= 1e4 and float(L.dsc()) <= 1e5 \
                    and resolvable(xin, yin, a, b, False):
                P(ctx, 'root_found', [xin, yin, a, b], 'root_found/' + klass)
    if n >= 3:
        dsc = float(L.dsc())
        for (a, b) in pairs[: max(6, npairs // 3)] + [(lo, hi)]:
            out = run_impl(i.minmax, a, b)
            ctx.case('interp_minmax', [xin, yin, TOL, a, b, 1000], out, q=None,
                     klass='interp_minmax/' + ('value' if out.startswith('f') else out))
            if wellcond:
                P(ctx, 'minmax_post', [xin, yin, a, b], 'minmax_post/' + ('returned' if out.startswith('f') else 'raised'))
            clo, chi, _, _ = _clamped(xs, a, b)
            if chi - clo > 1e-9 and wellcond:
                va, vb = L.der(clo), L.der(chi)
                if va * vb < 0 and min(abs(va), abs(vb)) > 1e-7 * max(dsc, 1e-300) and dsc <= 1e4 \
                        and resolvable(xin, yin, a, b, True):
                    P(ctx, 'minmax_found', [xin, yin, a, b], 'minmax_found/' + klass)
    # default limits and a small iteration budget (also exact model: the budget keeps the rationals small)
    out = run_impl(i.root)
    ctx.case('interp_root', [xin, yin, TOL, 0, 0, 1000], out, q=None, klass='interp_root/default')
    mi = rng.choice([0, 1, 2, 3])
    a, b = pairs[0]
    ctx.case('interp_root', [xin, yin, TOL, a, b, mi], run_impl(i.root, a, b, mi), q=None, klass='interp_root/max_iter')


def check_malformed(ctx, rng):
    I = _mods()
    forms = [[], [5.0], [5], [[1.0]], [[]], [[1.0, 2.0]], [[3.0, 1.0, 2.0]], [1.0, 2.0], [[1.0, 2.0], 3.0], [3.0, [1.0, 2.0]],
             [1.0, 2.0, 3.0], [[1.0], [2.0], [3.0]], ['abc'], [[1.0, 2.0], 'abc'], ['abc', [1.0, 2.0]],
             [1.0, 2.0, 3.0, 'abc'], [1.0, 2.0, 'abc', 4.0, 5.0], [1.0, 2.0, 3.0, 4.0], [1.0, 2.0, 3.0, 4.0, 5.0],
             [1.0, 2.0, 1.0, 4.0], [[1.0, 2.0, 3.0], [1.0]], [[1.0, 2.0, 3.0], [4.0, 5.0]], [[1.0], [4.0, 5.0, 6.0]],
             [[1.0, 2.0, 3.0], []], [[1.0, 2.0], [1.0, 2.0], [1.0, 2.0]], [1.0, 2.0, 3.0, 4.0, 5.0, 6.0, 7.0],
             [[1.0, 1.0], [2.0, 3.0]], [[1.0, 2.0, 1.0 + 5e-11], [2.0, 3.0, 4.0]], [4.0, 1.0, 4.0, 2.0]]
    for args in forms:
        ctx.case('interp_set', args, impl_set(args), q=('rel', 1e-12), klass='interp_set/arity')


def check_duplicates(ctx, rng, xs, ys):
    n = len(xs)
    k, m = rng.sample(range(n), 2)
    for delta in (0.0, 5e-11, -9e-11):
        xd = list(xs)
        xd[k] = xs[m] + delta
        if abs(xd[k] - xd[m]) < TOL:
            P(ctx, 'duplicate_refused', [xd, list(ys)], 'duplicate_refused')
            ctx.case('interp_set', [xd, list(ys)], impl_set([xd, list(ys)]), q=None, klass='interp_set/duplicate')


def gen_conjunction(rng, n):
    """two slowly moving bodies whose right ascensions cross inside the table (degrees)"""
    h = n // 2
    a0 = rng.uniform(5.0, 350.0)
    d0 = rng.uniform(-60.0, 60.0)
    r1, r2 = rng.uniform(0.2, 1.2), rng.uniform(-0.3, 0.15)
    t0 = rng.uniform(-h + 0.2, h - 0.2)
    c1, c2 = rng.uniform(-0.01, 0.01), rng.uniform(-0.01, 0.01)
    a1 = [a0 + r1 * (k - h - t0) + c1 * (k - h) ** 2 for k in range(n)]
    a2 = [a0 + r2 * (k - h - t0) + c2 * (k - h) ** 2 for k in range(n)]
    d1 = [d0 + 0.4 * (k - h) + rng.uniform(-0.01, 0.01) for k in range(n)]
    d2 = [d0 + 1.5 - 0.1 * (k - h) + rng.uniform(-0.01, 0.01) for k in range(n)]
    return a1, d1, a2, d2


def check_clients(ctx, rng):
    from pymeeus.Coordinates import planetary_conjunction, planet_star_conjunction
    from pymeeus.Angle import Angle
    n = rng.choice([3, 5, 5, 4, 6, 7])
    a1, d1, a2, d2 = gen_conjunction(rng, n)
    P(ctx, 'conjunction', [a1, d1, a2, d2], 'conjunction')

    def run1():
        r = planetary_conjunction(_angles(a1), _angles(d1), _angles(a2), _angles(d2))
        return (float(r[0]), float(r[1]))
    if n <= 6:   # 7 points: Angle sums in derivative() pass 360 degrees and wrap; the float model does not
        ctx.case('planetary_conjunction', [a1, d1, a2, d2], run_impl(run1), q=None, klass='planetary_conjunction')
    astar, dstar = a2[n // 2], d2[n // 2]
    P(ctx, 'star_conjunction', [a1, d1, astar, dstar], 'star_conjunction')

    def run2():
        r = planet_star_conjunction(_angles(a1), _angles(d1), Angle(astar), Angle(dstar))
        return (float(r[0]), float(r[1]))
    if n <= 6:
        ctx.case('planet_star_conjunction', [a1, d1, astar, dstar], run_impl(run2), q=None, klass='planet_star_conjunction')
    # planet and two stars in line: two stars on a line the planet's path crosses
    m = n - (1 - n % 2)
    h = m // 2
    t0 = rng.uniform(-h + 0.3, h - 0.3)
    pa = [100.0 + 0.6 * (k - h) for k in range(n)]
    pd = [20.0 + 0.2 * (k - h) + 0.003 * (k - h) ** 2 for k in range(n)]
    ca, cd = 100.0 + 0.6 * t0, 20.0 + 0.2 * t0 + 0.003 * t0 ** 2
    th = rng.uniform(0.9, 2.2)
    as1, ds1 = ca + 3.0 * math.cos(th), cd + 3.0 * math.sin(th)
    as2, ds2 = ca + 7.0 * math.cos(th), cd + 7.0 * math.sin(th)
    P(ctx, 'in_line', [pa, pd, as1, ds1, as2, ds2], 'in_line')
    # closest approach of two bodies over three epochs
    ba, bd = rng.uniform(10, 340), rng.uniform(-40, 40)
    b1a = [ba + 0.5 * k for k in (-1, 0, 1)]
    b1d = [bd + 0.1 * k for k in (-1, 0, 1)]
    off = rng.uniform(0.02, 0.3)
    t0 = rng.uniform(-0.6, 0.6)
    b2a = [b1a[1] + 0.5 * t0 + 0.1 * (k - t0) for k in (-1, 0, 1)]
    b2d = [b1d[1] + 0.1 * t0 + off + 0.25 * (k - t0) for k in (-1, 0, 1)]
    P(ctx, 'min_separation', [b1a, b1d, b2a, b2d], 'min_separation')


def generate(ctx, shard=0, nshards=1):
    rng = ctx.rng
    hot = ctx.hot
    if shard == 0:
        check_malformed(ctx, rng)
        # Meeus' examples of the module's documentation
        check_table(ctx, rng, [7.0, 8.0, 9.0], [0.884226, 0.877366, 0.870531], 'doc', True)
        check_table(ctx, rng, [27.0, 27.5, 28.0, 28.5, 29.0],
                    [0.9101006944444444, 0.9069016666666667, 0.9043683333333333, 0.9024816666666667, 0.9012147222222222],
                    'doc', False)
        check_table(ctx, rng, [26.0, 27.0, 28.0], [-0.4720355555555556, 0.19868916666666666, 0.8607394444444444], 'doc', True)
        check_table(ctx, rng, [0.0, 1.0, 2.0, 3.0, 4.0, 5.0, 6.0], [math.sin(v) for v in range(7)], 'sine_0_6', True, npairs=200)
    ntab = ctx.n(1600, 12000) // nshards + 1
    _seen[0] = _seen[1] = 0
    for _ in range(ntab):
        if enough_failures(ctx):
            ctx.notes.append('generation stopped early: more than 40 new predicate failures in this shard')
            break
        n = rng.choice([2, 3, 3, 4, 5, 5, 6, 7, 8, 9])
        xs, klass, nice = gen_abscissae(rng, n, hot)
        n = len(xs)
        wc = gap_ratio(xs) <= 20.0 and max(abs(v) for v in xs) <= 1000.0
        if rng.random() < 0.5:
            coef = scale_poly(gen_poly(rng, n), xs)
            cf = [Fraction(c[0], c[1]) for c in coef]
            ys = [float(_peval(cf, v)) for v in xs]
            check_table(ctx, rng, xs, ys, klass + '/poly', nice and all(y == float(int(y * 64)) / 64 for y in ys), coef,
                        npairs=ctx.n(14, 30), wellcond=wc)
        else:
            ys, kind = gen_smooth(rng, xs)
            check_table(ctx, rng, xs, ys, klass + '/smooth', False, None, npairs=ctx.n(14, 30), wellcond=wc)
        if rng.random() < 0.3:
            check_duplicates(ctx, rng, xs, ys)
    for _ in range(ctx.n(1000, 4000) // nshards + 1):
        if enough_failures(ctx):
            break
        check_clients(ctx, rng)
    ctx.sample({'call': 'Interpolation([0,1,2,3,4,5,6],[sin(k)]).root(0.5, 2.0)', 'expected': 'ValueError (no sign change in [0.5, 2.0])'})
    ctx.sample({'call': 'Interpolation([7,8,9],[0.884226,0.877366,0.870531])(8.18125)', 'expected': 0.876125})


def replay(case):
    name = case.get('predicate')
    inp = case.get('input')
    if name == 'valid_table_accepted':
        out = run_impl(lambda: _mods()(list(inp[0]), list(inp[1])) and 0)
        return (out.startswith('E:'), out)
    if name not in EVAL:
        return (False, 'unknown predicate ' + str(name))
    try:
        ok, det = EVAL[name](inp)
    except Exception as e:  # noqa
        ok, det = False, repr(e)
    return (not ok, {'predicate': name, 'input': inp, 'detail': det})
