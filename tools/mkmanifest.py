#!/usr/bin/env python3
"""Write MANIFEST.json from the table below (kept in one place so it stays valid)."""
import json, os, subprocess
ROOT = os.path.dirname(os.path.dirname(os.path.abspath(__file__)))

BASE = ("cd /repo && /venv/bin/python -m pytest -ra -q -p no:cacheprovider --timeout=900 "
        "--continue-on-collection-errors")

import importlib, sys
sys.path.insert(0, os.path.join(ROOT, 'harness'))

# every harness/cXX.py that defines MANIFEST = dict(text=, note=, technique=, ref=) is a claimed check
CLAIMED = {}
for i in range(1, 21):
    pid = 'C%02d' % i
    if os.path.exists(os.path.join(ROOT, 'harness', pid.lower() + '.py')):
        mod = importlib.import_module(pid.lower())
        if getattr(mod, 'MANIFEST', None):
            CLAIMED[pid] = mod.MANIFEST

NOT_YET = {}
for i in range(1, 21):
    pid = 'C%02d' % i
    if pid not in CLAIMED:
        NOT_YET[pid] = 'check not built yet in this round (planned, see DESIGN.md section 9); nothing is claimed'

def main():
    m = {
        'version': 1,
        'setup_cmd': './bin/setup',
        'hooks': {
            'guard': 'ARCHITEST_PYMEEUS_VERIF',
            'enable': 'no hook is needed: every modelled function is called in-process by harness/*.py; the guard name is reserved',
            'baseline_off_cmd': BASE,
            'source_commits': subprocess.run(['git', '-C', '/repo', 'log', '--format=%H %s', 'a240762..HEAD'], capture_output=True, text=True).stdout.strip().split('\n'),
            'add_only': True,  # there are no hook patches; the listed commits are the unguarded fix: repairs
        },
        'engines': [
            {'name': 'lean-model', 'path': 'lean/', 'serves_properties': sorted(CLAIMED),
             'kind_free_text': 'Lean 4 model (templates instantiated at Rat and Float), theorems in lean/Pymeeus/Props'},
            {'name': 'harness', 'path': 'harness/', 'serves_properties': sorted(CLAIMED),
             'kind_free_text': 'correspondence check model vs CPython + property predicates on the implementation'},
        ],
        'checks': [],
        'not_applicable': [{'property_id': k, 'reason': v} for k, v in sorted(NOT_YET.items())],
        'notes': ('See DESIGN.md (section 12 = as built; 12.1 lists the obligations of a run). Every check = Lean theorems about the model '
                  '(axiom audit on every run) + the tie of the model to /repo (translators re-run on the current source; binary64 '
                  'instantiation of the model compared bit for bit with CPython) + the property clauses evaluated on the '
                  'implementation; and, for every property alike: history noise and object-history checks, argument-form '
                  'equivalence (harness/forms.py), purity of the call closure (effect analysis of C20), dependency checks of '
                  'changed helpers, and the exercise obligation on changed statements (harness/changecov.py). '
                  'Exit codes: 0 held, 1 VIOLATION (replay file named; "no-failing-input-found" when only an obligation broke), '
                  '2 infrastructure failure. tools/seeded.sh, tools/harmless.sh: 120 kept seeded changes and 40 kept '
                  'behaviour-preserving refactorings with which the checks were evaluated (DESIGN.md 12.5).'),
    }
    for pid, c in sorted(CLAIMED.items()):
        m['checks'].append({
            'property_id': pid,
            'quick_cmd': './bin/check %s quick' % pid,
            'thorough_cmd': './bin/check %s thorough' % pid,
            'evidence_file': 'evidence/%s.json' % pid,
            'replay_cmd_template': './bin/check %s --replay {path}' % pid,
            'engine': 'lean-model',
            'level_claimed': {'category': 'proof', 'text': c['text'], 'design_ref': c['ref']},
            'level_note': c['note'],
            'technique': c['technique'],
        })
    with open(os.path.join(ROOT, 'MANIFEST.json'), 'w') as f:
        json.dump(m, f, indent=1)
        f.write('\n')
    print('MANIFEST.json: %d checks, %d not claimed' % (len(m['checks']), len(m['not_applicable'])))

if __name__ == '__main__':
    main()
