#!/bin/sh
# tools/effects_screen.sh <patch.diff>...  : for each patch, run the effect analysis alone on a patched private copy of /repo
# and list the functions it rejects that it accepts on /repo itself (seconds per patch)
ROOT="$(cd "$(dirname "$0")/.." && pwd)"
base=/tmp/effscreen-$$; mkdir -p $base
run() { # <repo> <tag>
  mkdir -p $base/$2/work $base/$2/lean/.work $base/$2/lean/Pymeeus/Gen/Effects
  VERIF_REPO=$1 VERIF_LEAN_DIR=$base/$2/lean VERIF_WORK_DIR=$base/$2/work python3 $ROOT/tools/py2effects.py > $base/$2/log 2>&1
}
run /repo clean
for p in "$@"; do
  p=$(readlink -f "$p"); tag=$(basename $(dirname $p))
  wt=$base/wt-$tag; git -C /repo worktree add -q --detach $wt HEAD; git -C $wt apply $p || { echo "$tag: patch does not apply"; git -C /repo worktree remove --force $wt; continue; }
  run $wt $tag
  python3 - $base/clean/lean/.work/effects_report.json $base/$tag/lean/.work/effects_report.json $tag <<'P'
import json,sys
a=json.load(open(sys.argv[1])); b=json.load(open(sys.argv[2]))
acc={f['name'] for f in a['functions'] if f['accepted']}
rej=[(f['name'],f['reason']) for f in b['functions'] if not f['accepted'] and (f['name'] in acc or f['name'] not in {g['name'] for g in a['functions']})]
print(sys.argv[3], 'translator_failed=%s' % b.get('translator_failed'), 'newly rejected:', rej)
P
  git -C /repo worktree remove --force $wt
done
rm -rf $base
