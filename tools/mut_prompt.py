import json,sys
pid=sys.argv[1]; wt=sys.argv[2]; focus=sys.argv[3] if len(sys.argv)>3 else ''
for l in open('/verif/properties.jsonl'):
    p=json.loads(l)
    if p['id']==pid: break
print(f"""You are helping to evaluate a verification tool by writing a realistic bug. You have your own scratch git worktree of the Python library pymeeus at {wt} (a checkout of the current code). Work ONLY inside {wt}; do not look at or touch /verif or /repo or any other directory (in particular do not read anything under /verif — your change must be independent of the tool being evaluated).

The library is supposed to satisfy this property:

  {p['title']}
  {p['statement']}
  (Quantified over: {p['quantifier']['text']})
  Code involved: {'; '.join(m['name']+' @ '+m['where'] for m in p['anchors']['mechanism'])}

Your job: make ONE small, realistic change to the library source under {wt}/pymeeus (the kind of slip or "optimisation" a maintainer could plausibly commit: an off-by-one, a wrong comparison, a swapped constant, a lost special case, an early return, a changed rounding, a cache or shortcut that is right almost always) that BREAKS the property above while the library still imports and the existing test suite still passes exactly as before (run it from inside the worktree: `cd {wt} && /venv/bin/python -m pytest -q -p no:cacheprovider` — 250 pass, 1 pre-existing failure tests/test_jupiterMoons.py::TestJupiterMoons::test_is_phenomena, which must stay the only failure).
The change must need something specific to manifest — an unusual input, a particular date or value range, a multi-step sequence of calls, or two cooperating edits that each look fine alone — NOT something any ordinary use would expose at once (do not break every call). {focus}

Deliver, inside {wt}:
  1. the change itself, left uncommitted in the working tree (so that `git -C {wt} diff` shows it), touching only files under pymeeus/;
  2. a demonstration script {wt}/demo_{pid}.py (run with `cd {wt} && /venv/bin/python demo_{pid}.py`) that exits 0 and prints PASS on the unmodified code and exits 1 and prints FAIL (with the offending input and what was expected) on your modified code; it must test the property as stated (not an implementation detail) on the specific input(s) that expose your change. Verify both directions yourself: run it with your change (FAIL), then save your change with `git diff > my.patch` and undo it with `git apply -R my.patch`, run it (PASS), then restore it with `git apply my.patch` (do NOT use `git stash`: the stash is shared between worktrees).
  3. a file {wt}/meta_{pid}.json: {{"property": "{pid}", "summary": "<one line: what you changed>", "needs": "<what specific input/sequence is needed for it to manifest>", "files": ["pymeeus/..."], "demo": "demo_{pid}.py"}}
Finally reply with the diff, the demo output in both directions, and the pytest summary line with your change applied.""")
