#!/bin/sh
# tools/run_all.sh [quick|thorough] [seeds...]  : run every claimed check, summarise exit codes
ROOT="$(cd "$(dirname "$0")/.." && pwd)"; cd "$ROOT"
tier="${1:-quick}"; shift 2>/dev/null
seeds="${*:-0}"
mkdir -p .work
for p in $(python3 -c "import json;print(' '.join(c['property_id'] for c in json.load(open('MANIFEST.json'))['checks']))"); do
  for s in $seeds; do
    start=$(date +%s)
    VERIF_SEED=$s bin/check $p $tier > .work/all-$p-$tier-$s.log 2>&1; rc=$?
    end=$(date +%s)
    echo "$p $tier seed=$s exit=$rc $((end-start))s  $(grep -c '^KNOWN-FINDING' .work/all-$p-$tier-$s.log) known  $(grep '^VIOLATION' .work/all-$p-$tier-$s.log | head -1)"
  done
done
