#!/bin/sh
# tools/translator_screen.sh <patch.diff>... : run the model translators (gen_tables, gen_finders, gen_moon) alone on a patched
# private copy of /repo and say whether they accept it and whether the generated model text differs from /repo's
ROOT="$(cd "$(dirname "$0")/.." && pwd)"
for p in "$@"; do
  p=$(readlink -f "$p"); tag=$(basename $(dirname $p)); base=/tmp/trscreen-$$-$tag
  wt=$base/wt; mkdir -p $base; git -C /repo worktree add -q --detach $wt HEAD; git -C $wt apply $p || { echo "$tag: patch does not apply"; git -C /repo worktree remove --force $wt; continue; }
  mkdir -p $base/lean/Pymeeus $base/lean/PymeeusTables; cp -a $ROOT/lean/Pymeeus/Gen $base/lean/Pymeeus/Gen 2>/dev/null; cp -a $ROOT/lean/PymeeusTables/. $base/lean/PymeeusTables/ 2>/dev/null
  out=""
  for g in gen_tables gen_finders gen_moon; do
    if VERIF_REPO=$wt VERIF_LEAN_DIR=$base/lean python3 $ROOT/tools/$g.py > $base/$g.log 2>&1; then out="$out $g=ok"; else out="$out $g=REJECTED($(grep -m1 -i 'reject\|FAILED' $base/$g.log | cut -c1-120))"; fi
  done
  d=$(diff -rq $ROOT/lean/Pymeeus/Gen $base/lean/Pymeeus/Gen 2>/dev/null | grep -v "/Effects" | wc -l); d2=$(diff -rq $ROOT/lean/PymeeusTables $base/lean/PymeeusTables 2>/dev/null | wc -l)
  echo "$tag:$out generated-files-differing=$((d+d2))"
  git -C /repo worktree remove --force $wt; rm -rf $base
done
