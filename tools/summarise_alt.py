#!/usr/bin/env python3
"""tools/summarise_alt.py <suffix>  : one line per .work/alt/C??-<suffix> run: exit line, predicate, input, detail (for the DESIGN table)"""
import json, glob, os, sys
ROOT = os.path.dirname(os.path.dirname(os.path.abspath(__file__)))
suf = sys.argv[1]
for d in sorted(glob.glob(os.path.join(ROOT, '.work', 'alt', 'C??-' + suf))):
    sid = os.path.basename(d); prop = sid[:3]
    log = os.path.join(ROOT, '.work', 'seeded-%s-%s.log' % (sid, prop))
    vio = [l.strip() for l in open(log) if l.startswith('VIOLATION')] if os.path.exists(log) else []
    print(sid, '|', vio[-1] if vio else 'NO VIOLATION LINE')
    for f in glob.glob(d + '/replays/*.json'):
        j = json.load(open(f))
        print('    kind=%s predicate=%s input=%s' % (j.get('kind'), j.get('predicate'), json.dumps(j.get('input'))[:300]))
        print('    detail=%s' % json.dumps(j.get('detail'))[:400])
        print('    broken=%s' % [list(b.keys()) for b in j.get('broken', [])][:6])
