#!/bin/sh
# tools/new_harmless.sh <tag> <property> ["focus sentence"]  -> scratch worktree /tmp/mut-<tag> with INSTRUCTIONS.md (behaviour-preserving refactoring)
set -e
tag="$1"; prop="$2"; focus="${3:-}"
wt=/tmp/mut-$tag
git -C /repo worktree add -q "$wt" HEAD
python3 $(dirname "$0")/harmless_prompt.py "$prop" "$wt" "$focus" > "$wt/INSTRUCTIONS.md"
echo "$wt"
