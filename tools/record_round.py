#!/usr/bin/env python3
"""tools/record_round.py <suffix> <round-label> [id=prefix-text ...] : one DESIGN row per .work/alt/C??-<suffix> run
(predicate and input of the replay), through tools/record_seeded.py"""
import json, os, re, subprocess, sys
ROOT = os.path.dirname(os.path.dirname(os.path.abspath(__file__)))
suf, label = sys.argv[1], sys.argv[2]
pre = dict(a.split('=', 1) for a in sys.argv[3:])
out = subprocess.run(['python3', 'tools/summarise_alt.py', suf], cwd=ROOT, capture_output=True, text=True).stdout
for b in re.split(r'\n(?=C\d\d-%s \|)' % suf, out):
    sid = b[:3 + 1 + len(suf)]
    if not os.path.isdir(os.path.join(ROOT, 'seeded', sid)):
        continue
    prop = sid[:3]
    m = re.search(r'predicate=(\S+) input=(.*)', b)
    first = b.split('\n')[0]
    if 'NO VIOLATION' in first:
        caught = label + ': MISSED'
    elif 'no-failing-input-found' in first:
        caught = label + ': ' + pre.get(sid, '') + 'reported as no-failing-input-found'
    else:
        caught = label + ': ' + pre.get(sid, '') + 'caught by %s quick: predicate %s at %s' % (prop, m.group(1), m.group(2)[:160])
    meta = json.load(open(os.path.join(ROOT, 'seeded', sid, 'meta.json')))
    cl = lambda t: str(t).replace('|', '/').replace('\n', ' ')
    subprocess.run(['python3', 'tools/record_seeded.py', sid, prop, cl(meta.get('summary', '')), cl(meta.get('needs', '')), cl(caught)],
                   cwd=ROOT, check=True)
