#!/bin/sh
# tools/seeded.sh keep <scratch-worktree> <id> <property>   : verify a seeded change and archive it under seeded/<id>/
# tools/seeded.sh run  <id> <property> [quick|thorough]      : apply seeded/<id>/patch.diff to /repo, run the check, undo
set -u
ROOT="$(cd "$(dirname "$0")/.." && pwd)"
cmd="$1"
if [ "$cmd" = keep ]; then
  wt="$2"; id="$3"; prop="$4"
  cd "$wt" || exit 2
  git diff -- pymeeus > /tmp/seeded-$id.diff
  [ -s /tmp/seeded-$id.diff ] || { echo "no diff in $wt"; exit 2; }
  echo "== demo with change"; /venv/bin/python demo_$prop.py; with=$?
  echo "== pytest with change"; /venv/bin/python -m pytest -q -p no:cacheprovider 2>&1 | tail -2
  git diff > /tmp/seeded-keep-$id.patch; git apply -R /tmp/seeded-keep-$id.patch
  echo "== demo without change"; /venv/bin/python demo_$prop.py; without=$?
  git apply /tmp/seeded-keep-$id.patch; rm -f /tmp/seeded-keep-$id.patch
  echo "demo exit with=$with without=$without"
  [ "$with" = 1 ] && [ "$without" = 0 ] || { echo "demo does not discriminate"; exit 1; }
  mkdir -p "$ROOT/seeded/$id"
  cp /tmp/seeded-$id.diff "$ROOT/seeded/$id/patch.diff"
  cp demo_$prop.py "$ROOT/seeded/$id/"
  cp meta_$prop.json "$ROOT/seeded/$id/meta.json" 2>/dev/null || echo '{}' > "$ROOT/seeded/$id/meta.json"
  rm -f /tmp/seeded-$id.diff
  echo "kept as seeded/$id"
elif [ "$cmd" = run ]; then
  # By default the patch is applied to /repo itself and undone straight afterwards.  With SEEDED_COPY=1 a
  # private copy of /repo's HEAD is patched instead and the check is pointed at it with VERIF_REPO (used
  # while other processes are reading /repo).
  id="$2"; prop="$3"; tier="${4:-quick}"
  mkdir -p "$ROOT/.work"
  if [ "${SEEDED_COPY:-0}" = 1 ]; then
    copy=/tmp/seeded-repo-$$
    rm -rf "$copy"; git -C /repo worktree add -q --detach "$copy" HEAD || exit 2
    git -C "$copy" apply "$ROOT/seeded/$id/patch.diff" || { git -C /repo worktree remove --force "$copy"; exit 2; }
    # private copies of the Lean project (the generated part of the model follows the patched source), of the
    # scratch directory and of the output directory: several changed trees can be checked at the same time and
    # /verif/evidence, /verif/replays keep describing /repo itself
    priv=/tmp/seeded-verif-$$; rm -rf "$priv"; mkdir -p "$priv/work" "$ROOT/.work/alt/$id"
    cp -a "$ROOT/lean" "$priv/lean"
    VERIF_REPO="$copy" VERIF_LEAN_DIR="$priv/lean" VERIF_WORK_DIR="$priv/work" VERIF_OUT_DIR="$ROOT/.work/alt/$id" \
      "$ROOT/bin/check" "$prop" "$tier" > "$ROOT/.work/seeded-$id-$prop.log" 2>&1; rc=$?
    git -C /repo worktree remove --force "$copy"; rm -rf "$priv"
  else
    git -C /repo diff --quiet || { echo "/repo has uncommitted changes"; exit 2; }
    git -C /repo apply "$ROOT/seeded/$id/patch.diff" || exit 2
    mkdir -p "$ROOT/.work/alt/$id"      # evidence/ and replays/ of this run go to a side directory: /verif/evidence describes /repo itself
    VERIF_OUT_DIR="$ROOT/.work/alt/$id" "$ROOT/bin/check" "$prop" "$tier" > "$ROOT/.work/seeded-$id-$prop.log" 2>&1; rc=$?
    git -C /repo checkout -- .
  fi
  tail -4 "$ROOT/.work/seeded-$id-$prop.log"
  echo "seeded $id on $prop $tier: exit $rc"
  exit $rc
fi
