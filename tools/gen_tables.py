#!/usr/bin/env python3
"""Translate the coefficient tables of pymeeus (and the one-line per-planet wrappers around the
VSOP87 evaluators) from the CURRENT source into Lean.

Reads (Python `ast`, stdlib only; repo location from VERIF_REPO, default /repo):
  pymeeus/{Mercury,...,Neptune}.py : VSOP87_L/B/R (Earth: also VSOP87_L_J2000/B_J2000), ORBITAL_ELEM,
                                     ORBITAL_ELEM_J2000 and the wrapper methods listed in WRAPPERS
  pymeeus/Coordinates.py           : NUTATION_ARG_TABLE / NUTATION_SINE_COEF_TABLE / NUTATION_COSINE_COEF_TABLE
                                     and the default values of `tofk5` / `nutation`
  pymeeus/Pluto.py                 : PLUTO_ARGUMENT / _LONGITUDE / _LATITUDE / _RADIUS_VECTOR

Writes (only when the text changes; lean/PymeeusTables and everything below lean/Pymeeus/Gen are git-ignored;
lean/PymeeusTables is a library of its own in lakefile.toml so that its huge literals are compiled to C
with -O0: at -O3 the C compiler needs 2-5 minutes per planet, at -O0 a few seconds):
  lean/PymeeusTables/Scale.lean           decimal exponents used for the scaled integers
  lean/PymeeusTables/<Planet>.lean        every VSOP series as chunked `List (Int × Int × Int)` (the decimal
                                          literal of the source times 10^exp, exact), plus, per table, the
                                          per-series sums of |A| and |A*C| -- computed here AND re-checked
                                          by the Lean kernel (`decide +kernel`) against the emitted lists
  lean/Pymeeus/Gen/{R,F}/TablesSmall.lean the small tables as `Num` literals, written as in the source
  lean/Pymeeus/Gen/{R,F}/VsopPlanets.lean the per-planet tables converted to `Num` and the wrappers

The F (binary64) model and the R (real) model therefore read the SAME generated integers; the
conversion integer -> double is correctly rounded (see `numOfScaled` in templates/Vsop.lean), which is
what CPython's parser does with the decimal literal.  The driver function `table_digest` lets the
harness compare every converted double with the module attribute of the running pymeeus.

Anything that is not of the expected shape makes this script fail (exit 1): never guess.
"""
import ast
import os
import sys
from decimal import Decimal

HERE = os.path.dirname(os.path.abspath(__file__))
LEAN = os.environ.get('VERIF_LEAN_DIR') or os.path.join(HERE, '..', 'lean')
REPO = os.environ.get('VERIF_REPO', '/repo')
PLANETS = ['Mercury', 'Venus', 'Earth', 'Mars', 'Jupiter', 'Saturn', 'Uranus', 'Neptune']
CHUNK = 200

# wrapper methods translated for every planet class that defines them
WRAPPERS = ['geometric_heliocentric_position', 'apparent_heliocentric_position',
            'geometric_heliocentric_position_j2000', 'orbital_elements_mean_equinox', 'orbital_elements_j2000']
CALLEES = {'geometric_vsop_pos': ('vsop', 'tofk5'), 'apparent_vsop_pos': ('vsop', 'nutation'),
           'orbital_elements': ('elem', None)}


class Fail(Exception):
    pass


def fail(msg):
    raise Fail(msg)


class Module:
    def __init__(self, name):
        self.name = name
        self.path = os.path.join(REPO, 'pymeeus', name + '.py')
        try:
            self.src = open(self.path).read()
        except OSError as e:
            fail('cannot read %s: %s' % (self.path, e))
        self.lines = self.src.split('\n')
        try:
            self.tree = ast.parse(self.src)
        except SyntaxError as e:
            fail('cannot parse %s: %s' % (self.path, e))

    def assign(self, var):
        hits = [n for n in self.tree.body if isinstance(n, ast.Assign) and len(n.targets) == 1
                and isinstance(n.targets[0], ast.Name) and n.targets[0].id == var]
        if len(hits) != 1:
            fail('%s: expected exactly one module-level assignment of %s, found %d' % (self.name, var, len(hits)))
        return hits[0].value

    def has(self, var):
        return any(isinstance(n, ast.Assign) and len(n.targets) == 1 and isinstance(n.targets[0], ast.Name)
                   and n.targets[0].id == var for n in self.tree.body)

    def text(self, node):
        if node.lineno != node.end_lineno:
            fail('%s:%d: multi-line literal' % (self.name, node.lineno))
        return self.lines[node.lineno - 1].encode()[node.col_offset:node.end_col_offset].decode()

    def number(self, node):
        """(Decimal exact value as written, is_int_literal, python value)."""
        neg = False
        n = node
        while isinstance(n, ast.UnaryOp) and isinstance(n.op, (ast.USub, ast.UAdd)):
            if isinstance(n.op, ast.USub):
                neg = not neg
            n = n.operand
        if not (isinstance(n, ast.Constant) and type(n.value) in (int, float)):
            fail('%s:%d: not a numeric literal: %s' % (self.name, node.lineno, ast.dump(node)[:80]))
        txt = self.text(n).replace('_', '')
        try:
            d = Decimal(txt)
        except Exception:
            fail('%s:%d: cannot read literal %r' % (self.name, node.lineno, txt))
        if type(n.value) is float and float(txt) != n.value:
            fail('%s:%d: literal text %r does not evaluate to %r' % (self.name, node.lineno, txt, n.value))
        if type(n.value) is int and int(d) != n.value:
            fail('%s:%d: literal text %r does not evaluate to %r' % (self.name, node.lineno, txt, n.value))
        if not d.is_finite():
            fail('%s:%d: non-finite literal' % (self.name, node.lineno))
        return (-d if neg else d), type(n.value) is int

    def rows(self, var, width=None, depth=2):
        """A table of numbers: list/tuple of list/tuple of numeric literals -> [[(Decimal, isint)]]"""
        v = self.assign(var)
        if not isinstance(v, (ast.List, ast.Tuple)):
            fail('%s.%s is not a list literal' % (self.name, var))
        out = []
        for r in v.elts:
            if not isinstance(r, (ast.List, ast.Tuple)):
                fail('%s.%s: row is not a list literal (line %d)' % (self.name, var, r.lineno))
            row = [self.number(e) for e in r.elts]
            if width is not None and len(row) != width:
                fail('%s.%s: row of length %d, expected %d (line %d)' % (self.name, var, len(row), width, r.lineno))
            out.append(row)
        return out

    def vsop(self, var):
        v = self.assign(var)
        if not isinstance(v, ast.List):
            fail('%s.%s is not a list literal' % (self.name, var))
        out = []
        for s in v.elts:
            if not isinstance(s, ast.List):
                fail('%s.%s: series is not a list (line %d)' % (self.name, var, s.lineno))
            ser = []
            for term in s.elts:
                if not (isinstance(term, (ast.List, ast.Tuple)) and len(term.elts) == 3):
                    fail('%s.%s: term is not a triple (line %d)' % (self.name, var, term.lineno))
                ser.append(tuple(self.number(e)[0] for e in term.elts))
            out.append(ser)
        return out


def decimals(d):
    d = d.normalize()
    e = -d.as_tuple().exponent
    return max(e, 0)


def scaled(d, k):
    v = d.scaleb(k)
    if v != v.to_integral_value():
        fail('internal: %s * 10^%d is not an integer' % (d, k))
    return int(v)


def lean_int(n):
    return str(n) if n >= 0 else '(%d)' % n


def lean_num(d, isint):
    """A literal of type Num, written like the source (Lean reads decimal literals correctly rounded)."""
    neg = d.is_signed() and d != 0
    a = -d if d.is_signed() else d
    if isint:
        s = str(int(a))
    else:
        s = format(a, 'f')
        if '.' not in s:
            s += '.0'
    if d.is_signed() and d == 0:
        return '(-0.0)' if not isint else '0'
    return '(-%s)' % s if neg else s


def write(path, text):
    os.makedirs(os.path.dirname(path), exist_ok=True)
    if os.path.exists(path) and open(path).read() == text:
        return 0
    with open(path, 'w') as f:
        f.write(text)
    return 1


def emit_vsop_module(planet, tables, exps):
    """tables: {'L': [[(A,B,C) Decimals]], ...}"""
    ea, eb, ec = exps
    o = ['-- GENERATED by tools/gen_tables.py from pymeeus/%s.py; do not edit.' % planet,
         'import Pymeeus.TableDefs',
         'import PymeeusTables.Scale',
         'namespace Pymeeus.Tables.%s' % planet,
         'open Pymeeus.Tables', '']
    for key, series in tables.items():
        names = []
        sums_a, sums_ac = [], []
        for i, ser in enumerate(series):
            trip = [(scaled(a, ea), scaled(b, eb), scaled(c, ec)) for (a, b, c) in ser]
            sums_a.append(sum(abs(t[0]) for t in trip))
            sums_ac.append(sum(abs(t[0] * t[2]) for t in trip))
            chunks = [trip[j:j + CHUNK] for j in range(0, len(trip), CHUNK)] or [[]]
            cn = []
            for j, ch in enumerate(chunks):
                nm = '%s%d_%d' % (key, i, j)
                cn.append(nm)
                o.append('def %s : List Term3 := [' % nm)
                o.append(',\n'.join('  (%s, %s, %s)' % (lean_int(a), lean_int(b), lean_int(c)) for a, b, c in ch) + ']')
            o.append('/-- series %d of VSOP87 table %s of %s (%d terms), scaled by 10^(%d, %d, %d) -/' %
                     (i, key, planet, len(trip), ea, eb, ec))
            o.append('def %s%d : List Term3 := %s' % (key, i, ' ++ '.join(cn)))
            names.append('%s%d' % (key, i))
        o.append('def %s : List (List Term3) := [%s]' % (key, ', '.join(names)))
        o.append('/-- per-series sums of |A| (scaled by 10^expA): computed by the translator, re-checked by the kernel -/')
        o.append('theorem %s_sumAbsA : %s.map sumAbsA = [%s] := by decide +kernel' % (key, key, ', '.join(map(str, sums_a))))
        o.append('/-- per-series sums of |A*C| (scaled by 10^(expA+expC)) -/')
        o.append('theorem %s_sumAbsAC : %s.map sumAbsAC = [%s] := by decide +kernel' % (key, key, ', '.join(map(str, sums_ac))))
        o.append('theorem %s_lengths : %s.map List.length = [%s] := by decide +kernel' % (key, key, ', '.join(str(len(s)) for s in series)))
        if series and series[0]:
            a, b, c = series[0][0]
            o.append('/-- the first term of series 0 (for R: the mean distance, for L: the mean longitude at J2000.0) -/')
            o.append('theorem %s_lead0 : (%s.getD 0 []).head? = some (%s, %s, %s) := by decide +kernel' % (
                key, key, lean_int(scaled(a, ea)), lean_int(scaled(b, eb)), lean_int(scaled(c, ec))))
        if len(series) > 1 and series[1]:
            a, b, c = series[1][0]
            o.append('/-- the leading term of series 1 (for L: the mean motion, A*t with B = C = 0) -/')
            o.append('theorem %s_lead1 : (%s.getD 1 []).head? = some (%s, %s, %s) := by decide +kernel' % (
                key, key, lean_int(scaled(a, ea)), lean_int(scaled(b, eb)), lean_int(scaled(c, ec))))
        if len(series) > 2 and series[2]:
            a, b, c = series[2][0]
            o.append('/-- the first term of series 2 (for most L tables: the secular acceleration, A*t^2 with B = C = 0) -/')
            o.append('theorem %s_lead2 : (%s.getD 2 []).head? = some (%s, %s, %s) := by decide +kernel' % (
                key, key, lean_int(scaled(a, ea)), lean_int(scaled(b, eb)), lean_int(scaled(c, ec))))
        if series and len(series[0]) > 2:
            o.append('/-- the second and third term of series 0 -/')
            o.append('theorem %s_s0_t1 : (%s.getD 0 []).getD 1 (0, 0, 0) = (%s, %s, %s) := by decide +kernel' % (
                (key, key) + tuple(lean_int(scaled(v, e)) for v, e in zip(series[0][1], (ea, eb, ec)))))
            o.append('theorem %s_s0_t2 : (%s.getD 0 []).getD 2 (0, 0, 0) = (%s, %s, %s) := by decide +kernel' % (
                (key, key) + tuple(lean_int(scaled(v, e)) for v, e in zip(series[0][2], (ea, eb, ec)))))
        o.append('')
    o.append('end Pymeeus.Tables.%s' % planet)
    return '\n'.join(o) + '\n'


def num_rows(rows):
    return '[' + ',\n   '.join('[' + ', '.join(lean_num(d, i) for d, i in r) + ']' for r in rows) + ']'


def emit_small(kind, small):
    hdr = ['-- GENERATED by tools/gen_tables.py (K = %s) from the tables of pymeeus; do not edit.' % kind,
           'import Pymeeus.Pre%s' % kind]
    if kind == 'R':
        hdr.append('noncomputable section')
    hdr += ['namespace Pymeeus.Gen%s' % kind, 'open Pymeeus Pymeeus.P%s' % kind, 'namespace Helio', '']
    o = hdr
    for p in PLANETS:
        for var in ('ORBITAL_ELEM', 'ORBITAL_ELEM_J2000'):
            o.append('/-- `%s.%s` (rows of 4 coefficients) -/' % (p, var))
            o.append('def %s_%s : List (List Num) :=\n  %s' % (p, var, num_rows(small[(p, var)])))
    o.append('/-- `Coordinates.NUTATION_ARG_TABLE` -/')
    o.append('def NUTATION_ARG_TABLE : List (List Int) :=\n  [' + ',\n   '.join(
        '[' + ', '.join(lean_int(int(d)) for d, _ in r) + ']' for r in small['NUTATION_ARG_TABLE']) + ']')
    for var in ('NUTATION_SINE_COEF_TABLE', 'NUTATION_COSINE_COEF_TABLE'):
        o.append('/-- `Coordinates.%s` -/' % var)
        o.append('def %s : List (List Num) :=\n  %s' % (var, num_rows(small[var])))
    for var in ('PLUTO_ARGUMENT', 'PLUTO_LONGITUDE', 'PLUTO_LATITUDE', 'PLUTO_RADIUS_VECTOR'):
        o.append('/-- `Pluto.%s` -/' % var)
        o.append('def %s : List (List Num) :=\n  %s' % (var, num_rows(small[var])))
    o.append('')
    o.append('end Helio')
    o.append('end Pymeeus.Gen%s' % kind)
    return '\n'.join(o) + '\n'


def default_of(mod, fn, param):
    for n in mod.tree.body:
        if isinstance(n, ast.FunctionDef) and n.name == fn:
            args = n.args.args
            defs = n.args.defaults
            names = [a.arg for a in args]
            if param not in names:
                fail('Coordinates.%s has no parameter %s' % (fn, param))
            k = names.index(param) - (len(names) - len(defs))
            if k < 0:
                fail('Coordinates.%s: parameter %s has no default' % (fn, param))
            d = defs[k]
            if not (isinstance(d, ast.Constant) and isinstance(d.value, bool)):
                fail('Coordinates.%s: default of %s is not a bool literal' % (fn, param))
            return names, d.value
    fail('Coordinates.%s not found' % fn)


def callee_params(mod, fn):
    for n in mod.tree.body:
        if isinstance(n, ast.FunctionDef) and n.name == fn:
            return [a.arg for a in n.args.args]
    fail('Coordinates.%s not found' % fn)


def wrappers(mods, coord):
    """Translate the one-line wrapper methods: [(planet, method, params, callee, [table vars], flag expr)]"""
    out = []
    sigs = {}
    for callee, (kind, flag) in CALLEES.items():
        if flag:
            sigs[callee] = default_of(coord, callee, flag)
    for p in PLANETS:
        cls = [n for n in mods[p].tree.body if isinstance(n, ast.ClassDef) and n.name == p]
        if len(cls) != 1:
            fail('%s: class %s not found' % (p, p))
        for f in cls[0].body:
            if not (isinstance(f, ast.FunctionDef) and f.name in WRAPPERS):
                continue
            where = '%s.%s' % (p, f.name)
            if not any(isinstance(d, ast.Name) and d.id == 'staticmethod' for d in f.decorator_list):
                fail(where + ': not a staticmethod')
            body = f.body
            if body and isinstance(body[0], ast.Expr) and isinstance(body[0].value, ast.Constant) \
                    and isinstance(body[0].value.value, str):
                body = body[1:]
            # accepted bodies:  `return f(...)`   or   `a, b, c = f(...)` / `res = f(...)` followed by a `return` of
            # exactly those names in that order (the same value, named first)
            # leading `alias = NAME` / `a, b = X, Y` statements (each alias bound once, to a plain name) are
            # substituted into what follows
            alias = {}
            while len(body) > 1 and isinstance(body[0], ast.Assign) and len(body[0].targets) == 1 \
                    and not isinstance(body[0].value, ast.Call):
                tg, vl = body[0].targets[0], body[0].value
                if isinstance(tg, ast.Name) and isinstance(vl, ast.Name):
                    pairs = [(tg.id, vl.id)]
                elif isinstance(tg, ast.Tuple) and isinstance(vl, ast.Tuple) and len(tg.elts) == len(vl.elts) \
                        and all(isinstance(e, ast.Name) for e in tg.elts + vl.elts):
                    pairs = [(a.id, b.id) for a, b in zip(tg.elts, vl.elts)]
                else:
                    fail(where + ': unsupported statement before the call: ' + ast.unparse(body[0]))
                for a, b in pairs:
                    if a in alias or a in [x.arg for x in f.args.args] or any(a == v for v in alias.values()):
                        fail(where + ': name %s is bound twice' % a)
                for a, b in pairs:            # a tuple assignment evaluates its right side first
                    alias[a] = alias.get(b, b)
                body = body[1:]
            call = None
            if len(body) == 1 and isinstance(body[0], ast.Return) and isinstance(body[0].value, ast.Call):
                call = body[0].value
            elif len(body) == 2 and isinstance(body[0], ast.Assign) and len(body[0].targets) == 1 \
                    and isinstance(body[0].value, ast.Call) and isinstance(body[1], ast.Return) \
                    and body[1].value is not None:
                def names_of(n):
                    if isinstance(n, ast.Name):
                        return [n.id]
                    if isinstance(n, ast.Tuple) and all(isinstance(e, ast.Name) for e in n.elts):
                        return [e.id for e in n.elts]
                    return None
                lhs, rhs = names_of(body[0].targets[0]), names_of(body[1].value)
                if lhs is not None and lhs == rhs and len(set(lhs)) == len(lhs) \
                        and type(body[0].targets[0]) is type(body[1].value):
                    call = body[0].value
            if call is None:
                fail(where + ': body is not a single `return f(...)`')
            if not (isinstance(call.func, ast.Name) and call.func.id in CALLEES):
                fail(where + ': unexpected callee ' + ast.unparse(call.func))
            kind, flag = CALLEES[call.func.id]
            params = [a.arg for a in f.args.args]
            pdef = {}
            nd = len(f.args.defaults)
            for a, d in zip(params[len(params) - nd:], f.args.defaults):
                if not (isinstance(d, ast.Constant) and isinstance(d.value, bool)):
                    fail(where + ': default is not a bool literal')
                pdef[a] = d.value
            if f.args.vararg or f.args.kwarg or f.args.kwonlyargs:
                fail(where + ': unexpected signature')
            # keyword arguments are put in the callee's positional order
            args = list(call.args)
            if call.keywords:
                cnames = callee_params(coord, call.func.id)
                if any(k.arg is None for k in call.keywords) or len(args) > len(cnames):
                    fail(where + ': unexpected keyword arguments')
                slots = dict(zip(cnames, args))
                for k in call.keywords:
                    if k.arg not in cnames or k.arg in slots:
                        fail(where + ': unexpected keyword argument ' + str(k.arg))
                    slots[k.arg] = k.value
                args = []
                for cn in cnames:
                    if cn in slots:
                        args.append(slots[cn])
                    elif any(c in slots for c in cnames[cnames.index(cn) + 1:]):
                        fail(where + ': keyword arguments skip parameter ' + cn)
                    else:
                        break
            def plain(a):
                if isinstance(a, ast.Name):
                    return a.id
                if isinstance(a, ast.Constant) and isinstance(a.value, bool):
                    return 'true' if a.value else 'false'
                return None
            an = [plain(a) for a in args]
            an = [alias.get(a, a) if a is not None else None for a in an]
            if any(a is None for a in an):
                fail(where + ': arguments are not plain names')
            if not an or an[0] != 'epoch' or params[:1] != ['epoch']:
                fail(where + ': first argument is not epoch')
            ntab = 3 if kind == 'vsop' else 2
            tabs = an[1:1 + ntab]
            if len(tabs) != ntab:
                fail(where + ': wrong number of table arguments')
            for t in tabs:
                if not mods[p].has(t):
                    fail(where + ': %s is not a module-level table of %s.py' % (t, p))
            rest = an[1 + ntab:]
            flagexpr = None
            if kind == 'vsop':
                if len(rest) == 0:
                    flagexpr = 'true' if sigs[call.func.id][1] else 'false'
                elif len(rest) == 1 and (rest[0] in params[1:] or rest[0] in ('true', 'false')):
                    flagexpr = rest[0]
                else:
                    fail(where + ': unexpected trailing arguments')
            elif rest:
                fail(where + ': unexpected trailing arguments')
            extra = params[1:]
            if any(e not in pdef for e in extra):
                fail(where + ': extra parameter without default')
            out.append((p, f.name, extra, pdef, call.func.id, tabs, flagexpr))
    return out


def emit_planets(kind, vs_tables, wr):
    o = ['-- GENERATED by tools/gen_tables.py (K = %s): per-planet tables as `Num` and the wrapper methods; do not edit.' % kind,
         'import Pymeeus.Gen.%s.Vsop' % kind]
    o += ['import PymeeusTables.%s' % p for p in PLANETS]
    if kind == 'R':
        o.append('noncomputable section')
    o += ['namespace Pymeeus.Gen%s' % kind, 'open Pymeeus Pymeeus.P%s' % kind, 'namespace Helio', '']
    for p in PLANETS:
        for key in vs_tables[p]:
            o.append('/-- `%s.%s` as numbers (the generated integers divided by their scale) -/' % (p, VS_NAME[key]))
            o.append('def %s_%s : VsopTable := vsopOfScaled Tables.%s.%s' % (p, VS_NAME[key], p, key))
    o.append('')
    by_method = {}
    for (p, m, extra, pdef, callee, tabs, flagexpr) in wr:
        by_method.setdefault(m, []).append(p)
        ps = ' '.join('(%s : Bool)' % e for e in extra)
        targs = ' '.join('%s_%s' % (p, t) for t in tabs)
        o.append('/-- `%s.%s(epoch%s)`: `return %s(epoch, %s%s)` -/' % (
            p, m, ''.join(', %s=%s' % (e, pdef[e]) for e in extra), callee, ', '.join(tabs),
            (', ' + flagexpr) if (flagexpr and flagexpr in extra) else ''))
        if CALLEES[callee][0] == 'vsop':
            o.append('def %s_%s (epoch : Num) %s : PyRes (Num × Num × Num) :=\n  %s epoch %s %s' % (
                p, m, ps, callee, targs, flagexpr))
        else:
            o.append('def %s_%s (epoch : Num) : PyRes (Num × Num × Num × Num × Num × Num) :=\n  %s epoch %s' % (
                p, m, callee, targs))
    o.append('')
    # dispatch by planet name (used by the driver and by the geocentric model)
    for m, ps in by_method.items():
        ws = [w for w in wr if w[1] == m]
        # parameters every planet's method has; a planet with more gets its own default for the others
        common = [e for e in ws[0][2] if all(e in w[2] for w in ws)]
        psig = ' '.join('(%s : Bool)' % e for e in common)
        rty = 'PyRes (Num × Num × Num)' if CALLEES[ws[0][4]][0] == 'vsop' else 'PyRes (Num × Num × Num × Num × Num × Num)'
        o.append('def planet_%s (planet : String) (epoch : Num) %s : %s :=' % (m, psig, rty))
        o.append('  match planet with')
        for w in ws:
            args = [e if e in common else ('true' if w[3][e] else 'false') for e in w[2]]
            o.append('  | "%s" => %s_%s epoch %s' % (w[0], w[0], m, ' '.join(args)))
        o.append('  | _ => .error .other')
    o.append('/-- the three VSOP87 tables of a planet, by name -/')
    o.append('def planet_vsop (planet : String) : Option (VsopTable × VsopTable × VsopTable) :=')
    o.append('  match planet with')
    for p in PLANETS:
        o.append('  | "%s" => some (%s_VSOP87_L, %s_VSOP87_B, %s_VSOP87_R)' % (p, p, p, p))
    o.append('  | "Earth_J2000" => some (Earth_VSOP87_L_J2000, Earth_VSOP87_B_J2000, Earth_VSOP87_R)')
    o.append('  | _ => none')
    o.append('')
    o.append('end Helio')
    o.append('end Pymeeus.Gen%s' % kind)
    return '\n'.join(o) + '\n'


VS_NAME = {'L': 'VSOP87_L', 'B': 'VSOP87_B', 'R': 'VSOP87_R', 'LJ': 'VSOP87_L_J2000', 'BJ': 'VSOP87_B_J2000'}


def main():
    mods = {p: Module(p) for p in PLANETS}
    coord = Module('Coordinates')
    pluto = Module('Pluto')
    # ---- VSOP tables
    vs = {}
    for p in PLANETS:
        vs[p] = {'L': mods[p].vsop('VSOP87_L'), 'B': mods[p].vsop('VSOP87_B'), 'R': mods[p].vsop('VSOP87_R')}
        if p == 'Earth':
            vs[p]['LJ'] = mods[p].vsop('VSOP87_L_J2000')
            vs[p]['BJ'] = mods[p].vsop('VSOP87_B_J2000')
        for k, t in vs[p].items():
            if not t or any(len(s) == 0 for s in t[:1]):
                fail('%s.%s: empty table' % (p, VS_NAME[k]))
    exps = [0, 0, 0]
    for p in PLANETS:
        for t in vs[p].values():
            for s in t:
                for term in s:
                    for j in range(3):
                        exps[j] = max(exps[j], decimals(term[j]))
    if max(exps) > 30:
        fail('a VSOP coefficient has more than 30 decimals')
    changed = 0
    tdir = os.path.join(LEAN, 'PymeeusTables')
    changed += write(os.path.join(tdir, 'Scale.lean'),
                     '-- GENERATED by tools/gen_tables.py; do not edit.\n'
                     'namespace Pymeeus.Tables\n'
                     '/-- number of decimals kept for the amplitude A / phase B / frequency C of every VSOP87 term\n'
                     '    (the maximum found in the source) -/\n'
                     'def expA : Nat := %d\ndef expB : Nat := %d\ndef expC : Nat := %d\n'
                     'end Pymeeus.Tables\n' % tuple(exps))
    for p in PLANETS:
        changed += write(os.path.join(tdir, p + '.lean'), emit_vsop_module(p, vs[p], exps))
    # ---- small tables
    small = {}
    for p in PLANETS:
        oe = mods[p].rows('ORBITAL_ELEM', 4)
        oj = mods[p].rows('ORBITAL_ELEM_J2000', 4)
        small[(p, 'ORBITAL_ELEM')] = oe
        small[(p, 'ORBITAL_ELEM_J2000')] = oj
    arg = coord.rows('NUTATION_ARG_TABLE', 5)
    if not all(i for r in arg for _, i in r):
        fail('NUTATION_ARG_TABLE: non-integer entry')
    sine = coord.rows('NUTATION_SINE_COEF_TABLE', 2)
    cosi = coord.rows('NUTATION_COSINE_COEF_TABLE', 2)
    if len(arg) < len(sine) or len(arg) < len(cosi):
        fail('nutation coefficient table longer than the argument table')
    small['NUTATION_ARG_TABLE'] = arg
    small['NUTATION_SINE_COEF_TABLE'] = sine
    small['NUTATION_COSINE_COEF_TABLE'] = cosi
    pa = pluto.rows('PLUTO_ARGUMENT', 3)
    for var in ('PLUTO_LONGITUDE', 'PLUTO_LATITUDE', 'PLUTO_RADIUS_VECTOR'):
        small[var] = pluto.rows(var, 2)
        if len(small[var]) < len(pa):
            fail('%s shorter than PLUTO_ARGUMENT' % var)
    small['PLUTO_ARGUMENT'] = pa
    wr = wrappers(mods, coord)
    for kind in ('R', 'F'):
        changed += write(os.path.join(LEAN, 'Pymeeus', 'Gen', kind, 'TablesSmall.lean'), emit_small(kind, small))
        changed += write(os.path.join(LEAN, 'Pymeeus', 'Gen', kind, 'VsopPlanets.lean'), emit_planets(kind, vs, wr))
    print('gen_tables: %d file(s) rewritten (VSOP terms: %d, decimals A/B/C = %d/%d/%d)' % (
        changed, sum(len(s) for p in PLANETS for t in vs[p].values() for s in t), exps[0], exps[1], exps[2]))


if __name__ == '__main__':
    try:
        main()
    except Fail as e:
        sys.stderr.write('gen_tables: FAILED: %s\n' % e)
        sys.exit(1)
