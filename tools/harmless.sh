#!/bin/sh
# tools/harmless.sh keep <scratch-worktree> <id> <property>  : archive a behaviour-preserving refactoring under harmless/<id>/
# tools/harmless.sh run  <id> <property> [quick|thorough]     : apply it to a private copy of /repo, run the check (expected: exit 0)
# tools/harmless.sh all  [tier]                               : run every kept refactoring against the check of its property
set -u
ROOT="$(cd "$(dirname "$0")/.." && pwd)"
cmd="$1"
if [ "$cmd" = keep ]; then
  wt="$2"; id="$3"; prop="$4"
  cd "$wt" || exit 2
  git diff -- pymeeus > /tmp/harmless-$id.diff
  [ -s /tmp/harmless-$id.diff ] || { echo "no diff in $wt"; exit 2; }
  echo "== pytest with change"; /venv/bin/python -m pytest -q -p no:cacheprovider 2>&1 | tail -1
  mkdir -p "$ROOT/harmless/$id"
  mv /tmp/harmless-$id.diff "$ROOT/harmless/$id/patch.diff"
  cp same_$prop.py "$ROOT/harmless/$id/" 2>/dev/null
  cp meta_$prop.json "$ROOT/harmless/$id/meta.json" 2>/dev/null || echo "{\"property\": \"$prop\"}" > "$ROOT/harmless/$id/meta.json"
  echo "kept as harmless/$id ($(grep -c '^@@' "$ROOT/harmless/$id/patch.diff") hunks)"
elif [ "$cmd" = run ]; then
  id="$2"; prop="$3"; tier="${4:-quick}"
  mkdir -p "$ROOT/.work"
  copy=/tmp/harmless-repo-$$
  rm -rf "$copy"; git -C /repo worktree add -q --detach "$copy" HEAD || exit 2
  git -C "$copy" apply "$ROOT/harmless/$id/patch.diff" || { git -C /repo worktree remove --force "$copy"; echo "patch does not apply"; exit 2; }
  priv=/tmp/harmless-verif-$$; rm -rf "$priv"; mkdir -p "$priv/work" "$ROOT/.work/alt/$id"
  cp -a "$ROOT/lean" "$priv/lean"
  VERIF_REPO="$copy" VERIF_LEAN_DIR="$priv/lean" VERIF_WORK_DIR="$priv/work" VERIF_OUT_DIR="$ROOT/.work/alt/$id" \
    "$ROOT/bin/check" "$prop" "$tier" > "$ROOT/.work/harmless-$id-$prop.log" 2>&1; rc=$?
  git -C /repo worktree remove --force "$copy"; rm -rf "$priv"
  tail -3 "$ROOT/.work/harmless-$id-$prop.log"
  echo "harmless $id on $prop $tier: exit $rc (expected 0)"
  exit $rc
elif [ "$cmd" = all ]; then
  tier="${2:-quick}"
  for d in "$ROOT"/harmless/*/; do
    id=$(basename "$d"); prop=$(python3 -c "import json;print(json.load(open('$d/meta.json'))['property'])")
    "$0" run "$id" "$prop" "$tier" > "$ROOT/.work/harmless-all-$id.log" 2>&1; rc=$?
    echo "$id $prop exit=$rc $(grep -o 'VIOLATION.*' "$ROOT/.work/harmless-all-$id.log" | head -1 | cut -c1-140)"
  done
fi
