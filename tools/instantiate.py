#!/usr/bin/env python3
"""Instantiate the model templates at Num = Rat (Q), Float (F) and Real (R).

A template is one Lean text in which `@K@` stands for the instantiation letter.  A first
line `--! kinds: Q F` restricts the instantiations (default Q F).  Files are rewritten only
when their text changes, so lake rebuilds nothing on an unchanged tree.
"""
import os, sys, re
HERE = os.path.dirname(os.path.abspath(__file__))
LEAN = os.path.join(HERE, '..', 'lean')
TPL = os.path.join(LEAN, 'templates')

def main():
    changed = 0
    for fn in sorted(os.listdir(TPL)):
        if not fn.endswith('.lean'):
            continue
        text = open(os.path.join(TPL, fn)).read()
        kinds = ['Q', 'F']
        m = re.match(r'--! kinds: ([A-Z ]+)\n', text)
        if m:
            kinds = m.group(1).split()
            text = text[m.end():]
        for k in kinds:
            out = text.replace('@K@', k)
            if k == 'R':
                out = out.replace('\nnamespace Pymeeus.GenR', '\nnoncomputable section\nnamespace Pymeeus.GenR', 1)
            # blocks reserved to some instantiations:  --@only F ... --@end
            def keep(mm):
                return mm.group(2) if k in mm.group(1).split() else ''
            out = re.sub(r'--@only ([A-Z ]+)\n(.*?)--@end\n', keep, out, flags=re.S)
            d = os.path.join(LEAN, 'Pymeeus', 'Gen', k)
            os.makedirs(d, exist_ok=True)
            p = os.path.join(d, fn)
            hdr = f"-- GENERATED from templates/{fn} by tools/instantiate.py (K = {k}); do not edit.\n"
            out = hdr + out
            if not os.path.exists(p) or open(p).read() != out:
                open(p, 'w').write(out)
                changed += 1
    print(f"instantiate: {changed} file(s) rewritten")

if __name__ == '__main__':
    main()
