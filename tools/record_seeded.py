#!/usr/bin/env python3
"""tools/record_seeded.py <id> <property> "<change>" "<needs>" "<caught by>"  : fill seeded/<id>/meta.json and the DESIGN.md table"""
import json, sys, os
ROOT = os.path.dirname(os.path.dirname(os.path.abspath(__file__)))
sid, prop, change, needs, caught = sys.argv[1:6]
p = os.path.join(ROOT, 'seeded', sid, 'meta.json')
j = json.load(open(p)) if os.path.exists(p) else {}
j.update({'breaks': prop,
          'confirmed': 'demo exits 1 with the patch and 0 without in a scratch worktree; repository suite unchanged (250 passed, 1 pre-existing failure)',
          'ran': 'tools/seeded.sh run %s %s quick' % (sid, prop), 'result': caught, 'needs': j.get('needs', needs)})
json.dump(j, open(p, 'w'), indent=1)
d = os.path.join(ROOT, 'DESIGN.md')
s = open(d).read()
row = '| %s | %s | %s | %s |\n' % (sid, change, needs, caught)
marker = '| id | change | needs | caught by |\n|---|---|---|---|\n'
i = s.index(marker) + len(marker)
# append after the last row of the table
j2 = i
while s.startswith('|', j2):
    j2 = s.index('\n', j2) + 1
s = s[:j2] + row + s[j2:]
open(d, 'w').write(s)
print('recorded', sid)
