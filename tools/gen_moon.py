#!/usr/bin/env python3
"""Translator for the regular parts of pymeeus/Moon.py  ->  lean/Pymeeus/Gen/MoonData.lean

Reads the CURRENT source (env VERIF_REPO, default /repo) with `ast` (stdlib only) and emits, as
values of the types of lean/Pymeeus/Lemmas/MoonTypes.lean:

* `tableLR`, `tableB`: PERIODIC_TERMS_LR_TABLE / PERIODIC_TERMS_B_TABLE (Meeus 47.A / 47.B);
* one `List Term` per "sum of periodic terms" expression of the module (the list EXPECTED below):
  the additive terms of Σl / Σb, the correction of the true node, and every `corr`, `corr2`, `w`,
  `parallax`, `cor2` expression of the four event finders, per target branch.

Every number is the exact decimal of the literal's source text (`m`, `e` with value m·10^-e).
The hand-written evaluators of lean/templates/Moon.lean interpret these data; the control flow,
the polynomials and the Angle plumbing stay hand-written there.

The translator never guesses: any table row, statement, branch or expression whose shape is not
the one described here makes it exit non-zero (which breaks the build, hence the check).
"""
import ast
import decimal
import os
import sys

REPO = os.environ.get('VERIF_REPO', '/repo')
HERE = os.path.dirname(os.path.abspath(__file__))
OUT = os.path.join(os.environ.get('VERIF_LEAN_DIR') or os.path.join(HERE, '..', 'lean'), 'Pymeeus', 'Gen', 'MoonData.lean')
SRC = os.path.join(REPO, 'pymeeus', 'Moon.py')


_SEG_CACHE = {}


def _fast_segment(source, node):
    """ast.get_source_segment without re-splitting the whole file on every call (that is quadratic)."""
    key = id(source)
    ent = _SEG_CACHE.get(key)
    if ent is None or ent[0] is not source:
        ent = (source, ast._splitlines_no_ff(source))
        _SEG_CACHE[key] = ent
    lines = ent[1]
    try:
        l0, l1, c0, c1 = node.lineno - 1, node.end_lineno - 1, node.col_offset, node.end_col_offset
    except AttributeError:
        return None
    if l0 == l1:
        return lines[l0].encode()[c0:c1].decode()
    first = lines[l0].encode()[c0:].decode()
    last = lines[l1].encode()[:c1].decode()
    return ''.join([first] + lines[l0 + 1:l1] + [last])



class Reject(Exception):
    pass


def fail(node, msg):
    ln = getattr(node, 'lineno', '?')
    raise Reject('Moon.py:%s: %s' % (ln, msg))


# ----------------------------------------------------------------------------- literals
def dec_of_text(text, node):
    """Exact decimal of a numeric literal's source text -> (m, e), value m * 10**-e, normalised."""
    t = text.strip().replace('_', '')
    try:
        d = decimal.Decimal(t)
    except decimal.InvalidOperation:
        fail(node, 'not a decimal literal: %r' % text)
    if not d.is_finite():
        fail(node, 'non-finite literal %r' % text)
    sign, digits, exp = d.as_tuple()
    m = int(''.join(map(str, digits)) or '0')
    if exp > 0:
        m *= 10 ** exp
        exp = 0
    e = -exp
    while e > 0 and m % 10 == 0:
        m //= 10
        e -= 1
    if m == 0:
        e = 0
    return (-m if sign else m, e)


class Src:
    def __init__(self, text):
        self.text = text
        self.tree = ast.parse(text)

    def seg(self, node):
        s = _fast_segment(self.text, node)
        if s is None:
            fail(node, 'no source segment')
        return s

    def number(self, node, want=None):
        """Signed numeric literal -> (m, e). `want` = int | float restricts the Python type."""
        neg = False
        n = node
        if isinstance(n, ast.UnaryOp) and isinstance(n.op, ast.USub):
            neg = True
            n = n.operand
        if not (isinstance(n, ast.Constant) and type(n.value) in (int, float)):
            fail(node, 'expected a numeric literal, found %s' % ast.dump(node)[:80])
        if want is not None and type(n.value) is not want:
            fail(node, 'expected a %s literal, found %r' % (want.__name__, n.value))
        m, e = dec_of_text(self.seg(n), n)
        # the decimal must denote the double Python uses (sanity: same value after float())
        if float(decimal.Decimal(m).scaleb(-e)) != float(n.value):
            fail(node, 'literal text and value disagree')
        return (-m if neg else m, e)


def lean_dec(d):
    m, e = d
    return '⟨%d, %d⟩' % (m, e) if m >= 0 else '⟨(%d), %d⟩' % (m, e)


# ----------------------------------------------------------------------------- tables
def table(src, name, nfloat):
    node = None
    for st in src.tree.body:
        if isinstance(st, ast.Assign) and len(st.targets) == 1 and isinstance(st.targets[0], ast.Name) \
                and st.targets[0].id == name:
            if node is not None:
                fail(st, '%s assigned twice' % name)
            node = st
    if node is None:
        raise Reject('table %s not found' % name)
    if not isinstance(node.value, ast.List):
        fail(node, '%s is not a list literal' % name)
    rows = []
    for r in node.value.elts:
        if not isinstance(r, ast.List) or len(r.elts) != 4 + nfloat:
            fail(r, 'row of %s is not a list of %d entries' % (name, 4 + nfloat))
        ints = []
        for x in r.elts[:4]:
            m, e = src.number(x, int)
            ints.append(m)
        coefs = [src.number(x, float) for x in r.elts[4:]]
        rows.append((ints, coefs))
    if not rows:
        fail(node, 'empty table')
    return rows


# ----------------------------------------------------------------------------- term sums
def flatten_sum(node):
    """Left-associated chain of + / - -> [(sign, term_node)] in source order."""
    if isinstance(node, ast.BinOp) and isinstance(node.op, (ast.Add, ast.Sub)):
        if isinstance(node.right, ast.BinOp) and isinstance(node.right.op, (ast.Add, ast.Sub)):
            fail(node.right, 'parenthesised sub-sum on the right of + / - (evaluation order would differ)')
        left = flatten_sum(node.left)
        return left + [(-1 if isinstance(node.op, ast.Sub) else 1, node.right)]
    return [(1, node)]


def flatten_prod(node):
    """Left-associated chain of * -> [factor nodes]."""
    if isinstance(node, ast.BinOp) and isinstance(node.op, ast.Mult):
        return flatten_prod(node.left) + [node.right]
    return [node]


def arg_expr(src, node, vars_):
    if isinstance(node, ast.Name):
        if node.id not in vars_:
            fail(node, 'unknown variable %r in an argument (known: %s)' % (node.id, ', '.join(vars_)))
        return '.var %d' % vars_.index(node.id)
    if isinstance(node, ast.BinOp):
        if isinstance(node.op, ast.Mult):
            c = src.number(node.left, float)
            return '.scale %s (%s)' % (lean_dec(c), arg_expr(src, node.right, vars_))
        if isinstance(node.op, ast.Add):
            return '.add (%s) (%s)' % (arg_expr(src, node.left, vars_), arg_expr(src, node.right, vars_))
        if isinstance(node.op, ast.Sub):
            return '.sub (%s) (%s)' % (arg_expr(src, node.left, vars_), arg_expr(src, node.right, vars_))
    fail(node, 'argument expression not of the form var | c*expr | expr+expr | expr-expr: %s' % src.seg(node))


def amplitude(src, node):
    """c0   or   (c0 + c1 * t) / (c0 - c1 * t)  ->  ((m,e), None | (m,e))"""
    if isinstance(node, ast.BinOp) and isinstance(node.op, (ast.Add, ast.Sub)):
        c0 = src.number(node.left, float)
        r = node.right
        if not (isinstance(r, ast.BinOp) and isinstance(r.op, ast.Mult) and isinstance(r.right, ast.Name)
                and r.right.id == 't'):
            fail(node, 'amplitude not of the form c0 +/- c1 * t: %s' % src.seg(node))
        c1 = src.number(r.left, float)
        if isinstance(node.op, ast.Sub):
            c1 = (-c1[0], c1[1])
        return c0, c1
    return src.number(node, float), None


def term(src, sign, node, vars_):
    fs = flatten_prod(node)
    last = fs[-1]
    if isinstance(last, ast.Call):
        if not (isinstance(last.func, ast.Name) and last.func.id in ('sin', 'cos') and len(last.args) == 1
                and not last.keywords):
            fail(last, 'only sin(x) / cos(x) calls are allowed in a term')
        fn = '.' + last.func.id
        arg = arg_expr(src, last.args[0], vars_)
        fs = fs[:-1]
    else:
        fn = '.one'
        arg = '.var 0'
    if not fs:
        fail(node, 'term without amplitude: %s' % src.seg(node))
    c0, c1 = amplitude(src, fs[0])
    epow = 0
    for f in fs[1:]:
        if not (isinstance(f, ast.Name) and f.id == 'E'):
            fail(f, 'unexpected factor %s in a term (only E is allowed between amplitude and sin/cos)' % src.seg(f))
        epow += 1
    if epow > 2:
        fail(node, 'E to a power > 2')
    if fn == '.one' and (epow or c1 is not None):
        fail(node, 'constant term with E or t factor')
    if sign < 0:
        c0 = (-c0[0], c0[1])
        if c1 is not None:
            c1 = (-c1[0], c1[1])
    c1s = 'none' if c1 is None else '(some %s)' % lean_dec(c1)
    return '⟨%s, %s, %d, %s, %s⟩' % (lean_dec(c0), c1s, epow, fn, arg)


def term_sum(src, node, vars_):
    ts = [term(src, s, n, vars_) for (s, n) in flatten_sum(node)]
    if len(ts) < 2:
        fail(node, 'not a sum of periodic terms')
    return ts


# ----------------------------------------------------------------------------- statements
def is_target_test(src, test):
    """`target == "x"` or `target == "x" or target == "y"` -> tuple of strings, else reject."""
    def one(c):
        if isinstance(c, ast.Compare) and isinstance(c.left, ast.Name) and c.left.id == 'target' \
                and len(c.ops) == 1 and isinstance(c.ops[0], ast.Eq) and len(c.comparators) == 1 \
                and isinstance(c.comparators[0], ast.Constant) and isinstance(c.comparators[0].value, str):
            return c.comparators[0].value
        return None
    if isinstance(test, ast.BoolOp) and isinstance(test.op, ast.Or):
        vals = [one(v) for v in test.values]
        if all(v is not None for v in vals):
            return tuple(vals)
        return None
    v = one(test)
    return (v,) if v is not None else None


def collect(src, fn, watch):
    """All assignments to the watched names in `fn` (descending only into `if`), keyed by
    (name, branch path). Branch path = tuple of ('if'|'else', target strings)."""
    found = {}

    def walk(stmts, path):
        for st in stmts:
            if isinstance(st, ast.If):
                tt = is_target_test(src, st.test)
                if tt is None:
                    # an `if` that is not a target dispatch must not touch the watched names
                    for n in ast.walk(st):
                        if isinstance(n, (ast.Assign, ast.AugAssign)):
                            tg = n.targets[0] if isinstance(n, ast.Assign) else n.target
                            if isinstance(tg, ast.Name) and tg.id in set(watch['assign']) | set(watch['aug']):
                                fail(n, 'watched variable %s assigned under an unrecognised condition' % tg.id)
                    continue
                walk(st.body, path + (('if', tt),))
                walk(st.orelse, path + (('else', tt),))
            elif isinstance(st, (ast.For, ast.While, ast.With, ast.Try)):
                for n in ast.walk(st):
                    if isinstance(n, ast.Assign) and any(isinstance(t, ast.Name) and t.id in watch['assign']
                                                         for t in n.targets):
                        fail(n, 'watched variable assigned inside a loop')
            elif isinstance(st, ast.Assign):
                if len(st.targets) == 1 and isinstance(st.targets[0], ast.Name) and st.targets[0].id in watch['assign']:
                    name = st.targets[0].id
                    v = st.value
                    if isinstance(v, ast.Constant) and v.value == 0.0 and type(v.value) is float:
                        continue                      # `corr = 0.0` initialiser
                    if ast.dump(v) in watch.get('allow', ()):
                        continue
                    key = (name, path)
                    if key in found:
                        fail(st, '%s assigned twice on the same path' % name)
                    found[key] = v
            elif isinstance(st, ast.AugAssign):
                if isinstance(st.target, ast.Name) and st.target.id in watch['aug']:
                    if not isinstance(st.op, ast.Add):
                        fail(st, 'augmented assignment other than += to %s' % st.target.id)
                    key = (st.target.id + '+=', path)
                    if key in found:
                        fail(st, '%s augmented twice on the same path' % st.target.id)
                    found[key] = st.value
                elif isinstance(st.target, ast.Name) and st.target.id in watch['assign']:
                    fail(st, 'unexpected augmented assignment to %s' % st.target.id)
    walk(fn.body, ())
    return found


def find_method(src, name):
    for st in src.tree.body:
        if isinstance(st, ast.ClassDef) and st.name == 'Moon':
            for f in st.body:
                if isinstance(f, ast.FunctionDef) and f.name == name:
                    return f
    raise Reject('Moon.%s not found' % name)


NEG_W = ast.dump(ast.parse('-w', mode='eval').body)
ANGLE_PAR = ast.dump(ast.parse('Angle(0, 0, parallax)', mode='eval').body)

IF, ELSE = 'if', 'else'
# function -> (watch, variables of the argument expressions, {(name, path): lean name})
EXPECTED = {
    'geocentric_ecliptical_pos': (
        dict(assign=(), aug=('sigmal', 'sigmab')),
        ['Lprimer', 'Mprimer', 'Fr', 'A1r', 'A2r', 'A3r'],
        {('sigmal+=', ()): 'pos_addl', ('sigmab+=', ()): 'pos_addb'}),
    'longitude_true_ascending_node': (
        dict(assign=('corr',), aug=()),
        ['Dr', 'Mr', 'Mprimer', 'Fr'],
        {('corr', ()): 'truenode_corr'}),
    'moon_phase': (
        dict(assign=('corr', 'w', 'corr2'), aug=(), allow=(NEG_W,)),
        ['Mr', 'Mprimer', 'Fr', 'Omegar'] + ['a%dr' % i for i in range(1, 15)],
        {('corr', ((IF, ('new',)),)): 'phase_corr_new',
         ('corr', ((ELSE, ('new',)), (IF, ('full',)))): 'phase_corr_full',
         ('corr', ((ELSE, ('new',)), (ELSE, ('full',)), (IF, ('first', 'last')))): 'phase_corr_quarter',
         ('w', ((ELSE, ('new',)), (ELSE, ('full',)), (IF, ('first', 'last')))): 'phase_w_quarter',
         ('corr2', ()): 'phase_corr2'}),
    'moon_perigee_apogee': (
        dict(assign=('corr', 'parallax'), aug=(), allow=(ANGLE_PAR,)),
        ['Dr', 'Mr', 'Fr'],
        {('corr', ((IF, ('perigee',)),)): 'perigee_corr',
         ('parallax', ((IF, ('perigee',)),)): 'perigee_parallax',
         ('corr', ((ELSE, ('perigee',)),)): 'apogee_corr',
         ('parallax', ((ELSE, ('perigee',)),)): 'apogee_parallax'}),
    'moon_passage_nodes': (
        dict(assign=('corr',), aug=()),
        ['Dr', 'Mr', 'Mprimer', 'Omegar', 'Vr', 'Pr'],
        {('corr', ()): 'nodes_corr'}),
    'moon_maximum_declination': (
        dict(assign=('corr', 'cor2'), aug=()),
        ['Dr', 'Mr', 'Mprimer', 'Fr'],
        {('corr', ((IF, ('northern',)),)): 'decl_corr_north',
         ('cor2', ((IF, ('northern',)),)): 'decl_cor2_north',
         ('corr', ((ELSE, ('northern',)),)): 'decl_corr_south',
         ('cor2', ((ELSE, ('northern',)),)): 'decl_cor2_south'}),
}


def generate():
    src = Src(open(SRC).read())
    out = []
    out.append('-- GENERATED by tools/gen_moon.py from pymeeus/Moon.py; do not edit.')
    out.append('import Pymeeus.Lemmas.MoonTypes')
    out.append('namespace Pymeeus.MoonData')
    out.append('open Pymeeus.Moon')
    out.append('')
    lr = table(src, 'PERIODIC_TERMS_LR_TABLE', 2)
    out.append('/-- PERIODIC_TERMS_LR_TABLE (Meeus 47.A): %d rows -/' % len(lr))
    out.append('def tableLR : List RowLR := [')
    out.append(',\n'.join('  ⟨%d, %d, %d, %d, %s, %s⟩' % (i[0], i[1], i[2], i[3], lean_dec(c[0]), lean_dec(c[1]))
                          for (i, c) in lr))
    out.append(']')
    tb = table(src, 'PERIODIC_TERMS_B_TABLE', 1)
    out.append('/-- PERIODIC_TERMS_B_TABLE (Meeus 47.B): %d rows -/' % len(tb))
    out.append('def tableB : List RowB := [')
    out.append(',\n'.join('  ⟨%d, %d, %d, %d, %s⟩' % (i[0], i[1], i[2], i[3], lean_dec(c[0])) for (i, c) in tb))
    out.append(']')
    nterms = 0
    for fname, (watch, vars_, expected) in EXPECTED.items():
        fn = find_method(src, fname)
        w = dict(assign=tuple(watch.get('assign', ())), aug=tuple(watch.get('aug', ())), allow=watch.get('allow', ()))
        found = collect(src, fn, w)
        if set(found) != set(expected):
            extra = sorted(map(str, set(found) - set(expected)))
            missing = sorted(map(str, set(expected) - set(found)))
            raise Reject('Moon.%s: term-sum assignments differ from the expected set; unexpected %s, missing %s'
                         % (fname, extra, missing))
        out.append('')
        out.append('-- Moon.%s; argument variables: %s' % (fname, ' '.join('%d=%s' % (i, v) for i, v in enumerate(vars_))))
        for key, lname in expected.items():
            ts = term_sum(src, found[key], vars_)
            nterms += len(ts)
            out.append('/-- `%s` (%s), %d terms, Moon.py:%d -/' % (key[0], ' / '.join('%s %s' % (p, '|'.join(t)) for p, t in key[1]) or 'all targets',
                                                                 len(ts), found[key].lineno))
            out.append('def %s : List Term := [' % lname)
            out.append(',\n'.join('  ' + t for t in ts))
            out.append(']')
    out.append('')
    out.append('end Pymeeus.MoonData')
    text = '\n'.join(out) + '\n'
    os.makedirs(os.path.dirname(OUT), exist_ok=True)
    if not os.path.exists(OUT) or open(OUT).read() != text:
        with open(OUT, 'w') as f:
            f.write(text)
        print('gen_moon: wrote %s (%d+%d table rows, %d terms)' % (os.path.relpath(OUT), len(lr), len(tb), nterms))


if __name__ == '__main__':
    try:
        generate()
    except Reject as e:
        sys.stderr.write('gen_moon: REJECTED: %s\n' % e)
        # a stale generated file must not survive a rejected source
        if os.path.exists(OUT):
            os.remove(OUT)
        sys.exit(1)
