import json,sys
pid=sys.argv[1]; wt=sys.argv[2]; focus=sys.argv[3] if len(sys.argv)>3 else ''
for l in open('/verif/properties.jsonl'):
    p=json.loads(l)
    if p['id']==pid: break
print(f"""You are helping to evaluate a verification tool by writing HARMLESS changes: refactorings that leave the behaviour of a library exactly as it was. You have your own scratch git worktree of the Python library pymeeus at {wt} (a checkout of the current code). Work ONLY inside {wt}; do not look at or touch /verif or /repo or any other directory (in particular do not read anything under /verif — your change must be independent of the tool being evaluated).

The library satisfies this property, and must STILL satisfy it after your change:

  {p['title']}
  {p['statement']}
  (Quantified over: {p['quantifier']['text']})
  Code involved: {'; '.join(m['name']+' @ '+m['where'] for m in p['anchors']['mechanism'])}

Your job: refactor the code involved (files under {wt}/pymeeus only) the way a maintainer tidying up would, making FOUR to EIGHT separate edits of different kinds, e.g.: rename local variables; extract a private helper function or method (module level or @staticmethod) and call it; inline a helper; restructure an if/elif chain or invert a condition with the branches swapped; replace a while loop by an equivalent for loop or a comprehension / sum over a generator ONLY where the order of floating-point operations stays identical; hoist a constant to a module-level NAME that is never modified; build a local list/dict and fill it in place; replace a chain of `x = x + ...` by augmented assignment; add or rewrite comments and docstrings (keep every `:raises:`, `:type:` and `:rtype:` line as it is); reorder independent statements; add a local import; use a tuple unpacking; replace a magic number by a named local.
HARD REQUIREMENT: for EVERY input (valid or invalid, of any type) every public function and method must return a bit-for-bit identical result (same floats to the last bit, same types), raise the same exception class in the same cases, and mutate exactly the same objects as before. So: do not change the order or association of floating-point operations (a*b*c stays (a*b)*c; do not replace x/60.0 by x*(1/60.0); do not replace pow by multiplication or math.radians by a product; do not reorder the terms of a sum), do not add caches or any state that survives a call, do not change argument validation. {focus}
The existing test suite must pass exactly as before (run it from inside the worktree: `cd {wt} && /venv/bin/python -m pytest -q -p no:cacheprovider` — 250 pass, 1 pre-existing failure tests/test_jupiterMoons.py::TestJupiterMoons::test_is_phenomena, which must stay the only failure).

Deliver, inside {wt}:
  1. the change itself, left uncommitted in the working tree (so that `git -C {wt} diff` shows it), touching only files under pymeeus/;
  2. a script {wt}/same_{pid}.py (run with `cd {wt} && /venv/bin/python same_{pid}.py`) that compares your refactored code with the original on at least 20000 random and boundary inputs of every function you touched (load the original with `git show HEAD:pymeeus/<File>.py` into a separate module namespace, e.g. a temporary package copy under {wt}/_orig/pymeeus made with `git archive HEAD pymeeus | tar -x -C _orig`, imported by path manipulation in a subprocess) and exits 0 printing SAME only if all results are bit-identical (compare floats with struct.pack or repr, exceptions by class); run it and make sure it prints SAME. Remove {wt}/_orig afterwards.
  3. a file {wt}/meta_{pid}.json: {{"property": "{pid}", "summary": "<one line per edit: what you refactored>", "files": ["pymeeus/..."], "kind": "harmless"}}
Finally reply with the diff, the output of same_{pid}.py and the pytest summary line with your change applied.""")
