#!/usr/bin/env python3
"""Translator for the planetary event finders (property C13).

Reads pymeeus/{Mercury,Venus,Earth,Mars,Jupiter,Saturn,Uranus,Neptune}.py of the repository
($VERIF_REPO, default /repo) with Python's `ast` (stdlib only) and writes

  lean/Pymeeus/Gen/FinderData.lean      one data record per finder (constants as exact decimals, the
                                        `corr`/`elon`/`jde` right-hand sides as expression trees)
  lean/Pymeeus/Gen/FinderDispatch.lean  the driver dispatch  "<Planet>.<finder>" -> record

Files are rewritten only when their text changes.  The meaning of the records is given by the
single hand-written evaluator lean/templates/Finders.lean (instantiated at Real and at Float).

How a function is read (two stages, so that the way the code is *written* does not matter, only what it
*computes*):

 1. NORMALISATION by symbolic execution of the function body (class `Sym`).  The body must be straight-line
    code over a small statement set (assignments, tuple assignments, augmented assignments on numbers,
    `if` with raises or assignments, conditional expressions, `for` over a list written in the function,
    `lst.append(x)` on such a list, `return`).  Every local name is replaced by the expression it holds at
    the point of use (so renamed locals, temporaries, chained calls `Angle(x).to_positive().rad()` versus
    three statements, `a, b = x, y`, `v = e0; v += e1` == `v = e0 + e1` in Python's own left-to-right
    order, `if not c: A else: B` == `if c: B else: A`, `x = p if c else q` all give the same result);
    calls to private helpers (module-level functions of the same module, `_`-prefixed static methods of the
    class) are executed in place with their arguments bound; module-level constants (numbers, tuples of
    numbers) are substituted when - and only when - the name is bound exactly once in its module and no
    store, augmented assignment, subscript/attribute store, `del`, `global` or string mention of the name
    exists anywhere in the package.  The result is: the ordered list of events (conditional raises and
    calls) and ONE expression for the returned value, in terms of the parameters only.
 2. MATCHING of that normal form against the one shape of each kind of finder (`translate_ch36`,
    `translate_pa`, `translate_nodes`).  Every number that ends up in a record is the text of a literal of
    the current source.

Assumptions of the normalisation (the same ones the model templates make): the functions and methods that stay
as calls in the normal form (`epoch.year()`, `Angle(x)`, `.rad()`, `sin`, `round`, `Epoch(x)`,
`<Planet>.geometric_heliocentric_position`, ...) are functions of their arguments and do not modify them (C20 checks
that for the package); `Angle.to_positive()` changes its receiver in place and returns it, which is followed when the
receiver is held by a local name; any other method called on an object held by a local name is rejected.

Anything else - an unknown statement, another operator, a finder-like public method it does not know, a
normal form that is not the expected shape - makes it exit non-zero with the function name and source
line.  It never guesses.  `--selftest` runs must-accept rewrites (identical record) and adversarial
must-differ / must-reject variants of one finder.
"""
import ast
import copy
import os
import re
import sys
from fractions import Fraction

HERE = os.path.dirname(os.path.abspath(__file__))
REPO = os.environ.get('VERIF_REPO', '/repo')
LEAN = os.environ.get('VERIF_LEAN_DIR') or os.path.join(HERE, '..', 'lean')

MODULES = ['Mercury', 'Venus', 'Earth', 'Mars', 'Jupiter', 'Saturn', 'Uranus', 'Neptune']
CH36 = ['inferior_conjunction', 'superior_conjunction', 'conjunction', 'opposition',
        'western_elongation', 'eastern_elongation', 'station_longitude_1', 'station_longitude_2']
ELONG = ['western_elongation', 'eastern_elongation']


_SEG_CACHE = {}


def _fast_segment(source, node):
    """ast.get_source_segment without re-splitting the whole file on every call (that is quadratic)."""
    key = id(source)
    ent = _SEG_CACHE.get(key)
    if ent is None or ent[0] is not source:
        ent = (source, ast._splitlines_no_ff(source))
        _SEG_CACHE[key] = ent
    lines = ent[1]
    try:
        l0, l1, c0, c1 = node.lineno - 1, node.end_lineno - 1, node.col_offset, node.end_col_offset
    except AttributeError:
        return None
    if l0 == l1:
        return lines[l0].encode()[c0:c1].decode()
    first = lines[l0].encode()[c0:].decode()
    last = lines[l1].encode()[:c1].decode()
    return ''.join([first] + lines[l0 + 1:l1] + [last])


class Reject(Exception):
    pass


def fail(ctx, node, msg):
    line = getattr(node, 'lineno', '?')
    raise Reject('%s (%s:%s): %s' % (ctx['fn'], ctx['file'], line, msg))


# ------------------------------------------------------------------ literals
def dec_of_text(txt):
    """'0.00003' -> (3, 5); '2451612.023' -> (2451612023, 3); '1e-5' -> (1, 5); '24' -> (24, 0)."""
    m = re.fullmatch(r'(\d*)(?:\.(\d*))?(?:[eE]([+-]?\d+))?', txt.replace('_', ''))
    if not m or (not m.group(1) and not m.group(2)):
        return None
    ip, fp, ex = m.group(1) or '', m.group(2) or '', int(m.group(3) or 0)
    mant = int((ip + fp) or '0')
    e = len(fp) - ex
    if e < 0:
        mant *= 10 ** (-e)
        e = 0
    return (mant, e)


def literal(ctx, node):
    """A (possibly negated) numeric literal -> (mantissa, exponent) from the *source text*; else None."""
    neg = False
    if isinstance(node, ast.UnaryOp) and isinstance(node.op, ast.USub):
        neg = True
        node = node.operand
    if not (isinstance(node, ast.Constant) and type(node.value) in (int, float)):
        return None
    txt = _fast_segment(ctx['src'], node)
    d = dec_of_text(txt or '')
    if d is None:
        fail(ctx, node, 'numeric literal %r not understood' % txt)
    # cross-check against the value Python parsed
    if abs(d[0] / 10 ** d[1] - node.value) > 1e-12 * max(1.0, abs(node.value)):
        fail(ctx, node, 'literal text %r does not match its value %r' % (txt, node.value))
    return (-d[0] if neg else d[0], d[1])


def dec_value(d):
    return Fraction(d[0], 10 ** d[1])


def lean_dec(d):
    return '⟨%d, %d⟩' % d


# ------------------------------------------------------------------ structural matching
_DUMP = {}


def dump(node):
    """Structural key of an expression (positions ignored).  Cached by object, the object is kept alive."""
    ent = _DUMP.get(id(node))
    if ent is None or ent[0] is not node:
        ent = (node, ast.dump(node))
        _DUMP[id(node)] = ent
    return ent[1]


def same(a, b):
    return a is b or dump(a) == dump(b)


def match(pat, node, caps, ctx):
    """Does `node` have the shape of `pat`?  Names of the pattern: `_L<n>` captures a literal (a second
    occurrence must have the same value), `_E<n>` captures any expression, `_S<n>` must be structurally
    equal to the expression preset in caps, `_F<n>` must satisfy the predicate preset in caps, `_X` is the
    class name of the planet."""
    if isinstance(pat, ast.Name):
        if pat.id.startswith('_L'):
            lit = literal(ctx, node)
            if lit is None:
                return False
            if pat.id in caps and dec_value(caps[pat.id]) != dec_value(lit):
                return False
            caps.setdefault(pat.id, lit)
            return True
        if pat.id.startswith('_E'):
            caps[pat.id] = node
            return True
        if pat.id.startswith('_S'):
            return same(caps[pat.id], node)
        if pat.id.startswith('_F'):
            return bool(caps[pat.id](node))
        if pat.id == '_X':
            return isinstance(node, ast.Name) and node.id == ctx['cls']
    if type(pat) is not type(node):
        return False
    for f in pat._fields:
        if f in ('ctx', 'type_comment', 'kind'):
            continue
        a, b = getattr(pat, f, None), getattr(node, f, None)
        if isinstance(a, list):
            if not isinstance(b, list) or len(a) != len(b):
                return False
            for x, y in zip(a, b):
                if isinstance(x, ast.AST):
                    if not match(x, y, caps, ctx):
                        return False
                elif x != y:
                    return False
        elif isinstance(a, ast.AST):
            if not isinstance(b, ast.AST) or not match(a, b, caps, ctx):
                return False
        elif a != b:
            return False
    return True


_PE = {}


def PE(text):
    """Pattern: an expression."""
    if text not in _PE:
        _PE[text] = ast.parse(text, mode='eval').body
    return _PE[text]


# ------------------------------------------------------------------ the package: who writes to a name?
class Package:
    """All modules of the package, parsed on demand, to answer: is this module-level name ever re-bound?"""

    def __init__(self, sources):
        self.sources = sources          # {relative path: text}
        self._trees = {}

    def tree(self, rel):
        if rel not in self._trees:
            self._trees[rel] = ast.parse(self.sources[rel])
        return self._trees[rel]

    @staticmethod
    def module_level(tree):
        """Statements executed at module level (inside if/for/while/try/with too, not inside def/class)."""
        out, todo = [], list(tree.body)
        while todo:
            st = todo.pop()
            out.append(st)
            if isinstance(st, (ast.FunctionDef, ast.AsyncFunctionDef, ast.ClassDef)):
                continue
            for f in ('body', 'orelse', 'finalbody', 'handlers'):
                for s in getattr(st, f, []) or []:
                    if isinstance(s, ast.ExceptHandler):
                        todo.extend(s.body)
                    elif isinstance(s, ast.stmt):
                        todo.append(s)
        return out

    @staticmethod
    def bound_names(st):
        """Names bound by one module-level statement (not descending into nested statements)."""
        names = []

        def targets(t):
            if isinstance(t, ast.Name):
                names.append(t.id)
            elif isinstance(t, (ast.Tuple, ast.List)):
                for e in t.elts:
                    targets(e)
            elif isinstance(t, ast.Starred):
                targets(t.value)
        if isinstance(st, ast.Assign):
            for t in st.targets:
                targets(t)
        elif isinstance(st, (ast.AugAssign, ast.AnnAssign)):
            targets(st.target)
        elif isinstance(st, (ast.For, ast.AsyncFor)):
            targets(st.target)
        elif isinstance(st, (ast.With, ast.AsyncWith)):
            for it in st.items:
                if it.optional_vars is not None:
                    targets(it.optional_vars)
        elif isinstance(st, (ast.Import, ast.ImportFrom)):
            for a in st.names:
                names.append((a.asname or a.name).split('.')[0])
        elif isinstance(st, (ast.FunctionDef, ast.AsyncFunctionDef, ast.ClassDef)):
            names.append(st.name)
        elif isinstance(st, ast.Delete):
            for t in st.targets:
                targets(t)
        # walrus at module level
        for sub in ast.walk(st) if not isinstance(st, (ast.FunctionDef, ast.AsyncFunctionDef, ast.ClassDef)) else []:
            if isinstance(sub, ast.NamedExpr):
                targets(sub.target)
        return names

    def bindings_in_module(self, rel, name):
        return [st for st in self.module_level(self.tree(rel)) if name in self.bound_names(st)]

    def index(self):
        """One walk over the package: where names are declared global, stored through attributes or subscripts,
        or mentioned as strings."""
        if getattr(self, '_index', None) is None:
            idx = {'global': {}, 'attr': {}, 'sub': {}, 'str': {}}
            for rel in sorted(self.sources):
                for n in ast.walk(self.tree(rel)):
                    if isinstance(n, (ast.Global, ast.Nonlocal)):
                        for nm in n.names:
                            idx['global'].setdefault(nm, []).append((rel, n.lineno, n))
                    elif isinstance(n, ast.Attribute) and isinstance(n.ctx, (ast.Store, ast.Del)):
                        idx['attr'].setdefault(n.attr, []).append((rel, n.lineno, n))
                    elif isinstance(n, ast.Subscript) and isinstance(n.ctx, (ast.Store, ast.Del)):
                        v = n.value
                        nm = v.id if isinstance(v, ast.Name) else (v.attr if isinstance(v, ast.Attribute) else None)
                        if nm is not None:
                            idx['sub'].setdefault(nm, []).append((rel, n.lineno, n))
                    elif isinstance(n, ast.Constant) and isinstance(n.value, str) and n.value.isidentifier():
                        idx['str'].setdefault(n.value, []).append((rel, n.lineno, n))
            self._index = idx
        return self._index

    def hazards(self, name, defining_rel, defining_stmt, allow=()):
        """Every place of the package that could change what the module-level `name` of `defining_rel` holds
        (conservative): other bindings in its module, `global name`, stores/deletes through an attribute
        `.name`, subscript stores/deletes `name[...] = `, `.name[...] = `, the name as a string (setattr,
        globals()[...], __dict__).  `allow`: string constants that are known to be harmless (a namedtuple's typename)."""
        out = []
        for st in self.bindings_in_module(defining_rel, name):
            if st is not defining_stmt:
                out.append('%s:%s re-binds %s' % (defining_rel, st.lineno, name))
        idx = self.index()
        for rel, line, _ in idx['global'].get(name, []):
            out.append('%s:%s global %s' % (rel, line, name))
        for rel, line, _ in idx['attr'].get(name, []):
            out.append('%s:%s store to .%s' % (rel, line, name))
        for rel, line, _ in idx['sub'].get(name, []):
            out.append('%s:%s subscript store to %s' % (rel, line, name))
        for rel, line, n in idx['str'].get(name, []):
            if not any(n is a for a in allow):
                out.append('%s:%s the name %s as a string' % (rel, line, name))
        return out


def package_of_repo(repo):
    d = os.path.join(repo, 'pymeeus')
    return Package({'pymeeus/' + fn: open(os.path.join(d, fn)).read() for fn in sorted(os.listdir(d)) if fn.endswith('.py')})


# ------------------------------------------------------------------ stage 1: symbolic execution
class SymList:
    """A list written in the function (`[a, b]`, `[]`) and held by one local name; `append` is followed as
    long as the list has not been handed to anything else."""

    def __init__(self, elems):
        self.elems = list(elems)
        self.escaped = False


#: methods that do not change their receiver (documented accessors / static computations)
PURE_METHODS = {'rad', 'year', 'jde', 'minmax', 'geometric_heliocentric_position', 'perihelion_aphelion',
                'orbital_elements_mean_equinox'}
#: methods that change their receiver in place and return it (Angle.to_positive)
SELF_MUTATORS = {'to_positive'}
class NTuple(ast.Tuple):
    """An instance of a module-level `collections.namedtuple` type: an immutable record of symbolic values.
    Behaves as a tuple (unpacking, indexing); `fields` gives the attribute names."""
    _fields = ('elts', 'ctx')


MATH_NAMES = {'sin', 'cos', 'tan', 'sqrt', 'radians', 'degrees', 'atan', 'atan2', 'asin', 'acos'}
BUILTIN_NAMES = {'round', 'isinstance', 'int', 'float', 'abs'}
NUMERIC_CALLS = {'sin', 'cos', 'tan', 'sqrt', 'radians', 'degrees', 'round', 'abs', 'float', 'int', 'atan', 'atan2',
                 'asin', 'acos'}
UNPACK = '__unpack__'


def unpack_item(value, i, n, loc):
    """The i-th of the n values of `a, b, c = value` (kept distinct from `value[i]`: unpacking also checks n)."""
    node = ast.Call(func=ast.Name(id=UNPACK, ctx=ast.Load()), args=[value, ast.Constant(value=i), ast.Constant(value=n)],
                    keywords=[])
    return ast.copy_location(node, loc)


def is_numeric(node):
    """Is the value certainly an int/float (so that `v += e` is `v = v + e`)?"""
    if isinstance(node, ast.Constant):
        return type(node.value) in (int, float)
    if isinstance(node, ast.UnaryOp) and isinstance(node.op, (ast.USub, ast.UAdd)):
        return is_numeric(node.operand)
    if isinstance(node, ast.BinOp) and isinstance(node.op, (ast.Add, ast.Sub, ast.Mult, ast.Div)):
        return is_numeric(node.left) and is_numeric(node.right)
    if isinstance(node, ast.IfExp):
        return is_numeric(node.body) and is_numeric(node.orelse)
    if isinstance(node, ast.Call) and not node.keywords:
        if isinstance(node.func, ast.Name) and node.func.id in NUMERIC_CALLS:
            return True
        if isinstance(node.func, ast.Attribute) and node.func.attr in ('year', 'rad', 'jde') and not node.args:
            return True       # Epoch.year(), Angle.rad(), Epoch.jde(): documented to return a float
    return False


class Sym:
    """Symbolic execution of one function of one module."""

    MAX_DEPTH = 6

    def __init__(self, ctx, pkg, rel, cls_node):
        self.ctx, self.pkg, self.rel = ctx, pkg, rel
        self.tree = pkg.tree(rel)
        self.cls = cls_node
        self.events = []        # ('raise', test, exception name, node) | ('call', node)
        self.cond = 0           # > 0 while evaluating something that Python evaluates only conditionally
        self.depth = 0
        self._const = {}
        self._helpers = {}
        self._meaning = {}
        self._nt = {}

    def fail(self, node, msg):
        fail(self.ctx, node, msg)

    # -- module-level constants and helpers --------------------------------------------------
    def module_constant(self, name):
        """Value node of a module-level constant (number or tuple of numbers) that is never re-bound; None if
        `name` is not such a constant."""
        if name in self._const:
            return self._const[name]
        val = None
        binds = self.pkg.bindings_in_module(self.rel, name)
        cands = [st for st in binds if isinstance(st, ast.Assign) and len(st.targets) == 1
                 and isinstance(st.targets[0], ast.Name) and st in self.tree.body]
        if cands:
            st = cands[0]

            def number(n):
                if isinstance(n, ast.UnaryOp) and isinstance(n.op, ast.USub):
                    n = n.operand
                return isinstance(n, ast.Constant) and type(n.value) in (int, float)
            v = st.value
            if number(v) or (isinstance(v, ast.Tuple) and v.elts and all(number(e) for e in v.elts)):
                hz = self.pkg.hazards(name, self.rel, st)
                if hz:
                    self.fail(st, 'module-level constant %s may be modified (%s); its value cannot be propagated'
                              % (name, '; '.join(hz[:3])))
                val = v
        self._const[name] = val
        return val

    # -- what a global name means -----------------------------------------------------------
    def single_binding(self, name):
        """The one module-level statement that binds `name` in this module (None if there is none or several)."""
        b = self.pkg.bindings_in_module(self.rel, name)
        return b[0] if len(b) == 1 and b[0] in self.tree.body else None

    def imported_from(self, name, module):
        """Is the global `name` exactly `from <module> import <name>`, bound once and never replaced?"""
        key = ('from', module, name)
        if key not in self._meaning:
            st = self.single_binding(name)
            ok = (isinstance(st, ast.ImportFrom) and st.module == module and st.level == 0
                  and any(a.name == name and a.asname is None for a in st.names)
                  and not self.pkg.hazards(name, self.rel, st))
            self._meaning[key] = ok
        return self._meaning[key]

    def imported_module(self, name):
        """Is the global `name` exactly `import <name>`, bound once and never replaced?"""
        key = ('import', name)
        if key not in self._meaning:
            st = self.single_binding(name)
            ok = (isinstance(st, ast.Import) and any(a.name == name and a.asname is None for a in st.names)
                  and not self.pkg.hazards(name, self.rel, st))
            self._meaning[key] = ok
        return self._meaning[key]

    def is_builtin(self, name):
        """Is the global `name` the builtin (no binding in this module, nothing in the package replaces it)?"""
        key = ('builtin', name)
        if key not in self._meaning:
            self._meaning[key] = (not self.pkg.bindings_in_module(self.rel, name)
                                  and not self.pkg.hazards(name, self.rel, None))
        return self._meaning[key]

    def math_name(self, name, loc):
        """The canonical node for math's function `name` (what `from math import name` binds)."""
        n = ast.copy_location(ast.Name(id=name, ctx=ast.Load()), loc)
        n._verified = True
        return n

    def check_global_function(self, node):
        """A bare global name the matchers give a meaning to must have that meaning."""
        if getattr(node, '_verified', False):
            return
        if node.id in MATH_NAMES:
            if not self.imported_from(node.id, 'math'):
                self.fail(node, '`%s` is not (only) `from math import %s` in this module' % (node.id, node.id))
        elif node.id in BUILTIN_NAMES:
            if not self.is_builtin(node.id):
                self.fail(node, 'the builtin `%s` is re-bound in this module or replaced somewhere in the package' % node.id)

    def namedtuple_type(self, name):
        """Field names of the module-level `name = namedtuple("T", [...])` (bound once, never replaced); else None."""
        if name in self._nt:
            return self._nt[name]
        fields = None
        st = self.single_binding(name)
        if isinstance(st, ast.Assign) and len(st.targets) == 1 and isinstance(st.targets[0], ast.Name) \
                and isinstance(st.value, ast.Call):
            c = st.value
            f = c.func
            is_nt = (isinstance(f, ast.Name) and f.id == 'namedtuple' and self.imported_from('namedtuple', 'collections')) or \
                (isinstance(f, ast.Attribute) and f.attr == 'namedtuple' and isinstance(f.value, ast.Name)
                 and f.value.id == 'collections' and self.imported_module('collections'))
            if is_nt:
                if len(c.args) != 2 or c.keywords or not (isinstance(c.args[0], ast.Constant) and isinstance(c.args[0].value, str)):
                    self.fail(st, 'namedtuple %s: only namedtuple("Name", fields) is supported' % name)
                spec = c.args[1]
                if isinstance(spec, ast.Constant) and isinstance(spec.value, str):
                    names = spec.value.replace(',', ' ').split()
                elif isinstance(spec, (ast.List, ast.Tuple)) and all(
                        isinstance(e, ast.Constant) and isinstance(e.value, str) for e in spec.elts):
                    names = [e.value for e in spec.elts]
                else:
                    self.fail(st, 'namedtuple %s: the field names are not literal' % name)
                if not names or len(set(names)) != len(names) or any(
                        (not n.isidentifier()) or n.startswith('_') for n in names):
                    self.fail(st, 'namedtuple %s: bad field names' % name)
                hz = self.pkg.hazards(name, self.rel, st, allow=[n for n in ast.walk(st) if isinstance(n, ast.Constant)])
                if hz:
                    self.fail(st, 'namedtuple type %s may be replaced at run time (%s)' % (name, '; '.join(hz[:3])))
                fields = names
        self._nt[name] = fields
        return fields

    def helper(self, func):
        """FunctionDef of a private helper the call `func(...)` refers to, or None (then the call stays opaque)."""
        if isinstance(func, ast.Name):
            key, name, owner = ('m', func.id), func.id, self.tree
            defs = [st for st in self.tree.body if isinstance(st, ast.FunctionDef) and st.name == name]
        elif (isinstance(func, ast.Attribute) and isinstance(func.value, ast.Name) and func.value.id == self.ctx['cls']
              and func.attr.startswith('_') and not func.attr.startswith('__')):
            key, name, owner = ('c', func.attr), func.attr, self.cls
            defs = [st for st in self.cls.body if isinstance(st, ast.FunctionDef) and st.name == name]
        else:
            return None
        if key in self._helpers:
            return self._helpers[key]
        fn = None
        if defs:
            if len(defs) != 1:
                self.fail(func, 'helper %s is defined %d times' % (name, len(defs)))
            fn = defs[0]
            want = [] if key[0] == 'm' else ['staticmethod']
            if [ast.unparse(d) for d in fn.decorator_list] != want:
                self.fail(fn, 'helper %s: decorators %s not supported' % (name, [ast.unparse(d) for d in fn.decorator_list]))
            if key[0] == 'm':
                hz = self.pkg.hazards(name, self.rel, fn)
            else:
                hz = [h for h in self.pkg.hazards(name, self.rel, fn) if 're-binds' not in h]
                if len([st for st in self.cls.body if name in Package.bound_names(st)]) != 1:
                    hz.append('bound more than once in class %s' % self.ctx['cls'])
            if hz:
                self.fail(fn, 'helper %s may be replaced at run time (%s); it cannot be inlined' % (name, '; '.join(hz[:3])))
        self._helpers[key] = fn
        return fn

    # -- expressions ----------------------------------------------------------------------------
    def ev(self, node, env, keep_list=False):
        """The expression `node` with every local name replaced by what it holds."""
        if isinstance(node, ast.Constant):
            return node
        if isinstance(node, ast.Name):
            if not isinstance(node.ctx, ast.Load):
                self.fail(node, 'unexpected store')
            if node.id in env:
                v = env[node.id]
                if isinstance(v, SymList):
                    if keep_list:
                        return v
                    v.escaped = True
                    return ast.copy_location(ast.List(elts=list(v.elems), ctx=ast.Load()), node)
                return v
            if node.id in env.get('__locals__', ()):
                self.fail(node, 'local name `%s` is read before it is assigned on this path' % node.id)
            c = self.module_constant(node.id)
            return c if c is not None else node
        if isinstance(node, ast.UnaryOp):
            v = self.ev(node.operand, env)
            return ast.copy_location(ast.UnaryOp(op=node.op, operand=v), node)
        if isinstance(node, ast.BinOp):
            l = self.ev(node.left, env)
            r = self.ev(node.right, env)
            return ast.copy_location(ast.BinOp(left=l, op=node.op, right=r), node)
        if isinstance(node, ast.BoolOp):
            vals = [self.ev(node.values[0], env)]
            self.cond += 1
            vals += [self.ev(v, env) for v in node.values[1:]]
            self.cond -= 1
            return ast.copy_location(ast.BoolOp(op=node.op, values=vals), node)
        if isinstance(node, ast.Compare):
            l = self.ev(node.left, env)
            cs = [self.ev(c, env) for c in node.comparators]
            return ast.copy_location(ast.Compare(left=l, ops=node.ops, comparators=cs), node)
        if isinstance(node, ast.IfExp):
            t = self.ev(node.test, env)
            self.cond += 1
            b = self.ev(node.body, env)
            o = self.ev(node.orelse, env)
            self.cond -= 1
            return self.ifexp(t, b, o, node)
        if isinstance(node, (ast.Tuple, ast.List)):
            if any(isinstance(e, ast.Starred) for e in node.elts):
                self.fail(node, 'starred element')
            elts = [self.ev(e, env) for e in node.elts]
            return ast.copy_location(type(node)(elts=elts, ctx=ast.Load()), node)
        if isinstance(node, ast.Attribute):
            if self.is_math_module(node.value, env):
                if node.attr not in MATH_NAMES:
                    self.fail(node, '`math.%s` is not a function the translator knows' % node.attr)
                return self.math_name(node.attr, node)      # math.sin == what `from math import sin` binds
            v = self.ev(node.value, env)
            if isinstance(v, NTuple):
                if node.attr not in v.fields:
                    self.fail(node, 'attribute `%s` of a namedtuple with fields %s' % (node.attr, v.fields))
                return v.elts[v.fields.index(node.attr)]
            return ast.copy_location(ast.Attribute(value=v, attr=node.attr, ctx=ast.Load()), node)
        if isinstance(node, ast.Subscript):
            v = self.ev(node.value, env)
            s = self.ev(node.slice, env)
            idx = None
            if isinstance(s, ast.Constant) and type(s.value) is int:
                idx = s.value
            elif isinstance(s, ast.UnaryOp) and isinstance(s.op, ast.USub) and isinstance(s.operand, ast.Constant) \
                    and type(s.operand.value) is int:
                idx = -s.operand.value
            if isinstance(v, ast.Tuple) and idx is not None and -len(v.elts) <= idx < len(v.elts):
                return v.elts[idx]
            return ast.copy_location(ast.Subscript(value=v, slice=s, ctx=ast.Load()), node)
        if isinstance(node, ast.Call):
            return self.call(node, env)
        self.fail(node, 'expression `%s` is outside the subset the translator executes' % ast.unparse(node)[:60])

    def is_math_module(self, node, env):
        return (isinstance(node, ast.Name) and node.id == 'math' and 'math' not in env
                and 'math' not in env.get('__locals__', ()) and self.imported_module('math'))

    def ifexp(self, test, body, orelse, loc):
        # `B if not c else A` == `A if c else B`
        while isinstance(test, ast.UnaryOp) and isinstance(test.op, ast.Not):
            test, body, orelse = test.operand, orelse, body
        if same(body, orelse):
            return body
        return ast.copy_location(ast.IfExp(test=test, body=body, orelse=orelse), loc)

    def call(self, node, env):
        if any(isinstance(a, ast.Starred) for a in node.args) or any(k.arg is None for k in node.keywords):
            self.fail(node, '*args / **kwargs in a call')
        f = node.func
        receiver = None
        # -- a local name that holds a function (alias): call what it holds at this point
        if isinstance(f, ast.Name) and f.id in env:
            held = env[f.id]
            root = held
            while isinstance(root, ast.Attribute):
                root = root.value
            if isinstance(held, SymList) or not isinstance(held, (ast.Name, ast.Attribute)) or not isinstance(root, ast.Name) \
                    or root.id in env or root.id.startswith('__unbound_'):
                self.fail(node, 'call of the local name `%s`, which does not hold a global function' % f.id)
            f = held                      # already evaluated: a global name or <global>.<attr>
            callee_evaluated = True
        elif isinstance(f, ast.Name) and f.id in env.get('__locals__', ()):
            self.fail(node, 'call of the local name `%s` before it is assigned' % f.id)
        else:
            callee_evaluated = False
        # -- math.<f>
        if isinstance(f, ast.Attribute) and not callee_evaluated and self.is_math_module(f.value, env):
            f = self.ev(f, env)
            callee_evaluated = True
        fn = self.helper(f)
        nt = self.namedtuple_type(f.id) if isinstance(f, ast.Name) and fn is None else None
        args = [self.ev(a, env) for a in node.args]
        kws = [(k.arg, self.ev(k.value, env)) for k in node.keywords]
        if fn is not None:
            return self.inline(fn, args, kws, node)
        if nt is not None:
            return self.make_record(f.id, nt, args, kws, node)
        func = f
        if isinstance(f, ast.Attribute) and not callee_evaluated:
            recv = self.ev(f.value, env)
            if isinstance(recv, NTuple):
                self.fail(node, 'method `%s` of a namedtuple' % f.attr)
            if isinstance(f.value, ast.Name) and f.value.id in env:
                # the receiver is an object held by a local name: it stays reachable after the call
                if f.attr in SELF_MUTATORS:
                    receiver = recv
                elif f.attr not in PURE_METHODS:
                    self.fail(node, 'method `%s` called on the object held by `%s`: it may change the object'
                              % (f.attr, f.value.id))
            func = ast.copy_location(ast.Attribute(value=recv, attr=f.attr, ctx=ast.Load()), f)
        elif isinstance(f, ast.Name):
            self.check_global_function(f)
        elif not isinstance(f, ast.Attribute):
            self.fail(node, 'call of `%s`' % ast.unparse(f)[:40])
        out = ast.copy_location(ast.Call(func=func, args=args, keywords=[ast.keyword(arg=a, value=v) for a, v in kws]), node)
        if receiver is not None:
            # `x.to_positive()` changes x in place and returns it: every name holding that object now holds the result
            for name in list(env):
                if env[name] is receiver:
                    env[name] = out
        if not (isinstance(func, ast.Name) and func.id == 'isinstance'):      # isinstance() cannot raise
            self.events.append(('call', out, self.cond))
        return out

    def make_record(self, tname, fields, args, kws, at):
        """`T(a, b)` / `T(a, y=b)` for a module-level namedtuple type T: an immutable record."""
        if len(args) > len(fields):
            self.fail(at, 'too many values for namedtuple %s' % tname)
        vals = dict(zip(fields, args))
        for k, v in kws:
            if k not in fields or k in vals:
                self.fail(at, 'bad keyword %s for namedtuple %s' % (k, tname))
            vals[k] = v
        if len(vals) != len(fields):
            self.fail(at, 'namedtuple %s needs %s' % (tname, fields))
        rec = NTuple(elts=[vals[f] for f in fields], ctx=ast.Load())
        rec.fields = list(fields)
        return ast.copy_location(rec, at)

    def inline(self, fn, args, kws, at):
        """Execute the helper `fn` with its parameters bound to the (already evaluated) arguments."""
        if self.depth >= self.MAX_DEPTH:
            self.fail(at, 'helper calls nested too deeply (recursion?)')
        a = fn.args
        if a.vararg or a.kwarg:
            self.fail(fn, 'helper %s: *args / **kwargs parameters are not supported' % fn.name)
        posonly = [x.arg for x in a.posonlyargs]
        regular = [x.arg for x in a.args]
        kwonly = [x.arg for x in a.kwonlyargs]
        positional = posonly + regular
        # every default is evaluated once, when the function is defined: only immutable constants are followed

        def immutable(d):
            if isinstance(d, ast.UnaryOp) and isinstance(d.op, (ast.USub, ast.UAdd)):
                d = d.operand
            if isinstance(d, ast.Constant):
                return True
            return isinstance(d, ast.Tuple) and all(immutable(e) for e in d.elts)
        for d in list(a.defaults) + [d for d in a.kw_defaults if d is not None]:
            if not immutable(d):
                self.fail(fn, 'helper %s: a default value `%s` is not an immutable constant' % (fn.name, ast.unparse(d)[:30]))
        if len(args) > len(positional):
            self.fail(at, 'too many positional arguments for %s' % fn.name)
        env = dict(zip(positional, args))
        for k, v in kws:
            if k in posonly:
                self.fail(at, '%s: positional-only parameter %s passed by keyword' % (fn.name, k))
            if k not in regular and k not in kwonly:
                self.fail(at, '%s has no parameter %s' % (fn.name, k))
            if k in env:
                self.fail(at, '%s: parameter %s given twice' % (fn.name, k))
            env[k] = v
        for i, d in enumerate(a.defaults):
            pn = positional[len(positional) - len(a.defaults) + i]
            env.setdefault(pn, d)
        for pn, d in zip(kwonly, a.kw_defaults):
            if d is not None:
                env.setdefault(pn, d)
        missing = [pn for pn in positional + kwonly if pn not in env]
        if missing:
            self.fail(at, 'missing arguments %s for %s' % (missing, fn.name))
        env['__locals__'] = self.local_names(fn)
        self.depth += 1
        kind, val = self.block(body_of(fn), env)
        self.depth -= 1
        if kind != 'ret':
            return ast.copy_location(ast.Constant(value=None), at)
        return val

    # -- statements -----------------------------------------------------------------------------
    def block(self, stmts, env):
        """Execute statements; -> ('ret', value) or ('fall', None); `env` is updated in place."""
        for idx, st in enumerate(stmts):
            if isinstance(st, ast.Expr) and isinstance(st.value, ast.Constant) and isinstance(st.value.value, str):
                continue
            if isinstance(st, ast.Pass):
                continue
            if isinstance(st, ast.Return):
                if idx != len(stmts) - 1:
                    self.fail(stmts[idx + 1], 'statement after return')
                if st.value is None:
                    return ('ret', ast.copy_location(ast.Constant(value=None), st))
                return ('ret', self.ev(st.value, env))
            if isinstance(st, ast.AnnAssign):
                # the annotation is not evaluated for a local name; `x: T` alone declares nothing at run time
                if not isinstance(st.target, ast.Name):
                    self.fail(st, 'annotated assignment to something that is not a name')
                if st.value is not None:
                    self.assign(ast.copy_location(ast.Assign(targets=[st.target], value=st.value), st), env)
            elif isinstance(st, ast.Assign):
                self.assign(st, env)
            elif isinstance(st, ast.AugAssign):
                self.augassign(st, env)
            elif isinstance(st, ast.If):
                r = self.if_(st, stmts[idx + 1:], env)
                if r is not None:
                    return r
            elif isinstance(st, ast.For):
                self.for_(st, env)
            elif isinstance(st, ast.Expr):
                self.expr_stmt(st, env)
            else:
                self.fail(st, 'statement `%s` is outside the subset the translator executes' % ast.unparse(st)[:60])
        return ('fall', None)

    def bind(self, target, value, env, st):
        if isinstance(target, ast.Name):
            env[target.id] = value
        else:
            self.fail(st, 'assignment target `%s` not supported' % ast.unparse(target)[:40])

    def assign(self, st, env):
        if len(st.targets) != 1:
            self.fail(st, 'chained assignment')
        t = st.targets[0]
        if isinstance(t, ast.Name):
            if isinstance(st.value, ast.List) and not any(isinstance(e, ast.Starred) for e in st.value.elts):
                env[t.id] = SymList([self.ev(e, env) for e in st.value.elts])
            else:
                env[t.id] = self.ev(st.value, env)
            return
        if isinstance(t, (ast.Tuple, ast.List)) and all(isinstance(e, ast.Name) for e in t.elts):
            n = len(t.elts)
            v = self.ev(st.value, env)          # the whole right-hand side first, as Python does
            if isinstance(v, (ast.Tuple, ast.List)):
                if len(v.elts) != n:
                    self.fail(st, 'unpacking %d values into %d names' % (len(v.elts), n))
                vals = list(v.elts)
            else:
                vals = [unpack_item(v, i, n, st) for i in range(n)]
            for e, x in zip(t.elts, vals):
                env[e.id] = x
            return
        self.fail(st, 'assignment target `%s` not supported' % ast.unparse(t)[:40])

    def augassign(self, st, env):
        if not isinstance(st.target, ast.Name) or st.target.id not in env:
            self.fail(st, 'augmented assignment to something that is not a local name')
        if not isinstance(st.op, (ast.Add, ast.Sub, ast.Mult, ast.Div)):
            self.fail(st, 'augmented operator not supported')
        cur = env[st.target.id]
        if isinstance(cur, SymList) or not is_numeric(cur):
            self.fail(st, 'augmented assignment: `%s` is not known to hold a number, `x op= e` may not be `x = x op e`'
                      % st.target.id)
        rhs = self.ev(st.value, env)
        # v op= e  ==  v = v op e   for numbers: the left operand is the old value, Python's own order
        env[st.target.id] = ast.copy_location(ast.BinOp(left=cur, op=st.op, right=rhs), st)

    def is_raise(self, body):
        if len(body) == 1 and isinstance(body[0], ast.Raise) and body[0].cause is None:
            e = body[0].exc
            if isinstance(e, ast.Call) and isinstance(e.func, ast.Name):
                return e.func.id
            if isinstance(e, ast.Name):
                return e.id
        return None

    def if_(self, st, rest, env):
        test = self.ev(st.test, env)
        exc = self.is_raise(st.body)
        if exc is not None:
            if self.cond:
                self.fail(st, 'conditional raise inside a conditional region')
            self.events.append(('raise', test, exc, st))
            if st.orelse:       # `if c: raise X  else: S`  ==  `if c: raise X` ; S
                return self.block_tail(st.orelse, rest, env)
            return None
        exc2 = self.is_raise(st.orelse) if st.orelse else None
        if exc2 is not None:    # `if c: S else: raise X`
            if self.cond:
                self.fail(st, 'conditional raise inside a conditional region')
            # the test is only used as a condition, so `not not c` is `c`
            if isinstance(test, ast.UnaryOp) and isinstance(test.op, ast.Not):
                neg = test.operand
            else:
                neg = ast.copy_location(ast.UnaryOp(op=ast.Not(), operand=test), st)
            self.events.append(('raise', neg, exc2, st))
            return self.block_tail(st.body, rest, env)
        # both branches are ordinary code: run each on a copy, merge with conditional expressions
        e1, e2 = self.copy_env(env), self.copy_env(env)
        self.cond += 1
        k1, v1 = self.block(st.body, e1)
        k2, v2 = self.block(st.orelse, e2)
        self.cond -= 1
        if k1 == 'ret' or k2 == 'ret':
            # a branch returns: the statements after the `if` belong to the branch(es) that fall through
            self.cond += 1
            if k1 != 'ret':
                k1, v1 = self.block(list(rest), e1)
            if k2 != 'ret':
                k2, v2 = self.block(list(rest), e2)
            self.cond -= 1
            if k1 != 'ret' or k2 != 'ret':
                self.fail(st, 'a path falls off the end of the function after a conditional return')
            return ('ret', self.ifexp(test, v1, v2, st))
        for name in sorted((set(e1) | set(e2)) - {'__locals__'}):
            a, b = e1.get(name), e2.get(name)
            if a is None or b is None:
                # bound on one path only: usable only on that path - drop it, a later use is rejected as unknown name
                env.pop(name, None)
                env[name] = ast.copy_location(ast.Name(id='__unbound_%s__' % name, ctx=ast.Load()), st)
                continue
            if isinstance(a, SymList) or isinstance(b, SymList):
                if a is b:
                    env[name] = a
                    continue
                self.fail(st, 'list `%s` changed inside a branch' % name)
            env[name] = a if same(a, b) else self.ifexp(test, a, b, st)
        return None

    def block_tail(self, stmts, rest, env):
        k, v = self.block(stmts, env)
        if k == 'ret':
            if rest:
                self.fail(rest[0], 'statement after return')
            return (k, v)
        return None

    @staticmethod
    def copy_env(env):
        return dict(env)

    def for_(self, st, env):
        if st.orelse or not isinstance(st.target, ast.Name):
            self.fail(st, 'for loop with else / structured target')
        it = self.ev(st.iter, env, keep_list=True)
        if isinstance(it, SymList):
            elems = list(it.elems)
        elif isinstance(it, (ast.List, ast.Tuple)):
            elems = list(it.elts)
        else:
            self.fail(st, 'for loop over something that is not a list written in this function')
        for e in elems:
            env[st.target.id] = e
            k, _ = self.block(st.body, env)
            if k == 'ret':
                self.fail(st, 'return inside a loop')
            if isinstance(it, SymList) and it.elems != elems:
                self.fail(st, 'the list is modified while it is iterated')

    def expr_stmt(self, st, env):
        v = st.value
        if isinstance(v, ast.Call) and isinstance(v.func, ast.Attribute) and v.func.attr == 'append' \
                and isinstance(v.func.value, ast.Name) and isinstance(env.get(v.func.value.id), SymList) \
                and len(v.args) == 1 and not v.keywords:
            lst = env[v.func.value.id]
            if lst.escaped:
                self.fail(st, 'append to a list that has already been handed to something else')
            if self.cond:
                self.fail(st, 'append inside a conditional region')
            lst.elems.append(self.ev(v.args[0], env))
            return
        if isinstance(v, ast.Call) and self.helper(v.func) is not None:
            self.ev(v, env)
            return
        if isinstance(v, ast.Call) and isinstance(v.func, ast.Attribute) and v.func.attr in SELF_MUTATORS \
                and isinstance(v.func.value, ast.Name) and v.func.value.id in env and not self.cond:
            self.ev(v, env)     # `x.to_positive()` as a statement: x now holds the changed object (see `call`)
            return
        self.fail(st, 'expression statement `%s` (possible side effect) is outside the subset' % ast.unparse(st)[:60])

    # -- a whole function -----------------------------------------------------------------------
    @staticmethod
    def local_names(fn):
        """Names that are local to `fn` (assigned somewhere in it): never looked up at module level."""
        out = set()
        for n in ast.walk(fn):
            if isinstance(n, ast.Name) and isinstance(n.ctx, (ast.Store, ast.Del)):
                out.add(n.id)
            elif isinstance(n, (ast.Global, ast.Nonlocal)):
                raise Reject('%s: global/nonlocal statement in a function the translator executes' % fn.name)
            elif isinstance(n, (ast.FunctionDef, ast.Lambda, ast.ClassDef)) and n is not fn:
                raise Reject('%s: nested function/class in a function the translator executes' % fn.name)
        return frozenset(out - {a.arg for a in fn.args.posonlyargs + fn.args.args + fn.args.kwonlyargs})

    def run(self, fn):
        env = {a.arg: ast.copy_location(ast.Name(id=a.arg, ctx=ast.Load()), a) for a in fn.args.args}
        env['__locals__'] = self.local_names(fn)
        kind, val = self.block(body_of(fn), env)
        if kind != 'ret':
            self.fail(fn, 'the function can fall off its end')
        for n in ast.walk(val):
            if isinstance(n, ast.Name) and n.id.startswith('__unbound_'):
                self.fail(n, 'use of a name that is bound on one path only')
        return val


# ------------------------------------------------------------------ stage 2: the shapes of the finders
def body_of(fn):
    stmts = list(fn.body)
    if stmts and isinstance(stmts[0], ast.Expr) and isinstance(stmts[0].value, ast.Constant) \
            and isinstance(stmts[0].value.value, str):
        stmts = stmts[1:]
    return stmts


def check_args(ctx, fn, names, defaults):
    a = fn.args
    got = [x.arg for x in a.args]
    dfl = [ast.unparse(d) for d in a.defaults]
    if got != names or dfl != defaults or a.vararg or a.kwarg or a.kwonlyargs or a.posonlyargs:
        fail(ctx, fn, 'signature (%s; defaults %s) is not (%s; %s)' % (got, dfl, names, defaults))
    if [ast.unparse(d) for d in fn.decorator_list] != ['staticmethod']:
        fail(ctx, fn, 'expected exactly the decorator @staticmethod')


def check_events(ctx, fn, sx, range_guard):
    """The type guard comes first, before any call; [the range guard comes next, after `epoch.year()` only];
    nothing else can raise conditionally.  -> the test of the range guard (or None)."""
    ev = sx.events
    if not ev or ev[0][0] != 'raise' or ev[0][2] != 'TypeError' or ast.unparse(ev[0][1]) != 'not isinstance(epoch, Epoch)':
        fail(ctx, fn, 'expected `if not isinstance(epoch, Epoch): raise TypeError(...)` before anything else')
    rest = ev[1:]
    test = None
    if range_guard:
        i = 0
        while i < len(rest) and rest[i][0] == 'call' and ast.unparse(rest[i][1]) == 'epoch.year()':
            i += 1
        if i >= len(rest) or rest[i][0] != 'raise' or rest[i][2] != 'ValueError':
            fail(ctx, fn, 'expected `if y < <lit> or y > <lit>: raise ValueError(...)` right after `y = epoch.year()`')
        test = rest[i][1]
        rest = rest[i + 1:]
    extra = [e for e in rest if e[0] == 'raise']
    if extra:
        fail(ctx, extra[0][3], 'unexpected conditional raise of %s' % extra[0][2])
    return test


class Series:
    """Translation of a `corr`/`elon` expression into the FExpr constructors of the record."""

    def __init__(self, ctx, is_x, is_m, aux_of, varname):
        self.ctx, self.is_x, self.is_m, self.aux_of, self.varname = ctx, is_x, is_m, aux_of, varname
        self.aux = []           # [(c0, c1)] in the order of first use

    def trig_arg(self, node):
        if self.is_m is not None:
            if self.is_m(node):
                return '.m'
            if isinstance(node, ast.BinOp) and isinstance(node.op, ast.Mult) and self.is_m(node.right):
                j = literal(self.ctx, node.left)
                if j is not None:
                    return '(.jm %s)' % lean_dec(j)
        a = self.aux_of(node)
        if a is not None:
            for i, b in enumerate(self.aux):
                if dec_value(b[0]) == dec_value(a[0]) and dec_value(b[1]) == dec_value(a[1]):
                    return '(.aux %d)' % i
            self.aux.append(a)
            return '(.aux %d)' % (len(self.aux) - 1)
        fail(self.ctx, node, 'argument of sin/cos not recognised: `%s`' % ast.unparse(node)[:80])

    def fexpr(self, node):
        lit = literal(self.ctx, node)
        if lit is not None:
            return '(.lit %s)' % lean_dec(lit)
        if self.is_x(node):
            return '.x'
        if isinstance(node, ast.UnaryOp) and isinstance(node.op, ast.USub):
            return '(.neg %s)' % self.fexpr(node.operand)
        if isinstance(node, ast.BinOp) and type(node.op) in (ast.Add, ast.Sub, ast.Mult):
            c = {ast.Add: 'add', ast.Sub: 'sub', ast.Mult: 'mul'}[type(node.op)]
            return '(.%s %s %s)' % (c, self.fexpr(node.left), self.fexpr(node.right))
        if isinstance(node, ast.Call) and isinstance(node.func, ast.Name) and node.func.id in ('sin', 'cos') \
                and len(node.args) == 1 and not node.keywords:
            return '(.%s %s)' % (node.func.id, self.trig_arg(node.args[0]))
        fail(self.ctx, node, 'expression not in the accepted subset (literals, %s, + - *, sin/cos of m, j*m or an auxiliary '
                             'angle): `%s`' % (self.varname, ast.unparse(node)[:80]))


def translate_ch36(ctx, sx, fn):
    check_args(ctx, fn, ['epoch'], [])
    ret = sx.run(fn)
    test = check_events(ctx, fn, sx, True)
    ep, el = ret, None
    if isinstance(ret, ast.Tuple) and len(ret.elts) == 2:
        ep, el = ret.elts
    c = {}
    if not match(PE('Epoch(_E1 + _E2)'), ep, c, ctx):
        fail(ctx, fn, 'the returned value `%s` is not `Epoch(jde0 + corr)`' % ast.unparse(ep)[:80])
    jde0, corr = c['_E1'], c['_E2']
    c = {}
    if not match(PE('_L1 + _E1 * _L2'), jde0, c, ctx):
        fail(ctx, fn, 'jde0 `%s` is not `a + k * b`' % ast.unparse(jde0)[:80])
    rec = {'A': c['_L1'], 'B': c['_L2']}
    k = c['_E1']
    c = {'_L3': rec['A'], '_L4': rec['B']}
    if not match(PE('round((_L1 * _E1 + _L2 - _L3) / _L4)'), k, c, ctx):
        fail(ctx, fn, 'the period count `%s` is not `round((<lit> * y + <lit> - a) / b)`' % ast.unparse(k)[:100])
    rec['yc'], rec['y0'] = c['_L1'], c['_L2']
    y = c['_E1']
    if ast.unparse(y) != 'epoch.year()':
        fail(ctx, fn, 'the period count is computed from `%s`, not from `epoch.year()`' % ast.unparse(y)[:60])
    c = {'_S1': y}
    if not match(PE('_S1 < _L1 or _S1 > _L2'), test, c, ctx):
        fail(ctx, fn, 'the range guard `%s` is not `y < <lit> or y > <lit>`' % ast.unparse(test)[:80])
    rec['ylo'], rec['yhi'] = c['_L1'], c['_L2']
    shared = {'_S1': jde0, '_S2': k}       # tj, tc, M0, M1 must be the same literals at every occurrence

    def transactional(pat):
        def test(n):
            trial = dict(shared)
            if match(PE(pat), n, trial, ctx):
                shared.update(trial)
                return True
            return False
        return test
    is_t = transactional('(_S1 - _L1) / _L2')
    is_m = transactional('Angle(_L3 + _S2 * _L4).to_positive().rad()')

    def aux_of(n):
        cc = {'_F1': is_t}
        if match(PE('Angle(_L1 + _L2 * _F1).rad()'), n, cc, ctx):
            return (cc['_L1'], cc['_L2'])
        return None
    ser = Series(ctx, is_t, is_m, aux_of, 't')
    rec['corr'] = ser.fexpr(corr)
    rec['elon'] = None
    if el is not None:
        c = {}
        if not match(PE('Angle(_E1).to_positive()'), el, c, ctx):
            fail(ctx, fn, 'the second returned value `%s` is not `Angle(elon).to_positive()`' % ast.unparse(el)[:60])
        rec['elon'] = ser.fexpr(c['_E1'])
    for key, what in (('_L1', 't = (jde0 - <lit>) / <lit>'), ('_L3', 'the mean anomaly Angle(m0 + k * m1).to_positive().rad()')):
        if key not in shared:
            fail(ctx, fn, 'the series never uses %s' % what)
    rec['tj'], rec['tc'], rec['M0'], rec['M1'] = shared['_L1'], shared['_L2'], shared['_L3'], shared['_L4']
    rec['aux'] = ser.aux
    if (rec['elon'] is not None) != (ctx['meth'] in ELONG):
        fail(ctx, fn, 'only the elongation finders return an angle')
    return rec


def translate_pa(ctx, sx, fn):
    check_args(ctx, fn, ['epoch', 'perihelion'], ['True'])
    ret = sx.run(fn)
    check_events(ctx, fn, sx, False)
    c = {}
    if not match(PE('Epoch(Interpolation([_E1, _E2, _E3], [_E4, _E5, _E6]).minmax())'), ret, c, ctx):
        fail(ctx, fn, 'the returned value is not `Epoch(Interpolation([jde - d, jde, jde + d], [r_b, r, r_a]).minmax())`')
    jde = c['_E2']
    d = {'_S1': jde}
    if not (match(PE('_S1 - _L1'), c['_E1'], d, ctx) and match(PE('_S1 + _L1'), c['_E3'], d, ctx)):
        fail(ctx, fn, 'the abscissae are not `jde - <lit>`, `jde`, `jde + <lit>`')
    rec = {'delta': d['_L1']}
    for x, r in ((c['_E1'], c['_E4']), (c['_E2'], c['_E5']), (c['_E3'], c['_E6'])):
        if not match(PE('__unpack__(_X.geometric_heliocentric_position(Epoch(_S1)), 2, 3)'), r, {'_S1': x}, ctx):
            fail(ctx, fn, 'an ordinate `%s` is not the radius vector `l, b, r = %s.geometric_heliocentric_position('
                          'Epoch(<abscissa>))`' % (ast.unparse(r)[:60], ctx['cls']))
    # Earth only: jde += corr with corr chosen by `perihelion`
    corr_p = corr_a = None
    base = jde
    c = {}
    if match(PE('_E1 + (_E2 if perihelion else _E3)'), jde, c, ctx):
        base, corr_p, corr_a = c['_E1'], c['_E2'], c['_E3']
    # the count k: the left operand of the first product
    c = {}
    if not match(PE('_L1 + _E1 * _E2'), base, c, ctx):
        fail(ctx, fn, 'the first approximation `%s` is not `<lit> + k * ...`' % ast.unparse(base)[:80])
    k = c['_E1']
    rec['J0'] = c['_L1']
    s = {'_S1': k}
    c = dict(s)
    if match(PE('_L1 + _S1 * _L2'), base, c, ctx):
        rec['P'], rec['Q'] = c['_L2'], (0, 0)
    else:
        c = dict(s)
        if match(PE('_L1 + _S1 * (_L2 + _S1 * _L3)'), base, c, ctx):
            rec['P'], rec['Q'] = c['_L2'], c['_L3']
        else:
            c = dict(s)
            if match(PE('_L1 + _S1 * (_L2 - _S1 * _L3)'), base, c, ctx):
                rec['P'], rec['Q'] = c['_L2'], (-c['_L3'][0], c['_L3'][1])
            else:
                fail(ctx, fn, 'the first approximation `%s` is not `J0 + k * P` or `J0 + k * (P +- k * Q)`'
                     % ast.unparse(base)[:100])
    c = {}
    if not match(PE('round(_E1) if perihelion else round(_E2 + _L1) - _L1'), k, c, ctx) or not same(c['_E1'], c['_E2']):
        fail(ctx, fn, 'the count `%s` is not `round(k) if perihelion else round(k + h) - h`' % ast.unparse(k)[:100])
    rec['half'] = c['_L1']
    c2 = {}
    if not match(PE('_L1 * (epoch.year() - _L2)'), c['_E1'], c2, ctx):
        fail(ctx, fn, 'the count is not computed from `<lit> * (epoch.year() - <lit>)`')
    rec['C'], rec['Y0'] = c2['_L1'], c2['_L2']

    def is_k(n):
        return same(n, k)

    def aux_of(n):
        cc = {'_F1': is_k}
        if match(PE('Angle(_L1 + _L2 * _F1).rad()'), n, cc, ctx):
            return (cc['_L1'], cc['_L2'])
        return None
    ser = Series(ctx, is_k, None, aux_of, 'k')
    rec['corrPeri'] = rec['corrAph'] = None
    if corr_p is not None:
        rec['corrPeri'] = ser.fexpr(corr_p)
        rec['corrAph'] = ser.fexpr(corr_a)
    rec['aux'] = ser.aux
    return rec


def translate_nodes(ctx, sx, fn):
    check_args(ctx, fn, ['epoch', 'ascending'], ['True'])
    ret = sx.run(fn)
    check_events(ctx, fn, sx, False)
    c = {}
    if not (isinstance(ret, ast.Tuple) and len(ret.elts) == 2
            and match(PE('__unpack__(_E1, 0, 2)'), ret.elts[0], c, ctx)
            and match(PE('__unpack__(_S1, 1, 2)'), ret.elts[1], {'_S1': c['_E1']}, ctx)):
        fail(ctx, fn, 'the returned value is not `time, r` of `time, r = passage_nodes_elliptic(...)`')
    call = c['_E1']
    c = {}
    pat = ('passage_nodes_elliptic(__unpack__(_E1, 5, 6), __unpack__(_E2, 2, 6), __unpack__(_E3, 1, 6), '
           '_X.perihelion_aphelion(epoch), ascending)')
    if not match(PE(pat), call, c, ctx) or not (same(c['_E1'], c['_E2']) and same(c['_E1'], c['_E3'])) \
            or not match(PE('_X.orbital_elements_mean_equinox(epoch)'), c['_E1'], {}, ctx):
        fail(ctx, fn, 'the call `%s` is not passage_nodes_elliptic(arg, e, a, %s.perihelion_aphelion(epoch), ascending) '
                      'with the mean elements of `epoch`' % (ast.unparse(call)[:80], ctx['cls']))
    return {}


# ------------------------------------------------------------------ translation of a package
def translate(pkg):
    """-> (ch36 records, perihelion_aphelion records, passage_nodes names), in source order."""
    ch36, pa, nodes = [], [], []
    for mod in MODULES:
        rel = 'pymeeus/%s.py' % mod
        if rel not in pkg.sources:
            continue
        src = pkg.sources[rel]
        tree = pkg.tree(rel)
        classes = [n for n in tree.body if isinstance(n, ast.ClassDef) and n.name == mod]
        if len(classes) != 1:
            raise Reject('%s: expected exactly one class %s' % (rel, mod))
        seen = set()
        for fn in classes[0].body:
            if not isinstance(fn, ast.FunctionDef):
                continue
            ctx = {'fn': '%s.%s' % (mod, fn.name), 'file': rel, 'src': src, 'cls': mod, 'meth': fn.name}
            if fn.name in seen:
                fail(ctx, fn, 'method defined twice')
            seen.add(fn.name)
            sx = Sym(ctx, pkg, rel, classes[0])
            if fn.name in CH36:
                ch36.append((ctx['fn'], translate_ch36(ctx, sx, fn)))
            elif fn.name == 'perihelion_aphelion':
                pa.append((ctx['fn'], translate_pa(ctx, sx, fn)))
            elif fn.name == 'passage_nodes':
                translate_nodes(ctx, sx, fn)
                nodes.append(ctx['fn'])
            elif not fn.name.startswith('_'):
                code_only = '\n'.join(ast.unparse(s) for s in body_of(fn))
                if re.search(r'\.year\(\)|\bround\(\(', code_only) or 'passage_nodes_elliptic' in code_only:
                    fail(ctx, fn, 'looks like an event finder (uses .year() / round((...)) / passage_nodes_elliptic) '
                                  'but is not one of the known finder names')
    return ch36, pa, nodes


# ------------------------------------------------------------------ output
def lean_opt(x):
    return 'none' if x is None else '(some %s)' % x


def lean_aux(aux):
    return '[' + ', '.join('(%s, %s)' % (lean_dec(a), lean_dec(b)) for a, b in aux) + ']'


def ident(name):
    return name.replace('.', '_')


def write_if_changed(path, text):
    os.makedirs(os.path.dirname(path), exist_ok=True)
    if not os.path.exists(path) or open(path).read() != text:
        open(path, 'w').write(text)
        return 1
    return 0


def render_ch36(name, r):
    out = ['def %s : Finder :=' % ident(name)]
    out.append('  { name := "%s", ylo := %s, yhi := %s, yc := %s, y0 := %s,' % (
        name, lean_dec(r['ylo']), lean_dec(r['yhi']), lean_dec(r['yc']), lean_dec(r['y0'])))
    out.append('    A := %s, B := %s, M0 := %s, M1 := %s, tj := %s, tc := %s,' % (
        lean_dec(r['A']), lean_dec(r['B']), lean_dec(r['M0']), lean_dec(r['M1']), lean_dec(r['tj']), lean_dec(r['tc'])))
    out.append('    aux := %s,' % lean_aux(r['aux']))
    out.append('    corr := %s,' % r['corr'])
    out.append('    elon := %s }' % lean_opt(r['elon']))
    out.append('')
    return out


def render_pa(name, r):
    out = ['def %s : PAFinder :=' % ident(name)]
    out.append('  { name := "%s", C := %s, Y0 := %s, half := %s, J0 := %s, P := %s, Q := %s,' % (
        name, lean_dec(r['C']), lean_dec(r['Y0']), lean_dec(r['half']), lean_dec(r['J0']), lean_dec(r['P']), lean_dec(r['Q'])))
    out.append('    aux := %s,' % lean_aux(r['aux']))
    out.append('    corrPeri := %s,' % lean_opt(r['corrPeri']))
    out.append('    corrAph := %s,' % lean_opt(r['corrAph']))
    out.append('    delta := %s }' % lean_dec(r['delta']))
    out.append('')
    return out


def main():
    ch36, pa, nodes = translate(package_of_repo(REPO))
    if not ch36 or not pa or not nodes:
        raise Reject('no finders found under %s' % REPO)

    out = ['-- GENERATED by tools/gen_finders.py from %s; do not edit.' % ', '.join('pymeeus/%s.py' % m for m in MODULES),
           'import Pymeeus.Lemmas.FinderTypes', 'namespace Pymeeus.Finders.Data', 'open Pymeeus.Finders', '']
    for name, r in ch36:
        out += render_ch36(name, r)
    for name, r in pa:
        out += render_pa(name, r)
    out.append('/-- Every Meeus ch. 36 finder of the source (%d). -/' % len(ch36))
    out.append('def generatedFinders : List Finder :=\n  [' + ',\n   '.join(ident(n) for n, _ in ch36) + ']')
    out.append('')
    out.append('/-- Every `perihelion_aphelion` of the source (%d). -/' % len(pa))
    out.append('def generatedPA : List PAFinder :=\n  [' + ', '.join(ident(n) for n, _ in pa) + ']')
    out.append('')
    out.append('/-- Every `passage_nodes` of the source (%d); all have the shape' % len(nodes))
    out.append('    `passage_nodes_elliptic(arg, e, a, <Planet>.perihelion_aphelion(epoch), ascending)` with the mean elements of `epoch`. -/')
    out.append('def generatedNodePassages : List String :=\n  [' + ', '.join('"%s"' % n for n in nodes) + ']')
    out.append('')
    out.append('end Pymeeus.Finders.Data')
    n = write_if_changed(os.path.join(LEAN, 'Pymeeus', 'Gen', 'FinderData.lean'), '\n'.join(out) + '\n')

    drv = ['-- GENERATED by tools/gen_finders.py; do not edit.',
           'import Pymeeus.Gen.FinderData', 'namespace Driver', 'open Pymeeus.Finders',
           '/-- "<Planet>.<finder>" -> generated record of a Meeus ch. 36 finder. -/',
           'def finderRecord : String → Option Finder']
    for name, _ in ch36:
        drv.append('  | "%s" => some Data.%s' % (name, ident(name)))
    drv.append('  | _ => none')
    drv.append('/-- "<Planet>.perihelion_aphelion" -> generated record. -/')
    drv.append('def paRecord : String → Option PAFinder')
    for name, _ in pa:
        drv.append('  | "%s" => some Data.%s' % (name, ident(name)))
    drv.append('  | _ => none')
    drv.append('end Driver')
    n += write_if_changed(os.path.join(LEAN, 'Pymeeus', 'Gen', 'FinderDispatch.lean'), '\n'.join(drv) + '\n')
    print('gen_finders: %d periodic-term finders, %d perihelion_aphelion, %d passage_nodes; %d file(s) rewritten'
          % (len(ch36), len(pa), len(nodes), n))


# ------------------------------------------------------------------ self-test
ST_HEAD = """from math import sin, cos
from pymeeus.Angle import Angle
from pymeeus.Epoch import Epoch
from pymeeus.Interpolation import Interpolation
"""

ST_GUARDS = '''        if not isinstance(epoch, Epoch):
            raise TypeError("Invalid input type")
        y = epoch.year()
        if y < -2000.0 or y > 4000.0:
            raise ValueError("Epoch outside the -2000/4000 range")
'''

ST_CONSTS = '''        a = 2451996.706
        b = 583.921361
        m0 = 82.7311
        m1 = 215.513058
'''

ST_CORR = '''        corr = (-0.0096 + t * (0.0002 - t * 0.00001)
                + sin(m) * (2.0009 + t * (-0.0033 - t * 0.00001))
                + cos(2.0 * m) * (0.0913 + t * 0.0009)
                + sin(aa) * (0.0 + t * 0.0144))
'''

ST_CH36 = '''
    @staticmethod
    def inferior_conjunction(epoch):
        """doc"""
''' + ST_GUARDS + ST_CONSTS + '''        k = round((365.2425 * y + 1721060.0 - a) / b)
        jde0 = a + k * b
        m = m0 + k * m1
        m = Angle(m).to_positive()
        m = m.rad()
        t = (jde0 - 2451545.0) / 36525.0
        aa = 82.74 + 40.76 * t
        aa = Angle(aa).rad()
''' + ST_CORR + '''        to_return = jde0 + corr
        return Epoch(to_return)
'''

ST_KSEL = '''        if perihelion:
            k = round(k)
        else:
            k = round(k + 0.5) - 0.5
'''

ST_TAIL = '''        jde_before = jde - 0.5
        jde_after = jde + 0.5
        l, b, r_b = Venus.geometric_heliocentric_position(Epoch(jde_before))
        l, b, r = Venus.geometric_heliocentric_position(Epoch(jde))
        l, b, r_a = Venus.geometric_heliocentric_position(Epoch(jde_after))
        m = Interpolation([jde_before, jde, jde_after], [r_b, r, r_a])
        sol = m.minmax()
        return Epoch(sol)
'''

ST_PA = '''
    @staticmethod
    def perihelion_aphelion(epoch, perihelion=True):
        if not isinstance(epoch, Epoch):
            raise TypeError("Invalid input value")
        k = 1.62549 * (epoch.year() - 2000.53)
''' + ST_KSEL + '''        jde = 2451738.233 + k * (224.7008188 - k * 0.0000000327)
''' + ST_TAIL

ST_HELPER = '''
def _checked_year(epoch):
    """validate and return the year"""
    if not isinstance(epoch, Epoch):
        raise TypeError("Invalid input type")
    y = epoch.year()
    if y < -2000.0 or y > 4000.0:
        raise ValueError("out of range")
    return y
'''

ST_IC = '\n_IC = (2451996.706, 583.921361, 82.7311, 215.513058)\n'


def st_module(ch36=ST_CH36, pa=ST_PA, top='', head='', bottom=''):
    return head + ST_HEAD + top + '\n\nclass Venus(object):\n' + ch36 + pa + '\n' + bottom


def st_variants():
    """(name, expectation, {path: text}); 'same' = identical records, 'not' = different records or rejected."""
    V = []

    def add(name, expect, ch36=ST_CH36, pa=ST_PA, top='', other=None, head='', bottom=''):
        src = {'pymeeus/Venus.py': st_module(ch36, pa, top, head, bottom)}
        if other:
            src['pymeeus/Other.py'] = other
        V.append((name, expect, src))
    with_helper = ST_CH36.replace(ST_GUARDS, '        y = _checked_year(epoch)\n')
    with_tuple = ST_CH36.replace(ST_CONSTS, '        a, b, m0, m1 = _IC\n')
    # ---------------- must accept, identical record
    add('helper for the type and range check', 'same', ch36=with_helper, top=ST_HELPER)
    add('constants in never-modified module-level names', 'same', top=ST_IC + '_J2000 = 2451545.0\n',
        ch36=with_tuple.replace('(jde0 - 2451545.0)', '(jde0 - _J2000)'))
    add('constant tuple read by index', 'same', top=ST_IC,
        ch36=ST_CH36.replace(ST_CONSTS, '        a = _IC[0]\n        b = _IC[1]\n        m0, m1 = _IC[2], _IC[-1]\n'))
    add('renamed locals, chained calls, no temporaries', 'same', ch36=ST_CH36.replace('jde0', 'jde_mean').replace(
        '        m = m0 + k * m1\n        m = Angle(m).to_positive()\n        m = m.rad()\n',
        '        anomaly = Angle(m0 + k * m1).to_positive().rad()\n').replace('sin(m)', 'sin(anomaly)').replace(
        'cos(2.0 * m)', 'cos(2.0 * anomaly)').replace(
        '        aa = 82.74 + 40.76 * t\n        aa = Angle(aa).rad()\n',
        '        long_period = Angle(82.74 + 40.76 * t).rad()\n').replace('sin(aa)', 'sin(long_period)').replace(
        '        to_return = jde_mean + corr\n        return Epoch(to_return)', '        return Epoch(jde_mean + corr)'))
    add('corr built by += in the same order', 'same', ch36=ST_CH36.replace(ST_CORR, '''        corr = -0.0096 + t * (0.0002 - t * 0.00001)
        corr += sin(m) * (2.0009 + t * (-0.0033 - t * 0.00001))
        corr += cos(2.0 * m) * (0.0913 + t * 0.0009)
        corr += sin(aa) * (0.0 + t * 0.0144)
'''))
    add('tuple assignments and named magic numbers', 'same', ch36=ST_CH36.replace(
        ST_CONSTS + '        k = round((365.2425 * y + 1721060.0 - a) / b)\n', '''        a, b = 2451996.706, 583.921361
        m0, m1 = 82.7311, 215.513058
        gregorian_year = 365.2425
        origin = 1721060.0
        year_length = gregorian_year
        k = round((year_length * y + origin - a) / b)
''').replace('        t = (jde0 - 2451545.0) / 36525.0',
             '        j2000, century = 2451545.0, 36525.0\n        t = (jde0 - j2000) / century'))
    add('private static helper of the class and a separate validation helper', 'same', top='''
def _require_epoch(epoch):
    if not isinstance(epoch, Epoch):
        raise TypeError("Invalid input type")
''', ch36='''
    @staticmethod
    def _count(y, a, b):
        return round((365.2425 * y + 1721060.0 - a) / b)
''' + ST_CH36.replace('        if not isinstance(epoch, Epoch):\n            raise TypeError("Invalid input type")\n',
                      '        _require_epoch(epoch)\n').replace('k = round((365.2425 * y + 1721060.0 - a) / b)',
                                                                   'k = Venus._count(y, a, b)'))
    add('range guard with the raise in the else branch of the negated test', 'same', ch36=ST_CH36.replace(
        '        if y < -2000.0 or y > 4000.0:\n            raise ValueError("Epoch outside the -2000/4000 range")\n        a = 2451996.706\n',
        '''        if not (y < -2000.0 or y > 4000.0):
            a = 2451996.706
        else:
            raise ValueError("Epoch outside the -2000/4000 range")
'''))
    add('to_positive() as a statement on a named Angle', 'same', ch36=ST_CH36.replace(
        '        m = Angle(m).to_positive()\n        m = m.rad()\n',
        '        m = Angle(m)\n        m.to_positive()\n        m = m.rad()\n'))
    add('perihelion_aphelion: inverted condition, swapped branches', 'same', pa=ST_PA.replace(ST_KSEL, '''        if not perihelion:
            k = round(k + 0.5) - 0.5
        else:
            k = round(k)
'''))
    add('perihelion_aphelion: conditional expression', 'same',
        pa=ST_PA.replace(ST_KSEL, '        k = round(k) if perihelion else round(k + 0.5) - 0.5\n'))
    add('perihelion_aphelion: for loop filling a list', 'same', pa=ST_PA.replace(ST_TAIL, '''        half_day = 0.5
        instants = [jde - half_day, jde, jde + half_day]
        distances = []
        for instant in instants:
            _, _, radius = Venus.geometric_heliocentric_position(Epoch(instant))
            distances.append(radius)
        table = Interpolation(instants, distances)
        return Epoch(table.minmax())
'''))
    # ---------------- must differ or be rejected
    add('helper clamps instead of raising', 'not', ch36=with_helper, top=ST_HELPER.replace(
        '    if y < -2000.0 or y > 4000.0:\n        raise ValueError("out of range")\n',
        '    if y < -2000.0:\n        y = -2000.0\n    if y > 4000.0:\n        y = 4000.0\n'))
    add('helper with the range -2000/3000', 'not', ch36=with_helper, top=ST_HELPER.replace('4000.0', '3000.0'))
    add('helper replaced from another module (setattr)', 'not', ch36=with_helper, top=ST_HELPER,
        other='import pymeeus.Venus\nsetattr(pymeeus.Venus, "_checked_year", lambda e: 2000.0)\n')
    add('helper defined twice', 'not', ch36=with_helper, top=ST_HELPER + ST_HELPER.replace('4000.0', '3000.0'))
    add('constant tuple re-bound later in its module', 'not', ch36=with_tuple,
        top=ST_IC + '_IC = (2451996.706, 584.0, 82.7311, 215.513058)\n')
    add('constant tuple re-bound through `global` in a function', 'not', ch36=with_tuple, top=ST_IC + '''

def recalibrate():
    global _IC
    _IC = (2451996.706, 584.0, 82.7311, 215.513058)
''')
    add('constant tuple replaced from another module', 'not', ch36=with_tuple, top=ST_IC,
        other='import pymeeus.Venus\npymeeus.Venus._IC = (1.0, 2.0, 3.0, 4.0)\n')
    add('constant list (mutable) modified in place somewhere', 'not', ch36=with_tuple,
        top='\n_IC = [2451996.706, 583.921361, 82.7311, 215.513058]\n', other='from pymeeus.Venus import _IC\n_IC[1] = 584.0\n')
    add('corr += chain with a term moved', 'not', ch36=ST_CH36.replace(ST_CORR, '''        corr = -0.0096 + t * (0.0002 - t * 0.00001)
        corr += cos(2.0 * m) * (0.0913 + t * 0.0009)
        corr += sin(m) * (2.0009 + t * (-0.0033 - t * 0.00001))
        corr += sin(aa) * (0.0 + t * 0.0144)
'''))
    add('augmented assignment inside a branch', 'not', ch36=ST_CH36.replace(
        '        to_return = jde0 + corr\n', '        if t > 0.0:\n            corr += 0.001\n        to_return = jde0 + corr\n'))
    add('an alias that is re-bound', 'not', ch36=ST_CH36.replace(
        '        k = round((365.2425 * y + 1721060.0 - a) / b)\n',
        '        period = b\n        b = 584.0\n        k = round((365.2425 * y + 1721060.0 - a) / period)\n'))
    add('+= on a value that is not known to be a number', 'not', ch36=ST_CH36.replace(
        '        m = Angle(m).to_positive()\n        m = m.rad()\n',
        '        m = Angle(m)\n        m += 0.0\n        m = m.to_positive().rad()\n'))
    add('year() evaluated before the type guard', 'not', ch36=ST_CH36.replace(
        '        if not isinstance(epoch, Epoch):\n            raise TypeError("Invalid input type")\n        y = epoch.year()\n',
        '        y = epoch.year()\n        if not isinstance(epoch, Epoch):\n            raise TypeError("Invalid input type")\n'))
    add('a statement with a possible side effect', 'not', ch36=ST_CH36.replace(
        '        m = Angle(m).to_positive()\n        m = m.rad()\n',
        '        m = Angle(m).to_positive()\n        m.set_tolerance(1e-3)\n        m = m.rad()\n'))
    add('to_positive() result bound to another name, the changed object used afterwards', 'same', ch36=ST_CH36.replace(
        '        m = Angle(m).to_positive()\n        m = m.rad()\n',
        '        m = Angle(m)\n        unused = m.to_positive()\n        m = m.rad()\n'))
    add('unknown method called on a named object, the object used afterwards', 'not', ch36=ST_CH36.replace(
        '        m = Angle(m).to_positive()\n        m = m.rad()\n',
        '        m = Angle(m).to_positive()\n        unused = m.set_radians(0.0)\n        m = m.rad()\n'))
    add('range guard on t instead of y', 'not', ch36=ST_CH36.replace(
        '        if y < -2000.0 or y > 4000.0:\n            raise ValueError("Epoch outside the -2000/4000 range")\n', '').replace(
        '        aa = 82.74 + 40.76 * t\n',
        '        if t < -40.0 or t > 20.0:\n            raise ValueError("Epoch outside the -2000/4000 range")\n        aa = 82.74 + 40.76 * t\n'))
    add('perihelion_aphelion: list appended to after it was handed over', 'not', pa=ST_PA.replace(
        '        m = Interpolation([jde_before, jde, jde_after], [r_b, r, r_a])\n', '''        xs = [jde_before, jde]
        m0 = Interpolation(xs, [r_b, r])
        xs.append(jde_after)
        m = Interpolation(xs, [r_b, r, r_a])
'''))
    add('perihelion_aphelion: count by truncation', 'not', pa=ST_PA.replace('k = round(k + 0.5) - 0.5', 'k = int(k) + 0.5'))
    add('perihelion_aphelion: radius taken by index instead of unpacking 3 values', 'not', pa=ST_PA.replace(
        'l, b, r = Venus.geometric_heliocentric_position(Epoch(jde))', 'r = Venus.geometric_heliocentric_position(Epoch(jde))[1]'))
    add('a changed coefficient', 'not', ch36=ST_CH36.replace('0.0913', '0.0931'))
    add('sin and cos swapped', 'not', ch36=ST_CH36.replace('cos(2.0 * m)', 'sin(2.0 * m)'))
    # ================= second round: modern idioms =================
    ST_PARGS = '''
_PeriodicArgs = namedtuple("_PeriodicArgs", ["jde0", "m", "t"])


def _periodic_args(y, /, *, a, b, m0, m1) -> _PeriodicArgs:
    """jde0, mean anomaly (radians), t"""
    k = round((365.2425 * y + 1721060.0 - a) / b)
    jde0 = a + k * b
    m = Angle(m0 + k * m1).to_positive()
    t = (jde0 - 2451545.0) / 36525.0
    return _PeriodicArgs(jde0, m.rad(), t)
'''
    ST_MID = ST_CONSTS + '''        k = round((365.2425 * y + 1721060.0 - a) / b)
        jde0 = a + k * b
        m = m0 + k * m1
        m = Angle(m).to_positive()
        m = m.rad()
        t = (jde0 - 2451545.0) / 36525.0
'''
    assert ST_MID in ST_CH36
    NT_IMPORT = 'from collections import namedtuple\n'
    call_kw = '        jde0, m, t = _periodic_args(\n            y, a=2451996.706, b=583.921361, m0=82.7311, m1=215.513058)\n'
    add('helper after the class, positional-only / keyword-only parameters, namedtuple result unpacked', 'same',
        head=NT_IMPORT, bottom=ST_PARGS + ST_HELPER, ch36=with_helper.replace(ST_MID, call_kw))
    add('namedtuple result read by field name and by index', 'same', head=NT_IMPORT, bottom=ST_PARGS,
        ch36=ST_CH36.replace(ST_MID, '        p = _periodic_args(y, b=583.921361, a=2451996.706, m1=215.513058, m0=82.7311)\n'
                                      '        jde0 = p.jde0\n        m = p[1]\n        t = p.t\n'))
    add('namedtuple built with keywords, fields given as a string', 'same', head=NT_IMPORT,
        bottom=ST_PARGS.replace('["jde0", "m", "t"]', '"jde0 m, t"').replace('_PeriodicArgs(jde0, m.rad(), t)',
                                                                                '_PeriodicArgs(t=t, jde0=jde0, m=m.rad())'),
        ch36=ST_CH36.replace(ST_MID, call_kw))
    add('math.sin / math.cos with `import math`', 'same', head='import math\n',
        ch36=ST_CH36.replace('sin(m)', 'math.sin(m)').replace('cos(2.0 * m)', 'math.cos(2.0 * m)').replace('sin(aa)', 'math.sin(aa)'))
    add('local aliases of functions', 'same', head='import math\n',
        ch36=ST_CH36.replace('        aa = 82.74', '        _sin = sin\n        _cos = math.cos\n        aa = 82.74').replace(
            'sin(m)', '_sin(m)').replace('cos(2.0 * m)', '_cos(2.0 * m)').replace('sin(aa)', '_sin(aa)'),
        pa=ST_PA.replace('        l, b, r_b = Venus.geometric_heliocentric_position(Epoch(jde_before))',
                         '        position = Venus.geometric_heliocentric_position\n        l, b, r_b = position(Epoch(jde_before))').replace(
            'l, b, r = Venus.geometric_heliocentric_position(Epoch(jde))', 'l, b, r = position(Epoch(jde))').replace(
            'l, b, r_a = Venus.geometric_heliocentric_position(Epoch(jde_after))', 'l, b, r_a = position(Epoch(jde_after))'))
    add('alias of a helper', 'same', top=ST_HELPER,
        ch36=ST_CH36.replace(ST_GUARDS, '        check = _checked_year\n        y = check(epoch)\n'))
    add('annotations, annotated locals, __future__ import', 'same', head='from __future__ import annotations\nfrom typing import Tuple\n',
        ch36=ST_CH36.replace('def inferior_conjunction(epoch):', 'def inferior_conjunction(epoch: Epoch) -> Epoch:').replace(
            '        a = 2451996.706\n', '        a: float = 2451996.706\n        k: int\n'),
        pa=ST_PA.replace('def perihelion_aphelion(epoch, perihelion=True):',
                         'def perihelion_aphelion(epoch: Epoch, perihelion: bool = True) -> Epoch:'))
    add('exception message built with str.format / f-string from module constants', 'same',
        top='\n_YEAR_MIN = -2000\n_YEAR_MAX = 4000\n',
        ch36=ST_CH36.replace('raise ValueError("Epoch outside the -2000/4000 range")',
                             'raise ValueError("Epoch outside the {}/{} range".format(_YEAR_MIN, _YEAR_MAX))').replace(
            'raise TypeError("Invalid input type")', 'raise TypeError(f"Invalid input type {type(epoch).__name__}")'))
    add('range guard written with never-modified module constants', 'same', bottom='\n_YEAR_MIN = -2000.0\n_YEAR_MAX = 4000.0\n',
        ch36=ST_CH36.replace('if y < -2000.0 or y > 4000.0:', 'if y < _YEAR_MIN or y > _YEAR_MAX:'))
    add('helper with an immutable default that is used', 'same', ch36='''
    @staticmethod
    def _count(y, a, b, year_length=365.2425, *, origin=1721060.0):
        return round((year_length * y + origin - a) / b)
''' + ST_CH36.replace('k = round((365.2425 * y + 1721060.0 - a) / b)', 'k = Venus._count(y, b=b, a=a)'))
    # ---- adversarial
    add('keywords a= and b= swapped', 'not', head=NT_IMPORT, bottom=ST_PARGS,
        ch36=ST_CH36.replace(ST_MID, call_kw.replace('a=2451996.706, b=583.921361', 'b=2451996.706, a=583.921361')))
    add('namedtuple field read back from the wrong field', 'not', head=NT_IMPORT, bottom=ST_PARGS,
        ch36=ST_CH36.replace(ST_MID, '        p = _periodic_args(y, a=2451996.706, b=583.921361, m0=82.7311, m1=215.513058)\n'
                                      '        jde0 = p.jde0\n        m = p.t\n        t = p.m\n'))
    add('namedtuple built with two values exchanged', 'not', head=NT_IMPORT,
        bottom=ST_PARGS.replace('_PeriodicArgs(jde0, m.rad(), t)', '_PeriodicArgs(jde0, t, m.rad())'),
        ch36=ST_CH36.replace(ST_MID, call_kw))
    add('namedtuple type re-bound elsewhere in the module', 'not', head=NT_IMPORT,
        bottom=ST_PARGS + '\n_PeriodicArgs = namedtuple("_PeriodicArgs", ["jde0", "t", "m"])\n', ch36=ST_CH36.replace(ST_MID, call_kw))
    add('namedtuple that is not collections.namedtuple', 'not', head='from pymeeus.base import namedtuple\n', bottom=ST_PARGS,
        ch36=ST_CH36.replace(ST_MID, call_kw))
    add('namedtuple method (_replace) used', 'not', head=NT_IMPORT, bottom=ST_PARGS,
        ch36=ST_CH36.replace(ST_MID, '        p = _periodic_args(y, a=2451996.706, b=583.921361, m0=82.7311, m1=215.513058)\n'
                                      '        p = p._replace(t=0.0)\n        jde0, m, t = p\n'))
    add('positional-only parameter passed by keyword', 'not', head=NT_IMPORT, bottom=ST_PARGS,
        ch36=ST_CH36.replace(ST_MID, call_kw.replace('            y, a=', '            y=y, a=')))
    add('keyword-only parameter passed positionally', 'not', head=NT_IMPORT, bottom=ST_PARGS,
        ch36=ST_CH36.replace(ST_MID, '        jde0, m, t = _periodic_args(y, 2451996.706, b=583.921361, m0=82.7311, m1=215.513058)\n'))
    add('helper with *args', 'not', head=NT_IMPORT, bottom=ST_PARGS.replace('(y, /, *, a, b, m0, m1)', '(y, *rest, a, b, m0, m1)'),
        ch36=ST_CH36.replace(ST_MID, call_kw))
    add('helper with a mutable default', 'not', ch36='''
    @staticmethod
    def _count(y, a, b, cache=[]):
        return round((365.2425 * y + 1721060.0 - a) / b)
''' + ST_CH36.replace('k = round((365.2425 * y + 1721060.0 - a) / b)', 'k = Venus._count(y, a, b)'))
    add('helper default that changes the result', 'not', ch36='''
    @staticmethod
    def _count(y, a, b, year_length=365.25):
        return round((year_length * y + 1721060.0 - a) / b)
''' + ST_CH36.replace('k = round((365.2425 * y + 1721060.0 - a) / b)', 'k = Venus._count(y, a, b)'))
    add('_YEAR_MAX changed', 'not', bottom='\n_YEAR_MIN = -2000.0\n_YEAR_MAX = 3000.0\n',
        ch36=ST_CH36.replace('if y < -2000.0 or y > 4000.0:', 'if y < _YEAR_MIN or y > _YEAR_MAX:'))
    add('_YEAR_MAX re-bound from another module', 'not', bottom='\n_YEAR_MIN = -2000.0\n_YEAR_MAX = 4000.0\n',
        ch36=ST_CH36.replace('if y < -2000.0 or y > 4000.0:', 'if y < _YEAR_MIN or y > _YEAR_MAX:'),
        other='import pymeeus.Venus as V\nV._YEAR_MAX = 5000.0\n')
    add('_YEAR_MAX re-bound through globals()', 'not', bottom='\n_YEAR_MIN = -2000.0\n_YEAR_MAX = 4000.0\n\n\ndef widen():\n    globals()["_YEAR_MAX"] = 5000.0\n',
        ch36=ST_CH36.replace('if y < -2000.0 or y > 4000.0:', 'if y < _YEAR_MIN or y > _YEAR_MAX:'))
    add('`math` re-bound in the module', 'not', head='import math\nimport cmath\nmath = cmath\n',
        ch36=ST_CH36.replace('sin(m)', 'math.sin(m)'))
    add('`math` is another module under that name', 'not', head='import numpy as math\n', ch36=ST_CH36.replace('sin(m)', 'math.sin(m)'))
    add('`math` replaced from another module', 'not', head='import math\n', ch36=ST_CH36.replace('sin(m)', 'math.sin(m)'),
        other='import pymeeus.Venus as V\nimport cmath\nV.math = cmath\n')
    add('`sin` is not math\'s sin', 'not', head='from numpy import sin\n')
    add('`round` re-bound in the module', 'not', top='\n\ndef round(x):\n    return int(x)\n')
    add('function alias re-bound between uses', 'not', ch36=ST_CH36.replace(
        '        aa = 82.74', '        f = sin\n        aa = 82.74').replace('sin(m)', 'f(m)').replace(
        '                + cos(2.0 * m)', '                + cos(2.0 * m)').replace(ST_CORR.split('\n')[2], ST_CORR.split('\n')[2]).replace(
        '+ sin(aa) * (0.0 + t * 0.0144))\n', '+ sin(aa) * (0.0 + t * 0.0144))\n        f = cos\n        corr += f(m) * 0.001\n'))
    add('position-function alias re-bound between uses', 'not', pa=ST_PA.replace(
        '        l, b, r_b = Venus.geometric_heliocentric_position(Epoch(jde_before))',
        '        position = Venus.geometric_heliocentric_position\n        l, b, r_b = position(Epoch(jde_before))\n'
        '        position = Venus.apparent_heliocentric_position').replace(
        'l, b, r = Venus.geometric_heliocentric_position(Epoch(jde))', 'l, b, r = position(Epoch(jde))'))
    add('call of a local that holds a value, not a function', 'not', ch36=ST_CH36.replace(
        '        aa = 82.74', '        f = Angle(0.0)\n        aa = 82.74').replace('sin(m)', 'f(m)'))
    add('exception class of the range guard changed', 'not', ch36=ST_CH36.replace('raise ValueError(', 'raise KeyError('))
    add('exception class of the type guard changed (in a helper)', 'not', ch36=with_helper,
        top=ST_HELPER.replace('raise TypeError(', 'raise ValueError('))
    return V


def st_render(sources):
    ch36, pa, _ = translate(Package(sources))
    out = []
    for n, r in ch36:
        out += render_ch36(n, r)
    for n, r in pa:
        out += render_pa(n, r)
    return '\n'.join(out)


def selftest():
    base = st_render({'pymeeus/Venus.py': st_module()})
    variants = st_variants()
    bad = 0
    for name, expect, sources in variants:
        if sources['pymeeus/Venus.py'] == st_module() and 'pymeeus/Other.py' not in sources:
            print('FAIL %-75s the variant is textually the base (replace did not apply)' % name)
            bad += 1
            continue
        try:
            res, why = ('same' if st_render(sources) == base else 'differs'), ''
        except Reject as e:
            res, why = 'rejected', str(e)
        ok = (res == 'same') if expect == 'same' else (res in ('differs', 'rejected'))
        bad += 0 if ok else 1
        print('%-4s %-75s %s%s' % ('ok' if ok else 'FAIL', name, res, (' - ' + why[:120]) if why else ''))
    print('gen_finders --selftest: %d variant(s), %d failure(s)' % (len(variants), bad))
    return 1 if bad else 0


if __name__ == '__main__':
    try:
        if '--selftest' in sys.argv[1:]:
            sys.exit(selftest())
        main()
    except Reject as e:
        sys.stderr.write('gen_finders: REJECTED %s\n' % e)
        sys.exit(1)
