#!/usr/bin/env python3
"""Translator for the planetary event finders (property C13).

Reads pymeeus/{Mercury,Venus,Earth,Mars,Jupiter,Saturn,Uranus,Neptune}.py of the repository
($VERIF_REPO, default /repo) with Python's `ast` (stdlib only) and writes

  lean/Pymeeus/Gen/FinderData.lean   one data record per finder (constants as exact decimals, the
                                     `corr`/`elon`/`jde` right-hand sides as expression trees)
  lean/Pymeeus/Gen/FinderDispatch.lean  the driver dispatch  "<Planet>.<finder>" -> record

Files are rewritten only when their text changes.  The meaning of the records is given by the
single hand-written evaluator lean/templates/Finders.lean (instantiated at Real and at Float).

The translator recognises exactly the statement shapes listed in PAT_* below.  Anything else -
an extra statement, another operator, a literal where a name is expected, a finder-like method
it does not know - makes it exit non-zero with the function name and source line.  It never
guesses: every number that ends up in a record is the text of a literal of the current source.
"""
import ast
import os
import re
import sys

HERE = os.path.dirname(os.path.abspath(__file__))
REPO = os.environ.get('VERIF_REPO', '/repo')
LEAN = os.environ.get('VERIF_LEAN_DIR') or os.path.join(HERE, '..', 'lean')

MODULES = ['Mercury', 'Venus', 'Earth', 'Mars', 'Jupiter', 'Saturn', 'Uranus', 'Neptune']
CH36 = ['inferior_conjunction', 'superior_conjunction', 'conjunction', 'opposition',
        'western_elongation', 'eastern_elongation', 'station_longitude_1', 'station_longitude_2']
ELONG = ['western_elongation', 'eastern_elongation']


_SEG_CACHE = {}


def _fast_segment(source, node):
    """ast.get_source_segment without re-splitting the whole file on every call (that is quadratic)."""
    key = id(source)
    ent = _SEG_CACHE.get(key)
    if ent is None or ent[0] is not source:
        ent = (source, ast._splitlines_no_ff(source))
        _SEG_CACHE[key] = ent
    lines = ent[1]
    try:
        l0, l1, c0, c1 = node.lineno - 1, node.end_lineno - 1, node.col_offset, node.end_col_offset
    except AttributeError:
        return None
    if l0 == l1:
        return lines[l0].encode()[c0:c1].decode()
    first = lines[l0].encode()[c0:].decode()
    last = lines[l1].encode()[:c1].decode()
    return ''.join([first] + lines[l0 + 1:l1] + [last])



class Reject(Exception):
    pass


def fail(ctx, node, msg):
    line = getattr(node, 'lineno', '?')
    raise Reject('%s (%s:%s): %s' % (ctx['fn'], ctx['file'], line, msg))


# ------------------------------------------------------------------ literals
def dec_of_text(txt):
    """'0.00003' -> (3, 5); '2451612.023' -> (2451612023, 3); '1e-5' -> (1, 5); '24' -> (24, 0)."""
    m = re.fullmatch(r'(\d*)(?:\.(\d*))?(?:[eE]([+-]?\d+))?', txt.replace('_', ''))
    if not m or (not m.group(1) and not m.group(2)):
        return None
    ip, fp, ex = m.group(1) or '', m.group(2) or '', int(m.group(3) or 0)
    mant = int((ip + fp) or '0')
    e = len(fp) - ex
    if e < 0:
        mant *= 10 ** (-e)
        e = 0
    return (mant, e)


def literal(ctx, node):
    """A (possibly negated) numeric literal -> (mantissa, exponent) from the *source text*; else None."""
    neg = False
    if isinstance(node, ast.UnaryOp) and isinstance(node.op, ast.USub):
        neg = True
        node = node.operand
    if not (isinstance(node, ast.Constant) and type(node.value) in (int, float)):
        return None
    txt = _fast_segment(ctx['src'], node)
    d = dec_of_text(txt or '')
    if d is None:
        fail(ctx, node, 'numeric literal %r not understood' % txt)
    # cross-check against the value Python parsed
    if abs(d[0] / 10 ** d[1] - node.value) > 1e-12 * max(1.0, abs(node.value)):
        fail(ctx, node, 'literal text %r does not match its value %r' % (txt, node.value))
    return (-d[0] if neg else d[0], d[1])


def lean_dec(d):
    return '⟨%d, %d⟩' % d


# ------------------------------------------------------------------ structural matching
def match(pat, node, caps, ctx):
    """Does `node` have the shape of `pat`?  Names `_L<n>` of the pattern capture a literal,
    `_E<n>` any expression, `_X` the class name of the planet."""
    if isinstance(pat, ast.Name):
        if pat.id.startswith('_L'):
            lit = literal(ctx, node)
            if lit is None:
                return False
            if pat.id in caps and caps[pat.id] != lit:
                return False
            caps[pat.id] = lit
            return True
        if pat.id.startswith('_E'):
            caps[pat.id] = node
            return True
        if pat.id == '_X':
            return isinstance(node, ast.Name) and node.id == ctx['cls']
    if type(pat) is not type(node):
        return False
    for f in pat._fields:
        if f in ('ctx', 'type_comment', 'kind'):
            continue
        a, b = getattr(pat, f, None), getattr(node, f, None)
        if isinstance(a, list):
            if not isinstance(b, list) or len(a) != len(b):
                return False
            for x, y in zip(a, b):
                if isinstance(x, ast.AST):
                    if not match(x, y, caps, ctx):
                        return False
                elif x != y:
                    return False
        elif isinstance(a, ast.AST):
            if not isinstance(b, ast.AST) or not match(a, b, caps, ctx):
                return False
        elif a != b:
            return False
    return True


def P(text):
    return ast.parse(text).body[0]


def is_raise(stmt, exc):
    return (isinstance(stmt, ast.Raise) and isinstance(stmt.exc, ast.Call)
            and isinstance(stmt.exc.func, ast.Name) and stmt.exc.func.id == exc)


class Body:
    """Cursor over the statements of a function body."""

    def __init__(self, ctx, stmts):
        self.ctx, self.stmts, self.i = ctx, stmts, 0

    def peek(self):
        return self.stmts[self.i] if self.i < len(self.stmts) else None

    def expect(self, pat_text, caps=None, what=None):
        caps = {} if caps is None else caps
        st = self.peek()
        if st is None:
            fail(self.ctx, self.stmts[-1], 'function ends where `%s` was expected' % pat_text)
        if not match(P(pat_text), st, caps, self.ctx):
            fail(self.ctx, st, 'statement `%s` does not have the shape `%s`' % (ast.unparse(st)[:80], pat_text))
        self.i += 1
        return caps

    def try_(self, pat_text, caps=None):
        caps = {} if caps is None else caps
        st = self.peek()
        if st is not None and match(P(pat_text), st, caps, self.ctx):
            self.i += 1
            return caps
        return None

    def type_guard(self):
        st = self.peek()
        ok = (isinstance(st, ast.If) and not st.orelse and len(st.body) == 1 and is_raise(st.body[0], 'TypeError')
              and ast.unparse(st.test) == 'not isinstance(epoch, Epoch)')
        if not ok:
            fail(self.ctx, st, 'expected `if not isinstance(epoch, Epoch): raise TypeError(...)`')
        self.i += 1

    def done(self):
        if self.i != len(self.stmts):
            fail(self.ctx, self.stmts[self.i], 'unexpected extra statement `%s`' % ast.unparse(self.stmts[self.i])[:80])


# ------------------------------------------------------------------ expression trees
def trig_arg(ctx, node, var_m, auxnames):
    if var_m and isinstance(node, ast.Name) and node.id == 'm':
        return '.m'
    if var_m and isinstance(node, ast.BinOp) and isinstance(node.op, ast.Mult) \
            and isinstance(node.right, ast.Name) and node.right.id == 'm':
        j = literal(ctx, node.left)
        if j is not None:
            return '(.jm %s)' % lean_dec(j)
    if isinstance(node, ast.Name) and node.id in auxnames:
        return '(.aux %d)' % auxnames.index(node.id)
    # Earth: sin(a1.rad())
    if isinstance(node, ast.Call) and not node.args and not node.keywords and isinstance(node.func, ast.Attribute) \
            and node.func.attr == 'rad' and isinstance(node.func.value, ast.Name) and node.func.value.id in auxnames:
        return '(.aux %d)' % auxnames.index(node.func.value.id)
    fail(ctx, node, 'argument of sin/cos not recognised: `%s`' % ast.unparse(node))


def fexpr(ctx, node, var, var_m, auxnames):
    lit = literal(ctx, node)
    if lit is not None:
        return '(.lit %s)' % lean_dec(lit)
    if isinstance(node, ast.Name) and node.id == var:
        return '.x'
    if isinstance(node, ast.UnaryOp) and isinstance(node.op, ast.USub):
        return '(.neg %s)' % fexpr(ctx, node.operand, var, var_m, auxnames)
    if isinstance(node, ast.BinOp) and type(node.op) in (ast.Add, ast.Sub, ast.Mult):
        c = {ast.Add: 'add', ast.Sub: 'sub', ast.Mult: 'mul'}[type(node.op)]
        return '(.%s %s %s)' % (c, fexpr(ctx, node.left, var, var_m, auxnames), fexpr(ctx, node.right, var, var_m, auxnames))
    if isinstance(node, ast.Call) and isinstance(node.func, ast.Name) and node.func.id in ('sin', 'cos') \
            and len(node.args) == 1 and not node.keywords:
        return '(.%s %s)' % (node.func.id, trig_arg(ctx, node.args[0], var_m, auxnames))
    fail(ctx, node, 'expression not in the accepted subset (literals, %s, + - *, sin/cos of m, j*m or an auxiliary angle): `%s`'
         % (var, ast.unparse(node)[:80]))


# ------------------------------------------------------------------ the three kinds of finder
def body_of(fn):
    stmts = list(fn.body)
    if stmts and isinstance(stmts[0], ast.Expr) and isinstance(stmts[0].value, ast.Constant) \
            and isinstance(stmts[0].value.value, str):
        stmts = stmts[1:]
    return stmts


def check_args(ctx, fn, names, defaults):
    a = fn.args
    got = [x.arg for x in a.args]
    dfl = [ast.unparse(d) for d in a.defaults]
    if got != names or dfl != defaults or a.vararg or a.kwarg or a.kwonlyargs or a.posonlyargs:
        fail(ctx, fn, 'signature (%s; defaults %s) is not (%s; %s)' % (got, dfl, names, defaults))
    if [ast.unparse(d) for d in fn.decorator_list] != ['staticmethod']:
        fail(ctx, fn, 'expected exactly the decorator @staticmethod')


def translate_ch36(ctx, fn):
    check_args(ctx, fn, ['epoch'], [])
    b = Body(ctx, body_of(fn))
    b.type_guard()
    b.expect('y = epoch.year()')
    st = b.peek()
    caps = {}
    ok = (isinstance(st, ast.If) and not st.orelse and len(st.body) == 1 and is_raise(st.body[0], 'ValueError')
          and match(P('y < _L1 or y > _L2').value, st.test, caps, ctx))
    if not ok:
        fail(ctx, st, 'expected `if y < <lit> or y > <lit>: raise ValueError(...)`')
    b.i += 1
    rec = {'ylo': caps['_L1'], 'yhi': caps['_L2']}
    rec['A'] = b.expect('a = _L1')['_L1']
    rec['B'] = b.expect('b = _L1')['_L1']
    rec['M0'] = b.expect('m0 = _L1')['_L1']
    rec['M1'] = b.expect('m1 = _L1')['_L1']
    c = b.expect('k = round((_L1 * y + _L2 - a) / b)')
    rec['yc'], rec['y0'] = c['_L1'], c['_L2']
    b.expect('jde0 = a + k * b')
    b.expect('m = m0 + k * m1')
    b.expect('m = Angle(m).to_positive()')
    b.expect('m = m.rad()')
    c = b.expect('t = (jde0 - _L1) / _L2')
    rec['tj'], rec['tc'] = c['_L1'], c['_L2']
    # auxiliary angles: all `X = c0 + c1 * t` first, then all `X = Angle(X).rad()` in the same order
    auxnames, aux = [], []
    while True:
        st = b.peek()
        if not (isinstance(st, ast.Assign) and len(st.targets) == 1 and isinstance(st.targets[0], ast.Name)):
            break
        name = st.targets[0].id
        if name in ('corr', 'elon', 'to_return') or name in auxnames:
            break
        c = {}
        if not match(P('_ = _L1 + _L2 * t').value, st.value, c, ctx):
            fail(ctx, st, 'auxiliary angle `%s` is not `<lit> + <lit> * t`' % ast.unparse(st)[:80])
        if name in ('a', 'b', 'm', 'm0', 'm1', 'k', 't', 'y', 'jde0', 'epoch'):
            fail(ctx, st, 'auxiliary angle reuses the name %s' % name)
        auxnames.append(name)
        aux.append((c['_L1'], c['_L2']))
        b.i += 1
    for name in auxnames:
        b.expect('%s = Angle(%s).rad()' % (name, name))
    rec['aux'] = aux
    c = b.expect('corr = _E1')
    rec['corr'] = fexpr(ctx, c['_E1'], 't', True, auxnames)
    rec['elon'] = None
    if b.try_('elon = Angle(elon).to_positive()') is not None:
        fail(ctx, fn, 'elon converted before it is computed')
    c = b.try_('elon = _E1')
    if c is not None:
        rec['elon'] = fexpr(ctx, c['_E1'], 't', True, auxnames)
        b.expect('elon = Angle(elon).to_positive()')
    b.expect('to_return = jde0 + corr')
    if rec['elon'] is None:
        b.expect('return Epoch(to_return)')
    else:
        b.expect('return (Epoch(to_return), elon)')
    b.done()
    if (rec['elon'] is not None) != (ctx['meth'] in ELONG):
        fail(ctx, fn, 'only the elongation finders return an angle')
    return rec


def translate_pa(ctx, fn):
    check_args(ctx, fn, ['epoch', 'perihelion'], ['True'])
    b = Body(ctx, body_of(fn))
    b.type_guard()
    c = b.expect('k = _L1 * (epoch.year() - _L2)')
    rec = {'C': c['_L1'], 'Y0': c['_L2']}
    st = b.peek()
    caps = {}
    ok = (isinstance(st, ast.If) and ast.unparse(st.test) == 'perihelion' and len(st.body) == 1 and len(st.orelse) == 1
          and match(P('k = round(k)'), st.body[0], {}, ctx)
          and match(P('k = round(k + _L1) - _L1'), st.orelse[0], caps, ctx))
    if not ok:
        fail(ctx, st, 'expected `if perihelion: k = round(k) else: k = round(k + h) - h`')
    rec['half'] = caps['_L1']
    b.i += 1
    c = b.try_('jde = _L1 + k * _L2')
    if c is not None:
        rec['J0'], rec['P'], rec['Q'] = c['_L1'], c['_L2'], (0, 0)
    else:
        c = b.try_('jde = _L1 + k * (_L2 + k * _L3)')
        if c is not None:
            rec['J0'], rec['P'], rec['Q'] = c['_L1'], c['_L2'], c['_L3']
        else:
            c = b.expect('jde = _L1 + k * (_L2 - k * _L3)')
            rec['J0'], rec['P'], rec['Q'] = c['_L1'], c['_L2'], (-c['_L3'][0], c['_L3'][1])
    # Earth only: periodic terms
    auxnames, aux = [], []
    while True:
        st = b.peek()
        c = {}
        if isinstance(st, ast.Assign) and len(st.targets) == 1 and isinstance(st.targets[0], ast.Name) \
                and match(P('_ = Angle(_L1 + _L2 * k)').value, st.value, c, ctx):
            name = st.targets[0].id
            if name in auxnames or name in ('k', 'jde', 'epoch', 'perihelion', 'corr'):
                fail(ctx, st, 'auxiliary angle reuses the name %s' % name)
            auxnames.append(name)
            aux.append((c['_L1'], c['_L2']))
            b.i += 1
        else:
            break
    rec['aux'] = aux
    rec['corrPeri'] = rec['corrAph'] = None
    st = b.peek()
    if isinstance(st, ast.If) and ast.unparse(st.test) == 'perihelion':
        c1, c2 = {}, {}
        if not (len(st.body) == 1 and len(st.orelse) == 1 and match(P('corr = _E1'), st.body[0], c1, ctx)
                and match(P('corr = _E1'), st.orelse[0], c2, ctx)):
            fail(ctx, st, 'expected `if perihelion: corr = ... else: corr = ...`')
        rec['corrPeri'] = fexpr(ctx, c1['_E1'], 'k', False, auxnames)
        rec['corrAph'] = fexpr(ctx, c2['_E1'], 'k', False, auxnames)
        b.i += 1
        b.expect('jde += corr')
    elif aux:
        fail(ctx, st, 'auxiliary angles without a correction')
    d = b.expect('jde_before = jde - _L1')
    b.expect('jde_after = jde + _L1', d)
    rec['delta'] = d['_L1']
    b.expect('l, b, r_b = _X.geometric_heliocentric_position(Epoch(jde_before))')
    b.expect('l, b, r = _X.geometric_heliocentric_position(Epoch(jde))')
    b.expect('l, b, r_a = _X.geometric_heliocentric_position(Epoch(jde_after))')
    b.expect('m = Interpolation([jde_before, jde, jde_after], [r_b, r, r_a])')
    b.expect('sol = m.minmax()')
    b.expect('return Epoch(sol)')
    b.done()
    return rec


def translate_nodes(ctx, fn):
    check_args(ctx, fn, ['epoch', 'ascending'], ['True'])
    b = Body(ctx, body_of(fn))
    b.type_guard()
    b.expect('l, a, e, i, ome, arg = _X.orbital_elements_mean_equinox(epoch)')
    b.expect('t = _X.perihelion_aphelion(epoch)')
    b.expect('time, r = passage_nodes_elliptic(arg, e, a, t, ascending)')
    b.expect('return (time, r)')
    b.done()
    return {}


# ------------------------------------------------------------------ driver
def lean_opt(x):
    return 'none' if x is None else '(some %s)' % x


def lean_aux(aux):
    return '[' + ', '.join('(%s, %s)' % (lean_dec(a), lean_dec(b)) for a, b in aux) + ']'


def ident(name):
    return name.replace('.', '_')


def write_if_changed(path, text):
    os.makedirs(os.path.dirname(path), exist_ok=True)
    if not os.path.exists(path) or open(path).read() != text:
        open(path, 'w').write(text)
        return 1
    return 0


def main():
    ch36, pa, nodes = [], [], []
    for mod in MODULES:
        rel = 'pymeeus/%s.py' % mod
        path = os.path.join(REPO, rel)
        src = open(path).read()
        tree = ast.parse(src)
        classes = [n for n in tree.body if isinstance(n, ast.ClassDef) and n.name == mod]
        if len(classes) != 1:
            raise Reject('%s: expected exactly one class %s' % (rel, mod))
        seen = set()
        for fn in classes[0].body:
            if not isinstance(fn, ast.FunctionDef):
                continue
            ctx = {'fn': '%s.%s' % (mod, fn.name), 'file': rel, 'src': src, 'cls': mod, 'meth': fn.name}
            if fn.name in seen:
                fail(ctx, fn, 'method defined twice')
            seen.add(fn.name)
            fsrc = _fast_segment(src, fn)
            code_only = '\n'.join(ast.unparse(s) for s in body_of(fn))
            if fn.name in CH36:
                ch36.append((ctx['fn'], translate_ch36(ctx, fn)))
            elif fn.name == 'perihelion_aphelion':
                pa.append((ctx['fn'], translate_pa(ctx, fn)))
            elif fn.name == 'passage_nodes':
                translate_nodes(ctx, fn)
                nodes.append(ctx['fn'])
            elif re.search(r'\.year\(\)|\bround\(\(', code_only) or 'passage_nodes_elliptic' in code_only:
                fail(ctx, fn, 'looks like an event finder (uses .year() / round((...)) / passage_nodes_elliptic) '
                              'but is not one of the known finder names')
            del fsrc
    if not ch36 or not pa or not nodes:
        raise Reject('no finders found under %s' % REPO)

    out = ['-- GENERATED by tools/gen_finders.py from %s; do not edit.' % ', '.join('pymeeus/%s.py' % m for m in MODULES),
           'import Pymeeus.Lemmas.FinderTypes', 'namespace Pymeeus.Finders.Data', 'open Pymeeus.Finders', '']
    for name, r in ch36:
        out.append('def %s : Finder :=' % ident(name))
        out.append('  { name := "%s", ylo := %s, yhi := %s, yc := %s, y0 := %s,' % (
            name, lean_dec(r['ylo']), lean_dec(r['yhi']), lean_dec(r['yc']), lean_dec(r['y0'])))
        out.append('    A := %s, B := %s, M0 := %s, M1 := %s, tj := %s, tc := %s,' % (
            lean_dec(r['A']), lean_dec(r['B']), lean_dec(r['M0']), lean_dec(r['M1']), lean_dec(r['tj']), lean_dec(r['tc'])))
        out.append('    aux := %s,' % lean_aux(r['aux']))
        out.append('    corr := %s,' % r['corr'])
        out.append('    elon := %s }' % lean_opt(r['elon']))
        out.append('')
    for name, r in pa:
        out.append('def %s : PAFinder :=' % ident(name))
        out.append('  { name := "%s", C := %s, Y0 := %s, half := %s, J0 := %s, P := %s, Q := %s,' % (
            name, lean_dec(r['C']), lean_dec(r['Y0']), lean_dec(r['half']), lean_dec(r['J0']), lean_dec(r['P']), lean_dec(r['Q'])))
        out.append('    aux := %s,' % lean_aux(r['aux']))
        out.append('    corrPeri := %s,' % lean_opt(r['corrPeri']))
        out.append('    corrAph := %s,' % lean_opt(r['corrAph']))
        out.append('    delta := %s }' % lean_dec(r['delta']))
        out.append('')
    out.append('/-- Every Meeus ch. 36 finder of the source (%d). -/' % len(ch36))
    out.append('def generatedFinders : List Finder :=\n  [' + ',\n   '.join(ident(n) for n, _ in ch36) + ']')
    out.append('')
    out.append('/-- Every `perihelion_aphelion` of the source (%d). -/' % len(pa))
    out.append('def generatedPA : List PAFinder :=\n  [' + ', '.join(ident(n) for n, _ in pa) + ']')
    out.append('')
    out.append('/-- Every `passage_nodes` of the source (%d); all have the shape' % len(nodes))
    out.append('    `passage_nodes_elliptic(arg, e, a, <Planet>.perihelion_aphelion(epoch), ascending)` with the mean elements of `epoch`. -/')
    out.append('def generatedNodePassages : List String :=\n  [' + ', '.join('"%s"' % n for n in nodes) + ']')
    out.append('')
    out.append('end Pymeeus.Finders.Data')
    n = write_if_changed(os.path.join(LEAN, 'Pymeeus', 'Gen', 'FinderData.lean'), '\n'.join(out) + '\n')

    drv = ['-- GENERATED by tools/gen_finders.py; do not edit.',
           'import Pymeeus.Gen.FinderData', 'namespace Driver', 'open Pymeeus.Finders',
           '/-- "<Planet>.<finder>" -> generated record of a Meeus ch. 36 finder. -/',
           'def finderRecord : String → Option Finder']
    for name, _ in ch36:
        drv.append('  | "%s" => some Data.%s' % (name, ident(name)))
    drv.append('  | _ => none')
    drv.append('/-- "<Planet>.perihelion_aphelion" -> generated record. -/')
    drv.append('def paRecord : String → Option PAFinder')
    for name, _ in pa:
        drv.append('  | "%s" => some Data.%s' % (name, ident(name)))
    drv.append('  | _ => none')
    drv.append('end Driver')
    n += write_if_changed(os.path.join(LEAN, 'Pymeeus', 'Gen', 'FinderDispatch.lean'), '\n'.join(drv) + '\n')
    print('gen_finders: %d periodic-term finders, %d perihelion_aphelion, %d passage_nodes; %d file(s) rewritten'
          % (len(ch36), len(pa), len(nodes), n))


if __name__ == '__main__':
    try:
        main()
    except Reject as e:
        sys.stderr.write('gen_finders: REJECTED %s\n' % e)
        sys.exit(1)
